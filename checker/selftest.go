package main

import (
	"bytes"
	"encoding/json"
	"fmt"
	"io"
	"os"
	"os/exec"
	"path/filepath"
	"sort"
	"strings"
	"sync"
)

// Checker self-validation (thorough tier): every diff under /verif/mutants is
// applied to a scratch copy of the *current* source tree and analysed by this
// same binary (one process per variant). A must-fire variant has to produce a
// violation of the named rule; a must-stay-silent variant (behaviour-preserving
// refactor) none. A failure here means the checker is broken, not /repo.

type selfTestResult struct {
	Ran     int      `json:"ran"`
	Failed  int      `json:"failed"`
	Skipped int      `json:"skipped"`
	Details []string `json:"details"`
}

type mutant struct {
	Name, Property, Expect, Rule, What, Path string
}

func listMutants(property string) []mutant {
	dir := filepath.Join(verifDir(), "mutants")
	ents, _ := os.ReadDir(dir)
	var out []mutant
	for _, e := range ents {
		if !strings.HasSuffix(e.Name(), ".diff") {
			continue
		}
		m := mutant{Path: filepath.Join(dir, e.Name())}
		b, err := os.ReadFile(m.Path)
		if err != nil {
			continue
		}
		for _, l := range strings.Split(string(b), "\n") {
			if !strings.HasPrefix(l, "# ") {
				break
			}
			kv := strings.SplitN(strings.TrimPrefix(l, "# "), ": ", 2)
			if len(kv) != 2 {
				continue
			}
			switch kv[0] {
			case "mutant":
				m.Name = kv[1]
			case "property":
				m.Property = kv[1]
			case "expect":
				m.Expect = kv[1]
			case "rule":
				m.Rule = kv[1]
			case "what":
				m.What = kv[1]
			}
		}
		if property == "" || m.Property == property {
			out = append(out, m)
		}
	}
	// confirmed sub-agent mutations that a check is known to catch (seeded/<id>/caught.json,
	// written by tools/run_seeded.py) are part of the corpus as must-fire variants
	sdirs, _ := os.ReadDir(filepath.Join(verifDir(), "seeded"))
	for _, e := range sdirs {
		if !e.IsDir() {
			continue
		}
		b, err := os.ReadFile(filepath.Join(verifDir(), "seeded", e.Name(), "caught.json"))
		if err != nil {
			continue
		}
		var cj struct {
			Property string   `json:"property"`
			Rules    []string `json:"rules"`
		}
		if json.Unmarshal(b, &cj) != nil || len(cj.Rules) == 0 {
			continue
		}
		if property == "" || cj.Property == property {
			out = append(out, mutant{Name: "seeded_" + e.Name(), Property: cj.Property, Expect: "fire", Rule: cj.Rules[0], What: "independent sub-agent mutation", Path: filepath.Join(verifDir(), "seeded", e.Name(), "patch.diff")})
		}
	}
	// behaviour-preserving refactorings written by independent agents: the property's check must stay
	// silent on every one of them (a routine helper extraction or inlining is not a violation)
	if property != "" {
		rdirs, _ := os.ReadDir(filepath.Join(verifDir(), "refactors"))
		for _, e := range rdirs {
			pf := filepath.Join(verifDir(), "refactors", e.Name(), "patch.diff")
			if _, err := os.Stat(pf); err != nil {
				continue
			}
			out = append(out, mutant{Name: "refactor_" + e.Name(), Property: property, Expect: "silent-own", What: "behaviour-preserving refactoring by an independent agent", Path: pf})
		}
	}
	sort.Slice(out, func(i, j int) bool { return out[i].Name < out[j].Name })
	return out
}

func copyTree(src, dst string) error {
	return filepath.Walk(src, func(path string, info os.FileInfo, err error) error {
		if err != nil {
			return err
		}
		rel, _ := filepath.Rel(src, path)
		if info.IsDir() {
			if info.Name() == ".git" || info.Name() == ".github" {
				return filepath.SkipDir
			}
			return os.MkdirAll(filepath.Join(dst, rel), 0o755)
		}
		if !info.Mode().IsRegular() {
			return nil
		}
		if !(strings.HasSuffix(rel, ".go") || rel == "go.mod" || rel == "go.sum") || strings.HasSuffix(rel, "_test.go") {
			return nil
		}
		in, err := os.Open(path)
		if err != nil {
			return err
		}
		defer in.Close()
		out, err := os.Create(filepath.Join(dst, rel))
		if err != nil {
			return err
		}
		defer out.Close()
		_, err = io.Copy(out, in)
		return err
	})
}

func runSelfTest(repo, property string) selfTestResult {
	res := selfTestResult{}
	muts := listMutants(property)
	// generated variant: the whole tree with every unexported identifier renamed (names must not matter)
	muts = append(muts, mutant{Name: "auto_rename_all_unexported", Property: property, Expect: "silent-own", Rule: "", What: "every unexported identifier of the module renamed", Path: "@rename"})
	exe, err := os.Executable()
	if err != nil {
		res.Failed++
		res.Details = append(res.Details, "cannot locate own executable: "+err.Error())
		return res
	}
	var mu sync.Mutex
	sem := make(chan struct{}, 8)
	var wg sync.WaitGroup
	for _, m := range muts {
		m := m
		wg.Add(1)
		sem <- struct{}{}
		go func() {
			defer wg.Done()
			defer func() { <-sem }()
			status, detail := runMutant(exe, repo, m)
			mu.Lock()
			defer mu.Unlock()
			switch status {
			case "ok":
				res.Ran++
			case "skipped":
				res.Skipped++
			default:
				res.Ran++
				res.Failed++
			}
			res.Details = append(res.Details, fmt.Sprintf("%s [%s %s %s]: %s %s", m.Name, m.Property, m.Expect, m.Rule, status, detail))
		}()
	}
	wg.Wait()
	sort.Strings(res.Details)
	return res
}

func runMutant(exe, repo string, m mutant) (status, detail string) {
	tmp, err := os.MkdirTemp("", "jrpcheck-mut-")
	if err != nil {
		return "failed", err.Error()
	}
	defer os.RemoveAll(tmp)
	if err := copyTree(repo, tmp); err != nil {
		return "failed", "copy: " + err.Error()
	}
	if m.Path == "@rename" {
		rn := exec.Command(exe, "-repo", repo, "-rename-to", tmp)
		rn.Env = append(os.Environ(), "VERIF_DIR="+verifDir())
		if out, err := rn.CombinedOutput(); err != nil {
			return "failed", "renaming failed: " + strings.TrimSpace(string(out))
		}
	} else {
		diff, _ := os.ReadFile(m.Path)
		cmd := exec.Command("patch", "-p1", "-s", "--no-backup-if-mismatch", "-d", tmp)
		cmd.Stdin = bytes.NewReader(diff)
		if out, err := cmd.CombinedOutput(); err != nil {
			return "skipped", "diff does not apply to the current tree: " + strings.TrimSpace(string(out))
		}
	}
	prop := m.Property
	if m.Expect == "silent" {
		prop = "all" // a behaviour-preserving variant must not trip any check
	}
	c2 := exec.Command(exe, "-repo", tmp, "-property", prop, "-no-evidence", "-json")
	c2.Env = append(os.Environ(), "VERIF_DIR="+verifDir())
	out, _ := c2.Output()
	// last line is the JSON array
	lines := strings.Split(strings.TrimSpace(string(out)), "\n")
	var obls []Obligation
	if len(lines) == 0 || json.Unmarshal([]byte(lines[len(lines)-1]), &obls) != nil {
		if strings.Contains(string(out), "CHECKER-ERROR") {
			return "skipped", "mutated tree does not type-check: " + firstLine(string(out))
		}
		return "failed", "no obligations from analysis: " + firstLine(string(out))
	}
	var fired []string
	named := false
	for _, o := range obls {
		if o.Status != Discharged {
			fired = append(fired, o.Property+"/"+o.Rule+"@"+o.Construct)
			if m.Rule == "" || o.Rule == m.Rule || strings.HasPrefix(o.Rule, m.Rule) {
				named = true
			}
		}
	}
	switch m.Expect {
	case "fire":
		if named {
			return "ok", "fired: " + strings.Join(fired, "; ")
		}
		if len(fired) > 0 {
			return "failed", "fired only other rules: " + strings.Join(fired, "; ")
		}
		return "failed", "no violation reported"
	case "silent", "silent-own":
		if len(fired) == 0 {
			return "ok", "silent"
		}
		return "failed", "false alarm: " + strings.Join(fired, "; ")
	}
	return "failed", "bad expect field"
}

func firstLine(s string) string {
	s = strings.TrimSpace(s)
	if i := strings.Index(s, "\n"); i >= 0 {
		return s[:i]
	}
	return s
}
