package main

type selfTestResult struct {
	Ran     int      `json:"ran"`
	Failed  int      `json:"failed"`
	Skipped int      `json:"skipped"`
	Details []string `json:"details"`
}

func runSelfTest(repo, property string) selfTestResult { return selfTestResult{} }
