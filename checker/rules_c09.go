package main

import (
	"fmt"
	"go/token"
	"go/types"
	"os"
	"strings"

	"golang.org/x/tools/go/ssa"
)

func init() {
	register(&propInfo{
		ID:          "C09",
		Explanation: "Path analysis of the server's reply-producing code: (R09.1) the response encoder inserts \"jsonrpc\" and \"id\" on every path and exactly one of \"error\" (iff the error field is non-nil) and \"result\"; (R09.2) every response literal carries the constant version \"2.0\" and an id read from the request being answered; (R09.3) in the dispatcher every path of an id-bearing request emits at least one reply and no reply is ever followed by another one (a successful channel registration counts as the reply; the notification return after the user call emits none); (R09.4) no error reply is followed by the user call (dispatcher) or by dispatching the same request (reader); (R09.5) the protocol error codes at the method-lookup failure, arity mismatch, empty request/batch and envelope-decode failure sites are -32601, -32602, -32600 and -32700; (R09.6) batch framing: the array brackets and separators are produced by one framing provider that writes '[' for the first and ',' for every later element that actually produces output, every emitter inside the batch loop is given that provider, the closing bracket is written exactly when something was emitted, and the loop never aborts the array; (R09.7) over WebSocket a request without id is given a discarding, non-nil writer and an id-bearing one the locked message writer. (R09.1 also) the id member written by the encoder is the response's id field itself, never a converted value; (R09.11) every use of a message writer is json.NewEncoder, or a Write of a constant, of a json.Marshal result or of a writer wrapper's own parameter. (R09.12) the frame executor never blocks on something only a finishing handler releases; (R09.13) the id normaliser returns nil next to every error; (R09.14) a callback handed to a writer provider writes on every path. (R09.6d) all replies of a batch are produced in one loop over its elements; (R09.15) every read of the method table in the dispatcher is a comma-ok lookup. (R09.16) no request decode is reachable after a synchronous dispatch. (R09.17) the decoded batch is only measured and read before dispatch. (R09.18) nothing on the receiving side stores into the method member of a received request. (R09.19) every call frame reaches the dispatcher. (R09.20) the error-reply function invokes its writer provider on every path.",
		NotDecided:  "HTTP status codes, arbitrary body bytes and value encodings (encoding/json), a notification that fails before the user call still being answered with an id:null error (existing behaviour, outside the decided clauses).",
		Assumptions: []string{"reply emitters are: calls of a value of the error-reply function type, the lazy-writer helper, and the channel registrar"},
		Run:         runC09,
	})
}

// chanRegistrarCall: call of a parameter whose signature is (reflect.Value, interface{}) error.
func (c *Ctx) isChanRegistrarCall(in ssa.Instruction) bool {
	ci, ok := in.(*ssa.Call)
	if !ok || ci.Common().IsInvoke() {
		return false
	}
	// a function value handed to the dispatcher: a parameter, or a field of a parameter struct that
	// groups the reply sinks (never a static callee)
	if staticCallee(ci) != nil {
		return false
	}
	fromParam := false
	switch x := ci.Common().Value.(type) {
	case *ssa.Parameter:
		fromParam = true
	default:
		fromParam = c.allOrigins(x, func(a apath) bool { _, isP := a.Root.(*ssa.Parameter); return isP })
	}
	if !fromParam {
		return false
	}
	sig, ok := ci.Common().Value.Type().Underlying().(*types.Signature)
	if !ok || sig.Params().Len() != 2 || sig.Results().Len() != 1 {
		return false
	}
	return isNamed(sig.Params().At(0).Type(), "reflect", "Value") && isErrorType(sig.Results().At(0).Type())
}

func (c *Ctx) isUserCall(in ssa.Instruction) bool {
	ci, ok := in.(ssa.CallInstruction)
	if !ok {
		return false
	}
	f := staticCallee(ci)
	for _, u := range c.R.FnUser {
		if f == u {
			return true
		}
	}
	n := calleeName(ci)
	return n == "(reflect.Value).Call" || n == "(reflect.Value).CallSlice"
}

// loopHeaders: blocks that are targets of back edges.
func loopHeaders(fn *ssa.Function) map[*ssa.BasicBlock]bool {
	out := map[*ssa.BasicBlock]bool{}
	for _, b := range fn.Blocks {
		for _, p := range b.Preds {
			if b.Dominates(p) {
				out[b] = true
			}
		}
	}
	return out
}

// phiWriteArgs: the call writes a token chosen among constants by preceding branches
// (a phi of constant strings): each alternative with the conditions on its incoming edge.
type writeAlt struct {
	s     string
	conds []condFact
}

func phiWriteArgs(ci ssa.CallInstruction) []writeAlt {
	c := ci.Common()
	if !(c.IsInvoke() && (c.Method.Name() == "Write" || c.Method.Name() == "WriteString")) && calleeName(ci) != "io.WriteString" {
		return nil
	}
	for _, a := range c.Args {
		v := a
		if cv, ok := v.(*ssa.Convert); ok {
			v = cv.X
		}
		ph, ok := v.(*ssa.Phi)
		if !ok {
			continue
		}
		var out []writeAlt
		for i, e := range ph.Edges {
			s, ok := constString(e)
			if !ok {
				return nil
			}
			out = append(out, writeAlt{s, edgeConds(ph.Block().Preds[i], ph.Block())})
		}
		return out
	}
	return nil
}

// constBytesArg: the call writes the constant string s (as []byte or string).
func constWriteArg(ci ssa.CallInstruction) (string, bool) {
	c := ci.Common()
	if !(c.IsInvoke() && (c.Method.Name() == "Write" || c.Method.Name() == "WriteString")) && calleeName(ci) != "io.WriteString" {
		return "", false
	}
	for _, a := range c.Args {
		v := a
		if cv, ok := v.(*ssa.Convert); ok {
			v = cv.X
		}
		if s, ok := constString(v); ok {
			return s, true
		}
	}
	return "", false
}

func respFieldByTag(t *types.Named, tag string) *types.Var {
	st := structOf(t)
	if st == nil {
		return nil
	}
	for i := 0; i < st.NumFields(); i++ {
		if strings.Contains(st.Tag(i), `json:"`+tag) {
			return st.Field(i)
		}
	}
	return nil
}

func runC09(c *Ctx) {
	p, r := c.P, c.R
	c.rule("R09.1", "response encoder: jsonrpc and id always, exactly one of error (iff error set) and result")
	c.rule("R09.2", "every response literal has version \"2.0\" and the id of the request being answered")
	c.rule("R09.3", "dispatcher: at least one reply on every id-bearing path, never a reply after a reply")
	c.rule("R09.4", "no error reply is followed by running the handler for that request")
	c.rule("R09.5", "protocol error codes at their sites: -32601 / -32602 / -32600 / -32700")
	c.rule("R09.10", "an empty (also whitespace-only) body is answered, never indexed: body-byte indexes are guarded by a non-empty test of the same buffer")
	c.bodyBytesIndexRule("R09.10")
	c.rule("R09.11", "everything written to a message writer is produced by encoding/json (or is a constant framing byte, or forwarded by a writer wrapper): replies are well-formed JSON for every message text")
	c.writerBytesJSON("R09.11")
	c.rule("R09.13", "an id that fails validation is never echoed: the id normaliser returns nil next to every error (callers answer with the returned id)")
	if c.need("R09.13", "FN_norm", r.FnNorm != nil) {
		n := 0
		allInstrs(r.FnNorm, func(in ssa.Instruction) {
			rt, ok := in.(*ssa.Return)
			if !ok || len(rt.Results) != 2 {
				return
			}
			errv := blockLocalValue(rt.Results[1])
			if isNilConst(errv) {
				return
			}
			n++
			idv := blockLocalValue(rt.Results[0])
			c.check(isNilConst(idv), "R09.13", fmt.Sprintf("%s: id returned with an error", fname(r.FnNorm)), c.ipos(rt), "nil",
				"the normaliser hands the rejected id back next to its error: callers assign the result to the request before answering, so the -32700 reply echoes an invalid id (a bool, array or object) instead of null")
		})
		if n == 0 {
			c.und("R09.13", fname(r.FnNorm)+": failing returns", "-", "no return with an error found")
		}
	}
	c.rule("R09.14", "a callback handed to a message-writer provider writes on every path (the batch framing and the one-reply-per-request count rely on 'invoked means written')")
	c.callbackAlwaysWrites("R09.14")
	c.rule("R09.17", "a batch is answered element by element as it was sent: the decoded list of requests is only measured and read between decoding and dispatch, never handed to something that rearranges it (slices.DeleteFunc / Delete / Compact / Sort*, sort.*, append to it, element stores)")
	c.batchListReadOnly("R09.17")
	c.ruleOpt("R09.18", "an unknown method is answered with -32601 whatever it looks like: nothing on the server stores into the method member of a received request before the lookup")
	c.methodNameUntouched("R09.18")
	c.rule("R09.19", "every request frame is answered: in the executor-side function that starts the dispatcher every path starts it, except where no handler is configured (a frame silently dropped — a duplicate id, a full slot table — gets no response)")
	c.everyCallFrameDispatched("R09.19")
	c.rule("R09.20", "an error reply is always written: every path through the error-reply function invokes the writer provider it was given (whether a request deserves an answer is decided by the provider — the discarding one for notifications — not by looking at the request again, whose id an invalid-id rejection has already cleared)")
	c.errorEmitterAlwaysEmits("R09.20")
	c.rule("R09.16", "a body that is not valid JSON is answered with one -32700 and runs no handler: the whole body is decoded before the first request is dispatched (no request decode is reachable after a dispatch)")
	c.decodedBeforeDispatch("R09.16")
	c.rule("R09.15", "an unknown method (also an alias pointing nowhere) is answered with -32601: every read of the method table in the dispatcher is a comma-ok lookup")
	c.descriptorFromCheckedLookup("R09.15")
	c.rule("R09.12", "every id-bearing WebSocket request gets its response: the frame executor never blocks on something only a finishing handler releases")
	c.executorNeverWaitsForHandlers("R09.12")
	c.ruleOpt("R09.9", "no reply bytes live in pooled memory that is handed back before they are written")
	c.poolSharedRule("R09.9", nil)
	c.rule("R09.6", "batch framing: one framing provider ('[' first, ',' later, only before real output), used by every emitter in the loop; ']' iff something was emitted; the loop never aborts the array")
	c.rule("R09.7", "WebSocket: a request without id gets a discarding non-nil writer, an id-bearing one the locked message writer")

	// ---- R09.1
	if c.need("R09.1", "T_resp", r.TResp != nil) {
		m := p.SSA.LookupMethod(r.TResp, p.Root.Pkg, "MarshalJSON")
		if m == nil {
			m = p.SSA.LookupMethod(types.NewPointer(r.TResp), p.Root.Pkg, "MarshalJSON")
		}
		construct := "response encoder"
		if m == nil {
			c.und("R09.1", construct, "-", "MarshalJSON of the response type not found")
		} else {
			keys := map[string][]*ssa.MapUpdate{}
			// a member whose name and value come from a helper (member, value := r.outcome()): the helper's
			// returns say which name goes with which condition
			type dynRet struct {
				key string
				at  *ssa.Return
			}
			dynamic := map[*ssa.MapUpdate][]dynRet{}
			allInstrs(m, func(in ssa.Instruction) {
				if mu, ok := in.(*ssa.MapUpdate); ok {
					if s, ok := constString(mu.Key); ok {
						keys[s] = append(keys[s], mu)
						return
					}
					ex, ok := mu.Key.(*ssa.Extract)
					if !ok {
						return
					}
					call, ok := ex.Tuple.(*ssa.Call)
					if !ok {
						return
					}
					h := staticCallee(call)
					if h == nil || !p.allFns[h] {
						return
					}
					allInstrs(h, func(x ssa.Instruction) {
						rt, ok := x.(*ssa.Return)
						if !ok || ex.Index >= len(rt.Results) {
							return
						}
						if k, ok := constString(blockLocalValue(rt.Results[ex.Index])); ok {
							dynamic[mu] = append(dynamic[mu], dynRet{k, rt})
						}
					})
					for _, dr := range dynamic[mu] {
						keys[dr.key] = append(keys[dr.key], mu)
					}
				}
			})
			var rets []ssa.Instruction
			allInstrs(m, func(in ssa.Instruction) {
				if isReturn(in) {
					rets = append(rets, in)
				}
			})
			errF := respFieldByTag(r.TResp, "error")
			if len(keys) == 0 || errF == nil {
				c.und("R09.1", construct, p.pos(m.Pos()), "the encoder does not build a key/value map with constant keys: result-XOR-error cannot be decided for this shape")
			} else {
				okAll := true
				is := func(k string) ipred {
					return func(in ssa.Instruction) bool {
						for _, mu := range keys[k] {
							if in == ssa.Instruction(mu) {
								return true
							}
						}
						return false
					}
				}
				for _, rt := range rets {
					for _, k := range []string{"jsonrpc", "id"} {
						if !mustPrecede(m, is(k), rt) {
							okAll = false
							c.bad("R09.1", construct, c.ipos(rt), fmt.Sprintf("a response can be encoded without the %q member", k))
						}
					}
					if !mustPrecede(m, func(in ssa.Instruction) bool { return is("result")(in) || is("error")(in) }, rt) {
						okAll = false
						c.bad("R09.1", construct, c.ipos(rt), "a response can be encoded with neither result nor error")
					}
				}
				errNonNil := func(b *ssa.BasicBlock, want bool) bool {
					for _, cf := range expandConds(impliedConds(b)) {
						bo, ok := cf.Cond.(*ssa.BinOp)
						if !ok || (bo.Op != token.NEQ && bo.Op != token.EQL) {
							continue
						}
						var other ssa.Value
						if isNilConst(bo.Y) {
							other = bo.X
						} else if isNilConst(bo.X) {
							other = bo.Y
						} else {
							continue
						}
						if _, ok := loadsField(other, errF); ok {
							if ((bo.Op == token.NEQ) == cf.True) == want {
								return true
							}
						}
					}
					return false
				}
				// members named by a helper: the condition is judged at the helper's return
				for mu, rets := range dynamic {
					for _, dr := range rets {
						switch dr.key {
						case "error":
							if !errNonNil(dr.at.Block(), true) {
								okAll = false
								c.bad("R09.1", construct, c.ipos(dr.at), "the error member is chosen on a path where the error is not known to be set")
							}
						case "result":
							if !errNonNil(dr.at.Block(), false) {
								okAll = false
								c.bad("R09.1", construct, c.ipos(dr.at), "the result member is chosen although an error may be set: a reply could carry a result next to an error")
							}
						}
					}
					_ = mu
				}
				for _, mu := range keys["error"] {
					if _, isDyn := dynamic[mu]; isDyn {
						continue
					}
					if !errNonNil(mu.Block(), true) {
						okAll = false
						c.bad("R09.1", construct, c.ipos(mu), "the error member is written on a path where the error is not known to be set")
					}
				}
				for _, mu := range keys["result"] {
					if _, isDyn := dynamic[mu]; isDyn {
						continue
					}
					if !errNonNil(mu.Block(), false) {
						okAll = false
						c.bad("R09.1", construct, c.ipos(mu), "the result member is written although an error may be set: a reply could carry both result and error")
					}
				}
				if idF := respFieldByTag(r.TResp, "id"); idF != nil {
					for _, mu := range keys["id"] {
						v := mu.Value
						for {
							if mi, ok := v.(*ssa.MakeInterface); ok {
								v = mi.X
								continue
							}
							if ci, ok := v.(*ssa.ChangeInterface); ok {
								v = ci.X
								continue
							}
							break
						}
						if _, ok := loadsField(v, idF); !ok {
							okAll = false
							c.bad("R09.1", construct, c.ipos(mu), "the id member is not the response's id field itself but a value computed from it: a converted id is not the same JSON value for every id (whole numbers of magnitude 2^63 and above wrap, strings and null change type), so the reply no longer echoes the request's id")
						}
					}
				}
				if len(keys["error"]) == 0 || len(keys["result"]) == 0 {
					okAll = false
					c.bad("R09.1", construct, p.pos(m.Pos()), "the encoder never writes one of result/error")
				}
				if okAll {
					c.ok("R09.1", construct, p.pos(m.Pos()), "jsonrpc+id on all paths; error iff set, result otherwise")
				}
			}
		}
	}

	// ---- R09.2
	if r.TResp != nil {
		verF, idF := respFieldByTag(r.TResp, "jsonrpc"), respFieldByTag(r.TResp, "id")
		n := 0
		for _, fn := range p.Funcs {
			if pkgOf(fn) != p.Root.Pkg {
				continue
			}
			allInstrs(fn, func(in ssa.Instruction) {
				al, ok := in.(*ssa.Alloc)
				if !ok || al.Type().(*types.Pointer).Elem() != types.Type(r.TResp) {
					return
				}
				// skip the receiver spill of MarshalJSON and plain copies
				isLiteral := false
				var verOK, idOK bool
				var idWhy string
				for _, ref := range *al.Referrers() {
					fa, ok := ref.(*ssa.FieldAddr)
					if !ok {
						continue
					}
					for _, r2 := range *fa.Referrers() {
						st, ok := r2.(*ssa.Store)
						if !ok || st.Addr != fa {
							continue
						}
						isLiteral = true
						switch fieldOfAddr(fa) {
						case verF:
							if s, ok := constString(st.Val); ok && s == "2.0" {
								verOK = true
							}
						case idF:
							idOK, idWhy = c.idFromRequest(st.Val, 0)
						}
					}
				}
				if !isLiteral {
					return
				}
				n++
				construct := fmt.Sprintf("%s: response literal", fname(fn))
				if !verOK {
					c.bad("R09.2", construct, c.ipos(al), "the response is built without jsonrpc \"2.0\"")
				}
				if !idOK {
					if idWhy == "" {
						idWhy = "the id member is not set from the request being answered"
					}
					c.bad("R09.2", construct, c.ipos(al), idWhy)
				}
				if verOK && idOK {
					c.ok("R09.2", construct, c.ipos(al), "version constant; "+idWhy)
				}
			})
		}
		if n == 0 {
			c.und("R09.2", "response literals", "-", "no response literal found")
		}
	}

	// ---- R09.3 / R09.4 dispatcher
	if c.need("R09.3", "FN_disp", r.FnDisp != nil) {
		d := r.FnDisp
		isErr := c.isErrFnCall
		isSucc := c.isSuccessEmit
		isReply := func(in ssa.Instruction) bool { return isErr(in) || isSucc(in) }
		// at most one
		nrep := 0
		allInstrs(d, func(in ssa.Instruction) {
			if !isReply(in) {
				return
			}
			nrep++
			construct := fmt.Sprintf("%s: reply emitter", fname(d))
			if w := reachFrom(in, isReply, nil); w != nil {
				c.bad("R09.3", construct, c.ipos(w), fmt.Sprintf("a second reply can follow the reply emitted at %s (missing return): the peer receives two responses for one request", c.ipos(in)))
			} else {
				c.ok("R09.3", construct, c.ipos(in), "no further reply reachable")
			}
			if isErr(in) {
				if w := reachFrom(in, c.isUserCall, nil); w != nil {
					c.bad("R09.4", construct, c.ipos(w), fmt.Sprintf("the handler is still invoked after the error reply at %s", c.ipos(in)))
				} else {
					c.ok("R09.4", construct, c.ipos(in), "handler unreachable after this error reply")
				}
			}
		})
		c.registrarRule("R09.3")
		// at least one for id-bearing requests
		{
			construct := fmt.Sprintf("%s: every id-bearing path replies", fname(d))
			avoid := func(in ssa.Instruction) bool { return isReply(in) || c.isChanRegistrarCall(in) }
			if w := reachFromBlockF(d.Blocks[0], isReturn, avoid, c.assumeID(false)); w != nil {
				c.bad("R09.3", construct, c.ipos(w), "a return is reachable for an id-bearing request without any reply having been emitted: the caller waits for ever")
			} else if nrep == 0 {
				c.und("R09.3", construct, p.pos(d.Pos()), "no reply emitter recognised in the dispatcher")
			} else {
				c.ok("R09.3", construct, p.pos(d.Pos()), fmt.Sprintf("%d emitters; no silent return with a non-nil id", nrep))
			}
		}
		// notifications: after the user call nothing is emitted on the nil-id path
		{
			construct := fmt.Sprintf("%s: notification produces no response", fname(d))
			bad := false
			allInstrs(d, func(in ssa.Instruction) {
				if !c.isUserCall(in) {
					return
				}
				if w := reachFromF(in, isSucc, nil, c.assumeID(true)); w != nil {
					bad = true
					c.bad("R09.3", construct, c.ipos(w), "a success response is emitted for a request without id")
				}
			})
			if !bad {
				c.ok("R09.3", construct, p.pos(d.Pos()), "success emitter unreachable when the id is nil")
			}
		}
	}

	// ---- R09.4 reader side + R09.6
	c.readerRules()

	// ---- R09.5
	c.codeTable()

	// ---- R09.7
	c.wsWriterChoice("R09.7")
	c.rule("R09.8", "wrong arity never runs a handler: the arity test guards every positional-params path to the user call")
	c.arityGate("R09.8")
}

// idFromRequest: v is read from the id field of a wire request (through pointers/locals),
// or from a field that is only ever assigned such a value.
func (c *Ctx) idFromRequest(v ssa.Value, depth int) (bool, string) {
	r := c.R
	if depth > 5 {
		return false, ""
	}
	if _, ok := loadsField(v, r.FReqID); ok {
		return true, "id read from the request"
	}
	var lv []ssa.Value
	leaves(v, map[ssa.Value]bool{}, &lv)
	if len(lv) > 1 || (len(lv) == 1 && lv[0] != v) {
		some := false
		for _, l := range lv {
			if isNilConst(l) {
				continue // no request to echo (nil request pointer): id null, as for a zero request
			}
			if ok, _ := c.idFromRequest(l, depth+1); !ok {
				return false, "one origin of the id member is not the request's id"
			}
			some = true
		}
		if !some {
			return false, "the id member is never taken from the request"
		}
		return true, "id read from the request"
	}
	// field of another struct (the channel registration record): all stores to that field must be request ids
	var f *types.Var
	switch x := v.(type) {
	case *ssa.Field:
		f = fieldOfField(x)
	case *ssa.UnOp:
		if x.Op == token.MUL {
			if fa, ok := x.X.(*ssa.FieldAddr); ok {
				f = fieldOfAddr(fa)
			} else if fv, ok := x.X.(*ssa.FreeVar); ok {
				cv := c.P.canonVar(fv)
				if cv != ssa.Value(fv) {
					return c.idFromRequest(&ssa.UnOp{Op: token.MUL, X: cv}, depth+1)
				}
			}
		}
	case *ssa.Parameter:
		ok, why := c.paramNormalised(x, depth, func(arg ssa.Value) (bool, string) { return c.idFromRequest(arg, depth+1) })
		if ok {
			return true, "id passed down from the request at every call site"
		}
		// parameter of a function used as a value (the registrar is passed as chanOut): check dynamic call sites in the dispatcher
		if c.R.FnDisp != nil {
			okAll, n := true, 0
			c.P.coneInstrs(c.R.FnDisp, func(in ssa.Instruction) {
				if c.isChanRegistrarCall(in) {
					n++
					args := in.(*ssa.Call).Common().Args
					if ok2, _ := c.idFromRequest(args[len(args)-1], depth+1); !ok2 {
						okAll = false
					}
				}
			})
			if n > 0 && okAll {
				return true, "id handed to the registrar by the dispatcher is the request's id"
			}
		}
		return false, why
	}
	if f != nil {
		stores := usesOfKind(c.P.uses(f), "store")
		if len(stores) == 0 {
			return false, ""
		}
		for _, u := range stores {
			if ok, _ := c.idFromRequest(u.Val, depth+1); !ok {
				return false, "the record this id is copied from is not always filled with the request's id"
			}
		}
		return true, "id copied from a record that always holds the request's id"
	}
	return false, ""
}

// readerEntry: the HTTP request reader: the outermost function that reads the body through
// io.LimitReader and (itself or through helpers) reaches the dispatcher.
func (c *Ctx) readerEntry() *ssa.Function {
	p, r := c.P, c.R
	var rd *ssa.Function
	best := 1 << 30
	for _, fn := range p.Funcs {
		if pkgOf(fn) != p.Root.Pkg || fn.Parent() != nil {
			continue
		}
		reg := c.region(fn)
		hasLim, hasDisp := false, false
		for _, g := range reg {
			allInstrsRaw(g, func(in ssa.Instruction) {
				if ci, ok := in.(*ssa.Call); ok {
					if calleeName(ci) == "io.LimitReader" {
						hasLim = true
					}
					if p.unbound(staticCallee(ci)) == r.FnDisp {
						hasDisp = true
					}
				}
			})
		}
		// the innermost function that both reads the limited body and dispatches
		if hasLim && hasDisp && len(reg) < best {
			rd, best = fn, len(reg)
		}
	}
	return rd
}

// region: the functions making up the activity that starts at fn: synchronous callees
// (not descending into activity roots such as the dispatcher), their function literals,
// and functions whose values are created there (bound methods, named functions).
func (c *Ctx) region(fn *ssa.Function) []*ssa.Function {
	p := c.P
	var out []*ssa.Function
	seen := map[*ssa.Function]bool{}
	var visit func(f *ssa.Function, d int)
	visit = func(f *ssa.Function, d int) {
		if f == nil || seen[f] || d > 2*ipMaxDepth || !p.allFns[f] || len(f.Blocks) == 0 {
			return
		}
		if f != fn && p.roots != nil && p.roots[f] {
			return
		}
		seen[f] = true
		out = append(out, f)
		for _, a := range f.AnonFuncs {
			visit(a, d+1)
		}
		allInstrsRaw(f, func(in ssa.Instruction) {
			if g := p.syncCallee(in); g != nil {
				visit(g, d+1)
			}
			if mc, ok := in.(*ssa.MakeClosure); ok {
				if g, ok := mc.Fn.(*ssa.Function); ok {
					visit(p.unbound(g), d+1)
				}
			}
			// a named function started with go (or deferred) belongs to the activity just like a
			// function literal started that way
			switch x := in.(type) {
			case *ssa.Go:
				if g := p.unbound(staticCallee(x)); g != nil {
					visit(g, d+1)
				}
			case *ssa.Defer:
				if g := p.unbound(staticCallee(x)); g != nil {
					visit(g, d+1)
				}
			}
		})
	}
	visit(fn, 0)
	return out
}

// inLoopIP: the instruction can be executed again within its activity (it lies in a loop,
// or in a helper called from one).
func inLoopIP(in ssa.Instruction) bool {
	return reachFromUp(in, func(x ssa.Instruction) bool { return x == in }, nil) != nil
}

// locKey: abstract identity of the variable behind an address: the struct field, or the
// (captured) local.
func (c *Ctx) locKey(addr ssa.Value) interface{} {
	if fa, ok := addr.(*ssa.FieldAddr); ok {
		return fieldOfAddr(fa)
	}
	return c.P.canonVar(addr)
}

// readerRules: the HTTP reader — R09.4 (reader side) and R09.6.
func (c *Ctx) readerRules() {
	p, r := c.P, c.R
	rd := c.readerEntry()
	if !c.need("R09.6", "HTTP request reader", rd != nil) {
		return
	}
	reg := c.region(rd)
	inReg := map[*ssa.Function]bool{}
	for _, f := range reg {
		inReg[f] = true
	}
	hdrs := map[*ssa.Function]map[*ssa.BasicBlock]bool{}
	crossesLoop := func(in ssa.Instruction) bool {
		f := in.Parent()
		if hdrs[f] == nil {
			hdrs[f] = loopHeaders(f)
		}
		return hdrs[f][in.Block()] && in == in.Block().Instrs[0]
	}
	isDisp := func(in ssa.Instruction) bool {
		ci, ok := in.(*ssa.Call)
		return ok && p.unbound(staticCallee(ci)) == r.FnDisp
	}
	regInstrs := func(f func(ssa.Instruction)) {
		for _, g := range reg {
			allInstrsRaw(g, f)
		}
	}
	regInstrs(func(in ssa.Instruction) {
		if !c.isErrFnCall(in) {
			return
		}
		construct := fmt.Sprintf("%s: protocol error reply", fname(in.Parent()))
		if w := reachFromUp(in, isDisp, crossesLoop); w != nil {
			c.bad("R09.4", construct, c.ipos(w), fmt.Sprintf("after the error reply at %s the same request is still dispatched to a handler", c.ipos(in)))
		} else {
			c.ok("R09.4", construct, c.ipos(in), "dispatch unreachable for the rejected request")
		}
	})

	// ---- R09.6
	rule := "R09.6"
	type lw struct {
		in    ssa.Instruction
		s     string
		fn    *ssa.Function
		conds []condFact // conditions under which this token is the one written
	}
	var writes []lw
	regInstrs(func(in ssa.Instruction) {
		if ci, ok := in.(ssa.CallInstruction); ok {
			if s, ok := constWriteArg(ci); ok && (s == "[" || s == "," || s == "]") {
				writes = append(writes, lw{in, s, in.Parent(), expandConds(impliedCondsIP(in.Block(), 0))})
				return
			}
			// one write whose token is chosen beforehand: sep := "["; if started { sep = "," }
			for _, alt := range phiWriteArgs(ci) {
				if alt.s == "[" || alt.s == "," || alt.s == "]" {
					writes = append(writes, lw{in, alt.s, in.Parent(), alt.conds})
				}
			}
		}
	})
	// calling contexts inside the reader's region: chains of call sites from the reader entry down to
	// a helper (outermost first). An emitter in a helper that serves both the batch loop and the single
	// request is judged once per context.
	var contextsOf func(f *ssa.Function, depth int) [][]*ssa.Call
	contextsOf = func(f *ssa.Function, depth int) [][]*ssa.Call {
		if f == rd || depth > 3 {
			return [][]*ssa.Call{nil}
		}
		var out [][]*ssa.Call
		for _, cs := range p.syncCallers(f) {
			if !inReg[cs.Parent()] {
				continue
			}
			for _, up := range contextsOf(cs.Parent(), depth+1) {
				out = append(out, append(append([]*ssa.Call{}, up...), cs))
			}
		}
		if len(out) == 0 {
			return [][]*ssa.Call{nil}
		}
		return out
	}
	inLoopCtx := func(in ssa.Instruction, ch []*ssa.Call) bool {
		if inLoop(in.Block()) {
			return true
		}
		for _, cs := range ch {
			if inLoop(cs.Block()) {
				return true
			}
		}
		return false
	}
	// the value of v (used in f) in calling context ch: parameters are replaced by the arguments along the chain
	inCtx := func(v ssa.Value, f *ssa.Function, ch []*ssa.Call) ssa.Value {
		for i := len(ch) - 1; i >= 0; i-- {
			idx := -1
			for k, q := range f.Params {
				if v == ssa.Value(q) || c.isParamCopy(v, q) {
					idx = k
				}
			}
			if idx < 0 || idx >= len(ch[i].Common().Args) {
				break
			}
			v, f = ch[i].Common().Args[idx], ch[i].Parent()
		}
		return v
	}
	endFrom := func(in ssa.Instruction, ch []*ssa.Call, avoid ipred) ssa.Instruction {
		sr := newIPSearch(isEnd, avoid)
		if sr.scan(in.Block(), instrIndex(in)+1, ch) {
			return sr.found
		}
		return nil
	}
	type emitCtx struct {
		in ssa.Instruction
		ch []*ssa.Call
	}
	var loopDisp, loopErr []emitCtx
	regInstrs(func(in ssa.Instruction) {
		if !isDisp(in) && !c.isErrFnCall(in) {
			return
		}
		for _, ch := range contextsOf(in.Parent(), 0) {
			if !inLoopCtx(in, ch) {
				continue
			}
			if isDisp(in) {
				loopDisp = append(loopDisp, emitCtx{in, ch})
			} else {
				loopErr = append(loopErr, emitCtx{in, ch})
			}
		}
	})
	if len(loopDisp) == 0 {
		c.und(rule, fname(rd)+": batch loop", p.pos(rd.Pos()), "no dispatcher call inside a loop: batch handling not recognised")
		return
	}
	// framing provider: a function taking the element writer callback and writing "[" and ","
	var prov *ssa.Function
	for _, w := range writes {
		if (w.s == "[" || w.s == ",") && len(w.fn.Params) >= 1 && isWriterCallbackType(w.fn.Params[len(w.fn.Params)-1].Type()) {
			prov = w.fn
		}
	}
	construct := fmt.Sprintf("%s: batch framing", fname(rd))
	if prov == nil {
		// the pre-repair shape: separators written in the loop body itself
		sepInLoop := false
		for _, w := range writes {
			if w.s == "," && inLoopIP(w.in) {
				sepInLoop = true
				c.bad(rule, construct, c.ipos(w.in), "a separator is written in the batch loop regardless of whether the element produced output (notifications produce none): '[,{…}]' / '[{…},]'")
			}
		}
		if !sepInLoop {
			c.und(rule, construct, p.pos(rd.Pos()), "batch framing idiom not recognised (no lazy framing provider, no separator in the loop)")
		}
		return
	}
	okAll := true
	cbParam := prov.Params[len(prov.Params)-1]
	// (a) inside the provider: flag-selected '[' / ',' , flag set, then the callback
	var flag interface{}
	var openW, sepW, cbCall ssa.Instruction
	var openConds, sepConds []condFact
	for _, w := range writes {
		if w.fn != prov {
			continue
		}
		if w.s == "[" {
			openW, openConds = w.in, w.conds
		}
		if w.s == "," {
			sepW, sepConds = w.in, w.conds
		}
	}
	allInstrs(prov, func(in ssa.Instruction) {
		if ci, ok := in.(ssa.CallInstruction); ok && ci.Common().Value == ssa.Value(cbParam) {
			cbCall = in
		}
	})
	flagLoad := func(v ssa.Value) (interface{}, bool) {
		ld, ok := v.(*ssa.UnOp)
		if !ok || ld.Op != token.MUL {
			return nil, false
		}
		if b, isB := ld.Type().Underlying().(*types.Basic); !isB || b.Kind() != types.Bool {
			return nil, false
		}
		return c.locKey(ld.X), true
	}
	if openW == nil || sepW == nil || cbCall == nil {
		okAll = false
		c.bad(rule, construct, p.pos(prov.Pos()), "the framing provider does not write both '[' and ',' and then invoke the element writer")
	} else {
		// flag: boolean variable tested by the If that separates the two writes
		for _, cf := range sepConds {
			if k, ok := flagLoad(cf.Cond); ok && cf.True {
				flag = k
			}
		}
		openUnderNot := false
		for _, cf := range openConds {
			if k, ok := flagLoad(cf.Cond); ok && !cf.True && k == flag {
				openUnderNot = true
			}
		}
		if flag == nil || !openUnderNot {
			okAll = false
			c.bad(rule, construct, c.ipos(sepW), "'[' and ',' are not selected by one 'something already written' flag")
		} else {
			// flag set true before the callback, on every path
			setTrue := func(in ssa.Instruction) bool {
				st, ok := in.(*ssa.Store)
				if !ok || c.locKey(st.Addr) != flag {
					return false
				}
				k, ok := st.Val.(*ssa.Const)
				return ok && k.Value != nil && k.Value.String() == "true"
			}
			if !mustPrecede(prov, func(in ssa.Instruction) bool { return setTrue(in) || in == sepW }, cbCall) {
				okAll = false
				c.bad(rule, construct, c.ipos(cbCall), "the flag is not set before the element is written: the next element would open a second array")
			}
			if !mustPrecede(prov, func(in ssa.Instruction) bool { return in == openW || in == sepW }, cbCall) {
				okAll = false
				c.bad(rule, construct, c.ipos(cbCall), "an element can be written without '[' or ',' in front of it")
			}
			// nothing else clears the flag once set
			regInstrs(func(in ssa.Instruction) {
				st, ok := in.(*ssa.Store)
				if !ok || c.locKey(st.Addr) != flag || setTrue(in) {
					return
				}
				if fa, isF := st.Addr.(*ssa.FieldAddr); isF && isFreshAlloc(fa.X) {
					return
				}
				if inLoopIP(in) || in.Parent() == prov {
					okAll = false
					c.bad(rule, construct, c.ipos(in), "the 'something already written' flag is reset while the batch is being served")
				}
			})
			// (b) ']' only under flag, and on every path from the loop to the end of the batch
			var closeW []ssa.Instruction
			for _, w := range writes {
				if w.s == "]" {
					closeW = append(closeW, w.in)
				}
				if w.fn != prov && (w.s == "[" || w.s == ",") {
					okAll = false
					c.bad(rule, construct, c.ipos(w.in), "array framing is also written directly, outside the framing provider")
				}
			}
			if len(closeW) == 0 {
				okAll = false
				c.bad(rule, construct, p.pos(rd.Pos()), "the array is never closed")
			}
			for _, cw := range closeW {
				under := false
				for _, cf := range expandConds(impliedCondsIP(cw.Block(), 0)) {
					if k, ok := flagLoad(cf.Cond); ok && cf.True && k == flag {
						under = true
					}
				}
				if !under {
					okAll = false
					c.bad(rule, construct, c.ipos(cw), "']' is written although nothing may have been emitted (an all-notification batch must produce an empty reply)")
				}
				if inLoopIP(cw) {
					okAll = false
					c.bad(rule, construct, c.ipos(cw), "']' is written inside the batch loop")
				}
			}
			// from the loop (dispatcher call) every path to the end passes the flag test that guards ']'
			flagTest := func(in ssa.Instruction) bool {
				iff, ok := in.(*ssa.If)
				if !ok {
					return false
				}
				k, ok := flagLoad(iff.Cond)
				return ok && k == flag && in.Parent() != prov
			}
			for _, dsp := range loopDisp {
				if ret := endFrom(dsp.in, dsp.ch, flagTest); ret != nil {
					okAll = false
					c.bad(rule, construct, c.ipos(ret), "the batch loop can return without reaching the closing bracket: the array is left unterminated")
				}
			}
			// error replies inside the loop must not return either
			for _, e := range loopErr {
				if ret := endFrom(e.in, e.ch, flagTest); ret != nil {
					okAll = false
					c.bad(rule, construct, c.ipos(ret), "an error element inside the batch aborts the array without the closing bracket")
				}
			}
		}
	}
	// (c) every emitter executed inside the loop is given the framing provider
	for _, e := range append(append([]emitCtx{}, loopDisp...), loopErr...) {
		ci := e.in.(ssa.CallInstruction)
		uses := false
		for _, a := range ci.Common().Args {
			if !isWriterProviderType(a.Type()) {
				// the provider inside a parameter struct built at the call
				if v := literalFieldOfArg(a, func(t types.Type) bool { return isWriterProviderType(t) }); v != nil {
					a = v
				} else {
					continue
				}
			}
			fs := c.funcsOf(inCtx(a, e.in.Parent(), e.ch))
			uses = len(fs) > 0
			for _, f := range fs {
				if f != prov {
					uses = false
				}
			}
		}
		if !uses {
			okAll = false
			c.bad(rule, construct, c.ipos(e.in), "an emitter inside the batch loop writes through the raw writer instead of the framing provider: its element appears without '[' / ',' in front of it")
		}
	}
	// (d) replies come in request order: every emitter lives in the same loop over the elements (an id
	// check done for all elements in a first loop, and the dispatch in a second one, answers the rejected
	// elements first)
	{
		innermost := func(in ssa.Instruction) *ssa.BasicBlock {
			fn := in.Parent()
			var best *ssa.BasicBlock
			for h := range loopHeaders(fn) {
				if !h.Dominates(in.Block()) {
					continue
				}
				// in's block must be inside h's loop: it reaches a back edge of h without leaving through h
				inLoop := false
				for _, pr := range h.Preds {
					if h.Dominates(pr) && (pr == in.Block() || blockReaches(in.Block(), pr, h)) {
						inLoop = true
					}
				}
				if inLoop && (best == nil || best.Dominates(h)) {
					best = h
				}
			}
			return best
		}
		var first *ssa.BasicBlock
		var firstIn ssa.Instruction
		for _, e := range append(append([]emitCtx{}, loopDisp...), loopErr...) {
			site := e.in
			if len(e.ch) > 0 {
				site = e.ch[0]
			}
			if site.Parent() != rd {
				continue
			}
			h := innermost(site)
			if h == nil {
				continue
			}
			if first == nil {
				first, firstIn = h, site
			} else if h != first {
				okAll = false
				c.bad(rule, construct, c.ipos(site), "the batch's replies are produced in more than one loop over its elements (here and at "+c.ipos(firstIn)+"): elements answered by the earlier loop (e.g. those with an invalid id) come before the replies of elements that precede them in the request")
			}
		}
	}
	if okAll {
		c.ok(rule, construct, p.pos(prov.Pos()), "lazy framing provider used by every emitter in the loop; ']' iff something was emitted; no abort of the array; one loop")
	}
}

// blockReaches: b reaches target without passing through stop.
func blockReaches(b, target, stop *ssa.BasicBlock) bool {
	seen := map[*ssa.BasicBlock]bool{}
	var walk func(x *ssa.BasicBlock) bool
	walk = func(x *ssa.BasicBlock) bool {
		if x == target {
			return true
		}
		if x == stop || seen[x] {
			return false
		}
		seen[x] = true
		for _, s := range x.Succs {
			if walk(s) {
				return true
			}
		}
		return false
	}
	return walk(b)
}

// arityGate: on every path that does not take the raw-params branch, the user
// call is preceded by the test len(decoded params) == declared count, taken on
// its equal edge.
func (c *Ctx) arityGate(rule string) {
	r := c.R
	d := r.FnDisp
	if d == nil {
		c.und(rule, "dispatcher", "-", "dispatcher not resolved")
		return
	}
	construct := fmt.Sprintf("%s: arity check before the handler runs", fname(d))
	dec := map[*ssa.Alloc]ssa.CallInstruction{}
	for _, g := range c.P.cone(d) {
		for al, ci := range decodedAllocs(g) {
			dec[al] = ci
		}
	}
	// the arity test: If on len(load decoded alloc) ==/!= <non-constant>
	var tests []*ssa.If
	c.P.coneInstrs(d, func(in ssa.Instruction) {
		iff, ok := in.(*ssa.If)
		if !ok {
			return
		}
		bo, ok := iff.Cond.(*ssa.BinOp)
		if !ok || (bo.Op != token.NEQ && bo.Op != token.EQL) {
			return
		}
		for _, side := range []ssa.Value{bo.X, bo.Y} {
			if s, ok := lenOf(side); ok {
				hit := false
				if ld, ok := s.(*ssa.UnOp); ok && ld.Op == token.MUL {
					if al, ok := ld.X.(*ssa.Alloc); ok {
						if _, isDec := dec[al]; isDec {
							hit = true
						}
					}
				}
				if !hit {
					// the slice returned by a helper that decoded it (ps, err := parseParamList(raw))
					hit = c.someOrigin(s, func(a apath) bool {
						if len(a.Fields) != 0 {
							return false
						}
						root := a.Root
						if ld, ok := root.(*ssa.UnOp); ok && ld.Op == token.MUL {
							root = ld.X
						}
						al, ok := root.(*ssa.Alloc)
						if !ok {
							return false
						}
						_, isDec := dec[al]
						return isDec
					})
				}
				if hit {
					tests = append(tests, iff)
				}
			}
		}
	})
	if len(tests) == 0 {
		c.bad(rule, construct, c.P.pos(d.Pos()), "the number of decoded params is never compared with the declared parameter count")
		return
	}
	isTest := func(in ssa.Instruction) bool {
		for _, t := range tests {
			if in == ssa.Instruction(t) {
				return true
			}
		}
		return false
	}
	// raw-params branch: edges out of an If whose condition loads a bool field and whose true side never reaches a decode
	rawEdge := func(from *ssa.BasicBlock, k int) bool {
		iff, ok := from.Instrs[len(from.Instrs)-1].(*ssa.If)
		if !ok || k != 0 {
			return true
		}
		ld, ok := iff.Cond.(*ssa.UnOp)
		if !ok || ld.Op != token.MUL {
			return true
		}
		if fa, ok := ld.X.(*ssa.FieldAddr); ok {
			if b, ok := fieldOfAddr(fa).Type().Underlying().(*types.Basic); ok && b.Kind() == types.Bool {
				// veto the true edge only if it is the raw branch: no decode reachable before the user call
				if reachFromBlock(from.Succs[0], func(x ssa.Instruction) bool {
					ci, ok := x.(ssa.CallInstruction)
					return ok && decodeTarget(ci) != nil
				}, c.isUserCall) == nil {
					return false
				}
			}
		}
		return true
	}
	if w := reachFromBlockF(d.Blocks[0], c.isUserCall, isTest, rawEdge); w != nil {
		c.bad(rule, construct, c.ipos(w), "the handler can be reached for a positional-params request without the arity check (e.g. absent params, or a zero-parameter method): wrong arity runs the handler or indexes past the decoded params")
		return
	}
	// and the mismatch edge replies with an error and cannot reach the handler
	for _, t := range tests {
		bo := t.Cond.(*ssa.BinOp)
		mism := t.Block().Succs[0]
		if bo.Op == token.EQL {
			mism = t.Block().Succs[1]
		}
		if w := reachFromBlockUp(mism, c.isUserCall, nil); w != nil {
			c.bad(rule, construct, c.ipos(w), "the handler is still reachable after an arity mismatch")
			return
		}
	}
	// the arity test only means something if the params were decoded: a path that skips the decode
	// although params may be present (e.g. "methods without arguments have nothing to decode") makes the
	// test compare 0 with the declared count, and surplus params run a zero-parameter handler
	isDecode := func(x ssa.Instruction) bool {
		ci, ok := x.(ssa.CallInstruction)
		if !ok {
			return false
		}
		t := decodeTarget(ci)
		if t == nil {
			return false
		}
		al, ok := t.(*ssa.Alloc)
		return ok && dec[al] != nil
	}
	paramsAbsentEdge := func(from *ssa.BasicBlock, k int) bool {
		if !rawEdge(from, k) {
			return false
		}
		iff, ok := from.Instrs[len(from.Instrs)-1].(*ssa.If)
		if !ok {
			return true
		}
		bo, ok := curFacts.aliasOf(iff.Cond).(*ssa.BinOp)
		if !ok {
			return true
		}
		// len(<raw params of the request>) > 0 / != 0 / == 0: the absent side is a legitimate skip
		L, R, op := bo.X, bo.Y, bo.Op
		if _, isLen := lenOf(L); !isLen {
			if _, isLen2 := lenOf(R); isLen2 {
				L, R, op = R, L, flip(op)
			}
		}
		ls, isLen := lenOf(L)
		if !isLen {
			return true
		}
		if bt, ok := ls.Type().Underlying().(*types.Slice); !ok || !isByteType(bt.Elem()) {
			return true
		}
		kst, isK := constInt(stripConvInt(R))
		if !isK || kst != 0 {
			return true
		}
		absentWhenTrue := op == token.EQL || op == token.LEQ
		absentWhenFalse := op == token.GTR || op == token.NEQ
		if (k == 0 && absentWhenTrue) || (k == 1 && absentWhenFalse) {
			return false // params absent: nothing to decode
		}
		return true
	}
	isAnyTest := func(x ssa.Instruction) bool { return isTest(x) }
	if w := reachFromBlockF(d.Blocks[0], isAnyTest, isDecode, paramsAbsentEdge); w != nil && len(dec) > 0 {
		c.bad(rule, construct, c.ipos(w), "the arity test can be reached without the params having been decoded although params may be present: the test then compares 0 with the declared count, so surplus params run a zero-parameter handler instead of being rejected with -32602")
		return
	}
	c.ok(rule, construct, c.ipos(tests[0]), "every non-raw path to the handler passes the arity test on its equal edge")
}

func isByteType(t types.Type) bool {
	b, ok := t.Underlying().(*types.Basic)
	return ok && (b.Kind() == types.Byte || b.Kind() == types.Uint8)
}

// codeTable: R09.5
func (c *Ctx) codeTable() {
	p, r := c.P, c.R
	rule := "R09.5"
	seen := map[int64]bool{}
	for _, fn := range p.Funcs {
		if pkgOf(fn) != p.Root.Pkg {
			continue
		}
		allInstrs(fn, func(in ssa.Instruction) {
			if !c.isErrFnCall(in) {
				return
			}
			args := in.(ssa.CallInstruction).Common().Args
			if len(args) < 3 {
				return
			}
			// the code may be decided elsewhere: passed in by the callers of a reply helper, or
			// returned by a helper next to the error; each such place is a site of its own
			for _, sv := range c.valueSites(in, args[2], 0) {
				code, ok := constInt(stripConvInt(sv.Val))
				if !ok {
					continue
				}
				want, site := c.classifyErrSite(sv.At)
				if site == "" {
					continue
				}
				seen[want] = true
				construct := fmt.Sprintf("%s: error code at the %s site", fname(sv.At.Parent()), site)
				c.check(code == want, rule, construct, c.ipos(sv.At), fmt.Sprintf("%d", code), fmt.Sprintf("code %d is reported where JSON-RPC 2.0 requires %d", code, want))
			}
		})
	}
	for _, w := range []int64{-32601, -32602, -32600, -32700} {
		if !seen[w] {
			c.bad(rule, fmt.Sprintf("error site for code %d", w), "-", "no error reply site of this kind was recognised (the rejection may have been removed)")
		}
	}
	_ = r
}

// classifyErrSite: which protocol rejection does this error reply belong to?
func (c *Ctx) classifyErrSite(in ssa.Instruction) (int64, string) {
	r := c.R
	inDisp := r.FnDisp != nil && c.P.inCone(r.FnDisp, in)
	for _, cf := range expandConds(impliedConds(in.Block())) {
		switch x := cf.Cond.(type) {
		case *ssa.Extract:
			// found-flag returned by a resolution helper
			if call, ok := x.Tuple.(*ssa.Call); ok && !cf.True && inDisp {
				if g := staticCallee(call); g != nil && c.P.allFns[g] {
					isLk := false
					allInstrs(g, func(y ssa.Instruction) {
						rt, ok := y.(*ssa.Return)
						if !ok || x.Index >= len(rt.Results) {
							return
						}
						var lv []ssa.Value
						leaves(rt.Results[x.Index], map[ssa.Value]bool{}, &lv)
						for _, l := range lv {
							if ex, ok := l.(*ssa.Extract); ok && ex.Index == 1 {
								if lk, ok := ex.Tuple.(*ssa.Lookup); ok {
									if mt, ok := lk.X.Type().Underlying().(*types.Map); ok {
										if _, isStruct := mt.Elem().Underlying().(*types.Struct); isStruct {
											isLk = true
										}
									}
								}
							}
						}
					})
					if !isLk {
						// helper that returns the constant false exactly where its comma-ok lookups failed
						allInstrs(g, func(y ssa.Instruction) {
							rt, ok := y.(*ssa.Return)
							if !ok || x.Index >= len(rt.Results) || constKind(blockLocalValue(rt.Results[x.Index])) != 2 {
								return
							}
							for _, cf2 := range expandConds(impliedConds(rt.Block())) {
								if cf2.True {
									continue
								}
								if ex2, ok := cf2.Cond.(*ssa.Extract); ok && ex2.Index == 1 {
									if _, ok := ex2.Tuple.(*ssa.Lookup); ok {
										isLk = true
									}
								}
								if ph, ok := cf2.Cond.(*ssa.Phi); ok {
									for _, e := range ph.Edges {
										if ex2, ok := e.(*ssa.Extract); ok && ex2.Index == 1 {
											if _, ok := ex2.Tuple.(*ssa.Lookup); ok {
												isLk = true
											}
										}
									}
								}
							}
						})
					}
					if isLk {
						return -32601, "method-not-found"
					}
				}
			}
			// comma-ok of a lookup in a map[string]<method struct>
			if lk, ok := x.Tuple.(*ssa.Lookup); ok && x.Index == 1 && !cf.True {
				if mt, ok := lk.X.Type().Underlying().(*types.Map); ok {
					if b, ok := mt.Key().Underlying().(*types.Basic); ok && b.Kind() == types.String {
						if _, isStruct := mt.Elem().Underlying().(*types.Struct); isStruct && inDisp {
							return -32601, "method-not-found"
						}
					}
				}
			}
		case *ssa.Phi:
			// ok merged from direct and alias lookups
			if !cf.True && inDisp {
				for _, e := range x.Edges {
					if ex, ok := e.(*ssa.Extract); ok {
						if _, ok := ex.Tuple.(*ssa.Lookup); ok {
							return -32601, "method-not-found"
						}
					}
				}
			}
		case *ssa.BinOp:
			if s, ok := lenOf(x.X); ok && inDisp {
				_ = s
				if (x.Op == token.NEQ && cf.True) || (x.Op == token.EQL && !cf.True) {
					if _, isConst := x.Y.(*ssa.Const); !isConst {
						return -32602, "wrong-arity"
					}
				}
			}
			if !inDisp {
				// size == 0 / len(batch) == 0
				if k, ok := constInt(stripConvInt(x.Y)); ok && k == 0 && ((x.Op == token.EQL && cf.True) || (x.Op == token.NEQ && !cf.True)) {
					return -32600, "empty-request"
				}
				// envelope decode error != nil
				if isNilConst(x.Y) && ((x.Op == token.NEQ && cf.True) || (x.Op == token.EQL && !cf.True)) {
					if c.isJSONDecodeErr(x.X, 0) {
						return -32700, "malformed-JSON"
					}
				}
			}
		}
	}
	return 0, ""
}

// wsWriterChoice: R09.7 — at every point where a WebSocket call is handed to the dispatcher, the
// writer provider is never nil, the locked message writer is chosen only where the request is
// known to carry an id, and a discarding provider is what id-less requests get.
func (c *Ctx) wsWriterChoice(rule string) {
	p := c.P
	w := c.ws()
	_ = w
	invs := c.dispInvokes()
	if len(invs) == 0 {
		c.und(rule, "dispatcher invocation", "-", "no invocation of the dispatcher interface found")
		return
	}
	type cand struct {
		v     ssa.Value
		conds []condFact
	}
	sawDiscard, sawLocked := false, false
	okAll := true
	var first ssa.Instruction
	for _, in := range invs {
		if first == nil {
			first = in
		}
		ci := in.(ssa.CallInstruction)
		construct := fmt.Sprintf("%s: writer handed to the dispatcher", fname(outermost(in.Parent())))
		var prov ssa.Value
		for _, a := range ci.Common().Args {
			if isWriterProviderType(a.Type()) {
				prov = a
			}
			// the hooks grouped in a parameter struct built at the call (callEnv{withWriter: …, …})
			if v := literalFieldOfArg(a, func(t types.Type) bool { return isWriterProviderType(t) }); v != nil {
				prov = v
			}
		}
		if prov == nil {
			c.und(rule, construct, c.ipos(in), "no writer-provider argument found")
			okAll = false
			continue
		}
		site := expandConds(impliedCondsIP(in.Block(), 0))
		var cands []cand
		var collect func(v ssa.Value, conds []condFact, d int)
		collect = func(v ssa.Value, conds []condFact, d int) {
			if d > 6 {
				cands = append(cands, cand{v, conds})
				return
			}
			switch x := v.(type) {
			case *ssa.ChangeType:
				collect(x.X, conds, d+1)
			case *ssa.Phi:
				for i, e := range x.Edges {
					collect(e, append(append([]condFact{}, conds...), edgeConds(x.Block().Preds[i], x.Block())...), d+1)
				}
			case *ssa.UnOp:
				if x.Op == token.MUL {
					addr := p.canonVar(x.X)
					if al, ok := addr.(*ssa.Alloc); ok {
						n := 0
						for _, ref := range *al.Referrers() {
							if st, ok := ref.(*ssa.Store); ok && st.Addr == ssa.Value(al) {
								n++
								collect(st.Val, append(append([]condFact{}, conds...), expandConds(impliedCondsIP(st.Block(), 0))...), d+1)
							}
						}
						if n > 0 {
							return
						}
					}
				}
				cands = append(cands, cand{v, conds})
			case *ssa.Parameter:
				// forwarded by a helper: look at the arguments of its synchronous callers
				fn := x.Parent()
				idx := -1
				for i, q := range fn.Params {
					if q == x {
						idx = i
					}
				}
				sites := p.callers[fn]
				if idx < 0 || len(sites) == 0 {
					cands = append(cands, cand{v, conds})
					return
				}
				for _, s := range sites {
					if idx < len(s.Common().Args) {
						collect(s.Common().Args[idx], append(append([]condFact{}, conds...), expandConds(impliedCondsIP(s.Block(), 0))...), d+1)
					}
				}
			default:
				cands = append(cands, cand{v, conds})
			}
		}
		collect(prov, site, 0)
		for _, cd := range cands {
			var efn *ssa.Function
			switch x := cd.v.(type) {
			case *ssa.MakeClosure:
				efn, _ = x.Fn.(*ssa.Function)
			case *ssa.Function:
				efn = x
			}
			switch {
			case isNilConst(cd.v):
				okAll = false
				c.bad(rule, construct, c.ipos(in), "a nil writer provider is handed to the dispatcher: an error reply for such a request (unknown method, panic in a notification handler) calls a nil function and crashes the process")
			case efn != nil && c.isLockedWriterProvider(p.unbound(efn)):
				sawLocked = true
				nonNil := false
				for _, cf := range cd.conds {
					if isT, nn := c.idNilTestFrame(cf.Cond); isT && (nn == cf.True) {
						nonNil = true
					}
				}
				if !nonNil {
					okAll = false
					c.bad(rule, construct, c.ipos(in), "the real message writer is handed out on a path where the request may have no id: a failing notification would be answered on the wire with an id:null frame")
				}
			case efn != nil && c.isDiscardProvider(efn):
				sawDiscard = true
			default:
				okAll = false
				c.bad(rule, construct, c.ipos(in), "unrecognised writer provider")
			}
		}
	}
	if okAll && !(sawDiscard && sawLocked) {
		okAll = false
		c.bad(rule, "writer handed to the dispatcher", c.ipos(first), "expected a discarding provider for notifications and the locked writer for id-bearing requests")
	}
	if okAll {
		c.ok(rule, "writer handed to the dispatcher", c.ipos(first), "never nil; discarding provider for id-less requests; locked writer only under id != nil")
	}
}

// isDiscardProvider: func(cb func(io.Writer)) { cb(io.Discard) }
func (c *Ctx) isDiscardProvider(fn *ssa.Function) bool {
	fn = c.P.unbound(fn) // a method value (sc.discardWriter): the method itself, whose last parameter is the callback
	np := len(fn.Params)
	if np != 1 && !(np == 2 && fn.Signature.Recv() != nil) {
		return false
	}
	res := false
	allInstrs(fn, func(in ssa.Instruction) {
		ci, ok := in.(*ssa.Call)
		if !ok || ci.Common().Value != ssa.Value(fn.Params[np-1]) || len(ci.Common().Args) != 1 {
			return
		}
		if ld, ok := ci.Common().Args[0].(*ssa.UnOp); ok && ld.Op == token.MUL {
			if g, ok := ld.X.(*ssa.Global); ok && g.Pkg.Pkg.Path() == "io" && g.Name() == "Discard" {
				res = true
			}
		}
	})
	return res
}

// idNilTestFrame: `<frame or request>.ID ==/!= nil`
func (c *Ctx) idNilTestFrame(v ssa.Value) (isTest, nonNilWhenTrue bool) {
	bo, ok := v.(*ssa.BinOp)
	if !ok || (bo.Op != token.NEQ && bo.Op != token.EQL) {
		return false, false
	}
	var other ssa.Value
	if isNilConst(bo.Y) {
		other = bo.X
	} else if isNilConst(bo.X) {
		other = bo.Y
	} else {
		return false, false
	}
	frameID := (*types.Var)(nil)
	if c.R.TFrame != nil {
		frameID = respFieldByTag(c.R.TFrame, "id")
	}
	isID := func(a apath) bool {
		return (c.R.FReqID != nil && a.through(c.R.FReqID)) || (frameID != nil && a.through(frameID))
	}
	if c.allOrigins(other, isID) {
		return true, bo.Op == token.NEQ
	}
	return false, false
}

// registrarRule: after a successful channel registration (the forwarder announces the channel) no other reply is emitted.
func (c *Ctx) registrarRule(rule string) {
	r := c.R
	d := r.FnDisp
	if d == nil {
		c.und(rule, "dispatcher", "-", "not resolved")
		return
	}
	isReply := func(in ssa.Instruction) bool { return c.isErrFnCall(in) || c.isSuccessEmit(in) }
	RULE := rule
	n := 0
	// channel registrar: success edge must not reach a reply
	c.P.coneInstrs(d, func(in ssa.Instruction) {
		if !c.isChanRegistrarCall(in) {
			return
		}
		n++
		call := in.(*ssa.Call)
		construct := fmt.Sprintf("%s: channel registration", fname(in.Parent()))
		var okBranch *ssa.BasicBlock
		for _, ref := range transitiveUses(call) {
			bo, ok := ref.(*ssa.BinOp)
			if !ok || (bo.Op != token.EQL && bo.Op != token.NEQ) || !(isNilConst(bo.X) || isNilConst(bo.Y)) {
				continue
			}
			for _, r2 := range *bo.Referrers() {
				if iff, ok := r2.(*ssa.If); ok {
					if bo.Op == token.EQL {
						okBranch = iff.Block().Succs[0]
					} else {
						okBranch = iff.Block().Succs[1]
					}
				}
			}
		}
		if okBranch == nil {
			c.bad(RULE, construct, c.ipos(call), "the registrar's error is not tested: a channel result is announced by the forwarder and answered again here")
			return
		}
		if w := reachFromBlockUp(okBranch, isReply, nil); w != nil {
			c.bad(RULE, construct, c.ipos(w), "after a successful channel registration (the forwarder sends the response) a second reply is emitted")
		} else {
			c.ok(RULE, construct, c.ipos(call), "success path returns without another reply")
		}
	})
	if n == 0 {
		c.bad(rule, fmt.Sprintf("%s: channel registration", fname(d)), c.P.pos(d.Pos()), "channel results are no longer handed to the forwarding goroutine")
	}
}

// isLockedWriterProvider: a writer provider (takes the element-writer callback) that obtains the
// WebSocket message writer: its call cone calls NextWriter on the socket. (That this happens under
// the write lock is R14.1's obligation at that call.)
func (c *Ctx) isLockedWriterProvider(fn *ssa.Function) bool {
	if fn == nil || len(fn.Params) == 0 || !isWriterCallbackType(fn.Params[len(fn.Params)-1].Type()) {
		return false
	}
	found := false
	c.P.coneInstrs(fn, func(in ssa.Instruction) {
		if c.isSocketNextWriter(in) {
			found = true
		}
	})
	return found
}

func (c *Ctx) isSocketNextWriter(in ssa.Instruction) bool {
	ci, ok := in.(ssa.CallInstruction)
	return ok && strings.HasPrefix(calleeName(ci), "(*"+gorilla+".Conn).") && methodOf(ci) == "NextWriter"
}

// valueSites: the places where the value used at `at` is decided, one per calling context: if it is a
// parameter of the enclosing function, the arguments at its synchronous call sites; if it is a result of
// a tree helper, what that helper returns at each of its returns (recursively, bounded).
func (c *Ctx) valueSites(at ssa.Instruction, v ssa.Value, depth int) []siteVal {
	p := c.P
	if depth > 4 {
		return []siteVal{{At: at, Val: v}}
	}
	v = blockLocalValue(v)
	switch x := stripConvInt(v).(type) {
	case *ssa.Parameter:
		fn := x.Parent()
		idx := -1
		for i, q := range fn.Params {
			if q == x {
				idx = i
			}
		}
		var sites []ssa.CallInstruction
		for _, s := range p.callers[fn] {
			sites = append(sites, s)
		}
		if idx >= 0 && len(sites) > 0 && !p.asyncValueUsed(fn) {
			var out []siteVal
			for _, s := range sites {
				if idx < len(s.Common().Args) {
					out = append(out, c.valueSites(s, s.Common().Args[idx], depth+1)...)
				}
			}
			return out
		}
	case *ssa.Extract:
		if call, ok := x.Tuple.(*ssa.Call); ok {
			if g := p.unbound(staticCallee(call)); g != nil && p.allFns[g] && len(g.Blocks) > 0 {
				var out []siteVal
				allInstrsRaw(g, func(in ssa.Instruction) {
					if rt, ok := in.(*ssa.Return); ok && x.Index < len(rt.Results) {
						out = append(out, c.valueSites(rt, rt.Results[x.Index], depth+1)...)
					}
				})
				if len(out) > 0 {
					return out
				}
			}
		}
	case *ssa.Phi:
		var out []siteVal
		for i, e := range x.Edges {
			pred := x.Block().Preds[i]
			out = append(out, c.valueSites(pred.Instrs[len(pred.Instrs)-1], e, depth+1)...)
		}
		return out
	}
	return []siteVal{{At: at, Val: v}}
}

// callbackAlwaysWrites: R09.14. Writer providers (func(func(io.Writer))) frame their output at
// the moment the callback is invoked: the batch provider writes "[" or "," first, the WebSocket
// provider opens a message. A callback that can return without writing (an error emitter that
// decides, inside the callback, not to answer notifications) leaves "[," / ",]" in a batch or an empty
// message on the socket. Callbacks that only publish the writer (the lazy writer) are not judged here.
func (c *Ctx) callbackAlwaysWrites(rule string) {
	p := c.P
	seen := map[*ssa.Function]bool{}
	n := 0
	for _, fn := range p.Funcs {
		if pkgOf(fn) != p.Root.Pkg {
			continue
		}
		allInstrsRaw(fn, func(in ssa.Instruction) {
			ci, ok := in.(ssa.CallInstruction)
			if !ok || ci.Common().IsInvoke() || len(ci.Common().Args) == 0 {
				return
			}
			var cbArg ssa.Value
			if isWriterProviderType(ci.Common().Value.Type()) && len(ci.Common().Args) == 1 {
				cbArg = ci.Common().Args[0]
			} else if c.isSuccessEmit(in) {
				cbArg = ci.Common().Args[1]
			} else {
				return
			}
			if os.Getenv("JRP_DEBUG") == "cbw" {
				fmt.Fprintf(os.Stderr, "cbw: site %s funcs=%d\n", c.ipos(in), len(c.funcsOf(cbArg)))
			}
			for _, cb := range c.funcsOf(cbArg) {
				if seen[cb] || len(cb.Params) == 0 || len(cb.Blocks) == 0 {
					continue
				}
				seen[cb] = true
				var w ssa.Value = cb.Params[len(cb.Params)-1]
				if !isNamed(w.Type(), "io", "Writer") {
					continue
				}
				fromW := func(v ssa.Value) bool {
					return c.dependsOn(v, func(x ssa.Value) bool { return x == w }, 0, map[ssa.Value]bool{})
				}
				publishes := false
				isWrite := func(x ssa.Instruction) bool {
					cx, ok := x.(ssa.CallInstruction)
					if !ok {
						return false
					}
					if cx.Common().IsInvoke() && fromW(cx.Common().Value) {
						return true
					}
					// the attempt to encode the reply counts: when encoding fails there is nothing to write
					switch calleeName(cx) {
					case "encoding/json.Marshal", "encoding/json.MarshalIndent", "(*encoding/json.Encoder).Encode":
						return true
					}
					for _, a := range cx.Common().Args {
						if (isNamed(a.Type(), "io", "Writer") || isNamed(a.Type(), "io", "WriteCloser")) && fromW(a) {
							return true
						}
					}
					return false
				}
				allInstrsRaw(cb, func(x ssa.Instruction) {
					if st, ok := x.(*ssa.Store); ok && isNamed(st.Val.Type(), "io", "Writer") && fromW(st.Val) {
						if _, isLocal := st.Addr.(*ssa.Alloc); !isLocal {
							publishes = true
						}
					}
				})
				if publishes {
					continue
				}
				n++
				construct := fmt.Sprintf("%s: writer callback", fname(cb))
				ret := reachFromEntry(cb, isReturn, isWrite)
				c.check(ret == nil, rule, construct, p.pos(cb.Pos()), "writes on every path", "this callback can return without writing although its provider has already framed the output (\"[\" or \",\" of a batch, an opened WebSocket message): a batch with a failing notification becomes [,{…}] or [{…},], which is not JSON")
			}
		})
	}
	if n == 0 {
		c.und(rule, "writer callbacks", "-", "none found")
	}
}

// decodedBeforeDispatch: R09.16. Wherever the dispatcher is called synchronously (the reader path of
// the HTTP / custom transport), no decode into a request (or a list of requests) is reachable after
// the call: a batch is decoded as a whole, then dispatched. Decoding element by element and dispatching
// each at once runs the handlers of the leading elements of a body that turns out to be malformed,
// and answers with an array instead of the single -32700 object.
func (c *Ctx) decodedBeforeDispatch(rule string) {
	p, r := c.P, c.R
	if r.FnDisp == nil || r.TReq == nil {
		c.und(rule, "dispatcher / request type", "-", "not resolved")
		return
	}
	isReqDecode := func(in ssa.Instruction) bool {
		ci, ok := in.(ssa.CallInstruction)
		if !ok {
			return false
		}
		t := decodeTarget(ci)
		if t == nil {
			return false
		}
		pt, ok := t.Type().Underlying().(*types.Pointer)
		if !ok {
			return false
		}
		e := pt.Elem()
		if sl, ok := e.Underlying().(*types.Slice); ok {
			e = sl.Elem()
		}
		return e == types.Type(r.TReq)
	}
	n := 0
	for _, call := range p.syncCallers(r.FnDisp) {
		fn := call.Parent()
		has := false
		p.coneInstrs(outermost(fn), func(in ssa.Instruction) {
			if isReqDecode(in) {
				has = true
			}
		})
		if !has {
			continue
		}
		n++
		construct := fmt.Sprintf("%s: requests are decoded before the first one is dispatched", fname(fn))
		again := reachFrom(call, isReqDecode, nil)
		c.check(again == nil, rule, construct, c.ipos(call), "no request decode reachable after the dispatch",
			"after a request was dispatched another request can still be decoded from the same body (element-by-element decoding of a batch): when a later element is malformed the handlers of the earlier ones have already run and the reply is an array containing a -32700 element instead of the single -32700 object")
	}
	if n == 0 {
		c.ok(rule, "synchronous dispatch", "-", "no function both decodes requests and dispatches them synchronously")
	}
}

// batchListReadOnly: R09.17. The local a batch is decoded into ([]request) is, apart from the decode
// itself, only measured (len), ranged over and indexed for reading. In-place helpers of the slices /
// sort packages compact or reorder the very array the dispatch loop then walks (DeleteFunc also zeroes
// the tail): notifications vanish, and zeroed elements are answered with "method ” not found".
func (c *Ctx) batchListReadOnly(rule string) {
	p, r := c.P, c.R
	if r.TReq == nil {
		c.und(rule, "request type", "-", "not resolved")
		return
	}
	n := 0
	for _, fn := range p.Funcs {
		if pkgOf(fn) != p.Root.Pkg {
			continue
		}
		for al, dec := range decodedAllocs(fn) {
			sl, ok := al.Type().Underlying().(*types.Pointer).Elem().Underlying().(*types.Slice)
			if !ok || sl.Elem() != types.Type(r.TReq) {
				continue
			}
			n++
			construct := fmt.Sprintf("%s: decoded batch is only read", fname(fn))
			var bad ssa.Instruction
			var visit func(v ssa.Value, d int)
			seen := map[ssa.Value]bool{}
			visit = func(v ssa.Value, d int) {
				if v == nil || seen[v] || d > 6 || v.Referrers() == nil {
					return
				}
				seen[v] = true
				for _, ref := range *v.Referrers() {
					switch x := ref.(type) {
					case *ssa.UnOp, *ssa.Slice, *ssa.Phi, *ssa.ChangeType:
						visit(x.(ssa.Value), d+1)
					case *ssa.IndexAddr:
						// element stores
						for _, r2 := range *x.Referrers() {
							if st, ok := r2.(*ssa.Store); ok && st.Addr == ssa.Value(x) {
								bad = st
							}
						}
					case *ssa.Store:
						if x.Addr == v && x != nil {
							if _, isAlloc := v.(*ssa.Alloc); isAlloc {
								// reqs = something: fine only for the zero/initial store
								if _, isConst := x.Val.(*ssa.Const); !isConst {
									bad = x
								}
							}
						}
					case ssa.CallInstruction:
						if x == dec {
							continue
						}
						if b, ok := x.Common().Value.(*ssa.Builtin); ok {
							switch b.Name() {
							case "len", "cap":
								continue
							}
							bad = x // append / copy / clear
							continue
						}
						if _, isAlloc := v.(*ssa.Alloc); isAlloc {
							bad = x // the variable's address handed to something else than the decoder
							continue
						}
						if g := staticCallee(x); g != nil && p.allFns[g] {
							continue // a helper of the library: judged by its own rules
						}
						bad = x
					}
				}
			}
			visit(al, 0)
			if bad != nil {
				c.bad(rule, construct, c.ipos(bad), "the decoded batch is handed to code that can rearrange or overwrite it in place (e.g. slices.DeleteFunc to count the calls): the dispatch loop then walks a compacted array with a zeroed tail — notifications are lost and the reply contains answers to requests nobody sent")
			} else {
				c.ok(rule, construct, c.ipos(dec), "len / range / index reads only")
			}
		}
	}
	if n == 0 {
		c.ok(rule, "decoded batch", "-", "no local list of requests is filled by a decode")
	}
}

// isJSONDecodeErr: v is the error of a JSON decode of the envelope: the result of (*json.Decoder).Decode /
// json.Unmarshal, or the error result of a (possibly generic) helper every return of which hands back such
// an error at that position.
func (c *Ctx) isJSONDecodeErr(v ssa.Value, depth int) bool {
	if depth > 3 {
		return false
	}
	var call *ssa.Call
	idx := 0
	switch x := v.(type) {
	case *ssa.Call:
		call = x
	case *ssa.Extract:
		call, _ = x.Tuple.(*ssa.Call)
		idx = x.Index
	}
	if call == nil {
		return false
	}
	switch calleeName(call) {
	case "(*encoding/json.Decoder).Decode", "encoding/json.Unmarshal":
		return true
	}
	g := staticCallee(call)
	if g == nil || !c.P.allFns[g] {
		return false
	}
	found, all := false, true
	allInstrs(g, func(y ssa.Instruction) {
		rt, ok := y.(*ssa.Return)
		if !ok || idx >= len(rt.Results) {
			return
		}
		var lv []ssa.Value
		leaves(rt.Results[idx], map[ssa.Value]bool{}, &lv)
		for _, l := range lv {
			if isNilConst(l) {
				continue
			}
			if c.isJSONDecodeErr(l, depth+1) {
				found = true
			} else {
				all = false
			}
		}
	})
	return found && all
}

// errorEmitterAlwaysEmits: R09.20. Callers of the error-reply function have already decided that this
// request gets an error reply, and where it goes: notifications are given the discarding provider. A guard
// inside the function that returns without invoking the provider — "no id and a method: a notification,
// nothing to say" — is wrong for the request whose id was of a forbidden type: the rejection path has set
// the id to nil before calling. Such a request, single or batch element, then gets no reply at all.
func (c *Ctx) errorEmitterAlwaysEmits(rule string) {
	p, r := c.P, c.R
	if r.TErrFn == nil {
		c.und(rule, "role:T_errfn", "-", "error-reply function type not resolved")
		return
	}
	n := 0
	for _, fn := range p.Funcs {
		if pkgOf(fn) != p.Root.Pkg || fn.Parent() != nil || len(fn.Blocks) == 0 || len(fn.Params) == 0 {
			continue
		}
		if !types.Identical(fn.Signature, r.TErrFn.Underlying()) {
			continue
		}
		n++
		prov := fn.Params[0]
		invokes := func(in ssa.Instruction) bool {
			ci, ok := in.(ssa.CallInstruction)
			return ok && !ci.Common().IsInvoke() && ci.Common().Value == ssa.Value(prov)
		}
		construct := fmt.Sprintf("%s: the provider is invoked on every path", fname(fn))
		if ret := reachFromEntry(fn, isReturn, invokes); ret != nil {
			c.bad(rule, construct, c.ipos(ret), "the error-reply function can return without invoking the writer provider: a request that was to be answered with an error (one whose id is of a forbidden type has had its id cleared by then) gets no reply — an empty body, or a batch with an element missing")
		} else {
			c.ok(rule, construct, p.pos(fn.Pos()), "invoked before every return")
		}
	}
	if n == 0 {
		c.und(rule, "error-reply function", "-", "no function of the error-reply type found")
	}
}

// literalFieldOfArg: the argument is a struct value built by a composite literal right there; the value
// stored into its (single) field whose type satisfies pred.
func literalFieldOfArg(a ssa.Value, pred func(types.Type) bool) ssa.Value {
	ld, ok := a.(*ssa.UnOp)
	if !ok || ld.Op != token.MUL {
		return nil
	}
	al, ok := ld.X.(*ssa.Alloc)
	if !ok || al.Referrers() == nil {
		return nil
	}
	if _, isStruct := al.Type().Underlying().(*types.Pointer).Elem().Underlying().(*types.Struct); !isStruct {
		return nil
	}
	var out ssa.Value
	for _, ref := range *al.Referrers() {
		fa, ok := ref.(*ssa.FieldAddr)
		if !ok || fa.Referrers() == nil || !pred(fieldOfAddr(fa).Type()) {
			continue
		}
		for _, r2 := range *fa.Referrers() {
			if st, ok := r2.(*ssa.Store); ok && st.Addr == ssa.Value(fa) {
				out = st.Val
			}
		}
	}
	return out
}
