package main

import (
	"fmt"
	"go/token"
	"go/types"
	"strings"

	"golang.org/x/tools/go/ssa"
)

func init() {
	register(&propInfo{
		ID:          "C17",
		Explanation: "Path analysis of the keepalive mechanism: (R17.1) every blocking read of the socket is preceded, in the same function, by renewing the read deadline from the configured timeout; (R17.2) both the pong handler and the ping handler installed on the socket signal peer activity to the connection loop with a non-blocking send (this is what also re-arms the loop's idle timer), and the loop's activity arm renews the read deadline; (R17.3) the ping sender is a goroutine that, in a loop paced by the configured ping interval, writes a ping under the write lock and stops on its stop signal; (R17.4) keepalive (handlers + ping sender) is installed in the loop's prologue and again after every socket swap; (R17.5) the read deadline is renewed only on evidence of inbound activity — never on writes or on every loop iteration — so a silent peer is noticed while the client keeps sending; (R17.6) the ping interval and timeout options reach the connection object. (R17.8) the renewal really sets the deadline whenever a timeout is configured; (R17.9) a write deadline put on the socket is lifted before the writer unlocks or returns. R17.3 also: every tick of the ping timer writes a ping; (R17.10) a pong-less ping handler is installed only on a side that sends pings. (R17.11) the peer-activity channel is signalled only inside the pong/ping handlers; (R17.12) the client-side stream buffer always takes from its intake. (R17.13) the ping sender's stop signal is made per installation; (R17.14) a deadline on the dial is created per dial. (R17.15) every socket write is bounded: it is preceded, on every path on which a timeout is configured, by a SetWriteDeadline of a non-zero time that is not lifted again (searched through helpers and callers); WriteControl must be handed a non-zero deadline. The loop writes requests itself and takes the write lock in its dead-peer and stop arms, so an unbounded write parked on a silent peer blocks calls, detection and closer. (R17.16) the ping/pong handlers take no mutex and write no message.",
		NotDecided:  "Any time bound (how long detection takes, that ping interval < timeout/2 suffices), gorilla's delivery of control frames, timer arithmetic of the idle timer.",
		Assumptions: []string{"gorilla/websocket invokes the registered ping/pong handlers from the reading goroutine when such control frames arrive", "websocket.PingMessage == 9"},
		Run:         runC17,
	})
}

func runC17(c *Ctx) {
	p, r := c.P, c.R
	w := c.ws()
	c.rule("R17.1", "every blocking socket read is preceded by renewing the read deadline")
	c.rule("R17.8", "the deadline renewal really sets the deadline whenever a timeout is configured")
	c.renewalUnconditional("R17.8")
	c.rule("R17.10", "a side that replaces gorilla's ping handler (which answers with a pong) by one that does not answer sends pings itself: the replacement is installed only when a ping interval is configured")
	c.pingHandlerNeedsPinger("R17.10")
	c.ruleOpt("R17.14", "every redial gets a fresh chance: a deadline on the dial is created per dial, inside the dial function — not once, outside it, where it has long expired when the link fails late in the client's life")
	c.dialDeadlinePerDial("R17.14")
	c.ruleOpt("R17.13", "the ping sender started for a (re)connected socket has a stop signal of its own: stopping the previous sender does not stop it")
	c.rule("R17.12", "a subscriber that stops reading never back-pressures the socket reader (frames behind the stalled stream — the peer's pings among them — must still be read): the client-side buffer always takes from its intake")
	c.decouplingRule("R17.12")
	c.rule("R17.11", "the dead-connection detectors are fed only by frames of the peer: the peer-activity channel is signalled only inside the pong/ping handlers")
	c.activityOnlyFromPeer("R17.11")
	c.ruleOpt("R17.9", "a write deadline put on the socket is lifted again before the writer returns (gorilla keeps it for every later frame)")
	c.stickyWriteDeadline("R17.9")
	c.rule("R17.15", "every socket write is bounded: a write deadline is set, on every path on which a timeout is configured, before each message or control frame is written (a silent peer with a full window otherwise parks the writer, and with it the dead-peer detection, for ever)")
	c.boundedSocketWrites("R17.15")
	c.rule("R17.16", "a silent peer is noticed whatever the write side is doing: the ping / pong handlers run on the socket reader and take no mutex and write no message")
	c.controlHandlersDoNotLock("R17.16")
	c.rule("R17.2", "pong and ping handlers signal peer activity with a non-blocking send; the activity arm renews the read deadline")
	c.rule("R17.3", "the ping sender loops on the configured interval, writes pings under the write lock and honours its stop signal")
	c.rule("R17.4", "keepalive is installed in the loop prologue and after every socket swap")
	c.rule("R17.5", "the read deadline is renewed only on evidence of inbound activity")
	c.rule("R17.6", "ping interval and timeout options reach the connection object")

	// ---- R17.1
	if c.needWS("R17.1", "reader", w.Reader) && c.needWS("R17.1", "resetDeadline", w.ResetDL) {
		n := 0
		for _, ci := range gorillaConnCalls(p) {
			if methodOf(ci) != "NextReader" && methodOf(ci) != "ReadMessage" && methodOf(ci) != "ReadJSON" {
				continue
			}
			n++
			fn := ci.Parent()
			construct := fmt.Sprintf("%s: blocking socket read", fname(fn))
			c.check(mustPrecede(fn, func(in ssa.Instruction) bool { return isCallTo(in, w.ResetDL) }, ci), "R17.1", construct, c.ipos(ci), "deadline renewed first",
				"a blocking read can start without a fresh read deadline: either the stale deadline kills a healthy idle link, or (first read) no deadline is armed and a silent peer is never noticed")
		}
		if n == 0 {
			c.und("R17.1", "blocking socket read", "-", "none found")
		}
		// the renewal uses the configured timeout and is skipped only when it is zero
		usesTimeout := false
		allInstrs(w.ResetDL, func(in ssa.Instruction) {
			if ci, ok := in.(*ssa.Call); ok && calleeName(ci) == "(time.Time).Add" && valueMentionsField(ci.Common().Args[1], r.FTimeout, 4) {
				usesTimeout = true
			}
		})
		c.check(usesTimeout, "R17.1", fmt.Sprintf("%s: deadline = now + configured timeout", fname(w.ResetDL)), p.pos(w.ResetDL.Pos()), "uses the timeout field", "the read deadline is not computed from the configured timeout")
	}

	// ---- R17.2
	c.activitySignalRule("R17.2")

	// ---- R17.3
	if w.SetupPings != nil {
		var pinger *ssa.Function
		var pingWrite ssa.Instruction
		for _, g := range p.Funcs {
			if !c.spawnedAsGoroutine(g) {
				continue
			}
			allInstrs(g, func(in ssa.Instruction) {
				if c.isPingWrite(in, map[*ssa.Function]bool{}) {
					pinger, pingWrite = g, in
				}
			})
		}
		if pinger == nil {
			for _, g := range p.Funcs {
				allInstrs(g, func(in ssa.Instruction) {
					if c.isPingWrite(in, map[*ssa.Function]bool{}) && pinger == nil {
						pinger, pingWrite = g, in
					}
				})
			}
		}
		construct := "ping sender"
		if pinger == nil {
			c.bad("R17.3", construct, p.pos(w.SetupPings.Pos()), "no ping is ever written")
		} else {
			okAll := true
			if !inLoop(pingWrite.Block()) {
				okAll = false
				c.bad("R17.3", construct, c.ipos(pingWrite), "the ping is written once, not periodically")
			}
			if !c.spawnedAsGoroutine(pinger) {
				okAll = false
				c.bad("R17.3", construct, p.pos(pinger.Pos()), "the ping sender does not run on its own goroutine")
			}
			// paced by the interval: a time.After/ticker fed by the ping interval field in the same loop
			paced := false
			allInstrs(pinger, func(in ssa.Instruction) {
				if ci, ok := in.(*ssa.Call); ok {
					n := calleeName(ci)
					if (n == "time.After" || n == "time.NewTicker" || n == "time.Tick" || n == "time.NewTimer") && valueMentionsField(ci.Common().Args[0], r.FPingIv, 4) {
						paced = true
					}
				}
			})
			for _, g := range withAnon(outermost(pinger)) {
				if g == pinger {
					continue
				}
				allInstrs(g, func(in ssa.Instruction) {
					if ci, ok := in.(*ssa.Call); ok {
						n := calleeName(ci)
						if (n == "time.NewTicker" || n == "time.Tick") && valueMentionsField(ci.Common().Args[0], r.FPingIv, 4) {
							paced = true
						}
					}
				})
			}
			if !paced {
				okAll = false
				c.bad("R17.3", construct, p.pos(pinger.Pos()), "the ping loop is not paced by the configured ping interval")
			}
			// stop arm returns
			stops := false
			allInstrs(pinger, func(in ssa.Instruction) {
				if sel, ok := in.(*ssa.Select); ok {
					arms, _ := selectArms(sel)
					for _, a := range arms {
						if a.State.Dir == types.RecvOnly && a.Body != nil {
							if ch, ok := a.State.Chan.Type().Underlying().(*types.Chan); ok && isEmptyStruct(ch.Elem()) {
								if reachFromBlock(a.Body, func(x ssa.Instruction) bool { return x == pingWrite }, isReturn) == nil {
									stops = true
								}
							}
						}
					}
				}
			})
			if !stops {
				okAll = false
				c.bad("R17.3", construct, p.pos(pinger.Pos()), "the ping loop has no stop arm that ends it: ping goroutines pile up across reconnects")
			}
			// R17.13: the stop signal belongs to this installation of the keepalive
			allInstrs(pinger, func(in ssa.Instruction) {
				sel, ok := in.(*ssa.Select)
				if !ok {
					return
				}
				for _, st := range sel.States {
					ch, ok := st.Chan.Type().Underlying().(*types.Chan)
					if st.Dir != types.RecvOnly || !ok || !isEmptyStruct(ch.Elem()) {
						continue
					}
					shared := false
					var look func(v ssa.Value, d int)
					look = func(v ssa.Value, d int) {
						if d > 3 {
							return
						}
						for _, o := range c.origins(v) {
							for _, f := range append(append([]*types.Var{}, o.Fields...), o.Via...) {
								if st := structOf(r.TConn); st != nil {
									for i := 0; i < st.NumFields(); i++ {
										if st.Field(i) == f {
											shared = true // kept in the connection object, which outlives any one installation
										}
									}
								}
							}
							if call, ok := o.Root.(*ssa.Call); ok && call.Common().IsInvoke() && call.Common().Method.Name() == "Done" {
								look(call.Common().Value, d+1)
							}
						}
					}
					look(st.Chan, 0)
					c.check(!shared, "R17.13", "ping sender: stop signal", c.ipos(sel), "made for this installation of the keepalive", "the ping sender's stop signal is read from a field of the connection (one context or channel for the connection's whole life): stopping the old sender before a reconnect stops every later one too, so after the first reconnect this side sends no pings and a peer that sends none of its own sees the healthy link as dead")
				}
			})
			// every tick sends a ping: from the timer arm the next wait is not reached without the ping write.
			// Our pings are the peer's only sign of life (it gets no pongs from us), so a tick skipped because
			// "we have just heard from the peer" starves a peer that is only receiving.
			isPing := func(x ssa.Instruction) bool { return x == pingWrite }
			allInstrs(pinger, func(in ssa.Instruction) {
				switch x := in.(type) {
				case *ssa.Select:
					arms, _ := selectArms(x)
					for _, a := range arms {
						if a.State.Dir != types.RecvOnly || a.Body == nil {
							continue
						}
						if ch, ok := a.State.Chan.Type().Underlying().(*types.Chan); !ok || !isNamed(ch.Elem(), "time", "Time") {
							continue
						}
						if wv := reachFromBlock(a.Body, func(y ssa.Instruction) bool { return y == in }, func(y ssa.Instruction) bool { return isPing(y) || isReturn(y) }); wv != nil {
							okAll = false
							c.bad("R17.3", construct, c.ipos(a.Body.Instrs[0]), "a tick of the ping timer can pass without a ping being written (e.g. skipped because a message was received recently): the peer, which only ever sees our pings as a sign of life, times out on a healthy link under one-way traffic")
						}
					}
				case *ssa.UnOp:
					if x.Op != token.ARROW {
						return
					}
					if ch, ok := x.X.Type().Underlying().(*types.Chan); !ok || !isNamed(ch.Elem(), "time", "Time") {
						return
					}
					if wv := reachFrom(in, func(y ssa.Instruction) bool { return y == in }, func(y ssa.Instruction) bool { return isPing(y) || isReturn(y) }); wv != nil {
						okAll = false
						c.bad("R17.3", construct, c.ipos(in), "a tick of the ping timer can pass without a ping being written: the peer times out on a healthy link under one-way traffic")
					}
				}
			})
			if okAll {
				c.ok("R17.3", construct, c.ipos(pingWrite), "goroutine, loop paced by the ping interval, stop arm returns (write lock: C14 R14.1)")
			}
		}
	}

	// ---- R17.4
	if r.FnLoop != nil {
		construct := fmt.Sprintf("%s: keepalive installed before the loop", fname(r.FnLoop))
		installed := false
		allInstrs(r.FnLoop, func(in ssa.Instruction) {
			ci, ok := in.(*ssa.Call)
			if !ok {
				return
			}
			f := staticCallee(ci)
			if f == nil || !p.allFns[f] {
				return
			}
			pong, ping := c.installsHandlers(f, map[*ssa.Function]bool{})
			if pong && ping && c.startsPinger(f, map[*ssa.Function]bool{}) && w.LoopSelect != nil &&
				mustPrecede(r.FnLoop, func(x ssa.Instruction) bool { return x == in }, w.LoopSelect) {
				installed = true
			}
		})
		c.check(installed, "R17.4", construct, p.pos(r.FnLoop.Pos()), "handlers and ping sender set up on every path to the loop", "handlers and ping sender are not (all) set up before the loop starts serving")
		// after every swap
		for _, u := range usesOfKind(p.uses(r.FSock), "store") {
			if c.isConstruction(u) {
				continue
			}
			cons := fmt.Sprintf("%s: keepalive re-installed after the socket swap", fname(u.Fn))
			is := func(in ssa.Instruction) bool {
				ci, ok := in.(*ssa.Call)
				if !ok {
					return false
				}
				f := staticCallee(ci)
				if f == nil || !p.allFns[f] {
					return false
				}
				pong, ping := c.installsHandlers(f, map[*ssa.Function]bool{})
				return pong && ping && c.startsPinger(f, map[*ssa.Function]bool{})
			}
			if ret := mustFollowFrom(u.At, is); ret != nil {
				c.bad("R17.4", cons, c.ipos(ret), "after a reconnect the new socket has no ping/pong handlers or no ping sender: the healed link is closed at every timeout or silent peers go unnoticed")
			} else {
				c.ok("R17.4", cons, c.ipos(u.At), "on every path after the swap")
			}
		}
		// ping interval zero disables keepalive consistently: nothing to check
	}

	// ---- R17.5
	c.deadlineRenewalRule("R17.5")
	c.rule("R17.7", "when a loss is detected (also mid-frame), pending calls are failed and sinks closed before reconnecting")
	c.cleanupBeforeRedial("R17.7")

	// ---- R17.6
	for _, f := range []*types.Var{r.FTimeout, r.FPingIv} {
		if f == nil {
			c.und("R17.6", "timeout / ping interval field", "-", "not resolved")
			continue
		}
		construct := fmt.Sprintf("connection field %s is configured", f.Name())
		n, ok := 0, true
		for _, u := range usesOfKind(p.uses(f), "store") {
			n++
			lf := loadedField(u.Val)
			if lf == nil || lf == f || !types.Identical(lf.Type(), f.Type()) {
				ok = false
			}
		}
		// the timeout is set on the client side only; the ping interval on both sides
		want := 1
		if f == r.FPingIv {
			want = 2
		}
		c.check(ok && n >= want, "R17.6", construct, "-", fmt.Sprintf("%d construction site(s) take it from configuration", n),
			"the connection's "+f.Name()+" is not filled from the configured option at every construction site")
	}
}

// activitySignalRule: pong and ping handlers signal peer activity (non-blocking) and the loop's activity arm renews the deadline.
func (c *Ctx) activitySignalRule(rule string) {
	p, r := c.P, c.R
	w := c.ws()
	RULE := rule
	_ = p
	if c.needWS(RULE, "setupPings", w.SetupPings) && c.need(RULE, "F_pongs", r.FPongs != nil) {
		for _, which := range []string{"SetPongHandler", "SetPingHandler"} {
			construct := fmt.Sprintf("%s handler: signals peer activity", which[3:7])
			found := false
			for _, ci := range gorillaConnCalls(p) {
				if methodOf(ci) != which {
					continue
				}
				found = true
				hs := c.funcsOf(ci.Common().Args[1])
				if len(hs) == 0 {
					c.und(RULE, construct, c.ipos(ci), "handler is not a function literal")
					continue
				}
				sig := true
				blocking := false
				for _, h := range hs {
					hsig := false
					p.coneInstrs(h, func(in ssa.Instruction) {
						switch x := in.(type) {
						case *ssa.Select:
							for _, st := range x.States {
								if st.Dir == types.SendOnly && c.fieldVal(st.Chan, r.FPongs) {
									hsig = true
									if x.Blocking {
										blocking = true
									}
								}
							}
						case *ssa.Send:
							if c.fieldVal(x.Chan, r.FPongs) {
								hsig, blocking = true, true
							}
						}
					})
					if !hsig {
						sig = false
					}
				}
				if !sig {
					c.bad(RULE, construct, c.ipos(ci), "the handler does not signal the connection loop: the loop's idle timer is not re-armed by this kind of peer activity and closes a healthy connection (go-jsonrpc peers never answer pings with pongs, so peer pings are the activity signal)")
				} else if blocking {
					c.bad(RULE, construct, c.ipos(ci), "the handler signals with a blocking send from the reader goroutine: when the loop is busy the reader stalls and the link times out")
				} else {
					c.ok(RULE, construct, c.ipos(ci), "non-blocking send on the activity channel")
				}
				// every return of the handler yields nil (a non-nil error aborts the read loop)
			}
			if !found {
				c.bad(RULE, construct, "-", "no "+which+" call: this kind of control frame is no longer treated as activity")
			}
		}
		arm, ok := w.Arms["pongs"]
		construct := fmt.Sprintf("%s: activity arm renews the read deadline", fname(r.FnLoop))
		if !ok || arm.Body == nil {
			c.bad(RULE, construct, "-", "the connection loop has no arm receiving peer-activity signals")
		} else {
			blocks := armBlocks(arm)
			hit := reachFromBlock(arm.Body, func(in ssa.Instruction) bool { return inRegion(blocks, in) && isCallTo(in, w.ResetDL) }, func(in ssa.Instruction) bool { return !inRegion(blocks, in) })
			c.check(hit != nil, RULE, construct, c.ipos(arm.Body.Instrs[0]), "renews the deadline", "peer activity no longer renews the read deadline: calls longer than the timeout fail on a healthy link")
		}
	}

}

// renewalUnconditional: the function that renews the read deadline really sets it whenever a timeout is
// configured: every path from its entry to a return passes SetReadDeadline or takes the "no timeout"
// side of a test of the timeout value. A renewal that can be skipped for another reason (a coalescing
// timestamp kept per connection object, say) leaves a freshly dialled socket without any deadline, and a
// peer that then goes silent is never noticed.
func (c *Ctx) renewalUnconditional(rule string) {
	p := c.P
	w := c.ws()
	if w.ResetDL == nil {
		c.und(rule, "read-deadline renewal function", "-", "not resolved")
		return
	}
	fn := w.ResetDL
	isSet := func(in ssa.Instruction) bool {
		ci, ok := in.(ssa.CallInstruction)
		return ok && strings.HasPrefix(calleeName(ci), "(*"+gorilla+".Conn).") && methodOf(ci) == "SetReadDeadline"
	}
	// the timeout: the duration field(s) the deadline is computed from
	timeoutFields := map[*types.Var]bool{}
	allInstrs(fn, func(in ssa.Instruction) {
		if !isSet(in) {
			return
		}
		args := in.(ssa.CallInstruction).Common().Args
		c.dependsOn(args[len(args)-1], func(v ssa.Value) bool {
			if f := loadedField(v); f != nil && isNamed(f.Type(), "time", "Duration") {
				timeoutFields[f] = true
			}
			return false
		}, 0, map[ssa.Value]bool{})
	})
	isDuration := func(v ssa.Value) bool {
		if !isNamed(v.Type(), "time", "Duration") {
			return false
		}
		if len(timeoutFields) == 0 {
			return true
		}
		f := loadedField(v)
		return f != nil && timeoutFields[f]
	}
	// edges on which the timeout is known to be <= 0 (no timeout configured)
	noTimeoutEdge := func(b *ssa.BasicBlock, k int) bool {
		iff, ok := b.Instrs[len(b.Instrs)-1].(*ssa.If)
		if !ok {
			return true
		}
		bo, ok := curFacts.aliasOf(iff.Cond).(*ssa.BinOp)
		if !ok {
			return true
		}
		op, L, R := bo.Op, bo.X, bo.Y
		if !isDuration(L) && isDuration(R) {
			op, L, R = flip(op), R, L
		}
		if !isDuration(L) {
			return true
		}
		kst, isK := constInt(stripConvInt(R))
		if !isK || kst != 0 {
			return true
		}
		if k == 1 {
			op = negate(op)
		}
		// taken edge says: L op 0
		if op == token.LEQ || op == token.EQL || op == token.LSS {
			return false // "no timeout" side: nothing to renew, a legitimate skip
		}
		return true
	}
	construct := fmt.Sprintf("%s: renewal happens whenever a timeout is configured", fname(fn))
	s := newIPSearch(isReturn, isSet)
	s.edgeOK = noTimeoutEdge
	s.seen[fmt.Sprintf("%p|", fn.Blocks[0])] = true
	if s.scan(fn.Blocks[0], 0, nil) {
		c.bad(rule, construct, c.ipos(s.found), "the renewal function can return without setting the read deadline although a timeout is configured (e.g. because a deadline was set a moment ago on this connection object): after a reconnect the new socket has no read deadline, and a peer that goes silent before its first message is never noticed")
	} else {
		c.ok(rule, construct, p.pos(fn.Pos()), "SetReadDeadline on every path except 'no timeout'")
	}
}

// stickyWriteDeadline: R17.9. (*websocket.Conn).SetWriteDeadline stores the deadline on the
// connection; it applies to every later frame, not only to the next write. A deadline set for a ping
// ("a ping that cannot be written within two intervals is useless") therefore also bounds a long
// data message written afterwards: once that write lasts longer than the stale deadline allows it
// fails mid-message, gorilla makes the write error permanent, and the link is write-dead although
// pings still arrive — the keepalive itself kills a healthy, merely slow, link. Every non-zero
// deadline must be lifted (SetWriteDeadline of the zero time) on every path before the function
// that set it releases the write lock or returns.
func (c *Ctx) stickyWriteDeadline(rule string) {
	p := c.P
	isSet := func(in ssa.Instruction) (*ssa.Call, bool) {
		ci, ok := in.(*ssa.Call)
		if !ok || calleeName(ci) != "(*"+gorilla+".Conn).SetWriteDeadline" {
			return nil, false
		}
		return ci, true
	}
	isZeroTime := isZeroTimeValue
	lift := func(in ssa.Instruction) bool {
		ci, ok := isSet(in)
		return ok && isZeroTime(ci.Common().Args[1])
	}
	n := 0
	for _, fn := range p.Funcs {
		if pkgOf(fn) != p.Root.Pkg {
			continue
		}
		allInstrs(fn, func(in ssa.Instruction) {
			ci, ok := isSet(in)
			if !ok || isZeroTime(ci.Common().Args[1]) {
				return
			}
			n++
			construct := fmt.Sprintf("%s: write deadline on the socket", fname(fn))
			letGo := func(x ssa.Instruction) bool {
				if isReturn(x) {
					return true
				}
				ci, ok := x.(*ssa.Call)
				return ok && calleeName(ci) == "(*sync.Mutex).Unlock"
			}
			ret := reachFrom(in, letGo, lift)
			if ret != nil && c.everyWriteArmed() {
				c.ok(rule, construct, c.ipos(in), "not lifted, but every socket write of the library sets a fresh deadline of its own first: a stale deadline never applies to a later frame")
				return
			}
			c.check(ret == nil, rule, construct, c.ipos(in), "lifted before the writer lets go of the socket (unlock or return)", "a write deadline is left on the connection: gorilla applies it to every later frame, so a data message whose transmission outlasts it (a large request on a slow link) fails mid-write, the write error is permanent and the link is write-dead while pings still arrive — a healthy connection is lost to the keepalive's own deadline")
		})
	}
	if n == 0 {
		c.ok(rule, "no instance", "-", "the library sets no write deadline")
	}
}

// pingHandlerNeedsPinger: R17.10. The peer's liveness signal is whatever control frame we send it:
// our pings, or the pong gorilla's default ping handler writes in answer to its pings. A custom ping
// handler that does not write a pong silences the second; it may therefore only be installed on a
// side that sends pings of its own, i.e. under "ping interval != 0". Installed unconditionally, a
// server with pings disabled (WithServerPingInterval(0)) gives its clients no sign of life: every call
// or idle gap longer than the client's timeout drops a healthy link.
func (c *Ctx) pingHandlerNeedsPinger(rule string) {
	p, r := c.P, c.R
	if r.FPingIv == nil {
		c.und(rule, "ping interval field", "-", "not resolved")
		return
	}
	n := 0
	for _, ci := range gorillaConnCalls(p) {
		if methodOf(ci) != "SetPingHandler" {
			continue
		}
		n++
		construct := fmt.Sprintf("%s: custom ping handler", fname(ci.Parent()))
		answers := false
		for _, h := range c.funcsOf(ci.Common().Args[1]) {
			p.coneInstrs(h, func(in ssa.Instruction) {
				if x, ok := in.(ssa.CallInstruction); ok && strings.HasPrefix(calleeName(x), "(*"+gorilla+".Conn).") {
					if m := methodOf(x); m == "WriteControl" || m == "WriteMessage" {
						if k, isK := constInt(x.Common().Args[1]); isK && k == 10 {
							answers = true
						}
					}
				}
			})
		}
		if answers {
			c.ok(rule, construct, c.ipos(ci), "the handler answers with a pong itself")
			continue
		}
		guarded := false
		for _, cf := range expandConds(impliedConds(ci.Block())) {
			bo, ok := cf.Cond.(*ssa.BinOp)
			if !ok {
				continue
			}
			x, y, op := bo.X, bo.Y, bo.Op
			if loadedField(stripConvInt(x)) != r.FPingIv {
				x, y, op = y, x, flip(op)
			}
			if loadedField(stripConvInt(x)) != r.FPingIv {
				continue
			}
			if k, isK := constInt(stripConvInt(y)); !isK || k != 0 {
				continue
			}
			if !cf.True {
				op = negate(op)
			}
			if op == token.NEQ || op == token.GTR {
				guarded = true
			}
		}
		c.check(guarded, rule, construct, c.ipos(ci), "installed only when a ping interval is configured", "the pong-less ping handler is installed also when this side sends no pings (ping interval 0): the peer then gets neither pongs nor pings from us, sees no sign of life, and drops the healthy link after its timeout — calls longer than the timeout fail")
	}
	if n == 0 {
		c.ok(rule, "ping handler", "-", "gorilla's default ping handler (answers with a pong) is in place")
	}
}

// activityOnlyFromPeer: the peer-activity channel is signalled only by the handlers gorilla calls
// when a control frame of the peer arrives (pong / ping handler). A token pushed by this side — after
// its own ping went out, say — renews read deadline and idle timer from the client's own writes, which
// succeed into the socket buffer long after the peer has gone: a silently dead link is never detected,
// the loss path never runs, calls stay blocked and streams are never closed.
func (c *Ctx) activityOnlyFromPeer(rule string) {
	p, r := c.P, c.R
	if r.FPongs == nil {
		c.und(rule, "peer-activity channel", "-", "not resolved")
		return
	}
	handlers := map[*ssa.Function]bool{}
	for _, ci := range gorillaConnCalls(p) {
		switch methodOf(ci) {
		case "SetPongHandler", "SetPingHandler":
			for _, h := range c.funcsOf(ci.Common().Args[1]) {
				for _, g := range p.cone(h) {
					handlers[g] = true
				}
			}
		}
	}
	n := 0
	for _, fn := range p.Funcs {
		if pkgOf(fn) != p.Root.Pkg {
			continue
		}
		allInstrsRaw(fn, func(in ssa.Instruction) {
			hit := false
			switch x := in.(type) {
			case *ssa.Select:
				for _, st := range x.States {
					if st.Dir == types.SendOnly && c.fieldVal(st.Chan, r.FPongs) {
						hit = true
					}
				}
			case *ssa.Send:
				hit = c.fieldVal(x.Chan, r.FPongs)
			}
			if !hit {
				return
			}
			n++
			construct := fmt.Sprintf("%s: signal on the peer-activity channel", fname(fn))
			c.check(handlers[fn], rule, construct, c.ipos(in), "inside a pong/ping handler (a frame of the peer arrived)",
				"peer activity is signalled from code that does not run because a frame of the peer arrived (e.g. after this side's own ping was written): the read deadline and the idle timer are then renewed by the client's own writes, so a link that died silently is never detected — calls stay blocked and streams are never closed")
		})
	}
	if n == 0 {
		c.und(rule, "signals on the peer-activity channel", "-", "none found")
	}
}

// dialDeadlinePerDial: R17.14 / R05.13. A context with a deadline that reaches a DialContext call is
// created in the function that dials (per attempt), not captured from outside.
func (c *Ctx) dialDeadlinePerDial(rule string) {
	p := c.P
	n := 0
	for _, fn := range p.Funcs {
		if pkgOf(fn) != p.Root.Pkg {
			continue
		}
		allInstrsRaw(fn, func(in ssa.Instruction) {
			ci, ok := in.(*ssa.Call)
			if !ok || !strings.HasSuffix(calleeName(ci), ".DialContext") || len(ci.Common().Args) < 2 {
				return
			}
			var ctxArg ssa.Value
			for _, a := range ci.Common().Args {
				if isNamed(a.Type(), "context", "Context") {
					ctxArg = a
				}
			}
			if ctxArg == nil {
				return
			}
			n++
			var outside *ssa.Call
			c.dependsOn(ctxArg, func(v ssa.Value) bool {
				call, ok := v.(*ssa.Call)
				if !ok {
					if ex, isEx := v.(*ssa.Extract); isEx {
						call, ok = ex.Tuple.(*ssa.Call)
					}
				}
				if ok {
					switch calleeName(call) {
					case "context.WithTimeout", "context.WithDeadline", "context.WithTimeoutCause", "context.WithDeadlineCause":
						if call.Parent() != fn {
							outside = call
						}
					}
				}
				return false
			}, 0, map[ssa.Value]bool{})
			construct := fmt.Sprintf("%s: deadline of the dial", fname(fn))
			if outside != nil {
				c.bad(rule, construct, c.ipos(outside), "the dial runs under a deadline that was created once, outside the dial function: when the link fails later than that in the client's life every redial fails at once with 'context deadline exceeded' and the connection never comes back")
			} else {
				c.ok(rule, construct, c.ipos(ci), "no deadline from outside the dial function")
			}
		})
	}
	if n == 0 {
		c.ok(rule, "dial", "-", "no DialContext in the library")
	}
}

// isZeroTimeValue: v is the zero time.Time (a nil constant aggregate, or a load of a local that is never stored to).
func isZeroTimeValue(v ssa.Value) bool {
	switch x := v.(type) {
	case *ssa.Const:
		return x.Value == nil
	case *ssa.UnOp:
		if al, ok := x.X.(*ssa.Alloc); ok && x.Op == token.MUL {
			for _, ref := range *al.Referrers() {
				if st, isSt := ref.(*ssa.Store); isSt && st.Addr == al {
					return false
				}
				if _, isCall := ref.(ssa.CallInstruction); isCall {
					return false
				}
			}
			return true
		}
	}
	return false
}

// socketWrites: the gorilla calls that put bytes on the socket and block while the peer does not
// take them: data and control messages written in one call, and the start of a streamed message
// (its Write / Close flush under the deadline in force then).
func socketWrites(p *Prog) []ssa.CallInstruction {
	var out []ssa.CallInstruction
	for _, ci := range gorillaConnCalls(p) {
		if pkgOf(ci.Parent()) != p.Root.Pkg {
			continue
		}
		switch methodOf(ci) {
		case "WriteMessage", "WriteJSON", "WritePreparedMessage", "NextWriter", "WriteControl":
			out = append(out, ci)
		}
	}
	return out
}

// noTimeoutEdgeFilter vetoes the side of a test `timeout <= 0` / `== 0` / `< 0` on which no timeout is
// configured: there is nothing to bound a write with, by configuration.
func (c *Ctx) noTimeoutEdgeFilter() func(*ssa.BasicBlock, int) bool {
	isTimeout := func(v ssa.Value) bool {
		if !isNamed(v.Type(), "time", "Duration") {
			return false
		}
		f := loadedField(v)
		return f != nil && (c.R.FTimeout == nil || f == c.R.FTimeout)
	}
	return func(b *ssa.BasicBlock, k int) bool {
		iff, ok := b.Instrs[len(b.Instrs)-1].(*ssa.If)
		if !ok {
			return true
		}
		bo, ok := curFacts.aliasOf(iff.Cond).(*ssa.BinOp)
		if !ok {
			return true
		}
		op, L, R := bo.Op, bo.X, bo.Y
		if !isTimeout(L) && isTimeout(R) {
			op, L, R = flip(op), R, L
		}
		if !isTimeout(L) {
			return true
		}
		if kst, isK := constInt(stripConvInt(R)); !isK || kst != 0 {
			return true
		}
		if k == 1 {
			op = negate(op)
		}
		return !(op == token.LEQ || op == token.EQL || op == token.LSS)
	}
}

// unboundedWrites lists the socket writes that can start with no write deadline in force although a
// timeout is configured: some path of the writing activity reaches the call without having passed a
// SetWriteDeadline of a non-zero time (also inside a helper, also in the caller before a helper that
// writes), or passes one that lifts the deadline again. WriteControl carries its own deadline argument.
func (c *Ctx) unboundedWrites() (writes []ssa.CallInstruction, bad map[ssa.CallInstruction]string) {
	p := c.P
	bad = map[ssa.CallInstruction]string{}
	isSet := func(in ssa.Instruction) (ssa.CallInstruction, bool) {
		ci, ok := in.(ssa.CallInstruction)
		if !ok || calleeName(ci) != "(*"+gorilla+".Conn).SetWriteDeadline" {
			return nil, false
		}
		return ci, true
	}
	arm := func(in ssa.Instruction) bool {
		ci, ok := isSet(in)
		return ok && !isZeroTimeValue(ci.Common().Args[len(ci.Common().Args)-1])
	}
	filter := c.noTimeoutEdgeFilter()
	writes = socketWrites(p)
	var lifts []ssa.Instruction
	for _, ci := range gorillaConnCalls(p) {
		if x, ok := isSet(ci); ok && isZeroTimeValue(x.Common().Args[len(x.Common().Args)-1]) {
			lifts = append(lifts, ci)
		}
	}
	for _, w := range writes {
		if methodOf(w) == "WriteControl" {
			args := w.Common().Args
			if isZeroTimeValue(args[len(args)-1]) {
				bad[w] = "the control frame is written with the zero time as its deadline, which gorilla takes for 'no deadline'"
			}
			continue
		}
		if !mustPrecedeIPF(w, arm, filter, 0) {
			bad[w] = "some path reaches the write without a write deadline having been set on the socket"
			continue
		}
		for _, l := range lifts {
			if reachFromF(l, func(in ssa.Instruction) bool { return in == ssa.Instruction(w) }, arm, filter) != nil {
				bad[w] = "the write deadline is lifted (zero time) on a path to the write and not set again"
			}
		}
	}
	return writes, bad
}

func (c *Ctx) everyWriteArmed() bool {
	writes, bad := c.unboundedWrites()
	return len(writes) > 0 && len(bad) == 0
}

// boundedSocketWrites: R03.15 = R17.15 = R18.12. A write to a TCP socket blocks for as long as the
// peer's window stays closed: a peer that falls silent without closing (stalled process, blackholed
// path with data in flight) parks the writer for ever once the socket buffers are full. The library's
// writers hold the write lock, and the connection loop writes requests itself and takes the write
// lock in its dead-peer and stop arms: one parked writer therefore blocks the loop, the timeout
// handling and the closer — the call never returns, the silence is never detected, Close never
// comes back. Nothing outside the writer can interrupt it (the socket is only closed from the loop),
// so every write has to carry a deadline: it is preceded, on every path of its activity on which a
// timeout is configured, by SetWriteDeadline with a non-zero time that is not lifted again before the
// write.
func (c *Ctx) boundedSocketWrites(rule string) {
	writes, bad := c.unboundedWrites()
	if len(writes) == 0 {
		c.und(rule, "socket writes", "-", "no write-side gorilla call found in the library")
		return
	}
	for _, w := range writes {
		kind := "data message"
		if k, isK := constInt(w.Common().Args[1]); isK && len(w.Common().Args) > 1 {
			switch k {
			case 8:
				kind = "close frame"
			case 9:
				kind = "ping"
			case 10:
				kind = "pong"
			}
		}
		construct := fmt.Sprintf("%s: %s of a %s", fname(w.Parent()), methodOf(w), kind)
		why, isBad := bad[w]
		c.check(!isBad, rule, construct, c.ipos(w), "a write deadline derived from the current time is set on every path before the write (except where no timeout is configured)",
			why+": a peer that stops reading without closing blocks this write for ever; the writer holds the write lock, which the connection loop needs to send requests, to close a timed-out socket and to answer the closer — calls stay blocked, the silent peer is never detected and Close does not return")
	}
}
