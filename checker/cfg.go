package main

import (
	"fmt"
	"go/constant"
	"go/token"
	"go/types"

	"golang.org/x/tools/go/ssa"
)

// ---------------------------------------------------------------------------
// Instruction-level control-flow queries.
// A program point is an instruction; "after in" means the next instruction in
// the block or the first instruction of each successor.

type ipred func(ssa.Instruction) bool

func instrIndex(in ssa.Instruction) int {
	for i, x := range in.Block().Instrs {
		if x == in {
			return i
		}
	}
	return -1
}

// The search helpers below are interprocedural: they follow synchronous static
// calls into tree functions (see ip.go). avoid is tested before target; an
// instruction that is both is treated as avoided. edgeOK, when non-nil, can veto
// following a CFG edge (branch correlation).

// searcher is kept as a thin compatibility wrapper around ipSearch.
type searcher struct {
	avoid  ipred
	target ipred
	edgeOK func(from *ssa.BasicBlock, succIdx int) bool
	seen   map[*ssa.BasicBlock]bool
	found  ssa.Instruction
}

func (s *searcher) scan(b *ssa.BasicBlock, from int) bool {
	ip := newIPSearch(s.target, s.avoid)
	ip.edgeOK = s.edgeOK
	for blk := range s.seen {
		ip.seen[fmt.Sprintf("%p|", blk)] = true
	}
	if ip.scan(b, from, nil) {
		s.found = ip.found
		return true
	}
	return false
}

// reachFrom: is some target reachable strictly after instruction `from`
// avoiding `avoid`? Returns the witness instruction (nil if none).
func reachFrom(from ssa.Instruction, target, avoid ipred) ssa.Instruction {
	s := newIPSearch(target, avoid)
	if s.scan(from.Block(), instrIndex(from)+1, nil) {
		return s.found
	}
	return nil
}

// reachFromUp: like reachFrom, but when the function containing `from` returns,
// the search continues after its synchronous call sites (until an activity root).
func reachFromUp(from ssa.Instruction, target, avoid ipred) ssa.Instruction {
	s := newIPSearch(target, avoid)
	s.up = true
	if s.scan(from.Block(), instrIndex(from)+1, nil) {
		return s.found
	}
	return nil
}

// reachFromEntry: is some target reachable from the function entry avoiding `avoid`?
func reachFromEntry(fn *ssa.Function, target, avoid ipred) ssa.Instruction {
	if len(fn.Blocks) == 0 {
		return nil
	}
	s := newIPSearch(target, avoid)
	s.seen[fmt.Sprintf("%p|", fn.Blocks[0])] = true
	if s.scan(fn.Blocks[0], 0, nil) {
		return s.found
	}
	return nil
}

// reachFromBlock: search starting at the first instruction of block b.
func reachFromBlock(b *ssa.BasicBlock, target, avoid ipred) ssa.Instruction {
	s := newIPSearch(target, avoid)
	s.seen[fmt.Sprintf("%p|", b)] = true
	if s.scan(b, 0, nil) {
		return s.found
	}
	return nil
}

// reachFromBlockUp: reachFromBlock continuing in the callers.
func reachFromBlockUp(b *ssa.BasicBlock, target, avoid ipred) ssa.Instruction {
	s := newIPSearch(target, avoid)
	s.up = true
	if s.scan(b, 0, nil) {
		return s.found
	}
	return nil
}

func isReturn(in ssa.Instruction) bool { _, ok := in.(*ssa.Return); return ok }

// isEnd: the activity being followed ends here: a return, or (in upward searches) the point
// where an event loop takes its next event.
func isEnd(in ssa.Instruction) bool {
	if _, ok := in.(*ssa.Return); ok {
		return true
	}
	return theProg != nil && theProg.boundary != nil && theProg.boundary[in]
}

// mustPrecede: every path from fn's entry to `b` passes through an instruction in A
// (A may lie inside a function called on the way).
func mustPrecede(fn *ssa.Function, A ipred, b ssa.Instruction) bool {
	return reachFromEntry(fn, func(in ssa.Instruction) bool { return in == b }, A) == nil
}

// mustFollow: every path from `a` to the end of the enclosing activity passes through an
// instruction in B. Returns the offending return if not.
func mustFollow(a ssa.Instruction, B ipred) ssa.Instruction {
	return reachFromUp(a, isEnd, B)
}

// inLoop reports whether the block is part of a CFG cycle.
func inLoop(b *ssa.BasicBlock) bool {
	seen := map[*ssa.BasicBlock]bool{}
	var dfs func(x *ssa.BasicBlock) bool
	dfs = func(x *ssa.BasicBlock) bool {
		for _, s := range x.Succs {
			if s == b {
				return true
			}
			if !seen[s] {
				seen[s] = true
				if dfs(s) {
					return true
				}
			}
		}
		return false
	}
	return dfs(b)
}

// allInstrs iterates over every instruction of fn.
func allInstrs(fn *ssa.Function, f func(ssa.Instruction)) {
	for _, b := range fn.Blocks {
		for _, in := range b.Instrs {
			f(in)
		}
	}
}

// withAnon returns fn and all functions nested in it.
func withAnon(fn *ssa.Function) []*ssa.Function {
	out := []*ssa.Function{fn}
	for _, a := range fn.AnonFuncs {
		out = append(out, withAnon(a)...)
	}
	return out
}

func outermost(fn *ssa.Function) *ssa.Function {
	for fn.Parent() != nil {
		fn = fn.Parent()
	}
	return fn
}

// ---------------------------------------------------------------------------
// select statements

type selArm struct {
	Index int
	State *ssa.SelectState
	Body  *ssa.BasicBlock // nil if it could not be recovered
	// RecvOK / RecvVal: the extracted comma-ok / received value, if any
	Recv ssa.Value
	OK   ssa.Value
}

// selectArms recovers the body block of each case of a select instruction from
// the chain of `index == k` tests the SSA builder emits. DefaultBody is the
// else-target of the last test for non-blocking selects.
func selectArms(sel *ssa.Select) (arms []selArm, deflt *ssa.BasicBlock) {
	arms = make([]selArm, len(sel.States))
	for i := range arms {
		arms[i] = selArm{Index: i, State: sel.States[i]}
	}
	var idx ssa.Value
	recvSlot := 2
	slotOf := map[int]int{}
	for i, st := range sel.States {
		if st.Dir == types.RecvOnly {
			slotOf[i] = recvSlot
			recvSlot++
		}
	}
	for _, r := range *sel.Referrers() {
		ex, ok := r.(*ssa.Extract)
		if !ok {
			continue
		}
		if ex.Index == 0 {
			idx = ex
		}
		if ex.Index == 1 {
			for i := range arms {
				arms[i].OK = ex // shared; meaningful only in recv arms
			}
		}
		for i, s := range slotOf {
			if ex.Index == s {
				arms[i].Recv = ex
			}
		}
	}
	if idx == nil {
		return arms, nil
	}
	var lastElse *ssa.BasicBlock
	for _, r := range *idx.Referrers() {
		bo, ok := r.(*ssa.BinOp)
		if !ok || bo.Op != token.EQL {
			continue
		}
		k, ok := constInt(bo.Y)
		if !ok {
			continue
		}
		for _, rr := range *bo.Referrers() {
			if iff, ok := rr.(*ssa.If); ok {
				if int(k) < len(arms) {
					arms[k].Body = iff.Block().Succs[0]
					if int(k) == len(arms)-1 {
						lastElse = iff.Block().Succs[1]
					}
				}
			}
		}
	}
	if !sel.Blocking {
		deflt = lastElse
	}
	return arms, deflt
}

func constInt(v ssa.Value) (int64, bool) {
	c, ok := v.(*ssa.Const)
	if !ok || c.Value == nil || c.Value.Kind() != constant.Int {
		return 0, false
	}
	n, ok := constant.Int64Val(c.Value)
	return n, ok
}

func constString(v ssa.Value) (string, bool) {
	c, ok := v.(*ssa.Const)
	if !ok || c.Value == nil || c.Value.Kind() != constant.String {
		return "", false
	}
	return constant.StringVal(c.Value), true
}

func isNilConst(v ssa.Value) bool {
	c, ok := v.(*ssa.Const)
	return ok && c.Value == nil
}

// blocksDominatedBy returns the set of blocks dominated by b (including b).
func blocksDominatedBy(b *ssa.BasicBlock) map[*ssa.BasicBlock]bool {
	out := map[*ssa.BasicBlock]bool{}
	for _, x := range b.Parent().Blocks {
		if b.Dominates(x) {
			out[x] = true
		}
	}
	return out
}

// ---------------------------------------------------------------------------
// branch facts: conditions known to hold on entry to a block

type condFact struct {
	Cond ssa.Value // the boolean condition value
	True bool      // whether it is known true (or false)
}

// impliedConds returns, for block b, branch conditions that certainly hold
// whenever b is reached: for every dominator d of b ending in If, if exactly one
// successor edge of d leads to b (i.e. b is dominated by that successor and the
// successor has d as its only predecessor), the condition is known.
func impliedConds(b *ssa.BasicBlock) []condFact {
	var out []condFact
	for d := b.Idom(); d != nil; d = d.Idom() {
		iff, ok := d.Instrs[len(d.Instrs)-1].(*ssa.If)
		if !ok {
			continue
		}
		t, f := d.Succs[0], d.Succs[1]
		tOnly := len(t.Preds) == 1 && t.Dominates(b)
		fOnly := len(f.Preds) == 1 && f.Dominates(b)
		if tOnly && !fOnly {
			out = append(out, condFact{iff.Cond, true})
		} else if fOnly && !tOnly {
			out = append(out, condFact{iff.Cond, false})
		}
	}
	// the block itself may be the unique successor: handled by the loop via Idom
	return out
}

// condsAt: implied conditions at an instruction (those of its block).
func condsAt(in ssa.Instruction) []condFact { return impliedConds(in.Block()) }

// expandConds flattens negations: !x true => x false.
func expandConds(cs []condFact) []condFact {
	var out []condFact
	seen := map[condFact]bool{}
	var add func(c condFact, depth int)
	add = func(c condFact, depth int) {
		if seen[c] || depth > 6 {
			return
		}
		seen[c] = true
		out = append(out, c)
		if u, ok := c.Cond.(*ssa.UnOp); ok && u.Op == token.NOT {
			add(condFact{u.X, !c.True}, depth+1)
		}
		// short-circuit forms: a && b is phi[false, …, b]; a || b is phi[true, …, b].
		// If the phi is known to differ from the constant edges, the single non-constant
		// edge was taken: its value and the conditions on that edge hold.
		if ph, ok := c.Cond.(*ssa.Phi); ok {
			if bt, ok := ph.Type().Underlying().(*types.Basic); ok && bt.Kind() == types.Bool {
				var nonConst []int
				allOpp := true
				for i, e := range ph.Edges {
					k, isK := e.(*ssa.Const)
					if !isK || k.Value == nil {
						nonConst = append(nonConst, i)
						continue
					}
					if (k.Value.String() == "true") == c.True {
						allOpp = false // a constant edge agrees with the known value: cannot tell which edge
					}
				}
				if allOpp && len(nonConst) == 1 {
					i := nonConst[0]
					add(condFact{ph.Edges[i], c.True}, depth+1)
					for _, ec := range edgeCondsRaw(ph.Block().Preds[i], ph.Block()) {
						add(ec, depth+1)
					}
				}
			}
		}
	}
	// a predicate helper (shouldRetry(resp), connFailed()) known to have returned t: what held at the
	// return(s) that can produce t holds here — for the callee's own values (its parameters and the
	// fields it reads), which is what field-based rule predicates look at
	addCall := func(c condFact, depth int) {}
	addCall = func(c condFact, depth int) {
		call, ok := c.Cond.(*ssa.Call)
		p := theProg
		if !ok || p == nil || depth > 3 {
			return
		}
		g := p.unbound(staticCallee(call))
		if g == nil || !p.allFns[g] || len(g.Blocks) == 0 || g.Signature.Results().Len() != 1 {
			return
		}
		if bt, ok := g.Signature.Results().At(0).Type().Underlying().(*types.Basic); !ok || bt.Kind() != types.Bool {
			return
		}
		var cand []*ssa.Return
		allInstrsRaw(g, func(in ssa.Instruction) {
			rt, ok := in.(*ssa.Return)
			if !ok || len(rt.Results) != 1 {
				return
			}
			rv := blockLocalValue(rt.Results[0])
			if k := constKind(rv); (k == 1 && !c.True) || (k == 2 && c.True) {
				return // this return yields the other value
			}
			cand = append(cand, rt)
		})
		if len(cand) != 1 {
			return // several ways to produce t: no single set of facts
		}
		rt := cand[0]
		rv := blockLocalValue(rt.Results[0])
		if constKind(rv) == 0 {
			add(condFact{rv, c.True}, depth+1)
		}
		for _, ic := range impliedConds(rt.Block()) {
			add(ic, depth+1)
		}
	}
	for _, c := range cs {
		add(c, 0)
	}
	// second pass: expand through predicate helpers (may add more conditions, themselves expanded by add)
	for i := 0; i < len(out) && i < 200; i++ {
		addCall(out[i], 0)
	}
	return out
}

// edgeCondsRaw: conditions known along the edge pred -> blk (not expanded).
func edgeCondsRaw(pred, blk *ssa.BasicBlock) []condFact {
	out := impliedConds(pred)
	if iff, ok := pred.Instrs[len(pred.Instrs)-1].(*ssa.If); ok && pred.Succs[0] != pred.Succs[1] {
		if pred.Succs[0] == blk {
			out = append(out, condFact{iff.Cond, true})
		} else if pred.Succs[1] == blk {
			out = append(out, condFact{iff.Cond, false})
		}
	}
	return out
}
