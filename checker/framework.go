package main

import (
	"encoding/json"
	"fmt"
	"go/types"
	"os"
	"path/filepath"
	"sort"
	"strings"
	"time"

	"golang.org/x/tools/go/ssa"
)

type Status string

const (
	Discharged Status = "discharged"
	Violated   Status = "violated"
	Undecided  Status = "undecided"
)

// Obligation: one (rule, construct) pair that was evaluated. Construct never
// contains a line number: it is the key used for known findings and replay.
type Obligation struct {
	Property  string `json:"property"`
	Rule      string `json:"rule"`
	Construct string `json:"construct"`
	Pos       string `json:"pos"`
	Status    Status `json:"status"`
	Detail    string `json:"detail,omitempty"`
}

func (o Obligation) Key() string { return o.Property + "|" + o.Rule + "|" + o.Construct }

// Ctx carries the program, the resolved roles and the obligations collected
// while evaluating one property.
type Ctx struct {
	P             *Prog
	R             *Roles
	Property      string
	Obls          []Obligation
	ruleDoc       map[string]string
	ruleN         map[string]int
	stats         map[string]int
	wsCache       *WS
	optional      map[string]bool
	closedFields  map[*types.Var]bool
	bufEntry      *ssa.Function
	bufEntryDone  bool
	seenConstruct map[string]bool
}

func newCtx(p *Prog, r *Roles, property string) *Ctx {
	return &Ctx{P: p, R: r, Property: property, ruleDoc: map[string]string{}, ruleN: map[string]int{}, stats: map[string]int{}}
}

// rule declares a rule (id + one-line statement); every declared rule must end
// up with at least `floor` obligations (vacuity floor), checked in finish().
func (c *Ctx) rule(id, doc string) { c.ruleDoc[id] = doc }

// ruleOpt declares a rule whose expected instance count on a correct tree may be
// zero (a "no X may exist" rule): no vacuity floor. Its liveness is shown by the
// mutant corpus in the thorough tier.
func (c *Ctx) ruleOpt(id, doc string) {
	c.ruleDoc[id] = doc
	if c.optional == nil {
		c.optional = map[string]bool{}
	}
	c.optional[id] = true
}

func (c *Ctx) add(rule string, st Status, construct, pos, detail string) {
	c.ruleN[rule]++
	c.Obls = append(c.Obls, Obligation{Property: c.Property, Rule: rule, Construct: construct, Pos: pos, Status: st, Detail: detail})
}

func (c *Ctx) ok(rule, construct, pos, detail string) {
	c.add(rule, Discharged, construct, pos, detail)
}
func (c *Ctx) bad(rule, construct, pos, detail string) { c.add(rule, Violated, construct, pos, detail) }
func (c *Ctx) und(rule, construct, pos, detail string) {
	c.add(rule, Undecided, construct, pos, detail)
}

// check: convenience — discharged if cond else violated.
func (c *Ctx) check(cond bool, rule, construct, pos, okDetail, badDetail string) bool {
	if cond {
		c.ok(rule, construct, pos, okDetail)
	} else {
		c.bad(rule, construct, pos, badDetail)
	}
	return cond
}

func (c *Ctx) ipos(in ssa.Instruction) string { return c.P.ipos(in) }

// need reports an unresolved role as an undecided obligation (fail closed).
func (c *Ctx) need(rule string, what string, present bool) bool {
	if !present {
		c.und(rule, "role:"+what, "-", "role could not be resolved from the current source; the rule cannot be decided")
	}
	return present
}

// finish applies vacuity floors: a declared rule with zero obligations is undecided.
func (c *Ctx) finish() {
	if ipExhausted > 0 {
		c.ruleDoc["engine"] = "no path search was cut off by its step budget"
		c.und("engine", "interprocedural search", "-", fmt.Sprintf("%d path search(es) exhausted their step budget: their answers cannot be relied on", ipExhausted))
	}
	ids := make([]string, 0, len(c.ruleDoc))
	for id := range c.ruleDoc {
		ids = append(ids, id)
	}
	sort.Strings(ids)
	for _, id := range ids {
		if c.ruleN[id] == 0 && c.optional[id] {
			c.ok(id, "no instance", "-", "no construct of the kind this rule constrains exists in the current source")
			continue
		}
		if c.ruleN[id] == 0 {
			c.und(id, "vacuity", "-", "rule matched no construct in the current source (mechanism not found): "+c.ruleDoc[id])
		}
	}
}

// ---------------------------------------------------------------------------
// known findings

type Finding struct {
	Status    string `json:"status"` // "known" | "fixed"
	Property  string `json:"property"`
	Rule      string `json:"rule"`
	Construct string `json:"construct"`
	Commit    string `json:"commit,omitempty"`
	What      string `json:"what"`
	Line      string `json:"line"`
}

type FindingsFile struct {
	Comment  string    `json:"comment"`
	Findings []Finding `json:"findings"`
}

func loadFindings(path string) (*FindingsFile, error) {
	b, err := os.ReadFile(path)
	if err != nil {
		return nil, err
	}
	var ff FindingsFile
	if err := json.Unmarshal(b, &ff); err != nil {
		return nil, err
	}
	return &ff, nil
}

// ---------------------------------------------------------------------------
// evidence

type Evidence struct {
	PropertyID  string                 `json:"property_id"`
	Tier        string                 `json:"tier"`
	Seed        int                    `json:"seed"`
	Level       string                 `json:"level"`
	Coverage    map[string]interface{} `json:"coverage"`
	Assumptions []string               `json:"assumptions"`
	WallS       float64                `json:"wall_s"`
	Violations  int                    `json:"violations"`
}

type runResult struct {
	ctx        *Ctx
	violations []Obligation // violated or undecided, not listed as known
	known      []Obligation
}

func verifDir() string {
	if d := os.Getenv("VERIF_DIR"); d != "" {
		return d
	}
	exe, err := os.Executable()
	if err == nil {
		d := filepath.Dir(filepath.Dir(exe))
		if _, err := os.Stat(filepath.Join(d, "properties.jsonl")); err == nil {
			return d
		}
	}
	return "/verif"
}

func classify(ctx *Ctx, ff *FindingsFile) runResult {
	rr := runResult{ctx: ctx}
	knownKeys := map[string]Finding{}
	if ff != nil {
		for _, f := range ff.Findings {
			if f.Status == "known" {
				knownKeys[f.Property+"|"+f.Rule+"|"+f.Construct] = f
			}
		}
	}
	for _, o := range ctx.Obls {
		if o.Status == Discharged {
			continue
		}
		if _, ok := knownKeys[o.Key()]; ok && o.Status == Violated {
			rr.known = append(rr.known, o)
			continue
		}
		rr.violations = append(rr.violations, o)
	}
	return rr
}

func writeEvidence(rr runResult, tier string, seed int, wall time.Duration, extra map[string]interface{}, info propInfo) error {
	ctx := rr.ctx
	disch := 0
	distinct := map[string]bool{}
	perRule := map[string]map[string]int{}
	for _, o := range ctx.Obls {
		if o.Status == Discharged {
			disch++
		}
		if !strings.HasPrefix(o.Construct, "role:") && o.Construct != "vacuity" {
			distinct[o.Rule+"|"+o.Construct] = true
		}
		if perRule[o.Rule] == nil {
			perRule[o.Rule] = map[string]int{}
		}
		perRule[o.Rule][string(o.Status)]++
	}
	var samples []interface{}
	// all non-discharged first, then up to 3 per rule
	cnt := map[string]int{}
	for _, o := range ctx.Obls {
		if o.Status != Discharged {
			samples = append(samples, o)
		}
	}
	for _, o := range ctx.Obls {
		if o.Status == Discharged && cnt[o.Rule] < 3 {
			cnt[o.Rule]++
			samples = append(samples, o)
		}
	}
	rules := map[string]string{}
	for k, v := range ctx.ruleDoc {
		rules[k] = v
	}
	nfuncs, nblocks, ninstr := 0, 0, 0
	for _, fn := range ctx.P.Funcs {
		nfuncs++
		nblocks += len(fn.Blocks)
		for _, b := range fn.Blocks {
			ninstr += len(b.Instrs)
		}
	}
	cov := map[string]interface{}{
		"explanation":         info.Explanation,
		"not_decided":         info.NotDecided,
		"obligations":         len(ctx.Obls),
		"discharged":          disch,
		"evaluations":         len(ctx.Obls),
		"distinct_nontrivial": len(distinct),
		"rule":                "one obligation per (rule, source construct) pair found by type-resolved enumeration over the SSA form of /repo; distinct = distinct (rule, construct) keys excluding role-resolution and vacuity records; an obligation is non-trivial because each names a concrete function/call site/field access that the rule had to decide",
		"rules":               rules,
		"per_rule":            perRule,
		"samples":             samples,
		"analysed": map[string]interface{}{
			"source_tree":            ctx.P.Dir,
			"packages":               len(ctx.P.Pkgs),
			"functions_in_tree":      nfuncs,
			"basic_blocks":           nblocks,
			"ssa_instructions":       ninstr,
			"functions_program_wide": len(ctx.P.allFnsProgramWide()),
		},
		"roles":         ctx.R.Describe(),
		"checker_cmd":   "bin/jrpcheck -property " + ctx.Property + " -tier " + tier,
		"trusted_base":  []string{"go/types and go/ssa of golang.org/x/tools v0.29.0", "gorilla/websocket concurrency contract as documented", "Go semantics of defer/recover, sync.Mutex, sync.Once, sync/atomic"},
		"known_finding": len(rr.known),
		"exhaustive":    true,
	}
	for k, v := range extra {
		cov[k] = v
	}
	ev := Evidence{
		PropertyID: ctx.Property, Tier: tier, Seed: seed, Level: "other", Coverage: cov,
		Assumptions: info.Assumptions, WallS: wall.Seconds(), Violations: len(rr.violations),
	}
	dir := filepath.Join(verifDir(), "evidence")
	if err := os.MkdirAll(dir, 0o755); err != nil {
		return err
	}
	b, err := json.MarshalIndent(ev, "", " ")
	if err != nil {
		return err
	}
	return os.WriteFile(filepath.Join(dir, ctx.Property+".json"), b, 0o644)
}

func writeReplay(o Obligation, n int) (string, error) {
	dir := filepath.Join(verifDir(), "evidence", "replay")
	if err := os.MkdirAll(dir, 0o755); err != nil {
		return "", err
	}
	path := filepath.Join(dir, fmt.Sprintf("%s-%d.json", o.Property, n))
	b, _ := json.MarshalIndent(o, "", " ")
	return path, os.WriteFile(path, b, 0o644)
}

func (p *Prog) allFnsProgramWide() map[*ssa.Function]bool {
	if p.progWide == nil {
		p.progWide = map[*ssa.Function]bool{}
		for fn := range allFunctions(p.SSA) {
			p.progWide[fn] = true
		}
	}
	return p.progWide
}
