package main

import (
	"fmt"
	"go/token"
	"go/types"
	"strings"

	"golang.org/x/tools/go/ssa"
)

func init() {
	register(&propInfo{
		ID:          "C11",
		Explanation: "Path and value-origin analysis of the error path between handler and caller: (R11.1) the server's error constructor returns a non-nil pointer on every path; the dispatcher sets the reply's error exactly on the branch where the handler's error is non-nil, and sets the result only where the reply's error is nil; (R11.2) on the client, every failed conversion of a registered error type returns the generic error value itself (never nil, never a dereferenced or zero value), and conversion is attempted only for a non-nil reply error; (R11.3) the error registry's Register updates both directions with the same (type, code) pair, the server looks the code up under the dynamic type of the very error the handler returned, and message/code of the generic error come from that error; (R11.4) on transport or local failures the generated client function returns the zero value of the declared result type and a non-nil client error wrapping the cause. (R11.6) every use of a message writer in the library package is json.NewEncoder, or a Write of a constant, of a json.Marshal result or of a writer wrapper's own parameter: no hand-formatted reply. (R11.7) on the client call path reflect.Value.Set is never applied to a Value kept in a field of a long-lived object; (R11.8) no Go quoting under a MarshalJSON method. (R11.9) the server's error constructor does not search the Unwrap chain; (R11.10) the decoding interfaces are asked of the pointer made by reflect.New.",
		NotDecided:  "Type/content round trip of registered error types and message bytes (values through encoding/json and user codecs).",
		Assumptions: []string{"Errors.Register, NewErrors, ErrClient and JSONRPCError are resolved by their exported names (public API)"},
		Run:         runC11,
	})
}

func runC11(c *Ctx) {
	p, r := c.P, c.R
	c.rule("R11.1", "error constructor never returns nil; reply error set iff the handler's error is non-nil; result set only where the reply's error is nil")
	c.rule("R11.2", "client: a failed conversion of a registered error type yields the generic error value itself; conversion only for a non-nil reply error")
	c.rule("R11.3", "registry pairing: Register updates both maps with the same pair; server code lookup keyed by the dynamic type of the handler's error; generic message from that error")
	c.rule("R11.4", "transport/local failures return the zero value and a non-nil wrapping client error")
	c.rule("R11.5", "the reply encoder produces its bytes only through encoding/json (error messages cannot break the reply's well-formedness)")
	c.encoderUsesJSON("R11.5")
	c.ruleOpt("R11.8", "text put on the wire by a MarshalJSON method of the library is escaped by encoding/json, never by Go quoting (strconv.Quote/AppendQuote, %q), whose \\a \\v \\x.. \\U........ escapes are not JSON: such a message makes the whole reply unencodable")
	c.noGoQuotingInMarshal("R11.8")
	c.ruleOpt("R11.7", "the error result a call returns is a value of its own: on the client call path (reflect.Value).Set is never applied to a Value kept in a field of the call descriptor or the client (two overlapping calls of one method would overwrite each other's error)")
	c.resultSlotsPerCall("R11.7")
	c.rule("R11.6", "everything written to a message writer is produced by encoding/json (or is a constant framing byte, or forwarded by a writer wrapper): no hand-formatted reply")
	c.writerBytesJSON("R11.6")
	if !c.need("R11.1", "T_rpcerr / FN_disp / T_resp", r.TRPCErr != nil && r.FnDisp != nil && r.TResp != nil) {
		return
	}
	ptrErr := types.NewPointer(r.TRPCErr)

	// ---- locate createError: method/function in root taking an error and returning *JSONRPCError
	var mkErr *ssa.Function
	for _, fn := range p.Funcs {
		if pkgOf(fn) != p.Root.Pkg || fn.Parent() != nil {
			continue
		}
		sig := fn.Signature
		if sig.Results().Len() == 1 && types.Identical(sig.Results().At(0).Type(), ptrErr) && sig.Params().Len() == 1 && isErrorType(sig.Params().At(0).Type()) {
			mkErr = fn
		}
	}
	c.rule("R11.9", "the reply describes the error the handler returned: the server's error constructor looks at that error itself, never at something found in its Unwrap chain (errors.As / errors.Is / errors.Unwrap)")
	if mkErr != nil {
		var chain ssa.Instruction
		p.coneInstrs(mkErr, func(in ssa.Instruction) {
			if ci, ok := in.(ssa.CallInstruction); ok {
				switch calleeName(ci) {
				case "errors.As", "errors.Is", "errors.Unwrap", "golang.org/x/xerrors.As", "golang.org/x/xerrors.Is", "golang.org/x/xerrors.Unwrap":
					chain = in
				}
			}
		})
		cons := fmt.Sprintf("%s: which error is converted", fname(mkErr))
		if chain != nil {
			c.bad("R11.9", cons, c.ipos(chain), "the error constructor searches the Unwrap chain of the handler's error: an error that merely wraps a codec / registered error goes out as the inner one — the handler's message and code are lost and the caller gets a typed error the handler never returned")
		} else {
			c.ok("R11.9", cons, p.pos(mkErr.Pos()), "the returned error itself (type switch / assertion), no chain walk")
		}
	} else {
		c.und("R11.9", "server error constructor", "-", "not resolved")
	}
	if c.need("R11.1", "server error constructor", mkErr != nil) {
		construct := fmt.Sprintf("%s: returned error object", fname(mkErr))
		okAll := true
		allInstrs(mkErr, func(in ssa.Instruction) {
			rt, ok := in.(*ssa.Return)
			if !ok {
				return
			}
			var lv []ssa.Value
			leaves(rt.Results[0], map[ssa.Value]bool{}, &lv)
			for _, l := range lv {
				if _, ok := l.(*ssa.Alloc); ok {
					continue
				}
				// built by a helper of the constructor (codecError(codec, fallback)): every origin is an object
				// allocated in the constructor's cone
				if c.allOrigins(l, func(a apath) bool {
					al, ok := a.Root.(*ssa.Alloc)
					return ok && len(a.Fields) == 0 && p.inCone(mkErr, al)
				}) {
					continue
				}
				okAll = false
				c.bad("R11.1", construct, c.ipos(rt), "the error constructor can return something other than a freshly built error object (e.g. nil when a codec fails): the caller would see success")
			}
		})
		if okAll {
			c.ok("R11.1", construct, p.pos(mkErr.Pos()), "every return yields a freshly allocated error object")
		}
		// R11.3: lookup key and message
		errParam := mkErr.Params[len(mkErr.Params)-1]
		nlk := 0
		p.coneInstrs(mkErr, func(in ssa.Instruction) {
			lk, ok := in.(*ssa.Lookup)
			if !ok {
				return
			}
			mt, ok := lk.X.Type().Underlying().(*types.Map)
			if !ok || !isNamed(mt.Key(), "reflect", "Type") {
				return
			}
			nlk++
			cons := fmt.Sprintf("%s: code lookup by error type", fname(mkErr))
			isTypeOfErr := func(v ssa.Value) bool {
				call, ok := v.(*ssa.Call)
				if !ok || calleeName(call) != "reflect.TypeOf" {
					return false
				}
				arg := stripConv(call.Common().Args[0])
				if c.isParamOrForwarded(arg, errParam) {
					return true
				}
				// through a helper of the constructor (errorCode(err)): the helper's error parameter is the constructor's
				return c.allOrigins(arg, func(a apath) bool { return len(a.Fields) == 0 && a.Root == ssa.Value(errParam) })
			}
			good := isTypeOfErr(lk.Index)
			if !good {
				// the key handed to a lookup helper (codeFor(reflect.TypeOf(err)))
				good = c.allOrigins(lk.Index, func(a apath) bool {
					v, ok := a.Root.(ssa.Value)
					return ok && len(a.Fields) == 0 && isTypeOfErr(v)
				})
			}
			c.check(good, "R11.3", cons, c.ipos(lk), "keyed by reflect.TypeOf(the handler's error)",
				"the code is looked up under the type of something other than the error the handler returned (e.g. an unwrapped cause): an unregistered wrapper is sent with a registered code and loses its message")
		})
		if nlk == 0 {
			c.bad("R11.3", fmt.Sprintf("%s: code lookup by error type", fname(mkErr)), p.pos(mkErr.Pos()), "registered error types are no longer mapped to their code")
		}
		// message of the generic object = err.Error() of the parameter
		msgOK := false
		allInstrs(mkErr, func(in ssa.Instruction) {
			if ci, ok := in.(*ssa.Call); ok && ci.Common().IsInvoke() && ci.Common().Method.Name() == "Error" && ci.Common().Value == ssa.Value(errParam) {
				msgOK = true
			}
		})
		c.check(msgOK, "R11.3", fmt.Sprintf("%s: generic message", fname(mkErr)), p.pos(mkErr.Pos()), "message is the handler error's own text", "the generic error's message is not the handler error's Error() text")
	}

	// ---- dispatcher: error / result assignment
	{
		d := r.FnDisp
		errF, resF := respFieldByTag(r.TResp, "error"), respFieldByTag(r.TResp, "result")
		var errStores, resStores []*ssa.Store
		p.coneInstrs(d, func(in ssa.Instruction) {
			st, ok := in.(*ssa.Store)
			if !ok {
				return
			}
			fa, ok := st.Addr.(*ssa.FieldAddr)
			if !ok {
				return
			}
			switch fieldOfAddr(fa) {
			case errF:
				errStores = append(errStores, st)
			case resF:
				resStores = append(resStores, st)
			}
		})
		construct := fmt.Sprintf("%s: reply error assignment", fname(d))
		fromHandler := false
		for _, st := range errStores {
			call, ok := st.Val.(*ssa.Call)
			if !ok || staticCallee(call) != mkErr || mkErr == nil {
				continue
			}
			fromHandler = true
			// the block must be conditioned on <handler error> != nil, and the argument must be that value
			arg := call.Common().Args[len(call.Common().Args)-1]
			src := arg
			if ta, ok := src.(*ssa.TypeAssert); ok {
				src = ta.X
			}
			cond := false
			for _, cf := range expandConds(impliedConds(st.Block())) {
				bo, ok := cf.Cond.(*ssa.BinOp)
				if ok && ((bo.Op == token.NEQ && cf.True) || (bo.Op == token.EQL && !cf.True)) && (bo.X == src || bo.Y == src) && (isNilConst(bo.X) || isNilConst(bo.Y)) {
					cond = true
				}
			}
			isCallResult := false
			if ic, ok := src.(*ssa.Call); ok && calleeName(ic) == "(reflect.Value).Interface" {
				isCallResult = true
				// no further condition may narrow the assignment
				pre := map[ssa.Value]bool{}
				for _, cf := range expandConds(impliedConds(ic.Block())) {
					pre[cf.Cond] = true
				}
				for _, cf := range expandConds(impliedConds(st.Block())) {
					if pre[cf.Cond] {
						continue
					}
					if bo, ok := cf.Cond.(*ssa.BinOp); ok && (bo.X == src || bo.Y == src) {
						continue
					}
					if u, ok := cf.Cond.(*ssa.UnOp); ok && u.Op == token.NOT {
						continue
					}
					cond = false
				}
				// and nothing lets the non-nil branch bypass the assignment (e.g. `err != nil && extra`)
				for _, ref := range *src.Referrers() {
					bo, ok := ref.(*ssa.BinOp)
					if !ok || !(isNilConst(bo.X) || isNilConst(bo.Y)) {
						continue
					}
					for _, r2 := range *bo.Referrers() {
						if iff, ok := r2.(*ssa.If); ok {
							nn := iff.Block().Succs[0]
							if bo.Op == token.EQL {
								nn = iff.Block().Succs[1]
							}
							if reachFromBlock(nn, isReturn, func(x ssa.Instruction) bool { return x == ssa.Instruction(st) }) != nil {
								cond = false
							}
						}
					}
				}
			}
			c.check(cond && isCallResult, "R11.1", construct, c.ipos(st), "set from the handler's error on its non-nil branch",
				"the reply's error is not set exactly when the handler's error result is non-nil")
		}
		// the conversion may live in a helper whose result is stored into the error member (Error: s.returnedError(…)):
		// the helper returns the constructor's result exactly on the non-nil branch of the handler's error, nil elsewhere
		for _, st := range errStores {
			call, ok := st.Val.(*ssa.Call)
			if !ok || mkErr == nil || fromHandler {
				continue
			}
			h := staticCallee(call)
			if h == nil || h == mkErr || !p.allFns[h] {
				continue
			}
			var conv *ssa.Return
			good := true
			var src ssa.Value
			allInstrs(h, func(in ssa.Instruction) {
				rt, ok := in.(*ssa.Return)
				if !ok || len(rt.Results) != 1 {
					return
				}
				if mc, ok := rt.Results[0].(*ssa.Call); ok && staticCallee(mc) == mkErr {
					conv = rt
					a := mc.Common().Args[len(mc.Common().Args)-1]
					if ta, ok := a.(*ssa.TypeAssert); ok {
						a = ta.X
					}
					src = a
				}
			})
			if conv == nil || src == nil {
				continue
			}
			fromHandler = true
			if ic, ok := src.(*ssa.Call); !ok || calleeName(ic) != "(reflect.Value).Interface" {
				good = false
			}
			nonNil := false
			for _, cf := range expandConds(impliedConds(conv.Block())) {
				bo, ok := cf.Cond.(*ssa.BinOp)
				if ok && ((bo.Op == token.NEQ && cf.True) || (bo.Op == token.EQL && !cf.True)) && (bo.X == src || bo.Y == src) && (isNilConst(bo.X) || isNilConst(bo.Y)) {
					nonNil = true
				}
			}
			// every other return hands back nil, and none of them lies on the non-nil side of the test
			allInstrs(h, func(in ssa.Instruction) {
				rt, ok := in.(*ssa.Return)
				if !ok || rt == conv || len(rt.Results) != 1 {
					return
				}
				if !isNilConst(rt.Results[0]) {
					good = false
				}
				for _, cf := range expandConds(impliedConds(rt.Block())) {
					bo, ok := cf.Cond.(*ssa.BinOp)
					if ok && ((bo.Op == token.NEQ && cf.True) || (bo.Op == token.EQL && !cf.True)) && (bo.X == src || bo.Y == src) && (isNilConst(bo.X) || isNilConst(bo.Y)) {
						good = false
					}
				}
			})
			c.check(good && nonNil, "R11.1", construct, c.ipos(st), "set from a helper that converts the handler's error exactly on its non-nil branch",
				"the reply's error is not set exactly when the handler's error result is non-nil")
		}
		if !fromHandler {
			c.bad("R11.1", construct, p.pos(d.Pos()), "the handler's error result is never turned into the reply's error: a failing handler is reported as success")
		}
		// the non-nil test must dominate... and on the nil branch no error is set: covered by the condition above
		cons2 := fmt.Sprintf("%s: reply result assignment", fname(d))
		if len(resStores) == 0 {
			c.bad("R11.1", cons2, p.pos(d.Pos()), "the reply's result is never set")
		}
		for _, st := range resStores {
			fa := st.Addr.(*ssa.FieldAddr)
			ok := false
			for _, cf := range expandConds(impliedConds(st.Block())) {
				bo, isBo := cf.Cond.(*ssa.BinOp)
				if !isBo || !(isNilConst(bo.X) || isNilConst(bo.Y)) {
					continue
				}
				other := bo.X
				if isNilConst(bo.X) {
					other = bo.Y
				}
				if base, isErrLoad := loadsField(other, errF); isErrLoad && base == fa.X {
					if (bo.Op == token.EQL && cf.True) || (bo.Op == token.NEQ && !cf.True) {
						ok = true
					}
				}
			}
			c.check(ok, "R11.1", cons2, c.ipos(st), "only where the reply's error is nil", "the result is attached although an error may be set: the caller receives a non-zero value together with an error")
		}
	}

	// ---- R11.2 client-side reconstruction
	{
		var val *ssa.Function
		for _, fn := range p.Funcs {
			if pkgOf(fn) != p.Root.Pkg || fn.Parent() != nil || fn.Signature.Recv() == nil {
				continue
			}
			if types.Identical(fn.Signature.Recv().Type(), ptrErr) && fn.Signature.Results().Len() == 1 && isNamed(fn.Signature.Results().At(0).Type(), "reflect", "Value") {
				val = fn
			}
		}
		c.rule("R11.10", "whether a registered error type can be filled from the wire error is asked of the pointer to the freshly made value (where pointer-receiver methods are visible), never of its value form")
		if val != nil {
			nq := 0
			isElem := func(v ssa.Value) bool {
				return c.someOrigin(v, func(a apath) bool {
					call, ok := a.Root.(*ssa.Call)
					return ok && calleeName(call) == "(reflect.Value).Elem" && len(a.Fields) == 0
				})
			}
			p.coneInstrs(val, func(in ssa.Instruction) {
				var subject ssa.Value
				switch x := in.(type) {
				case *ssa.TypeAssert:
					if _, isIface := x.AssertedType.Underlying().(*types.Interface); !isIface {
						return
					}
					if call, ok := x.X.(*ssa.Call); ok && calleeName(call) == "(reflect.Value).Interface" {
						subject = call.Common().Args[0]
					}
				case *ssa.Call:
					if x.Common().IsInvoke() && x.Common().Method.Name() == "Implements" {
						if tc, ok := x.Common().Value.(*ssa.Call); ok && calleeName(tc) == "(reflect.Value).Type" {
							subject = tc.Common().Args[0]
						}
					}
				}
				if subject == nil {
					return
				}
				nq++
				c.check(!isElem(subject), "R11.10", fmt.Sprintf("%s: value asked for its decoding interface", fname(val)), c.ipos(in), "the pointer made by reflect.New",
					"the decoding interface is looked for on the value form of the registered type (…Elem()): a type registered as T whose FromJSONRPCError / UnmarshalJSON have pointer receivers is not recognised, no conversion runs and the caller gets the right type with empty content")
			})
			if nq == 0 {
				c.und("R11.10", fname(val)+": interface tests", p.pos(val.Pos()), "no Implements / type assertion on a made value found")
			}
		}
		if c.need("R11.2", "client error reconstruction method", val != nil) {
			recv := val.Params[0]
			isGeneric := func(v ssa.Value) bool {
				call, ok := v.(*ssa.Call)
				return ok && calleeName(call) == "reflect.ValueOf" && c.isParamOrForwarded(stripConv(call.Common().Args[0]), recv)
			}
			nconv := 0
			p.coneInstrs(val, func(in ssa.Instruction) {
				ci, ok := in.(*ssa.Call)
				if !ok || !ci.Common().IsInvoke() {
					return
				}
				mn := ci.Common().Method.Name()
				if mn != "FromJSONRPCError" && mn != "UnmarshalJSON" {
					return
				}
				nconv++
				construct := fmt.Sprintf("%s: failed %s conversion", fname(val), mn)
				var failBranch *ssa.BasicBlock
				for _, ref := range *ci.Referrers() {
					bo, ok := ref.(*ssa.BinOp)
					if !ok || !(isNilConst(bo.X) || isNilConst(bo.Y)) {
						continue
					}
					for _, r2 := range *bo.Referrers() {
						if iff, ok := r2.(*ssa.If); ok {
							if bo.Op == token.NEQ {
								failBranch = iff.Block().Succs[0]
							} else if bo.Op == token.EQL {
								failBranch = iff.Block().Succs[1]
							}
						}
					}
				}
				if failBranch == nil {
					c.bad("R11.2", construct, c.ipos(ci), "the conversion error is ignored: a half-initialised error value is handed to the caller")
					return
				}
				bad := false
				seenRet := false
				srch := newIPSearch(func(x ssa.Instruction) bool {
					rt, ok := x.(*ssa.Return)
					if !ok || rt.Parent() != val {
						return false
					}
					seenRet = true
					if !isGeneric(rt.Results[0]) {
						bad = true
						c.bad("R11.2", construct, c.ipos(rt), "after a failed conversion the function does not return the generic error value itself (it falls through to code that may dereference it or return a non-error / zero value): the caller gets a panic or a nil error")
					}
					return false
				}, nil)
				srch.up = true
				srch.stop = val
				srch.scan(failBranch, 0, nil)
				if !bad && seenRet {
					c.ok("R11.2", construct, c.ipos(ci), "failure branch returns reflect.ValueOf(generic error) directly")
				} else if !seenRet {
					c.bad("R11.2", construct, c.ipos(ci), "failure branch does not return")
				}
			})
			if nconv == 0 {
				c.und("R11.2", fname(val)+": conversions", p.pos(val.Pos()), "no codec/unmarshal conversion found")
			}
			// no return of a zero reflect.Value
			allInstrs(val, func(in ssa.Instruction) {
				rt, ok := in.(*ssa.Return)
				if !ok {
					return
				}
				var lv []ssa.Value
				leaves(rt.Results[0], map[ssa.Value]bool{}, &lv)
				for _, l := range lv {
					if k, ok := l.(*ssa.Const); ok && k.Value == nil {
						c.bad("R11.2", fname(val)+": return value", c.ipos(rt), "a zero reflect.Value can be returned: setting the caller's error result panics")
					}
				}
			})
			// conversion only for a non-nil reply error: every call of val is conditioned on its receiver != nil
			for _, s := range p.callers[val] {
				construct := fmt.Sprintf("%s: reconstruction of the reply error", fname(s.Parent()))
				rcv := s.Common().Args[0]
				okc := false
				for _, cf := range expandConds(impliedConds(s.Block())) {
					bo, ok := cf.Cond.(*ssa.BinOp)
					if ok && (isNilConst(bo.X) || isNilConst(bo.Y)) && ((bo.Op == token.NEQ && cf.True) || (bo.Op == token.EQL && !cf.True)) {
						other := bo.X
						if isNilConst(bo.X) {
							other = bo.Y
						}
						if sameVal(other, rcv) {
							okc = true
						}
					}
				}
				c.check(okc, "R11.2", construct, c.ipos(s), "only when the reply carries an error", "an error value is constructed although the reply's error may be nil: a successful call returns a non-nil error (or panics)")
				// … and whenever it does: no further test of the error object's content decides whether the
				// caller gets an error (an error with code 0 and an empty message is still the handler's error)
				var extra ssa.Value
				for _, cf := range expandConds(impliedConds(s.Block())) {
					v := cf.Cond
					if bo, ok := v.(*ssa.BinOp); ok && (isNilConst(bo.X) || isNilConst(bo.Y)) {
						continue // nil tests
					}
					if c.dependsOn(v, func(x ssa.Value) bool { return sameVal(x, rcv) }, 0, map[ssa.Value]bool{}) {
						extra = v
					}
				}
				c.check(extra == nil, "R11.2", construct+" (for every non-nil reply error)", c.ipos(s), "conditional only on the reply error being non-nil", "whether the caller gets an error also depends on the content of the reply's error object (an 'empty' one is taken for success): a handler error with code 0 and an empty message reaches the caller as nil")
			}
			// the interface test is made on the type of the very value that is then asserted: testing the
			// registered type t instead of reflect.New(t)'s type skips the conversion for value-form
			// registrations whose methods have pointer receivers
			p.coneInstrs(val, func(in ssa.Instruction) {
				ta, ok := in.(*ssa.TypeAssert)
				if !ok || ta.CommaOk {
					return
				}
				ic, ok := ta.X.(*ssa.Call)
				if !ok || calleeName(ic) != "(reflect.Value).Interface" {
					return
				}
				asserted := ic.Common().Args[0]
				construct := fmt.Sprintf("%s: interface test before the assertion", fname(in.Parent()))
				tested := false
				for _, cf := range expandConds(impliedConds(ta.Block())) {
					call, ok := cf.Cond.(*ssa.Call)
					if !ok || !cf.True || !call.Common().IsInvoke() || call.Common().Method.Name() != "Implements" {
						continue
					}
					tc, ok := call.Common().Value.(*ssa.Call)
					if ok && calleeName(tc) == "(reflect.Value).Type" && sameVal(tc.Common().Args[0], asserted) {
						tested = true
					}
				}
				c.check(tested, "R11.2", construct, c.ipos(ta), "Implements is asked of the asserted value's own type", "the value is asserted to an interface that was tested on a different type (the registered type instead of the type of the freshly made value): for a type registered in value form whose decoding methods have pointer receivers the test fails, the conversion is skipped, and the caller gets an empty value of the right type with the content lost")
			})
		}
	}

	// ---- R11.3 Register
	{
		var reg *ssa.Function
		if tn, ok := p.Root.Pkg.Scope().Lookup("Errors").(*types.TypeName); ok {
			reg = p.SSA.LookupMethod(types.NewPointer(tn.Type()), p.Root.Pkg, "Register")
		}
		if c.need("R11.3", "Errors.Register", reg != nil) {
			construct := "Errors.Register: both directions"
			var ups []*ssa.MapUpdate
			allInstrs(reg, func(in ssa.Instruction) {
				if mu, ok := in.(*ssa.MapUpdate); ok {
					ups = append(ups, mu)
				}
			})
			var byType, byCode *ssa.MapUpdate
			for _, mu := range ups {
				mt := mu.Map.Type().Underlying().(*types.Map)
				if isNamed(mt.Key(), "reflect", "Type") {
					byType = mu
				} else if isNamed(mt.Elem(), "reflect", "Type") {
					byCode = mu
				}
			}
			if byType == nil || byCode == nil {
				c.bad("R11.3", construct, p.pos(reg.Pos()), "Register updates only one direction of the registry: the type is sent with its code but not reconstructed (or vice versa)")
			} else {
				same := byType.Key == byCode.Value && byType.Value == byCode.Key
				codeIsParam := false
				for _, prm := range reg.Params {
					if byCode.Key == ssa.Value(prm) {
						codeIsParam = true
					}
				}
				c.check(same && codeIsParam, "R11.3", construct, c.ipos(byType), "byType[t]=c and byCode[c]=t with the same t and the code argument", "the two directions of the registry are not updated with the same (type, code) pair")
			}
			// registration only ever adds: removing "stale" entries un-registers the earlier code of a type
			// that is accepted under two codes (an old and a renumbered one), so errors the peer still sends
			// with the old code arrive as the generic error
			for _, fn := range p.Funcs {
				if pkgOf(fn) != p.Root.Pkg {
					continue
				}
				allInstrs(fn, func(in ssa.Instruction) {
					ci, ok := isBuiltinCall(in, "delete")
					if !ok {
						return
					}
					mt, ok := ci.Call.Args[0].Type().Underlying().(*types.Map)
					if !ok || !(isNamed(mt.Key(), "reflect", "Type") || isNamed(mt.Elem(), "reflect", "Type")) {
						return
					}
					if _, isCode := mt.Key().Underlying().(*types.Basic); !isCode && !isNamed(mt.Key(), "reflect", "Type") {
						return
					}
					c.bad("R11.3", fmt.Sprintf("%s: entry removed from the error registry", fname(fn)), c.ipos(in), "an entry is deleted from the error registry: a type registered under a second code loses its first one (or a code its type), so an error the peer sends under the still-agreed pair arrives as the generic error instead of the registered type")
				})
			}
		}
	}

	// ---- R11.4 processError
	{
		var pe *ssa.Function
		for _, fn := range p.Funcs {
			if pkgOf(fn) != p.Root.Pkg || fn.Parent() != nil || fn.Signature.Recv() == nil {
				continue
			}
			sig := fn.Signature
			if sig.Params().Len() == 1 && isErrorType(sig.Params().At(0).Type()) && sig.Results().Len() == 1 {
				if sl, ok := sig.Results().At(0).Type().(*types.Slice); ok && isNamed(sl.Elem(), "reflect", "Value") {
					pe = fn
				}
			}
		}
		if c.need("R11.4", "client failure-result builder", pe != nil) {
			construct := fmt.Sprintf("%s: failure outputs", fname(pe))
			errParam := pe.Params[len(pe.Params)-1]
			wraps, zero := false, false
			allInstrs(pe, func(in ssa.Instruction) {
				ci, ok := in.(*ssa.Call)
				if !ok {
					return
				}
				switch calleeName(ci) {
				case "reflect.ValueOf":
					if c.dependsOn(ci.Common().Args[0], func(v ssa.Value) bool { return v == ssa.Value(errParam) }, 0, map[ssa.Value]bool{}) {
						if al, ok := stripConv(ci.Common().Args[0]).(*ssa.Alloc); ok && isNamed(al.Type(), p.ModPath, "ErrClient") {
							wraps = true
						}
					}
				case "reflect.New", "reflect.Zero":
					zero = true
				}
			})
			c.check(wraps, "R11.4", construct+" (error)", p.pos(pe.Pos()), "non-nil *ErrClient wrapping the cause", "the failure is not returned as a non-nil client error wrapping the cause")
			c.check(zero, "R11.4", construct+" (value)", p.pos(pe.Pos()), "zero value of the declared type", "the value result is not set to the zero value of the declared type")
			// call sites pass a certainly non-nil error
			for _, s := range p.callers[pe] {
				arg := s.Common().Args[len(s.Common().Args)-1]
				c.check(c.isNonNilErrorValue(arg, s), "R11.4", fmt.Sprintf("%s: failure reported to the caller", fname(s.Parent())), c.ipos(s), "non-nil cause", "a failure path may report a nil cause")
			}
		}
	}
}

// encoderUsesJSON: the custom encoder of the response type returns only what encoding/json produced.
// A hand-formatted fast path (fmt with %q, string concatenation) is not JSON for every message: Go
// quoting emits \x01, \a, \v, \U000e0001 … which JSON does not know, so an error message with such a
// character yields no reply at all (the encode fails) and the caller never sees the handler's error.
func (c *Ctx) encoderUsesJSON(rule string) {
	p, r := c.P, c.R
	if r.TResp == nil {
		c.und(rule, "response type", "-", "not resolved")
		return
	}
	m := p.SSA.LookupMethod(r.TResp, p.Root.Pkg, "MarshalJSON")
	if m == nil {
		m = p.SSA.LookupMethod(types.NewPointer(r.TResp), p.Root.Pkg, "MarshalJSON")
	}
	if m == nil || m.Synthetic != "" && p.unbound(m) == m {
		c.ok(rule, "response encoder", "-", "no custom encoder: encoding/json encodes the struct itself")
		return
	}
	m = p.unbound(m)
	n := 0
	allInstrs(m, func(in ssa.Instruction) {
		rt, ok := in.(*ssa.Return)
		if !ok || len(rt.Results) != 2 {
			return
		}
		n++
		construct := fmt.Sprintf("%s: returned bytes", fname(m))
		good := c.allOrigins(blockLocalValue(rt.Results[0]), func(a apath) bool {
			if len(a.Fields) != 0 {
				return false
			}
			if isNilConst(a.Root) {
				return true
			}
			ex, ok := a.Root.(*ssa.Extract)
			if !ok || ex.Index != 0 {
				return false
			}
			call, ok := ex.Tuple.(*ssa.Call)
			if !ok {
				return false
			}
			n := calleeName(call)
			return n == "encoding/json.Marshal" || n == "encoding/json.MarshalIndent"
		})
		c.check(good, rule, construct, c.ipos(rt), "produced by encoding/json", "the reply encoder returns bytes that encoding/json did not produce (a hand-formatted fast path): for some error messages (control characters) they are not JSON, the encode fails and the caller gets no reply instead of the handler's error")
	})
	if n == 0 {
		c.und(rule, fname(m)+": returns", p.pos(m.Pos()), "no return found")
	}
}

// writerBytesJSON: every use of an io.Writer / io.WriteCloser value in the library's own package is
// one of: json.NewEncoder(w); w.Write of a constant (batch framing), of bytes returned by
// json.Marshal, or of the parameter of an enclosing Write method (a writer wrapper forwarding). A
// reply formatted by hand (fmt.Fprintf with %q, io.WriteString, string concatenation) is JSON for
// ordinary text only: Go quoting emits \x1b, \a, \v, \U000e0001, which JSON does not know, so
// an error message with such a character reaches the caller as a decode error, or — over
// WebSocket — as a dropped frame and a call that never returns.
func (c *Ctx) writerBytesJSON(rule string) {
	p := c.P
	isW := func(t types.Type) bool { return isNamed(t, "io", "Writer") || isNamed(t, "io", "WriteCloser") }
	var jsonBytes func(v ssa.Value) bool
	jsonBytes = func(v ssa.Value) bool {
		return c.allOrigins(v, func(a apath) bool {
			if len(a.Fields) != 0 {
				return false
			}
			switch x := a.Root.(type) {
			case *ssa.Const:
				return true
			case *ssa.Convert:
				_, isK := x.X.(*ssa.Const)
				return isK
			case *ssa.Parameter:
				f := x.Parent()
				return f.Name() == "Write" && f.Signature.Recv() != nil
			case *ssa.Extract:
				call, ok := x.Tuple.(*ssa.Call)
				if !ok || x.Index != 0 {
					return false
				}
				n := calleeName(call)
				return n == "encoding/json.Marshal" || n == "encoding/json.MarshalIndent"
			}
			return false
		})
	}
	// jsonOnlyBuffer: v is (the address of) a local bytes.Buffer that is filled only through a
	// json.Encoder (encode into a buffer first, then write the buffer out)
	jsonOnlyBuffer := func(v ssa.Value) bool {
		v = stripConv(v)
		if mi, ok := v.(*ssa.MakeInterface); ok {
			v = mi.X
		}
		al, ok := v.(*ssa.Alloc)
		if !ok {
			if ld, isLd := v.(*ssa.UnOp); isLd && ld.Op == token.MUL {
				// a *bytes.Buffer held in a single-assignment local
				if a2, isAl := ld.X.(*ssa.Alloc); isAl {
					for _, ref := range *a2.Referrers() {
						if st, isSt := ref.(*ssa.Store); isSt && st.Addr == ssa.Value(a2) {
							if a3, isA3 := st.Val.(*ssa.Alloc); isA3 {
								al, ok = a3, true
							}
						}
					}
				}
			}
			if !ok {
				return false
			}
		}
		pt, isPtr := al.Type().Underlying().(*types.Pointer)
		if !isPtr || !isNamed(pt.Elem(), "bytes", "Buffer") {
			return false
		}
		fed := false
		good := true
		var visit func(x ssa.Value)
		visit = func(x ssa.Value) {
			if x.Referrers() == nil {
				return
			}
			for _, ref := range *x.Referrers() {
				switch r := ref.(type) {
				case *ssa.DebugRef:
				case *ssa.MakeInterface:
					for _, r2 := range *r.Referrers() {
						ci, isCall := r2.(ssa.CallInstruction)
						if !isCall {
							good = false
							continue
						}
						switch calleeName(ci) {
						case "encoding/json.NewEncoder":
							fed = true
						case "io.Copy": // as the source
							if ci.Common().Args[0] == ssa.Value(r) {
								good = false
							}
						default:
							good = false
						}
					}
				case ssa.CallInstruction:
					switch calleeName(r) {
					case "(*bytes.Buffer).Bytes", "(*bytes.Buffer).Len", "(*bytes.Buffer).Reset", "(*bytes.Buffer).String", "(*bytes.Buffer).WriteTo":
					default:
						good = false
					}
				case *ssa.Store:
					if r.Val == x {
						if a2, isAl := r.Addr.(*ssa.Alloc); isAl {
							visit(a2)
							for _, r3 := range *a2.Referrers() {
								if ld, isLd := r3.(*ssa.UnOp); isLd {
									visit(ld)
								}
							}
						} else {
							good = false
						}
					}
				case *ssa.UnOp:
				default:
					good = false
				}
			}
		}
		visit(al)
		return fed && good
	}
	jsonBytes0 := jsonBytes
	jsonBytes = func(v ssa.Value) bool {
		if jsonBytes0(v) {
			return true
		}
		return c.allOrigins(v, func(a apath) bool {
			if jsonBytes0(a.Root) && len(a.Fields) == 0 {
				return true
			}
			call, ok := a.Root.(*ssa.Call)
			return ok && len(a.Fields) == 0 && calleeName(call) == "(*bytes.Buffer).Bytes" && jsonOnlyBuffer(call.Common().Args[0])
		})
	}
	n := 0
	for _, fn := range p.Funcs {
		if pkgOf(fn) != p.Root.Pkg {
			continue
		}
		allInstrs(fn, func(in ssa.Instruction) {
			ci, ok := in.(ssa.CallInstruction)
			if !ok {
				return
			}
			cm := ci.Common()
			construct := fmt.Sprintf("%s: bytes written to a message writer", fname(fn))
			if cm.IsInvoke() {
				if !isW(cm.Value.Type()) || cm.Method.Name() != "Write" || len(cm.Args) != 1 {
					return
				}
				n++
				c.check(jsonBytes(cm.Args[0]), rule, construct, c.ipos(in), "constant, json.Marshal result or forwarded by a writer wrapper", "bytes written to the message writer were not produced by encoding/json: a hand-built reply is not valid JSON for every error message (control characters), so the caller gets a decode error or no reply instead of the handler's error")
				return
			}
			g := staticCallee(ci)
			if g == nil || p.allFns[g] {
				return // calls inside the tree hand the writer on; its uses there are judged there
			}
			uses := false
			for _, a := range cm.Args {
				if isW(a.Type()) {
					// io.Discard is nobody's message writer (io.Copy(io.Discard, resp.Body) drains a body)
					if ld, ok := stripConv(a).(*ssa.UnOp); ok && ld.Op == token.MUL {
						if g, ok := ld.X.(*ssa.Global); ok && g.Pkg != nil && g.Pkg.Pkg.Path() == "io" && g.Name() == "Discard" {
							continue
						}
					}
					uses = true
				}
			}
			if !uses {
				return
			}
			n++
			nm := calleeName(ci)
			if nm == "io.Copy" && len(cm.Args) == 2 && isW(cm.Args[0].Type()) && jsonOnlyBuffer(cm.Args[1]) {
				c.ok(rule, construct, c.ipos(in), "copy of a buffer filled only by a json.Encoder")
				return
			}
			c.check(nm == "encoding/json.NewEncoder", rule, construct, c.ipos(in), "json.NewEncoder", "the message writer is handed to "+nm+": whatever it writes was not produced by encoding/json — a hand-formatted reply (fmt with %q, io.WriteString) is not valid JSON for every error message (\\x1b, \\a, \\v … are Go escapes, not JSON), so the caller gets a decode error or, over WebSocket, no reply at all instead of the handler's error")
		})
	}
	if n == 0 {
		c.und(rule, "message writer uses", "-", "no use of an io.Writer found in the library package")
	}
}

// resultSlotsPerCall: R11.7. In the region of the client's call function every receiver of
// (reflect.Value).Set is a per-call value: none of its origins is read out of a field of an
// object reached through a pointer (the call descriptor, the client), which outlives the call.
func (c *Ctx) resultSlotsPerCall(rule string) {
	r := c.R
	if r.FnCall == nil {
		return
	}
	n := 0
	for _, g := range c.region(r.FnCall) {
		allInstrsRaw(g, func(in ssa.Instruction) {
			ci, ok := in.(*ssa.Call)
			if !ok || calleeName(ci) != "(reflect.Value).Set" {
				return
			}
			n++
			construct := fmt.Sprintf("%s: target of a reflect Set on the call path", fname(g))
			var shared *types.Var
			for _, o := range c.origins(ci.Common().Args[0]) {
				if f := o.last(); f != nil && isNamed(f.Type(), "reflect", "Value") {
					shared = f
				}
			}
			if shared != nil {
				c.bad(rule, construct, c.ipos(ci), fmt.Sprintf("the value being set is kept in field %s of an object that outlives the call: overlapping calls of the same method share it, so a failing call can return nil or another call's error", shared.Name()))
			} else {
				c.ok(rule, construct, c.ipos(ci), "a value made for this call")
			}
		})
	}
	if n == 0 {
		c.ok(rule, "reflect Set on the call path", "-", "none")
	}
}

// noGoQuotingInMarshal: R11.8.
func (c *Ctx) noGoQuotingInMarshal(rule string) {
	p := c.P
	n := 0
	for _, fn := range p.Funcs {
		if !p.inTree(fn) || fn.Name() != "MarshalJSON" || fn.Signature.Recv() == nil {
			continue
		}
		n++
		construct := fmt.Sprintf("%s: string escaping", fname(fn))
		var bad ssa.Instruction
		p.coneInstrs(fn, func(in ssa.Instruction) {
			ci, ok := in.(ssa.CallInstruction)
			if !ok {
				return
			}
			switch calleeName(ci) {
			case "strconv.Quote", "strconv.AppendQuote", "strconv.QuoteToASCII", "strconv.AppendQuoteToASCII", "strconv.QuoteToGraphic", "strconv.AppendQuoteToGraphic":
				bad = in
			case "fmt.Sprintf", "fmt.Fprintf", "fmt.Appendf":
				for _, a := range ci.Common().Args {
					if s, ok := constString(a); ok && strings.Contains(s, "%q") {
						bad = in
					}
				}
			}
		})
		if bad != nil {
			c.bad(rule, construct, c.ipos(bad), "a MarshalJSON method quotes text with Go syntax: for messages containing control characters or non-printable runes the output is not valid JSON, the encoder rejects the whole reply and the caller gets a transport error (or, over WebSocket, nothing) instead of the handler's error")
		} else {
			c.ok(rule, construct, p.pos(fn.Pos()), "no Go quoting")
		}
	}
	if n == 0 {
		c.ok(rule, "MarshalJSON methods", "-", "none")
	}
}
