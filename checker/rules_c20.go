package main

import (
	"fmt"
	"go/token"
	"go/types"
	"strings"

	"golang.org/x/tools/go/ssa"
)

func init() {
	register(&propInfo{
		ID:          "C20",
		Explanation: "Typestate, lockset and path analysis of the httpio reader side channel: (R20.1) the channel that signals 'stream consumed' is closed only inside sync.Once-guarded closures of one Once object, although Read and Close may be invoked any number of times; (R20.2) upload handler and parameter decoder each perform lookup-or-create of the hand-off channel inside one critical section of the same mutex, keyed by the parsed id, create only on the not-found branch, and meet on that channel with opposite directions, each inside a select that also watches its context; (R20.3) the encoder draws a fresh id on every invocation (inside the encoder closure), uploads the caller's reader to a URL derived from that id and returns that same id as the parameter; (R20.4) the upload handler reports success only after the consumed-signal was received, and no path falls off the end (implicit 200) without it. R20.1 also requires every use of the wrapped body outside the signalling Read/Close to raise the signal itself; (R20.7) the inner read stands behind a test of a wrapper field that every failing read sets, so end-of-file is reported again without touching the body that net/http closes once the signal is raised. (R20.8) a registered parameter encoder runs once per argument, before the first transport send; (R20.9) a counting limit in the reader path is given back on every path. (R20.10) the encoder does nothing with the caller's reader except hand it to the upload request. (R20.11) the upload handler never reads the request body itself. (R20.12) the upload handler waits only for its rendezvous, its request's context and the consumed signal. (R20.13) the wait for the consumed signal has no timer or deadline context among its alternatives.",
		NotDecided:  "Byte-exactness of the stream (values through net/http), arrival-order schedules themselves (only the symmetric locked rendezvous that makes both orders work), and the upload handler carrying on after a malformed id (observation recorded in DESIGN.md).",
		Assumptions: []string{"sync.Once.Do runs its argument at most once per Once object", "the wrapper type is the struct in httpio embedding io.ReadCloser with a chan struct{} field"},
		Run:         runC20,
	})
}

// dependsOn: does v transitively (operands, loads of locals/fields and the stores
// into them, captured variables) depend on target? Coarse may-dependence.
func (c *Ctx) dependsOn(v ssa.Value, target func(ssa.Value) bool, depth int, seen map[ssa.Value]bool) bool {
	if v == nil || depth > 14 || seen[v] {
		return false
	}
	seen[v] = true
	if target(v) {
		return true
	}
	switch x := v.(type) {
	case *ssa.FreeVar:
		cv := c.P.canonVar(x)
		if cv != ssa.Value(x) {
			return c.dependsOn(cv, target, depth+1, seen)
		}
		return false
	case *ssa.Alloc:
		// anything stored into it or its fields
		return c.storesDepend(x, target, depth, seen)
	case *ssa.Parameter:
		// a helper's parameter depends on whatever its synchronous callers pass (may-dependence)
		fn := x.Parent()
		if c.P.roots != nil && c.P.roots[fn] {
			return false
		}
		idx := -1
		for i, q := range fn.Params {
			if q == x {
				idx = i
			}
		}
		for _, s := range c.P.syncCallers(fn) {
			if idx >= 0 && idx < len(s.Common().Args) && c.dependsOn(s.Common().Args[idx], target, depth+1, seen) {
				return true
			}
		}
		// a function started with go / defer gets its arguments the same way
		for _, s := range c.P.callers[fn] {
			if _, isCall := s.(*ssa.Call); isCall {
				continue
			}
			if cm := s.Common(); !cm.IsInvoke() && idx >= 0 && idx < len(cm.Args) && len(cm.Args) == len(fn.Params) && c.dependsOn(cm.Args[idx], target, depth+1, seen) {
				return true
			}
		}
		return false
	case *ssa.Const, *ssa.Global, *ssa.Function, *ssa.Builtin:
		return false
	}
	in, ok := v.(ssa.Instruction)
	if !ok {
		return false
	}
	// a pointer held in an SSA value (u, _ := url.Parse(…); u.Path = …): what is written into the
	// object's fields through this value is part of what it denotes
	if _, isPtr := v.Type().Underlying().(*types.Pointer); isPtr && v.Referrers() != nil && depth < 12 {
		for _, ref := range *v.Referrers() {
			if fa, ok := ref.(*ssa.FieldAddr); ok && fa.X == v && c.storesDepend(fa, target, depth+2, seen) {
				return true
			}
		}
	}
	for _, op := range in.Operands(nil) {
		if op != nil && *op != nil && c.dependsOn(*op, target, depth+1, seen) {
			return true
		}
	}
	return false
}

func (c *Ctx) storesDepend(al ssa.Value, target func(ssa.Value) bool, depth int, seen map[ssa.Value]bool) bool {
	refs := al.Referrers()
	if refs == nil {
		return false
	}
	for _, ref := range *refs {
		switch r := ref.(type) {
		case *ssa.Store:
			if r.Addr == al && c.dependsOn(r.Val, target, depth+1, seen) {
				return true
			}
		case *ssa.FieldAddr:
			if c.storesDepend(r, target, depth+1, seen) {
				return true
			}
		case *ssa.IndexAddr:
			if c.storesDepend(r, target, depth+1, seen) {
				return true
			}
		case *ssa.UnOp:
			// the variable holds a pointer: writes through any load of it count too
			if r.Op == token.MUL && depth < 12 {
				if _, isPtr := r.Type().Underlying().(*types.Pointer); isPtr {
					for _, r2 := range *r.Referrers() {
						if fa, ok := r2.(*ssa.FieldAddr); ok && c.storesDepend(fa, target, depth+2, seen) {
							return true
						}
					}
				}
			}
		}
	}
	return false
}

func isCallNamed(v ssa.Value, name string) bool {
	c, ok := v.(*ssa.Call)
	return ok && calleeName(c) == name
}

func runC20(c *Ctx) {
	p := c.P
	c.rule("R20.1", "the consumed-signal channel of the reader wrapper is closed only under one sync.Once")
	c.rule("R20.2", "upload handler and decoder: lookup-or-create of the hand-off channel in one critical section of the same mutex, keyed by the parsed id; opposite directions; each select watches its context")
	c.rule("R20.3", "the encoder draws a fresh id per invocation, uploads the caller's reader to a URL derived from it and returns the same id")
	c.rule("R20.8", "a registered parameter encoder (the reader encoder starts the upload) runs once per argument, before the first transport send; a retry re-sends the request as built")
	c.encodersRunOnce("R20.8")
	c.ruleOpt("R20.9", "a counting limit taken in the reader path is given back on every path out of the function")
	c.countersBalanced("R20.9", p.Httpio.Pkg)
	c.ruleOpt("R20.11", "the upload request ends when the handler is done with the stream: the upload handler never reads the request body itself (draining what the handler left unread never ends for an unbounded source)")
	c.uploadBodyOnlyThroughWrapper("R20.11")
	c.rule("R20.4", "the upload handler answers 200 (explicitly or implicitly) only after receiving the consumed signal")
	if !c.need("R20.1", "httpio package", p.Httpio != nil) {
		return
	}
	// wrapper type and its wait channel
	var twrc *types.Named
	var fWait *types.Var
	for _, nt := range namedStructs(p.Httpio.Pkg) {
		st, ok := nt.Underlying().(*types.Struct)
		if !ok {
			continue
		}
		emb := false
		var ch *types.Var
		for i := 0; i < st.NumFields(); i++ {
			if st.Field(i).Embedded() && isNamed(st.Field(i).Type(), "io", "ReadCloser") {
				emb = true
			}
			if t, ok := st.Field(i).Type().(*types.Chan); ok && isEmptyStruct(t.Elem()) {
				ch = st.Field(i)
			}
		}
		if emb && ch != nil {
			twrc, fWait = nt, ch
		}
	}
	if !c.need("R20.1", "reader wrapper type", twrc != nil) {
		return
	}

	// ---- R20.1
	closes := usesOfKind(p.uses(fWait), "close")
	// the channel may also be closed through the local it was made into before it went into the field
	for _, su := range usesOfKind(p.uses(fWait), "store") {
		mks := map[ssa.Value]bool{}
		for _, o := range c.origins(su.Val) {
			if mk, ok := o.Root.(*ssa.MakeChan); ok && len(o.Fields) == 0 {
				mks[mk] = true
			}
		}
		if len(mks) == 0 {
			continue
		}
		for _, fn := range p.Funcs {
			if pkgOf(fn) != p.Httpio.Pkg {
				continue
			}
			allInstrs(fn, func(in ssa.Instruction) {
				ci, ok := isBuiltinCall(in, "close")
				if !ok {
					return
				}
				for _, o := range c.origins(ci.Call.Args[0]) {
					if mks[o.Root] && len(o.Fields) == 0 {
						closes = append(closes, FieldUse{Fn: fn, Field: fWait, Kind: "close", At: in})
					}
				}
			})
		}
	}
	if len(closes) == 0 {
		c.bad("R20.1", "reader wrapper: consumed signal", "-", "the consumed signal is never raised: the uploading request could never complete")
	}
	var onceObj *types.Var
	// isRaise: the instruction raises the consumed signal: Once.Do, or a call of the once-wrapped function kept in a field
	isRaise := func(in ssa.Instruction) bool {
		ci, ok := in.(ssa.CallInstruction)
		if !ok {
			return false
		}
		if calleeName(ci) == "(*sync.Once).Do" {
			return true
		}
		if !ci.Common().IsInvoke() && onceObj != nil {
			if f := loadedField(ci.Common().Value); f != nil && f == onceObj {
				return true
			}
		}
		return false
	}
	for _, u := range closes {
		construct := fmt.Sprintf("%s: close of the consumed-signal channel", fname(u.Fn))
		// enclosing closure must be the argument of (*sync.Once).Do
		thisOnce, ok := c.onceGuard(u.Fn, 0)
		if !ok {
			c.bad("R20.1", construct, c.ipos(u.At), "the channel is closed outside a sync.Once; Read (after an error) and Close may both run, or run repeatedly, and a second close panics")
			continue
		}
		if onceObj == nil {
			onceObj = thisOnce
		}
		c.check(thisOnce == onceObj, "R20.1", construct, c.ipos(u.At), "guarded by the wrapper's Once", "close sites are guarded by different Once objects, so the channel can still be closed twice")
	}
	// both Read (on error) and Close raise the signal
	for _, mname := range []string{"Read", "Close"} {
		m := p.SSA.LookupMethod(types.NewPointer(twrc), p.Httpio.Pkg, mname)
		construct := fmt.Sprintf("(*%s).%s: raises the consumed signal", twrc.Obj().Name(), mname)
		if m == nil || m.Synthetic != "" {
			c.bad("R20.1", construct, "-", "the wrapper no longer intercepts "+mname+", so consumption is never signalled on that path")
			continue
		}
		raises := false
		for _, g := range c.region(m) {
			for _, u := range closes {
				if u.Fn == g {
					raises = true
				}
			}
			allInstrs(g, func(in ssa.Instruction) {
				if _, isCall := in.(*ssa.Call); isCall && isRaise(in) && calleeName(in.(ssa.CallInstruction)) != "(*sync.Once).Do" {
					raises = true
				}
			})
		}
		c.check(raises, "R20.1", construct, p.pos(m.Pos()), "closes the channel (once)", mname+" does not raise the consumed signal")
		if raises && mname == "Close" {
			// Close must raise the signal on every path (a handler that closes the reader early is done with it)
			isDo := isRaise
			if ret := reachFromEntry(m, isReturn, isDo); ret != nil {
				c.bad("R20.1", construct+" on every path", c.ipos(ret), "Close can return without raising the consumed signal (e.g. only when closing the body fails): a handler that closes the reader early leaves the uploading request pending for ever")
			} else {
				c.ok("R20.1", construct+" on every path", p.pos(m.Pos()), "signal raised before every return")
			}
		}
		if raises && mname == "Read" {
			// Read raises it on every failing read: from the error branch the signal is reached
			var readCall *ssa.Call
			allInstrs(m, func(in ssa.Instruction) {
				if ci, ok := in.(*ssa.Call); ok && ci.Common().IsInvoke() && ci.Common().Method.Name() == "Read" {
					readCall = ci
				}
			})
			okr := false
			if readCall != nil {
				for _, ref := range *readCall.Referrers() {
					ex, ok := ref.(*ssa.Extract)
					if !ok || ex.Index != 1 {
						continue
					}
					for _, r2 := range *ex.Referrers() {
						bo, ok := r2.(*ssa.BinOp)
						if !ok || !(isNilConst(bo.X) || isNilConst(bo.Y)) {
							continue
						}
						for _, r3 := range *bo.Referrers() {
							if iff, ok := r3.(*ssa.If); ok {
								fail := iff.Block().Succs[0]
								if bo.Op == token.EQL {
									fail = iff.Block().Succs[1]
								}
								isDo := isRaise
								if reachFromBlock(fail, isReturn, isDo) == nil {
									okr = true
								}
							}
						}
					}
				}
			}
			c.check(okr, "R20.1", construct+" on every failing read", p.pos(m.Pos()), "every error (incl. EOF) raises the signal", "a failing read (EOF) can return without raising the consumed signal: the upload never completes for handlers that read to EOF without closing")
		}
	}

	// ---- R20.7: end-of-file is sticky. Raising the consumed signal lets the upload handler return, and
	// net/http then closes the request body: a Read of that body afterwards answers "invalid Read on
	// closed Body", not io.EOF. So once the wrapped body has reported an error (EOF included) the wrapper
	// must never ask it again: the inner Read stands behind a test of a wrapper field that the failing
	// branch sets before it returns.
	c.rule("R20.7", "once the wrapped body has returned an error (EOF), the wrapper's Read reports it again on every further call without reading the body (which net/http closes as soon as the consumed signal is raised)")
	{
		m := p.SSA.LookupMethod(types.NewPointer(twrc), p.Httpio.Pkg, "Read")
		construct := fmt.Sprintf("(*%s).Read: end-of-file is sticky", twrc.Obj().Name())
		var readCall *ssa.Call
		if m != nil && m.Synthetic == "" {
			allInstrs(m, func(in ssa.Instruction) {
				if ci, ok := in.(*ssa.Call); ok && ci.Common().IsInvoke() && ci.Common().Method.Name() == "Read" {
					readCall = ci
				}
			})
		}
		if readCall == nil {
			c.und("R20.7", construct, "-", "the wrapper's Read (with its read of the wrapped body) was not found")
		} else {
			// the state field: tested (nil / false) on the way to the inner read
			st := twrc.Underlying().(*types.Struct)
			var state *types.Var
			for _, cf := range expandConds(impliedConds(readCall.Block())) {
				for i := 0; i < st.NumFields(); i++ {
					f := st.Field(i)
					if f.Embedded() {
						continue
					}
					switch x := cf.Cond.(type) {
					case *ssa.BinOp:
						if x.Op != token.EQL && x.Op != token.NEQ {
							continue
						}
						other := x.X
						if isNilConst(x.X) {
							other = x.Y
						} else if !isNilConst(x.Y) {
							continue
						}
						if _, ok := loadsField(other, f); ok && (x.Op == token.EQL) == cf.True {
							state = f
						}
					default:
						if _, ok := loadsField(cf.Cond, f); ok && !cf.True {
							state = f
						}
					}
				}
			}
			if state == nil {
				c.bad("R20.7", construct, c.ipos(readCall), "the wrapped body is read on every call: after the first error (EOF) raised the consumed signal, net/http closes the body, and a handler that reads past end-of-file gets 'http: invalid Read on closed Body' instead of io.EOF on the next Read")
			} else {
				// every failing read records the state before returning
				sets := func(in ssa.Instruction) bool {
					s, ok := in.(*ssa.Store)
					if !ok {
						return false
					}
					fa, ok := s.Addr.(*ssa.FieldAddr)
					return ok && fieldOfAddr(fa) == state && !isNilConst(s.Val) && constKind(s.Val) != 2
				}
				okAll := false
				for _, ref := range *readCall.Referrers() {
					ex, ok := ref.(*ssa.Extract)
					if !ok || ex.Index != 1 {
						continue
					}
					for _, r2 := range *ex.Referrers() {
						bo, ok := r2.(*ssa.BinOp)
						if !ok || !(isNilConst(bo.X) || isNilConst(bo.Y)) {
							continue
						}
						for _, r3 := range *bo.Referrers() {
							if iff, ok := r3.(*ssa.If); ok {
								fail := iff.Block().Succs[0]
								if bo.Op == token.EQL {
									fail = iff.Block().Succs[1]
								}
								okAll = reachFromBlock(fail, isReturn, sets) == nil
							}
						}
					}
				}
				c.check(okAll, "R20.7", construct, c.ipos(readCall), "the inner read stands behind a test of "+state.Name()+", which every failing read sets", "the field "+state.Name()+" guards the inner read but a failing read can return without setting it: the next Read asks the (by then closed) body again")
			}
		}
	}

	// no way of consuming the body goes round the signalling Read: every use of the embedded body is the
	// Read inside the wrapper's Read or the Close inside its Close; any other consumer (a WriteTo fast
	// path copying from the embedded body, an accessor handing it out) must raise the signal itself
	// before it returns
	{
		var fEmb *types.Var
		st := twrc.Underlying().(*types.Struct)
		for i := 0; i < st.NumFields(); i++ {
			if st.Field(i).Embedded() && isNamed(st.Field(i).Type(), "io", "ReadCloser") {
				fEmb = st.Field(i)
			}
		}
		isDo := func(in ssa.Instruction) bool {
			ci, ok := in.(*ssa.Call)
			return ok && calleeName(ci) == "(*sync.Once).Do"
		}
		for _, u := range p.uses(fEmb) {
			if u.Kind == "store" {
				continue
			}
			if u.Kind == "invoke" {
				if ci, ok := u.At.(ssa.CallInstruction); ok {
					mn := ci.Common().Method.Name()
					if (mn == "Read" || mn == "Close") && u.Fn.Name() == mn && u.Fn.Signature.Recv() != nil {
						continue
					}
				}
			}
			construct := fmt.Sprintf("%s: the wrapped body is used outside the signalling Read/Close", fname(u.Fn))
			ret := reachFrom(u.At, isReturn, isDo)
			// a deferred raise, registered on every path before the use, runs at every return
			deferredDo := func(in ssa.Instruction) bool {
				d, ok := in.(*ssa.Defer)
				if !ok {
					return false
				}
				if calleeName(d) == "(*sync.Once).Do" {
					return true
				}
				for _, g := range c.funcsOf(d.Common().Value) {
					found := false
					allInstrs(g, func(x ssa.Instruction) {
						if isDo(x) {
							found = true
						}
					})
					if found {
						return true
					}
				}
				return false
			}
			if ret != nil && mustPrecede(u.Fn, deferredDo, u.At) {
				ret = nil
			}
			c.check(ret == nil, "R20.1", construct, c.ipos(u.At), "raises the consumed signal before returning", "the wrapped body is consumed on a path that goes round the wrapper's Read (e.g. an io.WriterTo fast path copying from the embedded body) and returns without raising the consumed signal: the bytes arrive, the call returns, but the uploading HTTP request never completes")
		}
	}

	// ---- R20.6
	c.ruleOpt("R20.6", "no single Read is taken for the whole stream (a Read may return fewer bytes than asked for)")
	c.shortReadRule("R20.6", p.Httpio.Pkg)

	// ---- R20.5
	c.ruleOpt("R20.5", "an object handed to another goroutine over a channel is not returned to a sync.Pool by the sender")
	c.poolSharedRule("R20.5", p.Httpio.Pkg)

	// ---- locate the closures
	dec := p.Httpio.Func("ReaderParamDecoder")
	enc := p.Httpio.Func("ReaderParamEncoder")
	if !c.need("R20.2", "httpio.ReaderParamDecoder", dec != nil) || !c.need("R20.3", "httpio.ReaderParamEncoder", enc != nil) {
		return
	}
	var hnd, decf *ssa.Function
	for _, a := range dec.AnonFuncs {
		sig := a.Signature
		if sig.Params().Len() == 2 && isNamed(sig.Params().At(0).Type(), "net/http", "ResponseWriter") {
			hnd = a
		}
		if sig.Params().Len() == 2 && isNamed(sig.Params().At(0).Type(), "context", "Context") && sig.Results().Len() == 2 {
			decf = a
		}
	}
	// the two may be methods of a small rendezvous type, handed out as method values
	if hnd == nil || decf == nil {
		allInstrs(dec, func(in ssa.Instruction) {
			switch x := in.(type) {
			case *ssa.Return:
				if hnd == nil && len(x.Results) > 0 {
					for _, f := range c.funcsOf(x.Results[0]) {
						f = p.unbound(f)
						if sig := f.Signature; sig.Params().Len() == 2 && isNamed(sig.Params().At(0).Type(), "net/http", "ResponseWriter") {
							hnd = f
						}
					}
				}
			case *ssa.Call:
				if decf == nil && strings.HasSuffix(calleeName(x), ".WithParamDecoder") && len(x.Common().Args) == 2 {
					for _, f := range c.funcsOf(x.Common().Args[1]) {
						f = p.unbound(f)
						if sig := f.Signature; sig.Params().Len() == 2 && isNamed(sig.Params().At(0).Type(), "context", "Context") && sig.Results().Len() == 2 {
							decf = f
						}
					}
				}
			}
		})
	}
	if !c.need("R20.2", "upload handler closure / decoder closure", hnd != nil && decf != nil) {
		return
	}

	// ---- R20.13: how long the handler takes to consume the stream is its own business: the upload handler's wait
	// for the consumed signal may end early only when the uploading request itself is given up. A timer or a
	// context with a deadline among the alternatives ("pairing time-out") cuts long streams: the handler answers,
	// net/http closes the body, and the RPC handler reads a prefix followed by an error instead of end-of-file.
	c.ruleOpt("R20.13", "the wait for the consumed signal has no time limit of the library's own: its only alternative is the uploading request's context, not a timer or a context with a deadline")
	{
		n := 0
		timed := func(v ssa.Value) string {
			// <-time.After(..) / timer.C
			if ci, ok := v.(*ssa.Call); ok && calleeName(ci) == "time.After" {
				return "time.After"
			}
			if f := loadedField(v); f != nil && f.Name() == "C" && isNamed(f.Type(), "", "") {
				return ""
			}
			ci, ok := v.(*ssa.Call)
			if !ok || !ci.Common().IsInvoke() || ci.Common().Method.Name() != "Done" {
				return ""
			}
			res := ""
			c.dependsOn(ci.Common().Value, func(x ssa.Value) bool {
				if call, ok := x.(*ssa.Call); ok {
					switch calleeName(call) {
					case "context.WithTimeout", "context.WithDeadline", "context.WithTimeoutCause", "context.WithDeadlineCause":
						res = calleeName(call)
						return true
					}
				}
				return false
			}, 0, map[ssa.Value]bool{})
			return res
		}
		for _, g := range c.region(hnd) {
			allInstrs(g, func(in ssa.Instruction) {
				sel, ok := in.(*ssa.Select)
				if !ok {
					return
				}
				waits := false
				for _, st := range sel.States {
					if st.Dir == types.RecvOnly && fWait != nil && isLoadOf(st.Chan, fWait) {
						waits = true
					}
				}
				if !waits {
					return
				}
				for _, st := range sel.States {
					if st.Dir != types.RecvOnly {
						continue
					}
					if how := timed(st.Chan); how != "" {
						n++
						c.bad("R20.13", fmt.Sprintf("%s: wait for the consumed signal", fname(g)), c.ipos(sel), "the wait for the consumed signal is also ended by "+how+": a stream whose consumption outlasts that limit (a large payload, a slow handler, a trickling producer) is cut — the upload is answered, the body closed, and the handler reads a prefix followed by an error instead of end-of-file")
					}
				}
			})
		}
		if n == 0 {
			c.ok("R20.13", "no instance", "-", "the wait for the consumed signal is bounded only by the request's own context")
		}
	}

	// ---- R20.12: an upload waits for its request, for its request's context and for the consumed signal — for
	// nothing else. A bounded resource taken before the rendezvous and held until the stream is consumed (a cap
	// on parked uploads) deadlocks calls that carry two readers once the first readers of enough calls hold all
	// the slots, and lets uploads whose request never comes starve everybody.
	c.ruleOpt("R20.12", "an upload waits only for its rendezvous, its request context and the consumed signal: no other channel operation, WaitGroup or Cond wait in the upload handler")
	{
		okChan := func(v ssa.Value) bool {
			if ch, ok := v.Type().Underlying().(*types.Chan); ok {
				if pt, ok := ch.Elem().(*types.Pointer); ok && twrc != nil && pt.Elem() == types.Type(twrc) {
					return true // the rendezvous channel
				}
			}
			if fWait != nil && isLoadOf(v, fWait) {
				return true
			}
			if ci, ok := v.(*ssa.Call); ok && ci.Common().IsInvoke() && ci.Common().Method.Name() == "Done" {
				return true
			}
			return false
		}
		n := 0
		for _, g := range c.region(hnd) {
			allInstrs(g, func(in ssa.Instruction) {
				bad := ""
				switch x := in.(type) {
				case *ssa.Send:
					if !okChan(x.Chan) {
						bad = "send"
					}
				case *ssa.UnOp:
					if x.Op == token.ARROW && !okChan(x.X) {
						if _, deferred := in.(*ssa.Defer); !deferred {
							bad = "receive"
						}
					}
				case *ssa.Select:
					if x.Blocking {
						for _, st := range x.States {
							if !okChan(st.Chan) {
								bad = "select on another channel"
							}
						}
					}
				default:
					if isGoroutineWait(in) {
						bad = "wait"
					}
				}
				if bad != "" {
					n++
					c.bad("R20.12", fmt.Sprintf("%s: upload handler waits for something else (%s)", fname(g), bad), c.ipos(in), "the upload handler waits on a channel that is neither its rendezvous, its request's context nor the consumed signal (a slot of a bounded pool, say): calls carrying several readers deadlock once first readers hold all the slots, and uploads whose request never arrives starve every later call")
				}
			})
		}
		if n == 0 {
			c.ok("R20.12", "no instance", "-", "the upload handler waits only for the rendezvous, the request context and the consumed signal")
		}
	}
	c.rendezvous(hnd, "send")
	c.rendezvous(decf, "recv")

	// ---- R20.4
	{
		construct := fmt.Sprintf("%s: success status", fname(hnd))
		// wait arm: select state receiving from the wrapper's wait field
		var waitArm *ssa.BasicBlock
		allInstrs(hnd, func(in ssa.Instruction) {
			sel, ok := in.(*ssa.Select)
			if !ok {
				return
			}
			arms, _ := selectArms(sel)
			for _, a := range arms {
				if a.State.Dir == types.RecvOnly {
					if _, ok := loadsField(a.State.Chan, fWait); ok {
						waitArm = a.Body
					}
				}
			}
			// plain (non-select) receive also accepted
		})
		var plainRecv ssa.Instruction
		allInstrs(hnd, func(in ssa.Instruction) {
			if u, ok := in.(*ssa.UnOp); ok && u.Op == token.ARROW {
				if _, ok := loadsField(u.X, fWait); ok {
					plainRecv = in
				}
			}
		})
		waited := func(in ssa.Instruction) bool {
			if plainRecv != nil && in == plainRecv {
				return true
			}
			return waitArm != nil && in.Block() == waitArm && in == waitArm.Instrs[0]
		}
		if waitArm == nil && plainRecv == nil {
			c.bad("R20.4", construct, p.pos(hnd.Pos()), "the upload handler never waits for the consumed signal")
		} else {
			failure := func(in ssa.Instruction) bool {
				ci, ok := in.(*ssa.Call)
				if !ok {
					return false
				}
				if ci.Common().IsInvoke() && ci.Common().Method.Name() == "WriteHeader" {
					k, ok := constInt(ci.Common().Args[0])
					return ok && k != 200
				}
				if calleeName(ci) == "net/http.Error" && len(ci.Common().Args) == 3 {
					k, ok := constInt(ci.Common().Args[2])
					return ok && k != 200
				}
				return false
			}
			// explicit 200 before the wait?
			bad := false
			allInstrs(hnd, func(in ssa.Instruction) {
				ci, ok := in.(*ssa.Call)
				if !ok || !ci.Common().IsInvoke() {
					return
				}
				nm := ci.Common().Method.Name()
				if nm == "WriteHeader" {
					if k, ok := constInt(ci.Common().Args[0]); ok && k == 200 {
						if !mustPrecede(hnd, waited, in) {
							bad = true
							c.bad("R20.4", construct, c.ipos(in), "status 200 can be sent before the handler has consumed the stream")
						}
					}
				}
				if nm == "Write" && !mustPrecede(hnd, func(x ssa.Instruction) bool { return waited(x) || failure(x) }, in) {
					bad = true
					c.bad("R20.4", construct, c.ipos(in), "a body write (implicit 200) can happen before the stream was consumed")
				}
			})
			// implicit 200: a return reached without waiting and without a failure status
			if ret := reachFromEntry(hnd, isReturn, func(in ssa.Instruction) bool { return waited(in) || failure(in) }); ret != nil {
				bad = true
				c.bad("R20.4", construct, c.ipos(ret), "a path returns (implicit 200) without having received the consumed signal or reported a failure")
			}
			if !bad {
				c.ok("R20.4", construct, p.pos(hnd.Pos()), "every success path passes the receive of the consumed signal")
			}
		}
	}

	// ---- R20.3
	{
		var encf *ssa.Function
		for _, a := range enc.AnonFuncs {
			sig := a.Signature
			if sig.Params().Len() == 1 && isNamed(sig.Params().At(0).Type(), "reflect", "Value") && sig.Results().Len() == 2 {
				encf = a
			}
		}
		if !c.need("R20.3", "encoder closure", encf != nil) {
			return
		}
		c.rule("R20.10", "the encoder does nothing with the caller's reader except hand it to the upload request as its body (no Read, Seek or read-ahead wrapper)")
		c.readerUntouched("R20.10", encf)
		construct := fmt.Sprintf("%s: fresh id", fname(encf))
		var idCall *ssa.Call
		allInstrs(encf, func(in ssa.Instruction) {
			if ci, ok := in.(*ssa.Call); ok {
				switch calleeName(ci) {
				case "github.com/google/uuid.New", "github.com/google/uuid.NewRandom", "github.com/google/uuid.NewString":
					idCall = ci
				}
			}
		})
		if idCall == nil {
			c.bad("R20.3", construct, p.pos(encf.Pos()), "no id is drawn inside the encoder closure: calls would share an id and could see each other's bytes")
			return
		}
		if inLoop(idCall.Block()) {
			c.und("R20.3", construct, c.ipos(idCall), "id drawn in a loop")
		} else {
			c.ok("R20.3", construct, c.ipos(idCall), "drawn once per encoder invocation")
		}
		isID := func(v ssa.Value) bool { return v == ssa.Value(idCall) }
		// returned parameter value derives from the id
		allInstrs(encf, func(in ssa.Instruction) {
			rt, ok := in.(*ssa.Return)
			if !ok || len(rt.Results) != 2 {
				return
			}
			if isNilConst(rt.Results[1]) || c.knownNilValue(rt.Results[1]) {
				c.check(c.dependsOn(rt.Results[0], isID, 0, map[ssa.Value]bool{}), "R20.3", fmt.Sprintf("%s: returned parameter", fname(encf)), c.ipos(rt),
					"the id sent in place of the reader is the drawn id", "the value sent in place of the reader does not derive from the id drawn for this call")
			}
		})
		// upload: http.Post / client.Post / NewRequest with URL from the id and body from the argument
		nup := 0
		for _, f := range c.region(encf) {
			allInstrs(f, func(in ssa.Instruction) {
				ci, ok := in.(*ssa.Call)
				if !ok {
					return
				}
				nm := calleeName(ci)
				var url, body ssa.Value
				switch nm {
				case "net/http.Post":
					url, body = ci.Common().Args[0], ci.Common().Args[2]
				case "(*net/http.Client).Post":
					url, body = ci.Common().Args[1], ci.Common().Args[3]
				case "net/http.NewRequest":
					url, body = ci.Common().Args[1], ci.Common().Args[2]
				case "net/http.NewRequestWithContext":
					url, body = ci.Common().Args[2], ci.Common().Args[3]
				default:
					return
				}
				nup++
				cons := fmt.Sprintf("%s: upload request", fname(f))
				c.check(c.dependsOn(url, isID, 0, map[ssa.Value]bool{}), "R20.3", cons+" URL", c.ipos(ci), "URL derives from the drawn id", "the upload URL does not derive from the id drawn for this call")
				isArg := func(v ssa.Value) bool { return v == ssa.Value(encf.Params[0]) }
				c.check(c.dependsOn(body, isArg, 0, map[ssa.Value]bool{}), "R20.3", cons+" body", c.ipos(ci), "body is the caller's reader", "the uploaded body is not the reader passed to this call")
			})
		}
		if nup == 0 {
			c.bad("R20.3", fmt.Sprintf("%s: upload request", fname(encf)), p.pos(encf.Pos()), "the reader is never uploaded")
		}
	}
}

func (c *Ctx) knownNilValue(v ssa.Value) bool {
	k, ok := v.(*ssa.Const)
	return ok && k.Value == nil
}

// rendezvous checks one side (upload handler or decoder) of R20.2.
func (c *Ctx) rendezvous(fn *ssa.Function, dir string) {
	rule := "R20.2"
	p := c.P
	li := p.lockInfo()
	construct := fmt.Sprintf("%s: hand-off channel", fname(fn))
	var lookup *ssa.Lookup
	var update *ssa.MapUpdate
	p.coneInstrs(fn, func(in ssa.Instruction) {
		switch x := in.(type) {
		case *ssa.Lookup:
			if _, ok := x.X.Type().Underlying().(*types.Map); ok && x.CommaOk {
				if _, isChan := x.X.Type().Underlying().(*types.Map).Elem().(*types.Chan); isChan {
					lookup = x
				}
			}
		case *ssa.MapUpdate:
			if _, isChan := x.Map.Type().Underlying().(*types.Map).Elem().(*types.Chan); isChan {
				update = x
			}
		}
	})
	if lookup == nil || update == nil {
		c.bad(rule, construct, p.pos(fn.Pos()), "lookup-or-create of the hand-off channel not found on this side: the side arriving first would not leave a channel for the other")
		return
	}
	okAll := true
	// same map, same key
	sameMap := sameVal(lookup.X, update.Map) || samePaths(c.origins(lookup.X), c.origins(update.Map))
	sameKey := lookup.Index == update.Key || sameVal(lookup.Index, update.Key) || samePaths(c.origins(lookup.Index), c.origins(update.Key))
	if !sameMap || !sameKey {
		okAll = false
		c.bad(rule, construct, c.ipos(update), "the channel is created under a different map/key than the one looked up")
	}
	// key = parsed id
	key := lookup.Index
	if !c.allOrigins(key, func(a apath) bool {
		ex, ok := a.Root.(*ssa.Extract)
		return ok && len(a.Fields) == 0 && isCallNamed(ex.Tuple, "github.com/google/uuid.Parse")
	}) {
		okAll = false
		c.bad(rule, construct, c.ipos(lookup), "the table is not keyed by the parsed id")
	}
	// one critical section: a lock held at lookup and at update, and no unlock between them
	held := intersect(li.mustAt(lookup), li.mustAt(update))
	if len(held) == 0 {
		okAll = false
		c.bad(rule, construct, c.ipos(update), "lookup and create are not inside a critical section of a common mutex")
	} else {
		unlock := func(in ssa.Instruction) bool {
			ci, ok := in.(*ssa.Call)
			if !ok {
				return false
			}
			id, op := p.lockOp(ci)
			return op == -1 && held[id]
		}
		if w := reachFrom(lookup, func(in ssa.Instruction) bool { return in == ssa.Instruction(update) }, unlock); w == nil {
			okAll = false
			c.bad(rule, construct, c.ipos(update), "the mutex is released between the lookup and the creation: both sides can create different channels for one id")
		}
	}
	// create only when not found
	var found ssa.Value
	for _, ref := range *lookup.Referrers() {
		if ex, ok := ref.(*ssa.Extract); ok && ex.Index == 1 {
			found = ex
		}
	}
	if found == nil || !condKnown(update.Block(), found, false) {
		okAll = false
		c.bad(rule, construct, c.ipos(update), "a channel is (re)created although one may already be registered: the waiting side would be orphaned")
	}
	// direction + context arm
	var sel *ssa.Select
	dirOK := false
	allInstrs(fn, func(in ssa.Instruction) {
		s, ok := in.(*ssa.Select)
		if !ok {
			return
		}
		for _, st := range s.States {
			if _, isChan := st.Chan.Type().Underlying().(*types.Chan); !isChan {
				continue
			}
			fromTable := c.someOrigin(st.Chan, func(a apath) bool {
				ex, ok := a.Root.(*ssa.Extract)
				return ok && len(a.Fields) == 0 && ex.Tuple == ssa.Value(lookup)
			})
			if !fromTable {
				continue
			}
			if (dir == "send" && st.Dir == types.SendOnly) || (dir == "recv" && st.Dir == types.RecvOnly) {
				sel = s
				dirOK = true
			}
		}
	})
	if !dirOK {
		okAll = false
		c.bad(rule, construct, p.pos(fn.Pos()), "this side does not "+dir+" on the looked-up-or-created channel inside a select")
	} else {
		ctxArm := false
		for _, st := range sel.States {
			if st.Dir == types.RecvOnly {
				if call, ok := st.Chan.(*ssa.Call); ok && call.Common().IsInvoke() && call.Common().Method.Name() == "Done" {
					ctxArm = true
				}
			}
		}
		if !ctxArm {
			okAll = false
			c.bad(rule, construct, c.ipos(sel), "the rendezvous does not watch the context: a missing counterpart blocks this side for ever")
		}
	}
	if okAll {
		c.ok(rule, construct, c.ipos(lookup), "locked lookup-or-create keyed by the parsed id; "+dir+" in a select with the context")
	}
}

// poolSharedRule: sync.Pool.Put (also deferred) of an object that the same function sends on a channel.
func (c *Ctx) poolSharedRule(rule string, pkg *types.Package) {
	for _, fn := range c.P.Funcs {
		if pkg != nil && pkgOf(fn) != pkg {
			continue
		}
		allInstrs(fn, func(in ssa.Instruction) {
			ci, ok := in.(ssa.CallInstruction)
			if !ok || calleeName(ci) != "(*sync.Pool).Put" {
				return
			}
			obj := stripConv(ci.Common().Args[1])
			shared := c.pooledMemoryHandedOff(fn, in, obj)
			construct := fmt.Sprintf("%s: pooled object", fname(fn))
			c.check(!shared, rule, construct, c.ipos(in), "not shared over a channel", "an object that was handed to another goroutine over a channel is returned to a sync.Pool when this function ends: the receiver keeps using it while the next request re-initialises it — a reader past EOF then yields another call's bytes")
			// memory of the pooled object must not outlive the Put: returning buf.Bytes() (or the object)
			// from the function that puts it back hands the caller bytes the next user of the pool overwrites
			escapes := false
			allInstrs(fn, func(x ssa.Instruction) {
				rt, ok := x.(*ssa.Return)
				if !ok {
					return
				}
				for _, res := range rt.Results {
					if c.dependsOn(blockLocalValue(res), func(v ssa.Value) bool { return v == obj || stripConv(v) == obj }, 0, map[ssa.Value]bool{}) {
						if _, isBasic := res.Type().Underlying().(*types.Basic); !isBasic && !isErrorType(res.Type()) {
							escapes = true
						}
					}
				}
			})
			c.check(!escapes, rule, construct+" (returned memory)", c.ipos(in), "nothing derived from the pooled object is returned", "memory of an object that is put back into a sync.Pool is returned to the caller (e.g. buf.Bytes() with a deferred Put): the next user of the pool overwrites it while the caller still writes it out — replies of concurrent requests get mixed up or malformed")
		})
	}
}

// pooledMemoryHandedOff: the object put back by `put` (in fn, possibly a deferred closure of the
// function that took it out of the pool), or memory derived from it (buf.Bytes()), is sent on a
// channel somewhere in the same function family. Copies cut the dependence (append to a nil or
// fresh slice, bytes.Clone, conversion to or from string); values of basic type carry no memory. A
// plain (not deferred) Put that the send can only reach through a blocking wait (a receive or
// WaitGroup.Wait) is a synchronous hand-off and is accepted.
func (c *Ctx) pooledMemoryHandedOff(fn *ssa.Function, put ssa.Instruction, obj ssa.Value) bool {
	fam := withAnon(outermost(fn))
	cut := map[ssa.Value]bool{}
	gets := map[ssa.Value]bool{}
	for _, f := range fam {
		allInstrs(f, func(in ssa.Instruction) {
			if v, ok := in.(ssa.Value); ok && v.Type() != nil && isErrorType(v.Type()) {
				cut[v] = true // an error reported by an operation on the buffer does not carry its memory
			}
			switch x := in.(type) {
			case *ssa.Call:
				switch calleeName(x) {
				case "(*sync.Pool).Get":
					gets[x] = true
				case "bytes.Clone", "slices.Clone", "strings.Clone":
					cut[x] = true
				}
				if b, ok := x.Common().Value.(*ssa.Builtin); ok && b.Name() == "append" && len(x.Common().Args) > 0 {
					a0 := x.Common().Args[0]
					if isNilConst(a0) {
						cut[x] = true
					} else if _, fresh := a0.(*ssa.MakeSlice); fresh {
						cut[x] = true
					} else if sl, ok := a0.(*ssa.Slice); ok {
						if _, fresh := sl.X.(*ssa.MakeSlice); fresh {
							cut[x] = true
						}
					}
				}
			case *ssa.Convert:
				if isStringType(x.Type()) || isStringType(x.X.Type()) {
					cut[x] = true
				}
			}
		})
	}
	// the pool acquisitions this object comes from
	mine := map[ssa.Value]bool{}
	for g := range gets {
		g := g
		if c.dependsOn(obj, func(v ssa.Value) bool { return v == g }, 0, map[ssa.Value]bool{}) {
			mine[g] = true
		}
	}
	target := func(v ssa.Value) bool { return v == obj || stripConv(v) == obj || mine[v] }
	derived := func(v ssa.Value) bool {
		if v == nil {
			return false
		}
		if _, basic := v.Type().Underlying().(*types.Basic); basic {
			return false
		}
		seen := map[ssa.Value]bool{}
		for k := range cut {
			seen[k] = true
		}
		return c.dependsOn(v, target, 0, seen)
	}
	_, deferredPut := put.(*ssa.Defer)
	if fn != outermost(fn) {
		deferredPut = true // a closure of the owner: runs at some later point of it
	}
	waits := func(in ssa.Instruction) bool {
		switch x := in.(type) {
		case *ssa.UnOp:
			return x.Op == token.ARROW
		case *ssa.Select:
			return x.Blocking
		case *ssa.Call:
			return calleeName(x) == "(*sync.WaitGroup).Wait"
		}
		return false
	}
	for _, f := range fam {
		found := false
		allInstrs(f, func(in ssa.Instruction) {
			var sent ssa.Value
			switch x := in.(type) {
			case *ssa.Send:
				sent = x.X
			case *ssa.Select:
				for _, st := range x.States {
					if st.Send != nil && derived(st.Send) {
						sent = st.Send
					}
				}
			}
			if sent == nil || !derived(sent) {
				return
			}
			if !deferredPut && f == fn {
				// synchronous hand-off: every way from the send to the Put passes a blocking wait
				if reachFrom(in, func(x ssa.Instruction) bool { return x == put }, waits) == nil {
					return
				}
			}
			found = true
		})
		if found {
			return true
		}
	}
	return false
}

// onceGuard: fn only ever runs as (part of) the function handed to Do of one sync.Once that is
// a struct field; returns that field.
func (c *Ctx) onceGuard(fn *ssa.Function, depth int) (*types.Var, bool) {
	p := c.P
	if depth > ipMaxDepth {
		return nil, false
	}
	var once *types.Var
	n := 0
	merge := func(f *types.Var, ok bool) bool {
		if !ok || f == nil || (once != nil && once != f) {
			return false
		}
		once = f
		n++
		return true
	}
	for _, ci := range p.callers[fn] {
		call, ok := ci.(*ssa.Call)
		if !ok {
			return nil, false
		}
		if !merge(c.onceGuard(call.Parent(), depth+1)) {
			return nil, false
		}
	}
	for _, mc := range p.closure[fn] {
		for _, ref := range *mc.Referrers() {
			switch ref.(type) {
			case *ssa.DebugRef:
			case *ssa.Call, *ssa.Defer:
				x := ref.(ssa.CallInstruction)
				if x.Common().Value == ssa.Value(mc) {
					if !merge(c.onceGuard(x.Parent(), depth+1)) {
						return nil, false
					}
					continue
				}
				if calleeName(x) == "sync.OnceFunc" {
					// the once-wrapped function lives in a field: that field stands for the Once
					f := onceFuncField(x)
					if f == nil || !merge(f, true) {
						return nil, false
					}
					continue
				}
				if calleeName(x) != "(*sync.Once).Do" {
					return nil, false
				}
				fa, ok := x.Common().Args[0].(*ssa.FieldAddr)
				if !ok || !merge(fieldOfAddr(fa), true) {
					return nil, false
				}
			default:
				return nil, false
			}
		}
	}
	return once, n > 0
}

// shortReadRule: io.Reader.Read may return fewer bytes than the buffer holds without error. A Read
// whose count is used to cut the buffer that then stands for the whole stream (instead of being
// forwarded to the caller, looped, or replaced by io.ReadFull / io.ReadAll) silently truncates uploads
// of some lengths.
func (c *Ctx) shortReadRule(rule string, pkg *types.Package) {
	for _, fn := range c.P.Funcs {
		if pkg != nil && pkgOf(fn) != pkg {
			continue
		}
		allInstrs(fn, func(in ssa.Instruction) {
			ci, ok := in.(*ssa.Call)
			if !ok || !ci.Common().IsInvoke() || ci.Common().Method.Name() != "Read" || len(ci.Common().Args) != 1 {
				return
			}
			if inLoop(ci.Block()) {
				return
			}
			// forwarded: the count is one of the function's results
			forwarded, sliced := false, false
			for _, ref := range *ci.Referrers() {
				ex, ok := ref.(*ssa.Extract)
				if !ok || ex.Index != 0 {
					continue
				}
				for _, use := range transitiveUses(ex) {
					switch u := use.(type) {
					case *ssa.Return:
						forwarded = true
					case *ssa.Slice:
						if u.High == ssa.Value(ex) || (u.High != nil && stripConvInt(u.High) == ssa.Value(ex)) {
							sliced = true
						}
					}
				}
			}
			if sliced && !forwarded {
				c.bad(rule, fmt.Sprintf("%s: single Read taken for the whole content", fname(fn)), c.ipos(ci), "the result of one Read call (which may be short) is cut to its count and used as the complete stream: uploads whose length falls between the bytes already buffered by net/http and the requested size arrive truncated, with a clean EOF")
			}
		})
	}
	if c.ruleN[rule] == 0 {
		c.ok(rule, "no single-Read buffering", "-", "no Read result outside a loop is used to delimit a buffer")
	}
}

func isStringType(t types.Type) bool {
	b, ok := t.Underlying().(*types.Basic)
	return ok && b.Info()&types.IsString != 0
}

// countersBalanced: R20.9. A counting limit (atomic add of +k on entry, −k when done) must be given
// back on every path out of the function that took it — by a direct add or by a defer registered
// before any return. A slot leaked on one early return (the malformed-id answer) is gone for good:
// after as many such requests as there are slots every upload is refused and every reader call fails.
func (c *Ctx) countersBalanced(rule string, pkg *types.Package) {
	p := c.P
	isAdd := func(in ssa.Instruction) (ssa.Value, int64, bool) {
		ci, ok := in.(ssa.CallInstruction)
		if !ok {
			return nil, 0, false
		}
		nm := calleeName(ci)
		args := ci.Common().Args
		if strings.HasPrefix(nm, "sync/atomic.Add") && len(args) == 2 {
			if k, isK := constInt(stripConvInt(args[1])); isK {
				return args[0], k, true
			}
		}
		if strings.HasPrefix(nm, "(*sync/atomic.") && strings.HasSuffix(nm, ").Add") && len(args) == 2 {
			if k, isK := constInt(stripConvInt(args[1])); isK {
				return args[0], k, true
			}
		}
		return nil, 0, false
	}
	n := 0
	for _, fn := range p.Funcs {
		if pkg != nil && pkgOf(fn) != pkg {
			continue
		}
		allInstrsRaw(fn, func(in ssa.Instruction) {
			if _, isDefer := in.(*ssa.Defer); isDefer {
				return
			}
			obj, k, ok := isAdd(in)
			if !ok || k <= 0 {
				return
			}
			// is there any give-back for this counter in the function at all? (otherwise it is a plain statistic)
			hasRelease := false
			release := func(x ssa.Instruction) bool {
				o2, k2, ok := isAdd(x)
				return ok && k2 < 0 && sameVal(p.canonVar(obj), p.canonVar(o2))
			}
			allInstrsRaw(fn, func(x ssa.Instruction) {
				if release(x) {
					hasRelease = true
				}
			})
			if !hasRelease {
				return
			}
			n++
			construct := fmt.Sprintf("%s: counting limit", fname(fn))
			ret := reachFrom(in, isReturn, release)
			c.check(ret == nil, rule, construct, c.ipos(in), "given back on every path (directly or by a defer registered before any return)", "a path returns with the slot still counted (the give-back is deferred only after an early return): every request taking that path loses a slot for good; once all are gone every upload is refused and every call carrying a reader fails")
		})
	}
	if n == 0 {
		c.ok(rule, "no counting limit", "-", "nothing to balance")
	}
}

// readerUntouched: R20.10. The handler must see exactly the bytes the caller's reader would have
// yielded from where it stands. The encoder therefore does nothing with the reader except hand it to
// the upload request as its body: no Read, no Seek (measuring a seekable reader and rewinding it "to
// the start" re-sends a prefix the caller had already consumed), no wrapping that reads ahead.
func (c *Ctx) readerUntouched(rule string, encf *ssa.Function) {
	var rd ssa.Value
	allInstrs(encf, func(in ssa.Instruction) {
		if ta, ok := in.(*ssa.TypeAssert); ok && isNamed(ta.AssertedType, "io", "Reader") {
			rd = ta
			if ta.CommaOk {
				for _, ref := range *ta.Referrers() {
					if ex, ok := ref.(*ssa.Extract); ok && ex.Index == 0 {
						rd = ex
					}
				}
			}
		}
	})
	construct := fmt.Sprintf("%s: the caller's reader is only handed to the upload", fname(encf))
	if rd == nil {
		c.und(rule, construct, c.P.pos(encf.Pos()), "the reader argument was not found")
		return
	}
	var bad ssa.Instruction
	seen := map[ssa.Value]bool{}
	var walk func(v ssa.Value, d int)
	walk = func(v ssa.Value, d int) {
		if v == nil || seen[v] || d > 8 || v.Referrers() == nil {
			return
		}
		seen[v] = true
		for _, ref := range *v.Referrers() {
			switch x := ref.(type) {
			case *ssa.DebugRef:
			case *ssa.TypeAssert, *ssa.ChangeInterface, *ssa.MakeInterface, *ssa.Extract, *ssa.Phi:
				walk(x.(ssa.Value), d+1)
			case *ssa.Store:
				if x.Val == v {
					if al, ok := x.Addr.(*ssa.Alloc); ok {
						for _, r2 := range *al.Referrers() {
							if ld, ok := r2.(*ssa.UnOp); ok {
								walk(ld, d+1)
							}
							if mc, ok := r2.(*ssa.MakeClosure); ok {
								g := mc.Fn.(*ssa.Function)
								for i, b := range mc.Bindings {
									if b == ssa.Value(al) && i < len(g.FreeVars) {
										for _, r3 := range *g.FreeVars[i].Referrers() {
											if ld, ok := r3.(*ssa.UnOp); ok {
												walk(ld, d+1)
											}
										}
									}
								}
							}
						}
					} else {
						bad = ref
					}
				}
			case *ssa.MakeClosure:
				g := x.Fn.(*ssa.Function)
				for i, b := range x.Bindings {
					if b == v && i < len(g.FreeVars) {
						walk(g.FreeVars[i], d+1)
					}
				}
			case ssa.CallInstruction:
				cm := x.Common()
				if cm.IsInvoke() && cm.Value == v {
					bad = ref // a method called on the reader (Read, Seek, …)
					continue
				}
				switch calleeName(x) {
				case "net/http.Post", "(*net/http.Client).Post", "net/http.NewRequest", "net/http.NewRequestWithContext":
				default:
					if g := staticCallee(x); g != nil && c.P.allFns[g] {
						for i, a := range cm.Args {
							if a == v && i < len(g.Params) {
								walk(g.Params[i], d+1)
							}
						}
					} else {
						bad = ref
					}
				}
			default:
			}
		}
	}
	walk(rd, 0)
	if bad != nil {
		c.bad(rule, construct, c.ipos(bad), "the encoder operates on the caller's reader itself (reads, seeks or wraps it) before the upload: measuring a seekable reader and rewinding it to its start makes the handler see bytes the caller had already consumed — the stream is no longer exactly the caller's byte sequence")
	} else {
		c.ok(rule, construct, c.ipos(rd.(ssa.Instruction)), "only passed on as the body of the upload request")
	}
}

// uploadBodyOnlyThroughWrapper: R20.11. In the reader package, the body of an *http.Request is never
// the source of a read (io.Copy, io.ReadAll, Read …) outside the wrapper type: it is only wrapped and
// handed over.
func (c *Ctx) uploadBodyOnlyThroughWrapper(rule string) {
	p := c.P
	if p.Httpio == nil {
		return
	}
	isReqBody := func(v ssa.Value) bool {
		f := loadedField(v)
		return f != nil && f.Name() == "Body" && f.Pkg() != nil && f.Pkg().Path() == "net/http" && isNamed(derefType(v, f), "net/http", "Request")
	}
	n := 0
	for _, fn := range p.Funcs {
		if pkgOf(fn) != p.Httpio.Pkg {
			continue
		}
		allInstrsRaw(fn, func(in ssa.Instruction) {
			ci, ok := in.(*ssa.Call)
			if !ok {
				return
			}
			reads := false
			switch calleeName(ci) {
			case "io.Copy", "io.CopyN", "io.CopyBuffer", "io.ReadAll", "io/ioutil.ReadAll", "io.ReadFull", "io.ReadAtLeast", "(*bytes.Buffer).ReadFrom":
				reads = true
			}
			if cm := ci.Common(); cm.IsInvoke() && cm.Method.Name() == "Read" {
				reads = true
			}
			if !reads {
				return
			}
			var src []ssa.Value
			if ci.Common().IsInvoke() {
				src = append(src, ci.Common().Value)
			}
			src = append(src, ci.Common().Args...)
			for _, a := range src {
				if c.dependsOn(a, isReqBody, 0, map[ssa.Value]bool{}) {
					// the wrapper's own Read delegating to the embedded body is the one legitimate reader
					if recv := fn.Signature.Recv(); recv != nil && fn.Name() == "Read" {
						continue
					}
					n++
					c.bad(rule, fmt.Sprintf("%s: read of the upload request's body", fname(fn)), c.ipos(in), "the upload handler reads the request body itself (e.g. to drain what the RPC handler left unread): for a source that keeps producing this never ends, so the upload — and the caller's goroutine feeding it — outlives the handler that closed the stream")
				}
			}
		})
	}
	if n == 0 {
		c.ok(rule, "upload request body", "-", "only wrapped and handed over")
	}
}

// onceFuncField: the struct field a sync.OnceFunc result is stored into (directly or in a literal).
func onceFuncField(call ssa.CallInstruction) *types.Var {
	v, ok := call.(ssa.Value)
	if !ok || v.Referrers() == nil {
		return nil
	}
	for _, ref := range *v.Referrers() {
		if st, ok := ref.(*ssa.Store); ok && st.Val == v {
			if fa, ok := st.Addr.(*ssa.FieldAddr); ok {
				return fieldOfAddr(fa)
			}
		}
	}
	return nil
}
