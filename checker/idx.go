package main

import (
	"go/token"
	"go/types"

	"golang.org/x/tools/go/ssa"
)

// E-idx: index safety of slices decoded from peer bytes, and value "sameness".

// decodeCalls: calls that fill the object behind their pointer argument from bytes.
func decodeTarget(ci ssa.CallInstruction) ssa.Value {
	switch calleeName(ci) {
	case "encoding/json.Unmarshal":
		if len(ci.Common().Args) == 2 {
			return stripConv(ci.Common().Args[1])
		}
	case "(*encoding/json.Decoder).Decode":
		if len(ci.Common().Args) == 2 {
			return stripConv(ci.Common().Args[1])
		}
	}
	return nil
}

// decodedAllocs returns the local variables of fn that are filled by a JSON decode.
func decodedAllocs(fn *ssa.Function) map[*ssa.Alloc]ssa.CallInstruction {
	out := map[*ssa.Alloc]ssa.CallInstruction{}
	allInstrs(fn, func(in ssa.Instruction) {
		ci, ok := in.(ssa.CallInstruction)
		if !ok {
			return
		}
		if t := decodeTarget(ci); t != nil {
			if al, ok := t.(*ssa.Alloc); ok {
				out[al] = ci
			}
		}
	})
	return out
}

// sameVal: structural equality of two SSA values that denote the same runtime
// value as long as the underlying locals are not reassigned in between (loads of
// the same local, same field of the same struct value).
func sameVal(a, b ssa.Value) bool {
	if a == b {
		return true
	}
	a, b = stripConvInt(a), stripConvInt(b)
	if a == b {
		return true
	}
	switch x := a.(type) {
	case *ssa.UnOp:
		y, ok := b.(*ssa.UnOp)
		if !ok || x.Op != y.Op {
			return false
		}
		if x.Op == token.MUL {
			return sameAddr(x.X, y.X)
		}
		return sameVal(x.X, y.X)
	case *ssa.Field:
		y, ok := b.(*ssa.Field)
		return ok && x.Field == y.Field && sameVal(x.X, y.X)
	case *ssa.Const:
		y, ok := b.(*ssa.Const)
		if !ok {
			return false
		}
		xi, ok1 := constInt(x)
		yi, ok2 := constInt(y)
		return ok1 && ok2 && xi == yi
	case *ssa.Call:
		y, ok := b.(*ssa.Call)
		if !ok {
			return false
		}
		if bx, ok := x.Call.Value.(*ssa.Builtin); ok {
			if by, ok := y.Call.Value.(*ssa.Builtin); ok && bx.Name() == by.Name() && bx.Name() == "len" {
				return sameVal(x.Call.Args[0], y.Call.Args[0])
			}
		}
	}
	return false
}

func sameAddr(a, b ssa.Value) bool {
	if a == b {
		return true
	}
	switch x := a.(type) {
	case *ssa.FieldAddr:
		y, ok := b.(*ssa.FieldAddr)
		return ok && x.Field == y.Field && (sameAddr(x.X, y.X) || sameVal(x.X, y.X))
	}
	return false
}

// stripConvInt strips integer conversions only.
func stripConvInt(v ssa.Value) ssa.Value {
	for {
		c, ok := v.(*ssa.Convert)
		if !ok {
			return v
		}
		if b, ok := c.X.Type().Underlying().(*types.Basic); !ok || b.Info()&types.IsInteger == 0 {
			return v
		}
		v = c.X
	}
}

// lenOf: if v is len(s) returns s.
func lenOf(v ssa.Value) (ssa.Value, bool) {
	v = stripConvInt(v)
	c, ok := v.(*ssa.Call)
	if !ok {
		return nil, false
	}
	if b, ok := c.Call.Value.(*ssa.Builtin); ok && b.Name() == "len" {
		return c.Call.Args[0], true
	}
	return nil, false
}

// cmpFact: a comparison known to be true: L op R.
type cmpFact struct {
	Op   token.Token
	L, R ssa.Value
}

func negate(op token.Token) token.Token {
	switch op {
	case token.LSS:
		return token.GEQ
	case token.LEQ:
		return token.GTR
	case token.GTR:
		return token.LEQ
	case token.GEQ:
		return token.LSS
	case token.EQL:
		return token.NEQ
	case token.NEQ:
		return token.EQL
	}
	return token.ILLEGAL
}

func flip(op token.Token) token.Token {
	switch op {
	case token.LSS:
		return token.GTR
	case token.LEQ:
		return token.GEQ
	case token.GTR:
		return token.LSS
	case token.GEQ:
		return token.LEQ
	}
	return op
}

// cmpFactsAt: comparisons certainly true on entry to block b.
func cmpFactsAt(b *ssa.BasicBlock) []cmpFact {
	var out []cmpFact
	for _, c := range expandConds(impliedConds(b)) {
		bo, ok := c.Cond.(*ssa.BinOp)
		if !ok {
			continue
		}
		op := bo.Op
		switch op {
		case token.LSS, token.LEQ, token.GTR, token.GEQ, token.EQL, token.NEQ:
		default:
			continue
		}
		if !c.True {
			op = negate(op)
		}
		out = append(out, cmpFact{op, bo.X, bo.Y})
	}
	return out
}

// lenAtLeast: do the facts establish len(s) >= n (n >= 1)?
func lenFactsBound(facts []cmpFact, s ssa.Value) (min int64, eqTo []ssa.Value) {
	return lenFactsBoundIn(facts, s, nil)
}

// lenFactsBoundIn: like lenFactsBound; a bound that is a parameter of the enclosing function counts with the
// constant passed at call site `ctx` (or, without a context, the smallest constant passed at any call site).
func lenFactsBoundIn(facts []cmpFact, s ssa.Value, ctx *ssa.Call) (min int64, eqTo []ssa.Value) {
	min = 0
	neq := map[int64]bool{}
	defer func() {
		// len is a non-negative integer: excluded values push the lower bound up
		for neq[min] {
			min++
		}
	}()
	for _, f := range facts {
		op, L, R := f.Op, f.L, f.R
		if _, ok := lenOf(L); !ok {
			if _, ok2 := lenOf(R); ok2 {
				op, L, R = flip(op), R, L
			}
		}
		ls, ok := lenOf(L)
		if !ok || !sameVal(ls, s) {
			continue
		}
		k, ok := constInt(stripConvInt(R))
		if !ok && (op == token.GTR || op == token.GEQ) {
			k, ok = paramLowerBound(stripConvInt(R), ctx)
		}
		if ok {
			switch op {
			case token.GTR:
				if k+1 > min {
					min = k + 1
				}
			case token.GEQ, token.EQL:
				if k > min {
					min = k
				}
			case token.NEQ:
				neq[k] = true
			}
		} else if op == token.EQL {
			eqTo = append(eqTo, R)
		}
		if op == token.GTR || op == token.GEQ {
			// len(s) > x / len(s) >= x with symbolic x: recorded as lower bounds via eqTo-like use
			if _, ok := constInt(stripConvInt(R)); !ok && op == token.GTR {
				eqTo = append(eqTo, nil) // placeholder: not used
			}
		}
	}
	return
}

// indexSafe decides whether slice[idx] at instruction `at` is protected by
// dominating length facts. Returns a short justification.
func indexSafe(at ssa.Instruction, slice, idx ssa.Value, baseMin int64) (bool, string) {
	boundAt = at.Block()
	defer func() { boundAt = nil }()
	facts := cmpFactsAt(at.Block())
	min, eqTo := lenFactsBound(facts, slice)
	if baseMin > min {
		min = baseMin
	}
	if k, ok := constInt(idx); ok {
		if k >= 0 && min > k {
			return true, "dominating test establishes len >= " + itoa(min)
		}
		return false, "no dominating length test establishes len > " + itoa(k)
	}
	// variable index: need idx < L with L == len(slice) or L equal to a value len(slice) is known to equal
	for _, f := range facts {
		op, L, R := f.Op, f.L, f.R
		if op == token.GTR {
			op, L, R = token.LSS, R, L
		}
		if op != token.LSS || !sameVal(L, idx) {
			continue
		}
		if s2, ok := lenOf(R); ok && sameVal(s2, slice) {
			return true, "index bounded by len of the same slice"
		}
		for _, e := range eqTo {
			if e != nil && sameVal(e, R) {
				return true, "index bounded by a value the length is known to equal"
			}
		}
	}
	// rotated loops (for i := range n): the index is a phi whose every incoming value is
	// bounded on its own edge
	if phi, ok := idx.(*ssa.Phi); ok && len(phi.Edges) > 0 {
		tied := func(R ssa.Value) bool {
			if s2, ok := lenOf(R); ok && sameVal(s2, slice) {
				return true
			}
			for _, e := range eqTo {
				if e != nil && sameVal(e, R) {
					return true
				}
			}
			return false
		}
		all := true
		for i, e := range phi.Edges {
			pred := phi.Block().Preds[i]
			okEdge := false
			for _, cf := range edgeConds(pred, phi.Block()) {
				bo, ok := cf.Cond.(*ssa.BinOp)
				if !ok {
					continue
				}
				op, L, R := bo.Op, bo.X, bo.Y
				if !cf.True {
					op = negate(op)
				}
				if op == token.GTR {
					op, L, R = token.LSS, R, L
				}
				if op != token.LSS {
					continue
				}
				if (L == e || sameVal(L, e)) && tied(R) {
					okEdge = true
				}
			}
			if !okEdge {
				all = false
			}
		}
		if all {
			return true, "every value of the loop index is tested against a bound tied to this slice's length"
		}
	}
	return false, "variable index without a dominating bound tied to this slice's length"
}

func itoa(n int64) string {
	neg := n < 0
	if neg {
		n = -n
	}
	if n == 0 {
		return "0"
	}
	var b []byte
	for n > 0 {
		b = append([]byte{byte('0' + n%10)}, b...)
		n /= 10
	}
	if neg {
		return "-" + string(b)
	}
	return string(b)
}

// paramLowerBound: smallest value parameter v can have: the constant passed at call site ctx,
// or the minimum over all arguments at the static call sites of its function (arguments that
// are themselves parameters are bounded the same way).
func paramLowerBound(v ssa.Value, ctx *ssa.Call) (int64, bool) {
	return intLowerBound(v, ctx, 0)
}

// boundAt: the block at which a lower bound is being asked for (set by indexSafe): phi edges that
// contradict what is known there do not count.
var boundAt *ssa.BasicBlock

// edgeInfeasibleAt: the CFG edge pred->blk carries a branch condition whose opposite is known at `at`.
func edgeInfeasibleAt(pred, blk, at *ssa.BasicBlock) bool {
	known := expandConds(impliedConds(at))
	for _, fe := range expandConds(edgeCondsRaw(pred, blk)) {
		for _, fa := range known {
			if fa.Cond == fe.Cond && fa.True != fe.True {
				return true
			}
		}
	}
	return false
}

func intLowerBound(v ssa.Value, ctx *ssa.Call, depth int) (int64, bool) {
	v = stripConvInt(v)
	if k, ok := constInt(v); ok {
		return k, true
	}
	// a value chosen by an earlier branch (min := 2; if closing { min = 1 }): the smallest feasible alternative
	if ph, ok := v.(*ssa.Phi); ok && depth <= 4 {
		min := int64(1 << 40)
		any := false
		for i, e := range ph.Edges {
			if boundAt != nil && i < len(ph.Block().Preds) && edgeInfeasibleAt(ph.Block().Preds[i], ph.Block(), boundAt) {
				continue
			}
			k, ok := intLowerBound(e, ctx, depth+1)
			if !ok {
				return 0, false
			}
			any = true
			if k < min {
				min = k
			}
		}
		if any {
			return min, true
		}
		return 0, false
	}
	prm, ok := v.(*ssa.Parameter)
	p := theProg
	if !ok || p == nil || depth > 4 {
		return 0, false
	}
	fn := prm.Parent()
	idx := -1
	for i, q := range fn.Params {
		if q == prm {
			idx = i
		}
	}
	if idx < 0 {
		return 0, false
	}
	if ctx != nil && p.unbound(staticCallee(ctx)) == fn && idx < len(ctx.Common().Args) {
		return intLowerBound(ctx.Common().Args[idx], nil, depth+1)
	}
	sites := p.callers[fn]
	if len(sites) == 0 || p.asyncValueUsed(fn) {
		return 0, false
	}
	min := int64(1 << 40)
	for _, s := range sites {
		if idx >= len(s.Common().Args) {
			return 0, false
		}
		k, ok := intLowerBound(s.Common().Args[idx], nil, depth+1)
		if !ok {
			return 0, false
		}
		if k < min {
			min = k
		}
	}
	return min, true
}
