package main

import (
	"fmt"
	"go/token"
	"go/types"
	"sort"
	"strings"

	"golang.org/x/tools/go/ssa"
)

// Roles: the repository's types / fields / functions that rule slots refer to,
// found by type and use. Internal identifiers are never consulted; exported API
// names (which users depend on and which cannot change without breaking them)
// are used as anchors where the public surface itself is the mechanism.
type Roles struct {
	p *Prog

	TConn      *types.Named // struct holding the *websocket.Conn
	FSock      *types.Var
	FFactory   *types.Var // func() (*websocket.Conn, error)
	FRequests  *types.Var // <-chan T_creq
	TCreq      *types.Named
	FReady     *types.Var // chan T_cresp field of T_creq
	FCreqReq   *types.Var // the request field of T_creq
	FRetCh     *types.Var // channel sink constructor field of T_creq
	TCresp     *types.Named
	TReq       *types.Named // wire request struct
	FReqID     *types.Var
	FReqMethod *types.Var
	FInflight  *types.Var
	FHandling  *types.Var
	FChanh     *types.Var
	TChanh     *types.Named
	FChanhLk   *types.Var
	FChanhCb   *types.Var
	FFlag      *types.Var // error-typed field: "connection unusable"
	FIncoming  *types.Var
	FReadErr   *types.Var
	FQueue     *types.Var
	FReg       *types.Var
	FPongs     *types.Var
	FExiting   *types.Var
	FStop      *types.Var
	FHandler   *types.Var // dispatcher interface field
	FTimeout   *types.Var
	FPingIv    *types.Var
	FBackoff   *types.Var
	FStopPings *types.Var
	IDisp      *types.Named
	TFrame     *types.Named

	FnLoop   *ssa.Function
	FnExec   *ssa.Function
	FnRedial *ssa.Function
	FnDisp   *ssa.Function
	FnNorm   *ssa.Function
	FnCall   *ssa.Function // function given to reflect.MakeFunc in the root package
	FnUser   []*ssa.Function

	TErrFn  *types.Named
	TResp   *types.Named
	TRPCErr *types.Named // JSONRPCError (exported API)

	TClient   *types.Named
	FDoReq    *types.Var
	FIdCtr    *types.Var
	FCExiting *types.Var

	emptyChans []*types.Var
	unresolved []string
	notes      map[string]string
}

func (r *Roles) Describe() map[string]string {
	out := map[string]string{}
	for k, v := range r.notes {
		out[k] = v
	}
	if len(r.unresolved) > 0 {
		out["UNRESOLVED"] = strings.Join(r.unresolved, ", ")
	}
	return out
}

func (r *Roles) note(k string, v interface{}) {
	switch x := v.(type) {
	case *types.Var:
		if x == nil {
			r.unresolved = append(r.unresolved, k)
			return
		}
		r.notes[k] = x.Name()
	case *types.Named:
		if x == nil {
			r.unresolved = append(r.unresolved, k)
			return
		}
		r.notes[k] = x.Obj().Name()
	case *ssa.Function:
		if x == nil {
			r.unresolved = append(r.unresolved, k)
			return
		}
		r.notes[k] = fname(x)
	}
}

func namedStructs(pkg *types.Package) []*types.Named {
	var out []*types.Named
	sc := pkg.Scope()
	names := sc.Names()
	sort.Strings(names)
	for _, n := range names {
		if tn, ok := sc.Lookup(n).(*types.TypeName); ok && !tn.IsAlias() {
			if nt, ok := tn.Type().(*types.Named); ok {
				out = append(out, nt)
			}
		}
	}
	return out
}

func structOf(t types.Type) *types.Struct {
	if t == nil {
		return nil
	}
	if p, ok := t.Underlying().(*types.Pointer); ok {
		t = p.Elem()
	}
	s, _ := t.Underlying().(*types.Struct)
	return s
}

func isNamed(t types.Type, pkgPath, name string) bool {
	if p, ok := t.(*types.Pointer); ok {
		t = p.Elem()
	}
	n, ok := t.(*types.Named)
	if !ok {
		return false
	}
	o := n.Obj()
	if o.Pkg() == nil {
		return pkgPath == "" && o.Name() == name
	}
	return o.Pkg().Path() == pkgPath && o.Name() == name
}

func isPtrToNamed(t types.Type, pkgPath, name string) bool {
	p, ok := t.(*types.Pointer)
	return ok && isNamed(p.Elem(), pkgPath, name)
}

const gorilla = "github.com/gorilla/websocket"

func isErrorType(t types.Type) bool {
	n, ok := t.(*types.Named)
	return ok && n.Obj().Pkg() == nil && n.Obj().Name() == "error"
}

func isEmptyStruct(t types.Type) bool {
	s, ok := t.Underlying().(*types.Struct)
	return ok && s.NumFields() == 0
}

func isMutex(t types.Type) bool { return isNamed(t, "sync", "Mutex") || isNamed(t, "sync", "RWMutex") }

func one[T any](xs []T) (T, bool) {
	var z T
	if len(xs) == 1 {
		return xs[0], true
	}
	return z, false
}

func resolveRoles(p *Prog) *Roles {
	r := &Roles{p: p, notes: map[string]string{}}
	pkg := p.Root.Pkg

	// T_conn: the named struct with a *websocket.Conn field
	var conns []*types.Named
	for _, nt := range namedStructs(pkg) {
		st, ok := nt.Underlying().(*types.Struct)
		if !ok {
			continue
		}
		for i := 0; i < st.NumFields(); i++ {
			if isPtrToNamed(st.Field(i).Type(), gorilla, "Conn") {
				conns = append(conns, nt)
				break
			}
		}
	}
	if t, ok := one(conns); ok {
		r.TConn = t
	}
	r.note("T_conn", r.TConn)
	if r.TConn != nil {
		r.resolveConnFields(pkg)
	}
	r.resolveFunctions()
	r.resolveClient(pkg)
	r.resolveMisc(pkg)
	for _, kv := range []struct {
		k string
		v interface{}
	}{
		{"F_sock", r.FSock}, {"F_factory", r.FFactory}, {"F_requests", r.FRequests}, {"T_creq", r.TCreq}, {"F_ready", r.FReady},
		{"T_cresp", r.TCresp}, {"T_req", r.TReq}, {"F_inflight", r.FInflight}, {"F_handling", r.FHandling}, {"F_chanh", r.FChanh},
		{"T_chanh", r.TChanh}, {"F_chanh_lk", r.FChanhLk}, {"F_chanh_cb", r.FChanhCb}, {"F_flag", r.FFlag}, {"F_incoming", r.FIncoming},
		{"F_readErr", r.FReadErr}, {"F_queue", r.FQueue}, {"F_reg", r.FReg}, {"F_pongs", r.FPongs}, {"F_exiting", r.FExiting},
		{"F_stop", r.FStop}, {"F_handler", r.FHandler}, {"F_timeout", r.FTimeout}, {"F_pingInterval", r.FPingIv}, {"F_backoff", r.FBackoff},
		{"I_disp", r.IDisp}, {"FN_loop", r.FnLoop}, {"FN_exec", r.FnExec}, {"FN_redial", r.FnRedial}, {"FN_disp", r.FnDisp},
		{"FN_norm", r.FnNorm}, {"FN_call", r.FnCall}, {"T_errfn", r.TErrFn}, {"T_resp", r.TResp}, {"T_client", r.TClient},
		{"F_doRequest", r.FDoReq}, {"F_idctr", r.FIdCtr}, {"F_client_exiting", r.FCExiting}, {"T_rpcerr", r.TRPCErr},
		{"F_req_id", r.FReqID}, {"F_retCh", r.FRetCh}, {"F_stopPings", r.FStopPings}, {"T_frame", r.TFrame},
	} {
		r.note(kv.k, kv.v)
	}
	for i, f := range r.FnUser {
		r.notes[fmt.Sprintf("FN_usercall[%d]", i)] = fname(f)
	}
	if len(r.FnUser) == 0 {
		r.unresolved = append(r.unresolved, "FN_usercall")
	}
	return r
}

func (r *Roles) resolveConnFields(pkg *types.Package) {
	st := r.TConn.Underlying().(*types.Struct)
	var emptyChans []*types.Var
	var durations []*types.Var
	for i := 0; i < st.NumFields(); i++ {
		f := st.Field(i)
		t := f.Type()
		switch tt := t.(type) {
		case *types.Pointer:
			if isPtrToNamed(t, gorilla, "Conn") {
				r.FSock = f
			}
		case *types.Signature:
			if tt.Params().Len() == 0 && tt.Results().Len() == 2 && isPtrToNamed(tt.Results().At(0).Type(), gorilla, "Conn") {
				r.FFactory = f
			}
			if tt.Params().Len() == 0 && tt.Results().Len() == 0 {
				r.FStopPings = f
			}
		case *types.Chan:
			el := tt.Elem()
			switch {
			case isNamed(el, "io", "Reader"):
				r.FIncoming = f
			case isErrorType(el):
				r.FReadErr = f
			case isEmptyStruct(el):
				if tt.Dir() == types.RecvOnly {
					r.FStop = f
				} else {
					emptyChans = append(emptyChans, f)
				}
			default:
				if sl, ok := el.(*types.Slice); ok {
					if b, ok := sl.Elem().(*types.Basic); ok && b.Kind() == types.Byte {
						r.FQueue = f
					}
				}
				if n, ok := el.(*types.Named); ok && n.Obj().Pkg() == pkg {
					if s := structOf(n); s != nil {
						if tt.Dir() == types.RecvOnly {
							// requests channel: element struct has a chan field
							for j := 0; j < s.NumFields(); j++ {
								if ch, ok := s.Field(j).Type().(*types.Chan); ok {
									if rn, ok := ch.Elem().(*types.Named); ok {
										r.FRequests, r.TCreq, r.FReady, r.TCresp = f, n, s.Field(j), rn
									}
								}
							}
						} else {
							r.FReg = f
						}
					}
				}
			}
		case *types.Map:
			el := tt.Elem()
			if n, ok := el.(*types.Named); ok {
				if r.TCreq != nil && n == r.TCreq {
					r.FInflight = f
				} else if isNamed(n, "context", "CancelFunc") {
					r.FHandling = f
				}
			}
			if pt, ok := el.(*types.Pointer); ok {
				if n, ok := pt.Elem().(*types.Named); ok {
					if s := structOf(n); s != nil {
						var lk, cb *types.Var
						for j := 0; j < s.NumFields(); j++ {
							if isMutex(s.Field(j).Type()) {
								lk = s.Field(j)
							}
							if _, ok := s.Field(j).Type().Underlying().(*types.Signature); ok {
								cb = s.Field(j)
							}
						}
						if lk != nil && cb != nil {
							r.FChanh, r.TChanh, r.FChanhLk, r.FChanhCb = f, n, lk, cb
						}
					}
				}
			}
		case *types.Named:
			if isErrorType(t) {
				r.FFlag = f
			}
			if isNamed(t, "time", "Duration") {
				durations = append(durations, f)
			}
			if tt.Obj().Pkg() == pkg {
				if _, ok := tt.Underlying().(*types.Interface); ok {
					r.FHandler, r.IDisp = f, tt
				}
				if s := structOf(tt); s != nil && s.NumFields() == 2 && isNamed(s.Field(0).Type(), "time", "Duration") && isNamed(s.Field(1).Type(), "time", "Duration") {
					r.FBackoff = f
				}
			}
		}
	}
	// tables grouped with their lock into a small struct of their own (callTable{lk, calls}): look one
	// level down into fields whose type is a struct declared in this package
	for i := 0; i < st.NumFields(); i++ {
		ft := st.Field(i).Type()
		if pt, ok := ft.(*types.Pointer); ok {
			ft = pt.Elem()
		}
		n, ok := ft.(*types.Named)
		if !ok || n.Obj().Pkg() != pkg {
			continue
		}
		ns, ok := n.Underlying().(*types.Struct)
		if !ok {
			continue
		}
		for j := 0; j < ns.NumFields(); j++ {
			f := ns.Field(j)
			// the connection-unusable flag kept with its lock in a small struct (connErr{lk, err})
			if r.FFlag == nil && isErrorType(f.Type()) {
				hasLk := false
				for k := 0; k < ns.NumFields(); k++ {
					if isMutex(ns.Field(k).Type()) {
						hasLk = true
					}
				}
				if hasLk {
					r.FFlag = f
				}
			}
			m, ok := f.Type().(*types.Map)
			if !ok {
				continue
			}
			if en, ok := m.Elem().(*types.Named); ok {
				if r.TCreq != nil && en == r.TCreq && r.FInflight == nil {
					r.FInflight = f
				} else if isNamed(en, "context", "CancelFunc") && r.FHandling == nil {
					r.FHandling = f
				}
			}
			if pt, ok := m.Elem().(*types.Pointer); ok && r.FChanh == nil {
				if en, ok := pt.Elem().(*types.Named); ok {
					if s2 := structOf(en); s2 != nil {
						var lk, cb *types.Var
						for k := 0; k < s2.NumFields(); k++ {
							if isMutex(s2.Field(k).Type()) {
								lk = s2.Field(k)
							}
							if _, ok := s2.Field(k).Type().Underlying().(*types.Signature); ok {
								cb = s2.Field(k)
							}
						}
						if lk != nil && cb != nil {
							r.FChanh, r.TChanh, r.FChanhLk, r.FChanhCb = f, en, lk, cb
						}
					}
				}
			}
		}
	}
	// map elem ordering: F_inflight needs T_creq which may come later in field order: second pass
	if r.FInflight == nil && r.TCreq != nil {
		for i := 0; i < st.NumFields(); i++ {
			if m, ok := st.Field(i).Type().(*types.Map); ok && m.Elem() == types.Type(r.TCreq) {
				r.FInflight = st.Field(i)
			}
		}
	}
	if r.TCreq != nil {
		s := structOf(r.TCreq)
		for j := 0; j < s.NumFields(); j++ {
			if n, ok := s.Field(j).Type().(*types.Named); ok && n.Obj().Pkg() == pkg {
				if structOf(n) != nil {
					r.FCreqReq, r.TReq = s.Field(j), n
				} else if _, ok := n.Underlying().(*types.Signature); ok {
					r.FRetCh = s.Field(j)
				}
			}
		}
	}
	if r.TReq != nil {
		s := structOf(r.TReq)
		for j := 0; j < s.NumFields(); j++ {
			f := s.Field(j)
			tag := s.Tag(j)
			if strings.Contains(tag, `json:"id`) {
				r.FReqID = f
			}
			if strings.Contains(tag, `json:"method`) {
				r.FReqMethod = f
			}
		}
	}
	// time.Duration fields: told apart by use (timeout feeds SetReadDeadline; ping interval feeds time.After in a loop)
	var pingFallback *types.Var
	var writesControl func(fn *ssa.Function) bool
	writesControl = func(fn *ssa.Function) bool {
		hit := false
		allInstrsRaw(fn, func(in ssa.Instruction) {
			if ci, ok := in.(ssa.CallInstruction); ok {
				switch calleeName(ci) {
				case "(*github.com/gorilla/websocket.Conn).WriteMessage", "(*github.com/gorilla/websocket.Conn).WriteControl":
					hit = true
				}
			}
		})
		for _, a := range fn.AnonFuncs {
			if writesControl(a) {
				hit = true
			}
		}
		return hit
	}
	defer func() {
		if r.FPingIv == nil {
			r.FPingIv = pingFallback
		}
	}()
	for _, d := range durations {
		for _, fn := range r.p.Funcs {
			allInstrs(fn, func(in ssa.Instruction) {
				ci, ok := in.(ssa.CallInstruction)
				if !ok {
					return
				}
				nm := calleeName(ci)
				if nm == "time.After" || nm == "time.NewTicker" || nm == "time.Tick" {
					if valueMentionsField(ci.Common().Args[0], d, 4) {
						// the pacing of the function that writes control frames — another timer
						// fed by a duration field (a bounded wait somewhere) is not the ping interval
						if writesControl(outermost(fn)) {
							r.FPingIv = d
						} else if pingFallback == nil {
							pingFallback = d
						}
					}
				}
				if nm == "(time.Time).Add" && len(ci.Common().Args) == 2 {
					if valueMentionsField(ci.Common().Args[1], d, 4) {
						r.FTimeout = d
					}
				}
			})
		}
	}
	// exiting vs pongs among bidirectional chan struct{} fields: exiting is closed in a defer of FN_loop (resolved later)
	r.emptyChans = emptyChans
}

// valueMentionsField: does v (through loads, conversions, binops) read field f?
func valueMentionsField(v ssa.Value, f *types.Var, depth int) bool {
	if depth < 0 || v == nil {
		return false
	}
	switch x := v.(type) {
	case *ssa.UnOp:
		return valueMentionsField(x.X, f, depth-1)
	case *ssa.FieldAddr:
		return fieldOfAddr(x) == f
	case *ssa.Field:
		return fieldOfField(x) == f
	case *ssa.Convert:
		return valueMentionsField(x.X, f, depth-1)
	case *ssa.ChangeType:
		return valueMentionsField(x.X, f, depth-1)
	case *ssa.BinOp:
		return valueMentionsField(x.X, f, depth-1) || valueMentionsField(x.Y, f, depth-1)
	}
	return false
}

func fieldOfAddr(fa *ssa.FieldAddr) *types.Var {
	st := structOf(fa.X.Type())
	if st == nil {
		return nil
	}
	return st.Field(fa.Field)
}

func fieldOfField(f *ssa.Field) *types.Var {
	st := structOf(f.X.Type())
	if st == nil {
		return nil
	}
	return st.Field(f.Field)
}

// isFreshAlloc: v points to an object created right here: the allocation itself, or the value of
// a local variable (possibly captured later) that is assigned exactly once, with an allocation made
// in the same block (wc := new(T); wc.f = …).
func isFreshAlloc(v ssa.Value) bool {
	if _, ok := v.(*ssa.Alloc); ok {
		return true
	}
	ld, ok := v.(*ssa.UnOp)
	if !ok || ld.Op != token.MUL {
		return false
	}
	vr, ok := ld.X.(*ssa.Alloc)
	if !ok {
		return false
	}
	var only *ssa.Store
	n := 0
	for _, ref := range *vr.Referrers() {
		if st, ok := ref.(*ssa.Store); ok && st.Addr == ssa.Value(vr) {
			n++
			only = st
		}
	}
	if n != 1 {
		return false
	}
	obj, ok := only.Val.(*ssa.Alloc)
	return ok && obj.Block() == ld.Block() && obj.Parent() == ld.Parent()
}

func (r *Roles) resolveFunctions() {
	p := r.p
	pickFn := func(us []FieldUse) *ssa.Function {
		set := map[*ssa.Function]bool{}
		var out []*ssa.Function
		for _, u := range us {
			if !set[u.Fn] {
				set[u.Fn] = true
				out = append(out, u.Fn)
			}
		}
		if f, ok := one(out); ok {
			return f
		}
		return nil
	}
	r.FnLoop = pickFn(usesOfKind(p.uses(r.FRequests), "select-recv", "recv"))
	r.FnExec = pickFn(usesOfKind(p.uses(r.FQueue), "select-recv", "recv"))
	// redial: the function that decides to reconnect: it (or a helper it calls) spawns a
	// goroutine whose call cone installs a new socket; climb to the nearest enclosing
	// function that reports a boolean verdict.
	{
		set := map[*ssa.Function]bool{}
		var out []*ssa.Function
		for _, fn := range p.Funcs {
			allInstrsRaw(fn, func(in ssa.Instruction) {
				g, ok := in.(*ssa.Go)
				if !ok {
					return
				}
				tgt := p.unbound(staticCallee(g))
				if tgt == nil || !p.allFns[tgt] {
					return
				}
				swaps := false
				p.coneInstrs(tgt, func(x ssa.Instruction) {
					if st, ok := x.(*ssa.Store); ok {
						if fa, ok := st.Addr.(*ssa.FieldAddr); ok && fieldOfAddr(fa) == r.FSock && !isFreshAlloc(fa.X) {
							swaps = true
						}
					}
				})
				if !swaps {
					return
				}
				o := outermost(fn)
				for i := 0; i < ipMaxDepth; i++ {
					res := o.Signature.Results()
					if res.Len() == 1 && types.Identical(res.At(0).Type(), types.Typ[types.Bool]) {
						break
					}
					cs := p.syncCallers(o)
					up := map[*ssa.Function]bool{}
					for _, c := range cs {
						up[outermost(c.Parent())] = true
					}
					if len(up) != 1 {
						break
					}
					for f := range up {
						o = f
					}
				}
				if !set[o] {
					set[o] = true
					out = append(out, o)
				}
			})
		}
		if f, ok := one(out); ok {
			r.FnRedial = f
		}
	}
	if r.FnLoop != nil {
		// the connection's two signal channels: the exit signal is the one that gets closed (by the
		// loop's deferred cleanup), the activity signal the one that is sent on
		loopCone := map[*ssa.Function]bool{}
		for _, g := range p.cone(r.FnLoop) {
			loopCone[g] = true
		}
		recvInLoop := func(ec *types.Var) bool {
			for _, u := range usesOfKind(p.uses(ec), "recv", "select-recv") {
				if loopCone[u.Fn] {
					return true
				}
			}
			return false
		}
		pongFromLoop := false
		for _, ec := range r.emptyChans {
			closed := len(usesOfKind(p.uses(ec), "close")) > 0
			sent := len(usesOfKind(p.uses(ec), "send", "select-send")) > 0
			switch {
			case closed && !sent:
				r.FExiting = ec
			case sent && !closed:
				// several token channels may exist (a semaphore of handler slots): the activity signal is
				// the one the connection loop itself receives from
				if rl := recvInLoop(ec); rl || !pongFromLoop {
					r.FPongs = ec
					pongFromLoop = pongFromLoop || rl
				}
			default:
				closedInLoop := false
				for _, u := range usesOfKind(usesIn(p.uses(ec), r.FnLoop), "close") {
					if _, ok := u.At.(*ssa.Defer); ok {
						closedInLoop = true
					}
				}
				if closedInLoop {
					r.FExiting = ec
				} else {
					r.FPongs = ec
				}
			}
		}
	}
	if r.IDisp != nil {
		iface := r.IDisp.Underlying().(*types.Interface)
		// the dispatch method: the one with the longest parameter list (the interface may also carry
		// small query methods)
		var dm *types.Func
		for i := 0; i < iface.NumMethods(); i++ {
			m := iface.Method(i)
			if dm == nil || m.Type().(*types.Signature).Params().Len() > dm.Type().(*types.Signature).Params().Len() {
				dm = m
			}
		}
		var cands []*ssa.Function
		for _, fn := range p.Funcs {
			if fn.Signature.Recv() == nil || fn.Parent() != nil || dm == nil || dm.Type().(*types.Signature).Params().Len() < 3 {
				continue
			}
			if fn.Name() != dm.Name() {
				continue
			}
			if types.Implements(fn.Signature.Recv().Type(), iface) {
				cands = append(cands, fn)
			}
		}
		if f, ok := one(cands); ok {
			r.FnDisp = f
		}
		// T_errfn / T_req from the interface method's parameters
		sig := dm.Type().(*types.Signature)
		isErrFn := func(t types.Type) *types.Named {
			if n, ok := t.(*types.Named); ok && n.Obj().Pkg() == p.Root.Pkg {
				if s, ok := n.Underlying().(*types.Signature); ok && s.Params().Len() >= 3 {
					if _, ok := s.Params().At(0).Type().Underlying().(*types.Signature); ok {
						return n
					}
				}
			}
			return nil
		}
		for i := 0; i < sig.Params().Len(); i++ {
			pt := sig.Params().At(i).Type()
			if n := isErrFn(pt); n != nil {
				r.TErrFn = n
			}
			// the hooks grouped in a parameter struct (callEnv{w, rpcError, done, chOut})
			if n, ok := pt.(*types.Named); ok && n.Obj().Pkg() == p.Root.Pkg && r.TErrFn == nil {
				if st, ok := n.Underlying().(*types.Struct); ok {
					for j := 0; j < st.NumFields(); j++ {
						if en := isErrFn(st.Field(j).Type()); en != nil {
							r.TErrFn = en
						}
					}
				}
			}
		}
	}
	for _, fn := range p.Funcs {
		if pkgOf(fn) != p.Root.Pkg {
			continue
		}
		sig := fn.Signature
		if sig.Recv() == nil && fn.Parent() == nil && sig.Params().Len() == 1 && sig.Results().Len() == 2 {
			if isEmptyIface(sig.Params().At(0).Type()) && isEmptyIface(sig.Results().At(0).Type()) && isErrorType(sig.Results().At(1).Type()) {
				if r.FnNorm == nil {
					r.FnNorm = fn
				} else {
					r.FnNorm = nil
					r.unresolved = append(r.unresolved, "FN_norm(ambiguous)")
				}
			}
		}
		hasUser := false
		allInstrs(fn, func(in ssa.Instruction) {
			ci, ok := in.(ssa.CallInstruction)
			if !ok {
				return
			}
			switch calleeName(ci) {
			case "(reflect.Value).Call", "(reflect.Value).CallSlice":
				hasUser = true
			case "reflect.MakeFunc":
				if mc, ok := ci.Common().Args[1].(*ssa.MakeClosure); ok {
					if f, ok := mc.Fn.(*ssa.Function); ok {
						r.FnCall = p.unbound(f)
					}
				}
			}
		})
		if hasUser {
			r.FnUser = append(r.FnUser, fn)
		}
	}
}

func isEmptyIface(t types.Type) bool {
	i, ok := t.Underlying().(*types.Interface)
	return ok && i.NumMethods() == 0
}

func (r *Roles) resolveClient(pkg *types.Package) {
	if r.TCreq == nil {
		return
	}
	for _, nt := range namedStructs(pkg) {
		st, ok := nt.Underlying().(*types.Struct)
		if !ok {
			continue
		}
		for i := 0; i < st.NumFields(); i++ {
			// the request sender: a function-typed field taking a client request, or an interface with such a method
			var sigs []*types.Signature
			switch t := st.Field(i).Type().Underlying().(type) {
			case *types.Signature:
				sigs = append(sigs, t)
			case *types.Interface:
				for m := 0; m < t.NumMethods(); m++ {
					if sg, ok := t.Method(m).Type().(*types.Signature); ok {
						sigs = append(sigs, sg)
					}
				}
			}
			for _, sig := range sigs {
				for j := 0; j < sig.Params().Len(); j++ {
					if sig.Params().At(j).Type() == types.Type(r.TCreq) {
						r.TClient, r.FDoReq = nt, st.Field(i)
					}
				}
			}
		}
	}
	if r.TClient == nil {
		return
	}
	st := r.TClient.Underlying().(*types.Struct)
	var ints []*types.Var
	for i := 0; i < st.NumFields(); i++ {
		f := st.Field(i)
		if b, ok := f.Type().Underlying().(*types.Basic); ok && b.Info()&types.IsInteger != 0 {
			ints = append(ints, f)
		}
		if isNamed(f.Type(), "sync/atomic", "Int64") || isNamed(f.Type(), "sync/atomic", "Uint64") || isNamed(f.Type(), "sync/atomic", "Int32") {
			ints = append(ints, f)
		}
		if ch, ok := f.Type().(*types.Chan); ok && isEmptyStruct(ch.Elem()) {
			r.FCExiting = f
		}
	}
	if f, ok := one(ints); ok {
		r.FIdCtr = f
	}
}

func (r *Roles) resolveMisc(pkg *types.Package) {
	if tn, ok := pkg.Scope().Lookup("JSONRPCError").(*types.TypeName); ok {
		r.TRPCErr, _ = tn.Type().(*types.Named)
	}
	for _, nt := range namedStructs(pkg) {
		st, ok := nt.Underlying().(*types.Struct)
		if !ok {
			continue
		}
		hasMarshal := false
		for i := 0; i < nt.NumMethods(); i++ {
			if nt.Method(i).Name() == "MarshalJSON" {
				hasMarshal = true
			}
		}
		hasErrPtr, hasMethodTag, hasResultTag := false, false, false
		for i := 0; i < st.NumFields(); i++ {
			if r.TRPCErr != nil {
				if pt, ok := st.Field(i).Type().(*types.Pointer); ok && pt.Elem() == types.Type(r.TRPCErr) {
					hasErrPtr = true
				}
			}
			if strings.Contains(st.Tag(i), `json:"method`) {
				hasMethodTag = true
			}
			if strings.Contains(st.Tag(i), `json:"result`) {
				hasResultTag = true
			}
		}
		if hasMarshal && hasErrPtr {
			r.TResp = nt
		}
		if hasMethodTag && hasResultTag {
			r.TFrame = nt
		}
	}
}
