package main

import (
	"bytes"
	"fmt"
	"go/ast"
	"go/format"
	"go/types"
	"os"
	"path/filepath"

	"golang.org/x/tools/go/packages"
)

// renameAll writes a copy of the analysed tree to dst in which every unexported
// identifier declared in the module's own packages (types, fields, methods,
// functions, variables, constants, parameters, locals, labels) has been renamed
// consistently (name -> name+suffix). Exported names, imported package names,
// predeclared identifiers and `_`, `init`, `main` are left alone. The result
// is a behaviour-preserving variant of the program whose internal names all
// differ: no rule may depend on them.
func renameAll(srcDir, dst, suffix string) error {
	if err := copyTree(srcDir, dst); err != nil {
		return err
	}
	p, err := loadProg(srcDir)
	if err != nil {
		return err
	}
	_ = p
	own := map[*types.Package]bool{}
	for _, pk := range p.Pkgs {
		own[pk.Types] = true
	}
	shouldRename := func(obj types.Object) bool {
		if obj == nil || obj.Pkg() == nil || !own[obj.Pkg()] {
			return false
		}
		if _, isPkgName := obj.(*types.PkgName); isPkgName {
			return false
		}
		n := obj.Name()
		if n == "_" || n == "init" || n == "main" || n == "" || obj.Exported() {
			return false
		}
		// embedded fields take their name from the type: renamed when the type is renamed (same rule)
		return true
	}
	for _, pk := range p.Pkgs {
		renamePkg(pk, shouldRename, suffix)
		for i, f := range pk.Syntax {
			var buf bytes.Buffer
			if err := format.Node(&buf, pk.Fset, f); err != nil {
				return fmt.Errorf("format %s: %w", pk.CompiledGoFiles[i], err)
			}
			rel, err := filepath.Rel(p.Dir, pk.CompiledGoFiles[i])
			if err != nil {
				return err
			}
			if err := os.WriteFile(filepath.Join(dst, rel), buf.Bytes(), 0o644); err != nil {
				return err
			}
		}
	}
	return nil
}

func renamePkg(pk *packages.Package, should func(types.Object) bool, suffix string) {
	info := pk.TypesInfo
	for _, f := range pk.Syntax {
		ast.Inspect(f, func(n ast.Node) bool {
			id, ok := n.(*ast.Ident)
			if !ok {
				return true
			}
			obj := info.Defs[id]
			if obj == nil {
				obj = info.Uses[id]
			}
			if obj == nil {
				// implicit objects (e.g. symbolic variable of a type switch) are in Implicits; their uses are in Uses
				return true
			}
			if should(obj) {
				id.Name = id.Name + suffix
			}
			return true
		})
		// type-switch symbolic variables: `switch v := x.(type)` declares v via Implicits per clause; the
		// declaring identifier has no Defs entry with an object: rename it when any clause object is ours.
		ast.Inspect(f, func(n ast.Node) bool {
			ts, ok := n.(*ast.TypeSwitchStmt)
			if !ok {
				return true
			}
			as, ok := ts.Assign.(*ast.AssignStmt)
			if !ok || len(as.Lhs) != 1 {
				return true
			}
			id, ok := as.Lhs[0].(*ast.Ident)
			if !ok || id.Name == "_" {
				return true
			}
			for _, cl := range ts.Body.List {
				if obj := info.Implicits[cl]; obj != nil && should(obj) {
					if len(id.Name) < len(suffix) || id.Name[len(id.Name)-len(suffix):] != suffix {
						id.Name = id.Name + suffix
					}
					break
				}
			}
			return true
		})
	}
}
