package main

import (
	"fmt"
	"go/token"
	"go/types"

	"golang.org/x/tools/go/ssa"
)

func init() {
	register(&propInfo{
		ID:          "C16",
		Explanation: "Origin and site analysis of reverse calls: (R16.1) the reverse-client builder allocates, inside each invocation, the client object, its request queue and the proxy struct; the queue it makes is what it stores into the connection it was given, the client's exit signal is that connection's exit signal, the proxy it provides is the one placed (under the proxy type's key) into the context it returns, which derives from the context it was given; (R16.2) the builder is invoked only on the WebSocket upgrade path, once per connection, before the connection loop starts, and its context is what the loop runs under; (R16.3) a reverse call fails instead of blocking once the connection is gone: every enqueue watches the exit signal, every loop exit raises it and fails in-flight calls; (R16.4) the client-side handler for reverse calls takes its alias table from the client configuration; (R16.5) handlers run on their own goroutine, so a handler that makes a reverse call (whose response arrives as a later frame on the same connection) cannot deadlock the frame executor. (R16.7) the reverse client's request queue is unbuffered. (R16.8) the frame executor never blocks on something only a finishing handler releases; (R16.9) the accept arm answers reverse calls and notifications picked up while the connection goes away. (R16.10) every client-handler registration is appended. (R16.11) an in-flight entry leaves the table only together with a completion, also on the response path. (R16.12) a client-handler alias option records the alias on every path. (R16.13) tables filled by options are made per configuration value. (R16.14) the socket's read limit is not derived from the option that bounds HTTP request bodies.",
		NotDecided:  "Affinity under real client populations (follows from per-invocation allocation, not explored), correlation/error/dispatch guarantees of reverse calls (the same client and dispatcher code as forward calls: C02, C09, C11, C12 apply).",
		Assumptions: []string{"the reverse-client builder is the function literal stored into the server configuration's builder field (type func(context.Context, *conn) (context.Context, error))"},
		Run:         runC16,
	})
}

func runC16(c *Ctx) {
	p, r := c.P, c.R
	w := c.ws()
	c.rule("R16.1", "per-connection freshness and binding of the reverse client")
	c.rule("R16.2", "the builder runs only on the WebSocket upgrade path, before the loop, and its context is the loop's")
	c.rule("R16.3", "reverse calls fail once the connection is gone: enqueue watches the exit signal; every loop exit raises it and fails in-flight calls")
	c.rule("R16.4", "the client-side reverse handler takes its alias table from the client configuration")
	c.rule("R16.5", "handlers run on their own goroutine (a reverse call from a handler cannot deadlock the executor)")

	isBuilderType, builders := c.reverseClientFresh("R16.1")
	_ = isBuilderType
	_ = builders
	// ---- R16.2
	{
		var fBuilder []*types.Var
		for _, tn := range []string{"RPCServer", "ServerConfig"} {
			if o, ok := p.Root.Pkg.Scope().Lookup(tn).(*types.TypeName); ok {
				st := structOf(o.Type())
				for i := 0; i < st.NumFields(); i++ {
					if isBuilderType(st.Field(i).Type()) {
						fBuilder = append(fBuilder, st.Field(i))
					}
				}
			}
		}
		n := 0
		for _, f := range fBuilder {
			for _, u := range usesOfKind(p.uses(f), "call") {
				n++
				fn := u.Fn
				construct := fmt.Sprintf("%s: invocation of the reverse-client builder", fname(fn))
				upgrades := false
				p.coneInstrs(outermost(fn), func(in ssa.Instruction) {
					if ci, ok := in.(*ssa.Call); ok && calleeName(ci) == "(*"+gorilla+".Upgrader).Upgrade" {
						upgrades = true
					}
				})
				okAll := true
				if !upgrades {
					okAll = false
					c.bad("R16.2", construct, c.ipos(u.At), "the builder is invoked outside the WebSocket upgrade path: a reverse client appears on transports that cannot carry reverse calls")
				}
				if inLoop(u.At.Block()) {
					okAll = false
					c.bad("R16.2", construct, c.ipos(u.At), "the builder is invoked in a loop")
				}
				// its connection argument is the freshly built connection object, and the loop runs afterwards with the returned context
				call := u.At.(*ssa.Call)
				connArg := call.Common().Args[1]
				fresh := c.allOrigins(connArg, func(a apath) bool {
					al, ok := a.Root.(*ssa.Alloc)
					return ok && len(a.Fields) == 0 && al.Heap && p.inCone(fn, al)
				})
				if !fresh {
					okAll = false
					c.bad("R16.2", construct, c.ipos(call), "the builder is not given the connection object created for this upgrade")
				}
				var retCtx ssa.Value
				for _, ref := range *call.Referrers() {
					if ex, ok := ref.(*ssa.Extract); ok && ex.Index == 0 {
						retCtx = ex
					}
				}
				loopStarted := false
				ctxOK := false
				for _, g := range c.region(fn) {
					starts := callsTo(g, r.FnLoop)
					// pprof.Do(ctx, labels, wc.loop): the loop handed over as a method value
					allInstrsRaw(g, func(in ssa.Instruction) {
						if ci, ok := in.(*ssa.Call); ok && calleeName(ci) == "runtime/pprof.Do" {
							for _, f := range c.funcsOf(ci.Common().Args[2]) {
								if p.unbound(f) == r.FnLoop {
									starts = append(starts, ci)
								}
							}
						}
					})
					for _, s := range starts {
						loopStarted = true
						s := s
						isCall := func(x ssa.Instruction) bool { return x == ssa.Instruction(call) }
						isStart := func(x ssa.Instruction) bool { return x == ssa.Instruction(s) }
						if !mustPrecedeIP(s, isCall, 0) && reachFromUp(call, isStart, nil) == nil {
							// the loop call neither follows the builder on every path nor is reachable from it: unrelated start
							continue
						}
						// the builder runs (when configured) before the loop: from the loop start the builder call
						// is not reachable any more
						if reachFromUp(s, isCall, nil) != nil {
							okAll = false
							c.bad("R16.2", construct, c.ipos(s), "the connection loop can start before the reverse client is installed")
						}
						// the context the loop runs under derives from the builder's result
						for _, a := range s.Common().Args {
							if isNamed(a.Type(), "context", "Context") && retCtx != nil {
								if c.dependsOn(a, func(v ssa.Value) bool { return v == retCtx }, 0, map[ssa.Value]bool{}) {
									ctxOK = true
								}
							}
						}
					}
				}
				if !loopStarted {
					okAll = false
					c.bad("R16.2", construct, p.pos(fn.Pos()), "the connection loop is not started on this path")
				}
				// the loop may run inside pprof.Do(ctx, labels, func(ctx) { loop(ctx) }): then the context given to pprof.Do counts
				for _, g := range c.region(fn) {
					allInstrsRaw(g, func(in ssa.Instruction) {
						if ci, ok := in.(*ssa.Call); ok && calleeName(ci) == "runtime/pprof.Do" && retCtx != nil {
							if c.dependsOn(ci.Common().Args[0], func(v ssa.Value) bool { return v == retCtx }, 0, map[ssa.Value]bool{}) {
								ctxOK = true
							}
						}
					})
				}
				if !ctxOK {
					okAll = false
					c.bad("R16.2", construct, c.ipos(call), "the context returned by the builder (carrying the reverse client) is not the one the connection loop — and hence the handlers — run under")
				}
				if okAll {
					c.ok("R16.2", construct, c.ipos(call), "on the upgrade path, once, before the loop; loop runs under the returned context")
				}
			}
		}
		if n == 0 {
			c.und("R16.2", "invocation of the reverse-client builder", "-", "the builder is never invoked")
		}
	}

	// ---- R16.3
	c.enqueueRule("R16.3")
	c.exitCleanup("R16.3")

	// ---- R16.4
	{
		construct := "client-side reverse handler: alias table"
		// the dispatcher's alias map field stored from a Config field in the WebSocket client constructor
		recvT := r.FnDisp.Signature.Recv().Type()
		st := structOf(recvT)
		var fAlias *types.Var
		for i := 0; i < st.NumFields(); i++ {
			if m, ok := st.Field(i).Type().Underlying().(*types.Map); ok {
				if b, ok := m.Elem().Underlying().(*types.Basic); ok && b.Kind() == types.String {
					fAlias = st.Field(i)
				}
			}
		}
		found := false
		if fAlias != nil {
			for _, u := range usesOfKind(p.uses(fAlias), "store") {
				if lf := loadedField(u.Val); lf != nil && lf != fAlias && types.Identical(lf.Type(), fAlias.Type()) {
					found = true
				}
			}
		}
		c.check(found, "R16.4", construct, "-", "taken from the client configuration", "aliases configured for the client-side handler never reach its dispatcher: aliased reverse calls are rejected as not found")
	}

	// ---- R16.6
	c.rule("R16.7", "a reverse call made while the connection goes away fails instead of blocking: the hand-over to the connection loop is a rendezvous (unbuffered queue), so no request is left in a buffer that nobody drains")
	c.unbufferedQueue("R16.7")
	c.rule("R16.10", "every client-handler registration is kept (the option appends on every path; several objects may serve one namespace)")
	c.handlerRegistrationsKept("R16.10")
	c.rule("R16.13", "the alias table of the client-side handler belongs to one client: tables filled by options are made per configuration value")
	c.configMapsOwned("R16.13")
	c.rule("R16.12", "a client-handler alias given as an option is recorded whatever else was configured before it (options may come in any order; the alias table is consulted when a reverse call arrives)")
	c.aliasOptionUnconditional("R16.12")
	c.rule("R16.11", "a reverse call pending when its client goes away is failed: an in-flight entry leaves the table only together with a completion, also on the response path")
	c.inflightRemovalRule("R16.11")
	c.deliveryRules("R16.11", "R16.11")
	c.rule("R16.9", "a reverse call or notification picked up while the connection is going away is answered, not dropped: the accept arm is total for both id polarities")
	c.acceptArmRule("R16.9")
	c.rule("R16.8", "nested calls complete: the frame executor (which delivers the responses of reverse calls) never blocks on something only a finishing handler releases")
	c.executorNeverWaitsForHandlers("R16.8")
	c.ruleOpt("R16.14", "a reverse call's result of any size reaches the handler that made the call: the socket's read limit is not derived from the option that bounds HTTP request bodies")
	c.readLimitNotRequestSize("R16.14")
	c.rule("R16.6", "a reverse call fails once the client is gone also when it is retry-tagged: re-sends only on the wire's temporary-connection code")
	c.retryGateRule("R16.6")

	// ---- R16.5
	{
		invs := c.dispInvokes()
		if len(invs) == 0 {
			c.und("R16.5", "handler goroutine", "-", "no dispatcher invocation found")
		}
		for _, in := range invs {
			c.check(c.onOwnGoroutine(in), "R16.5", "handler goroutine", c.ipos(in), "own goroutine", "a handler (e.g. of a notification) runs on the frame executor itself: when it makes a reverse call, the response can never be processed and the connection stalls")
		}
	}
	_ = w
	_ = token.ADD
}

// mustPrecedeOrUnreached: every path from entry to b passes a, or a is conditional on a configuration check whose
// other branch is also allowed (the builder is optional): accept if no path reaches b that both passes the
// builder's guard-true branch and avoids a.
func mustPrecedeOrUnreached(fn *ssa.Function, a, b ssa.Instruction) bool {
	// paths reaching b after a: fine. Paths reaching b avoiding a: allowed only if they avoid a's block dominator condition,
	// i.e. they do not pass through the block of a at all — which is what "avoid a" already means. The builder is optional,
	// so the only thing to exclude is b occurring before a on a path that later reaches a.
	return reachFrom(b, func(x ssa.Instruction) bool { return x == a }, nil) == nil
}

// reverseClientFresh: R16.1 (also registered under C02): the reverse client, its request queue and its
// proxy are built per connection inside the builder and bound to that connection's queue and exit signal.
func (c *Ctx) reverseClientFresh(rule string) (func(types.Type) bool, []*ssa.Function) {
	p, r := c.P, c.R
	w := c.ws()
	_ = w
	// builder field: func(context.Context, *T_conn) (context.Context, error)
	isBuilderType := func(t types.Type) bool {
		sig, ok := t.Underlying().(*types.Signature)
		if !ok || sig.Params().Len() != 2 || sig.Results().Len() != 2 {
			return false
		}
		pt, ok := sig.Params().At(1).Type().(*types.Pointer)
		return ok && pt.Elem() == types.Type(r.TConn) && isNamed(sig.Params().At(0).Type(), "context", "Context")
	}
	var builders []*ssa.Function
	for _, fn := range p.Funcs {
		if pkgOf(fn) == p.Root.Pkg && fn.Parent() != nil && isBuilderType(fn.Signature) && fn.Signature.Recv() == nil {
			// generic origin only (instantiations duplicate it)
			if fn.Origin() != nil || (fn.Parent() != nil && outermost(fn).Origin() != nil) {
				continue
			}
			builders = append(builders, fn)
		}
	}
	if len(builders) == 0 {
		c.und(rule, "reverse-client builder", "-", "no function literal of the builder type found")
	}
	for _, b := range builders {
		ctxP, connP := b.Params[0], b.Params[1]
		construct := fmt.Sprintf("%s: reverse client is built per connection", fname(b))
		okAll := true
		// client object allocated inside (the builder or a helper it calls)
		var clAlloc *ssa.Alloc
		inB := map[*ssa.Function]bool{}
		for _, g := range p.cone(b) {
			inB[g] = true
		}
		p.coneInstrs(b, func(in ssa.Instruction) {
			if al, ok := in.(*ssa.Alloc); ok && al.Type().(*types.Pointer).Elem() == types.Type(r.TClient) && al.Heap {
				clAlloc = al
			}
		})
		isCl := func(v ssa.Value) bool {
			return clAlloc != nil && c.allOrigins(v, func(a apath) bool { return a.Root == ssa.Value(clAlloc) && len(a.Fields) == 0 })
		}
		if clAlloc == nil {
			// any use of a client object captured from outside?
			okAll = false
			c.bad(rule, construct, p.pos(b.Pos()), "the client object behind the reverse proxy is not allocated inside the builder (it is shared by all connections): each new connection re-points it, so reverse calls made for earlier clients go to the newest client")
		}
		// request queue: result of a call on that client, stored into connP.requests
		if clAlloc != nil {
			var qStore *ssa.Store
			for _, u := range usesOfKind(p.uses(r.FRequests), "store") {
				if !inB[u.Fn] {
					continue
				}
				qStore = u.At.(*ssa.Store)
				if !c.isParamOrForwarded(u.Base, connP) {
					okAll = false
					c.bad(rule, construct, c.ipos(u.At), "the request queue is installed on something other than the connection the builder was given")
				}
			}
			if qStore == nil {
				okAll = false
				c.bad(rule, construct, p.pos(b.Pos()), "the builder does not install a request queue on the connection: reverse calls are never sent")
			} else {
				call, ok := stripConv(qStore.Val).(*ssa.Call)
				if !ok || len(call.Common().Args) == 0 || !(call.Common().Args[0] == ssa.Value(clAlloc) || isCl(call.Common().Args[0])) {
					okAll = false
					c.bad(rule, construct, c.ipos(qStore), "the queue installed on the connection is not the one this invocation's client sends on")
				} else if f := p.unbound(staticCallee(call)); f != nil {
					// the callee makes the channel per call
					made := false
					allInstrs(f, func(x ssa.Instruction) {
						if mk, ok := x.(*ssa.MakeChan); ok {
							if ch, ok := mk.Type().Underlying().(*types.Chan); ok && ch.Elem() == types.Type(r.TCreq) {
								made = true
							}
						}
					})
					if !made {
						okAll = false
						c.bad(rule, construct, c.ipos(call), "the request queue is not freshly made for this connection")
					}
				}
			}
			// exit signal binding
			bound := false
			for _, sv := range c.liftedFieldWrites(r.FCExiting) {
				if !inB[sv.At.Parent()] || sv.Base == nil {
					continue
				}
				if sv.Base == ssa.Value(clAlloc) || isCl(sv.Base) {
					if base, ok := loadsField(stripConv(sv.Val), r.FExiting); ok && c.isParamOrForwarded(base, connP) {
						bound = true
					}
				}
			}
			if !bound {
				okAll = false
				c.bad(rule, construct, p.pos(b.Pos()), "the reverse client's exit signal is not the exit signal of the connection it was built for: reverse calls block (or fail) independently of that connection's life")
			}
			// formatter from server config: plumbing handled under C12
		}
		// proxy struct allocated inside, provided, and placed into the returned context
		var wv *ssa.Call
		p.coneInstrs(b, func(in ssa.Instruction) {
			if ci, ok := in.(*ssa.Call); ok && calleeName(ci) == "context.WithValue" {
				wv = ci
			}
		})
		if wv == nil {
			okAll = false
			c.bad(rule, construct, p.pos(b.Pos()), "the proxy is not placed into the returned context")
		} else {
			val := stripConv(wv.Common().Args[2])
			al, isAl := val.(*ssa.Alloc)
			if !isAl {
				// built by a helper of the builder: every (non-nil) origin is an allocation made in the builder's cone
				for _, o := range c.origins(val) {
					if len(o.Fields) == 0 && isNilConst(o.Root) {
						continue
					}
					a2, ok := o.Root.(*ssa.Alloc)
					if !ok || len(o.Fields) != 0 {
						al, isAl = nil, false
						break
					}
					al, isAl = a2, true
				}
			}
			if !isAl || !inB[al.Parent()] {
				okAll = false
				c.bad(rule, construct, c.ipos(wv), "the proxy placed into the context is not allocated by this invocation of the builder: connections share one proxy")
			} else if clAlloc != nil {
				// provided by this client: a call taking clAlloc as receiver whose slice argument contains al
				provided := false
				p.coneInstrs(b, func(in ssa.Instruction) {
					ci, ok := in.(*ssa.Call)
					if !ok || len(ci.Common().Args) < 2 || !(ci.Common().Args[0] == ssa.Value(clAlloc) || isCl(ci.Common().Args[0])) {
						return
					}
					if c.dependsOn(ci.Common().Args[1], func(v ssa.Value) bool { return v == ssa.Value(al) }, 0, map[ssa.Value]bool{}) {
						provided = true
					}
				})
				if !provided {
					okAll = false
					c.bad(rule, construct, c.ipos(wv), "the proxy placed into the context was not filled in by this invocation's client")
				}
			}
			isCtxP := func(v ssa.Value) bool { return c.isParamOrForwarded(v, ctxP) }
			if !isCtxP(wv.Common().Args[0]) && !c.ctxDerives(wv.Common().Args[0], isCtxP, 0, map[ssa.Value]bool{}) {
				okAll = false
				c.bad(rule, construct, c.ipos(wv), "the returned context does not derive from the context the builder was given")
			}
			// returned on the success path
			retOK := false
			allInstrs(b, func(in ssa.Instruction) {
				if rt, ok := in.(*ssa.Return); ok && len(rt.Results) == 2 {
					if rt.Results[0] == ssa.Value(wv) || c.someOrigin(rt.Results[0], func(a apath) bool { return a.Root == ssa.Value(wv) && len(a.Fields) == 0 }) {
						retOK = true
					}
				}
			})
			if !retOK {
				okAll = false
				c.bad(rule, construct, c.ipos(wv), "the context carrying the proxy is not what the builder returns")
			}
		}
		if okAll {
			c.ok(rule, construct, p.pos(b.Pos()), "client, queue and proxy allocated per invocation; queue and exit signal bound to the given connection; proxy in the returned context")
		}
	}

	return isBuilderType, builders
}

// handlerRegistrationsKept: R16.10. Each WithClientHandler option adds a handler for reverse calls;
// several handler objects may share a namespace (their methods are merged). The option therefore
// appends on every path: an early return that overwrites an earlier registration of the same namespace
// makes the earlier object's methods answer "method not found".
func (c *Ctx) handlerRegistrationsKept(rule string) {
	p := c.P
	n := 0
	for _, fn := range p.Funcs {
		if pkgOf(fn) != p.Root.Pkg || len(fn.Params) == 0 {
			continue
		}
		// the option closure func(*Config), or a setter method of the configuration it delegates to
		pt, ok := fn.Params[0].Type().(*types.Pointer)
		if !ok || structOf(pt.Elem()) == nil {
			continue
		}
		allInstrsRaw(fn, func(in ssa.Instruction) {
			st, ok := in.(*ssa.Store)
			if !ok {
				return
			}
			fa, ok := st.Addr.(*ssa.FieldAddr)
			if !ok || fa.X != ssa.Value(fn.Params[0]) {
				return
			}
			sl, ok := fieldOfAddr(fa).Type().Underlying().(*types.Slice)
			if !ok {
				return
			}
			est := structOf(sl.Elem())
			if est == nil {
				return
			}
			hasObj := false
			for i := 0; i < est.NumFields(); i++ {
				if it, ok := est.Field(i).Type().Underlying().(*types.Interface); ok && it.Empty() {
					hasObj = true
				}
			}
			call, isCall := st.Val.(*ssa.Call)
			if !hasObj || !isCall {
				return
			}
			if b, ok := call.Common().Value.(*ssa.Builtin); !ok || b.Name() != "append" {
				return
			}
			n++
			construct := fmt.Sprintf("%s: handler registration appended", fname(fn))
			ret := reachFromEntry(fn, isReturn, func(x ssa.Instruction) bool { return x == in })
			c.check(ret == nil, rule, construct, c.ipos(in), "appended on every path", "the option can return without appending (it overwrites an earlier registration of the same namespace instead): the earlier handler object's methods are no longer served, reverse calls to them get 'method not found'")
		})
	}
	if n == 0 {
		c.und(rule, "handler registration option", "-", "no option appending a handler record found")
	}
}

// aliasOptionUnconditional: R16.12. An option closure that records (alias, original) — two strings
// captured from the option's constructor — into a string table records them on every path: a
// return that skips the update (because no handler for that namespace was configured *yet*) makes
// reverse calls through the alias fail with "method not found" depending on the order of options.
func (c *Ctx) aliasOptionUnconditional(rule string) {
	p := c.P
	n := 0
	fromParam := func(v ssa.Value) bool {
		if prm, ok := v.(*ssa.Parameter); ok {
			return isStringType(prm.Type())
		}
		if ld, ok := v.(*ssa.UnOp); ok && ld.Op == token.MUL {
			v = ld.X
		}
		fv, ok := v.(*ssa.FreeVar)
		if !ok {
			return false
		}
		switch cv := p.canonVar(fv).(type) {
		case *ssa.Parameter:
			return isStringType(cv.Type())
		case *ssa.Alloc:
			// a captured parameter lives in a cell that the constructor fills from it
			for _, ref := range *cv.Referrers() {
				if st, ok := ref.(*ssa.Store); ok && st.Addr == ssa.Value(cv) {
					if prm, ok := st.Val.(*ssa.Parameter); ok && isStringType(prm.Type()) {
						return true
					}
				}
			}
		}
		return false
	}
	everyPath := func(fn *ssa.Function, ev ssa.Instruction) bool {
		return reachFromEntry(fn, func(x ssa.Instruction) bool { _, ok := x.(*ssa.Return); return ok && x.Parent() == fn }, func(x ssa.Instruction) bool { return x == ev }) == nil
	}
	const why = "the alias can be left unrecorded (e.g. when no client handler for that namespace has been configured yet): with the alias option given before the handler option, reverse calls through the alias get 'method not found'"
	for _, fn := range p.Funcs {
		if pkgOf(fn) != p.Root.Pkg {
			continue
		}
		var upd *ssa.MapUpdate
		allInstrsRaw(fn, func(in ssa.Instruction) {
			mu, ok := in.(*ssa.MapUpdate)
			if !ok {
				return
			}
			mt, ok := mu.Map.Type().Underlying().(*types.Map)
			if !ok || !isStringType(mt.Key()) || !isStringType(mt.Elem()) {
				return
			}
			if fromParam(mu.Key) && fromParam(mu.Value) {
				upd = mu
			}
		})
		if upd == nil {
			continue
		}
		n++
		c.check(everyPath(fn, upd), rule, fmt.Sprintf("%s: alias recorded", fname(fn)), c.ipos(upd), "on every path", why)
		// an option (or exported method) that delegates to this setter: the call is made on every path
		for _, call := range p.syncCallers(fn) {
			g := call.Parent()
			if pkgOf(g) != p.Root.Pkg {
				continue
			}
			k := 0
			for _, a := range call.Common().Args {
				if fromParam(a) {
					k++
				}
			}
			if k < 2 {
				continue
			}
			n++
			c.check(everyPath(g, call), rule, fmt.Sprintf("%s: alias handed to %s", fname(g), fname(fn)), c.ipos(call), "on every path", why)
		}
	}
	if n == 0 {
		c.und(rule, "alias registration", "-", "no function recording (alias, original) into a string table found")
	}
}
