package main

import (
	"fmt"
	"go/token"
	"go/types"
	"strings"

	"golang.org/x/tools/go/ssa"
)

func init() {
	register(&propInfo{
		ID:          "C04",
		Explanation: "Path, origin and call-graph analysis of everything that can cause a handler execution: (R04.1) the client re-sends a request only on a path where the method's retry flag is known true, that flag is exactly `retry tag == \"true\"` (likewise notify), and the retry decision compares the wire error's code with the temporary-connection code; (R04.2) the request writer is only ever given the request just received from the request queue or a locally built id-less built-in notification; (R04.3) nothing reachable from the in-flight failer, the sink closer or the redial path writes a request (in-flight requests are failed, never re-queued); (R04.4) notifications: no id is minted on the notify branch, the accept arm never registers an id-less request, the server gives it a discarding writer and emits no success reply; (R04.5) each inbound frame is dispatched once, and each call is handed to the dispatcher exactly once, on its own goroutine; (R04.6) in the dispatcher the user call has a single site outside any loop and dominates the success reply; (R04.7) the HTTP transport uses a non-replayable request (POST, no idempotency-key header), so net/http never re-sends it by itself; (R04.8) frames are decoded into fresh memory (a recycled buffer would make one handler run with another call's params). (R04.9) every proxy field gets a call descriptor allocated for it. (R04.10) no rejection before the handler depends on the request's id; (R04.11) the HTTP exchange is performed inside the call. (R04.12) the transport function hands the call's request to the connection loop once. (R04.13) the HTTP transport performs one exchange per call. (R04.14) in the executor-side function that starts the dispatcher every path starts it, except where no handler is configured.",
		NotDecided:  "Executions counted under real faults and schedules; behaviour of intermediaries; net/http internals beyond its documented replay rule.",
		Assumptions: []string{"net/http replays a request on a dropped keep-alive connection only if it is idempotent (GET/HEAD/OPTIONS/TRACE) or carries an (X-)Idempotency-Key header"},
		Run:         runC04,
	})
}

// tagBoolField: the bool field of struct type T (in FN_call's receiver) stored from `Tag.Get(name) == "true"`.
type tagField struct {
	Field *types.Var
	Store *ssa.Store
	Exact bool
	Why   string
}

func (c *Ctx) tagBoolFields() map[string]tagField {
	out := map[string]tagField{}
	for _, fn := range c.P.Funcs {
		if pkgOf(fn) != c.P.Root.Pkg {
			continue
		}
		allInstrs(fn, func(in ssa.Instruction) {
			st, ok := in.(*ssa.Store)
			if !ok {
				return
			}
			fa, ok := st.Addr.(*ssa.FieldAddr)
			if !ok {
				return
			}
			f := fieldOfAddr(fa)
			if b, ok := f.Type().Underlying().(*types.Basic); !ok || b.Kind() != types.Bool {
				return
			}
			// find a StructTag.Get/Lookup call in the value's operands
			var tagCall *ssa.Call
			var walk func(v ssa.Value, d int)
			walk = func(v ssa.Value, d int) {
				if d > 4 || v == nil {
					return
				}
				switch x := v.(type) {
				case *ssa.Call:
					n := calleeName(x)
					if n == "(reflect.StructTag).Get" || n == "(reflect.StructTag).Lookup" {
						tagCall = x
					}
				case *ssa.BinOp:
					walk(x.X, d+1)
					walk(x.Y, d+1)
				case *ssa.Extract:
					walk(x.Tuple, d+1)
				case *ssa.UnOp:
					walk(x.X, d+1)
				}
			}
			walk(st.Val, 0)
			val := st.Val
			var site *ssa.Call // the flag is computed by a predicate helper: tagSet(f, "retry")
			if tagCall == nil {
				if call, ok := st.Val.(*ssa.Call); ok {
					if g := staticCallee(call); g != nil && c.P.allFns[g] && g.Signature.Results().Len() == 1 {
						allInstrs(g, func(x ssa.Instruction) {
							if rt, ok := x.(*ssa.Return); ok && len(rt.Results) == 1 && tagCall == nil {
								walk(rt.Results[0], 0)
								if tagCall != nil {
									val, site = rt.Results[0], call
								}
							}
						})
					}
				}
			}
			if tagCall == nil {
				return
			}
			name, _ := constString(tagCall.Common().Args[1])
			if prm, isPrm := tagCall.Common().Args[1].(*ssa.Parameter); isPrm && site != nil {
				for i, q := range prm.Parent().Params {
					if q == prm && i < len(site.Common().Args) {
						name, _ = constString(site.Common().Args[i])
					}
				}
			}
			tf := tagField{Field: f, Store: st}
			if bo, ok := val.(*ssa.BinOp); ok && bo.Op == token.EQL && calleeName(tagCall) == "(reflect.StructTag).Get" {
				other := bo.Y
				if bo.Y == ssa.Value(tagCall) {
					other = bo.X
				}
				if s, ok := constString(other); ok && s == "true" {
					tf.Exact = true
				}
			}
			if !tf.Exact {
				tf.Why = "the flag is not computed as `tag value == \"true\"` (e.g. mere presence of the tag): a field tagged \"false\" is treated as set"
			}
			out[name] = tf
		})
	}
	return out
}

func runC04(c *Ctx) {
	p, r := c.P, c.R
	w := c.ws()
	c.rule("R04.1", "re-send only under the retry flag; flags are exactly tag == \"true\"; the retry decision compares the wire error code with the temporary-connection code; a back-off sleep precedes the re-send")
	c.rule("R04.2", "the request writer only gets the request just received from the queue or an id-less built-in notification")
	c.rule("R04.3", "no request writer is reachable from the failer, the sink closer or the redial path")
	c.rule("R04.4", "notifications: no id, never registered, discarding writer on the server, no success reply")
	c.rule("R04.5", "each frame is dispatched once; each call is handed to the dispatcher exactly once, on its own goroutine")
	c.rule("R04.6", "single user-call site outside any loop, dominating the success reply")
	c.rule("R04.7", "HTTP transport request is not replayable by net/http")
	c.rule("R04.10", "a notification executes like a call: no rejection before the handler depends on the request's id")
	c.rejectionReasons("R04.10")
	c.rule("R04.11", "the HTTP transport performs the exchange inside the call (a notification has been delivered when the call returns; the request is bound to the caller's context, which may be cancelled right after)")
	{
		n := 0
		for _, fn := range p.Funcs {
			if pkgOf(fn) != p.Root.Pkg {
				continue
			}
			allInstrsRaw(fn, func(in ssa.Instruction) {
				ci, ok := in.(ssa.CallInstruction)
				if !ok || calleeName(ci) != "(*net/http.Client).Do" {
					return
				}
				n++
				construct := fmt.Sprintf("%s: HTTP exchange", fname(fn))
				_, isGo := in.(*ssa.Go)
				c.check(!isGo && !c.spawnedAsGoroutine(fn), "R04.11", construct, c.ipos(in), "performed synchronously by the caller's goroutine", "the HTTP request is sent from a background goroutine: the call (a notification) returns before it is sent, and since the request carries the caller's context, a caller that cancels right after the call returns (defer cancel()) makes the notification never execute")
			})
		}
		if n == 0 {
			c.ok("R04.11", "HTTP exchange", "-", "no (*http.Client).Do in the library package")
		}
	}
	c.ruleOpt("R04.13", "the HTTP transport performs one exchange per call: after (*http.Client).Do no second Do is reachable inside the transport function (re-sending is decided only by the tagged retry loop)")
	c.httpExchangeOnce("R04.13")
	c.rule("R04.14", "every call or notification frame taken by the frame executor reaches the dispatcher: in the function that starts the dispatcher, every path from entry to return starts it, except where no handler is configured (a frame answered 'busy' or dropped under load makes a notification run zero times on a healthy connection)")
	c.everyCallFrameDispatched("R04.14")
	c.rule("R04.12", "the transport function hands the call's request to the connection loop once (re-sending is decided only by the tagged retry loop)")
	c.enqueuedOnce("R04.12")
	c.rule("R04.9", "every proxy field gets a call descriptor of its own (its retry / notify flags are not shared with other fields)")
	c.descriptorPerField("R04.9")
	c.rule("R04.8", "inbound frames are decoded into fresh memory")
	if !c.need("R04.1", "FN_call", r.FnCall != nil) {
		return
	}
	call := r.FnCall
	_, _ = c.tempCode()
	tags := c.tagBoolFields()

	// ---- R04.1
	for _, name := range []string{"retry", "notify"} {
		tf, ok := tags[name]
		construct := fmt.Sprintf("client function: %s tag", name)
		if !ok {
			c.bad("R04.1", construct, "-", "the "+name+" tag is no longer read into a flag")
			continue
		}
		c.check(tf.Exact, "R04.1", construct, c.ipos(tf.Store), "flag = (tag == \"true\")", tf.Why)
	}
	c.retryGateRule("R04.1")

	// ---- R04.2
	{
		n := 0
		for _, fn := range p.Funcs {
			allInstrsRaw(fn, func(in ssa.Instruction) {
				payload, ok := c.requestWritePayload(in)
				if !ok {
					return
				}
				for _, sv := range c.liftValue(in, payload, 0) {
					n++
					s := sv.At
					arg := sv.Val
					construct := fmt.Sprintf("%s: request handed to the writer", fname(s.Parent()))
					switch {
					case c.fromQueue(arg, r.FCreqReq):
						// written once per accepted request: the write cannot reach itself without
						// going round the connection loop
						again := reachFromUp(s, func(x ssa.Instruction) bool { return x == s }, func(x ssa.Instruction) bool { return x == ssa.Instruction(w.LoopSelect) })
						c.check(again == nil, "R04.2", construct, c.ipos(s), "the request just received, written once", "the accepted request is written inside a loop: it can be sent more than once")
					case c.isBuiltinNotification(arg):
						c.ok("R04.2", construct, c.ipos(s), "locally built id-less built-in notification")
					default:
						c.bad("R04.2", construct, c.ipos(s), "the request writer is given something other than the request just accepted or an id-less built-in notification (a stored request would be re-sent)")
					}
				}
			})
		}
		if n == 0 {
			c.und("R04.2", "request writer call sites", "-", "none found")
		}
	}

	// ---- R04.3
	{
		roots := []*ssa.Function{w.Failer, w.SinkCloser, r.FnRedial}
		for _, root := range roots {
			if root == nil {
				continue
			}
			construct := fmt.Sprintf("%s: does not write requests", fname(root))
			seen := map[*ssa.Function]bool{}
			var hit ssa.Instruction
			var visit func(f *ssa.Function)
			visit = func(f *ssa.Function) {
				if seen[f] || hit != nil {
					return
				}
				seen[f] = true
				for _, g := range withAnon(f) {
					allInstrs(g, func(in ssa.Instruction) {
						if hit != nil {
							return
						}
						if c.isRequestWrite(in) {
							hit = in
							return
						}
						ci, ok := in.(ssa.CallInstruction)
						if !ok {
							return
						}
						cal := p.unbound(staticCallee(ci))
						if cal == nil {
							return
						}
						// sends on the request queue also re-queue
						if p.allFns[cal] && cal != w.Reader && cal != w.SetupPings {
							visit(cal)
						}
					})
					allInstrs(g, func(in ssa.Instruction) {
						if s, ok := in.(*ssa.Send); ok {
							if ch, ok := s.Chan.Type().Underlying().(*types.Chan); ok && ch.Elem() == types.Type(r.TCreq) {
								hit = in
							}
						}
					})
				}
			}
			visit(root)
			c.check(hit == nil, "R04.3", construct, p.pos(root.Pos()), "no request writer / queue send reachable", "a request can be (re)written from the connection-loss path: in-flight requests must be failed, not re-sent")
			if hit != nil {
				_ = hit
			}
		}
	}

	// ---- R04.4
	{
		// (i) the id is minted only when notify is false
		if tf, ok := tags["notify"]; ok {
			for _, u := range p.uses(r.FIdCtr) {
				if u.Fn != call {
					continue
				}
				construct := fmt.Sprintf("%s: id minted only for non-notifications", fname(call))
				good := false
				for _, cf := range expandConds(impliedConds(u.At.Block())) {
					if _, isN := loadsField(cf.Cond, tf.Field); isN && !cf.True {
						good = true
					}
				}
				c.check(good, "R04.4", construct, c.ipos(u.At), "under notify == false", "an id can be assigned to a notify-tagged call: the server would answer it")
			}
		}
		// (ii) accept arm never registers an id-less request
		if arm, ok := w.Arms["requests"]; ok && arm.Body != nil {
			construct := fmt.Sprintf("%s: notifications are not registered", fname(r.FnLoop))
			isRegister := func(in ssa.Instruction) bool {
				mu, ok := in.(*ssa.MapUpdate)
				return ok && isLoadOf(mu.Map, r.FInflight)
			}
			blocks := armBlocks(arm)
			wv := reachFromBlockF(arm.Body, func(in ssa.Instruction) bool { return isRegister(in) && inRegion(blocks, in) }, func(in ssa.Instruction) bool { return !inRegion(blocks, in) }, c.assumeID(true))
			c.check(wv == nil, "R04.4", construct, c.ipos(arm.Body.Instrs[0]), "registration unreachable when the id is nil", "an id-less request can be registered in the in-flight table (under the nil key): its completion is delivered twice or to another notification")
		}
		// (iii) server side
		c.wsWriterChoice("R04.4")
		if r.FnDisp != nil {
			construct := fmt.Sprintf("%s: notification produces no response", fname(r.FnDisp))
			bad := false
			allInstrs(r.FnDisp, func(in ssa.Instruction) {
				if !c.isUserCall(in) {
					return
				}
				if wv := reachFromF(in, c.isSuccessEmit, nil, c.assumeID(true)); wv != nil {
					bad = true
					c.bad("R04.4", construct, c.ipos(wv), "a success response is emitted for a request without id")
				}
			})
			if !bad {
				c.ok("R04.4", construct, p.pos(r.FnDisp.Pos()), "success emitter unreachable when the id is nil")
			}
		}
	}

	// ---- R04.5
	{
		invs := c.dispInvokes()
		construct := "hand-over of a call to the dispatcher"
		if len(invs) == 0 {
			c.und("R04.5", construct, "-", "no invocation of the dispatcher found")
		}
		for _, in := range invs {
			c.check(c.onOwnGoroutine(in), "R04.5", construct, c.ipos(in), "on its own goroutine", "a call is dispatched synchronously on the single frame-executor goroutine: a handler that waits for a later frame (reverse call, cancel) deadlocks the connection, and frames queue behind a slow handler")
			c.check(!inLoop(in.Block()), "R04.5", construct+" (not repeated)", c.ipos(in), "outside any loop", "the dispatcher is invoked in a loop: a call can execute more than once")
		}
		for _, in := range invs {
			isOther := func(x ssa.Instruction) bool {
				for _, o := range invs {
					if x == o {
						return true
					}
				}
				return false
			}
			if wv := reachFromUp(in, isOther, nil); wv != nil {
				c.bad("R04.5", construct+" (not repeated)", c.ipos(wv), "two dispatcher invocations lie on one path: the call executes twice")
			}
		}
	}
	if r.FnExec != nil {
		construct := fmt.Sprintf("%s: one dispatch per dequeued frame", fname(r.FnExec))
		// the frame switch = the tests of the frame's method, wherever they live (own function or inlined)
		var tests []ssa.Instruction
		mf := respFieldByTag(r.TFrame, "method")
		for _, fn := range p.Funcs {
			allInstrsRaw(fn, func(in ssa.Instruction) {
				iff, ok := in.(*ssa.If)
				if !ok {
					return
				}
				bo, ok := iff.Cond.(*ssa.BinOp)
				if !ok || bo.Op != token.EQL {
					return
				}
				var other ssa.Value
				if _, ok := constString(bo.Y); ok {
					other = bo.X
				} else if _, ok := constString(bo.X); ok {
					other = bo.Y
				}
				if other != nil && mf != nil && c.fieldVal(other, mf) {
					tests = append(tests, in)
				}
			})
		}
		if len(tests) == 0 {
			c.bad("R04.5", construct, p.pos(r.FnExec.Pos()), "the frame switch is not reached synchronously from the executor")
		} else {
			ok := true
			for _, t := range tests {
				t := t
				if !p.inCone(r.FnExec, t) {
					ok = false
					c.bad("R04.5", construct, c.ipos(t), "the frame switch is not reached synchronously from the executor")
					continue
				}
				// entering the same test twice without dequeuing in between = the frame is dispatched again
				if reachFromUp(t, func(x ssa.Instruction) bool { return x == t }, nil) != nil {
					ok = false
				}
			}
			c.check(ok, "R04.5", construct, c.ipos(tests[0]), "exactly one dispatch between two dequeues", "a dequeued frame can be dispatched more than once (or not exactly once per dequeue)")
		}
	}

	// ---- R04.6
	if r.FnDisp != nil {
		d := r.FnDisp
		var ucs []ssa.Instruction
		p.coneInstrs(d, func(in ssa.Instruction) {
			for _, u := range r.FnUser {
				if in.Parent() == u {
					return // the reflective call inside the protected user-call function: its call site counts
				}
			}
			if c.isUserCall(in) {
				ucs = append(ucs, in)
			}
		})
		construct := fmt.Sprintf("%s: the handler runs exactly once before a success reply", fname(d))
		switch {
		case len(ucs) != 1:
			c.bad("R04.6", construct, p.pos(d.Pos()), fmt.Sprintf("%d user-call sites in the dispatcher (expected one)", len(ucs)))
		case inLoop(ucs[0].Block()) || (ucs[0].Parent() != d && inLoopIP(ucs[0])):
			c.bad("R04.6", construct, c.ipos(ucs[0]), "the user call sits in a loop")
		default:
			okAll := true
			p.coneInstrs(d, func(in ssa.Instruction) {
				if c.isSuccessEmit(in) || c.isChanRegistrarCall(in) {
					prec := false
					if in.Parent() == d && ucs[0].Parent() == d {
						prec = mustPrecede(d, func(x ssa.Instruction) bool { return x == ucs[0] }, in)
					} else {
						prec = mustPrecedeIP(in, func(x ssa.Instruction) bool { return x == ucs[0] }, 0)
					}
					if !prec {
						okAll = false
						c.bad("R04.6", construct, c.ipos(in), "a success reply can be emitted on a path that did not run the handler")
					}
				}
			})
			if okAll {
				c.ok("R04.6", construct, c.ipos(ucs[0]), "single site, not in a loop, dominates every success reply")
			}
		}
	}

	// ---- R04.7
	{
		n := 0
		for _, fn := range p.Funcs {
			if pkgOf(fn) != p.Root.Pkg {
				continue
			}
			allInstrs(fn, func(in ssa.Instruction) {
				ci, ok := in.(*ssa.Call)
				if !ok {
					return
				}
				switch calleeName(ci) {
				case "net/http.NewRequest", "net/http.NewRequestWithContext":
					n++
					idx := 0
					if calleeName(ci) == "net/http.NewRequestWithContext" {
						idx = 1
					}
					m, ok := constString(ci.Common().Args[idx])
					construct := fmt.Sprintf("%s: HTTP method of the RPC request", fname(fn))
					idem := map[string]bool{"GET": true, "HEAD": true, "OPTIONS": true, "TRACE": true, "": true}
					c.check(ok && !idem[strings.ToUpper(m)], "R04.7", construct, c.ipos(ci), "non-idempotent method "+m, "the RPC request uses a method net/http treats as idempotent (or a non-constant one): the transport silently re-sends it after a dropped keep-alive connection and the handler runs twice")
				case "(net/http.Header).Set", "(net/http.Header).Add":
					if k, ok := constString(ci.Common().Args[1]); ok {
						lk := strings.ToLower(k)
						if lk == "idempotency-key" || lk == "x-idempotency-key" {
							n++
							c.bad("R04.7", fmt.Sprintf("%s: HTTP request headers", fname(fn)), c.ipos(ci), "an idempotency-key header marks the POST as replayable: net/http re-sends it by itself after a dropped connection, so the handler can run twice for one call")
						}
					}
				}
			})
		}
		if n == 0 {
			c.und("R04.7", "HTTP transport request", "-", "no http.NewRequest found in the client")
		}
	}

	// ---- R04.8
	c.freshDecodeTarget("R04.8")
}

// spawnedAsGoroutine: fn (a closure) is only ever started with `go`.
func (c *Ctx) spawnedAsGoroutine(fn *ssa.Function) bool {
	n := 0
	for _, mc := range c.P.closure[fn] {
		for _, ref := range *mc.Referrers() {
			if _, ok := ref.(*ssa.Go); ok {
				n++
			} else if _, ok := ref.(*ssa.DebugRef); !ok {
				return false
			}
		}
	}
	for _, s := range c.P.callers[fn] {
		if _, ok := s.(*ssa.Go); !ok {
			return false
		}
		n++
	}
	return n > 0
}

// isWireCodeVsTemp: bo compares the Code field of the reply's own error object with the temporary code.
func (c *Ctx) isWireCodeVsTemp(bo *ssa.BinOp, temp int64, have bool) bool {
	if !have {
		return false
	}
	var codeSide ssa.Value
	if k, ok := constInt(stripConvInt(bo.Y)); ok && k == temp {
		codeSide = bo.X
	} else if k, ok := constInt(stripConvInt(bo.X)); ok && k == temp {
		codeSide = bo.Y
	} else {
		return false
	}
	ld, ok := codeSide.(*ssa.UnOp)
	if !ok || ld.Op != token.MUL {
		return false
	}
	fa, ok := ld.X.(*ssa.FieldAddr)
	if !ok {
		return false
	}
	// the struct pointer must be loaded from the error field of a client response
	errF := respFieldByTag(c.R.TCresp, "error")
	_, isWire := loadsField(fa.X, errF)
	return isWire
}

// isBuiltinNotification: a request literal with no id and a constant xrpc.* method.
func (c *Ctx) isBuiltinNotification(v ssa.Value) bool {
	ids := c.originsOf(v, c.R.FReqID)
	ms := c.originsOf(v, c.R.FReqMethod)
	if len(ids) == 0 || len(ms) == 0 {
		return false
	}
	for _, o := range ids {
		if zeroFieldOrigin(o) {
			continue
		}
		if k, isK := o.Root.(*ssa.Const); isK && k.Value == nil && len(o.Fields) > 0 {
			continue
		}
		if len(o.Fields) != 0 || !isNilConst(o.Root) {
			return false
		}
	}
	for _, o := range ms {
		if k, isK := o.Root.(*ssa.Const); isK && k.Value == nil && len(o.Fields) > 0 {
			continue // the zero request a building helper returns next to its error
		}
		m, ok := constString(o.Root)
		if len(o.Fields) != 0 || !ok || !strings.HasPrefix(m, "xrpc.") {
			return false
		}
	}
	return true
}

// zeroFieldOrigin: the origin is a field of a local struct that is never written
// (and whose address never leaves the function): the zero value.
func zeroFieldOrigin(o apath) bool {
	al, ok := o.Root.(*ssa.Alloc)
	if !ok || len(o.Fields) != 1 {
		return false
	}
	for _, ref := range *al.Referrers() {
		switch x := ref.(type) {
		case *ssa.FieldAddr:
			for _, r2 := range *x.Referrers() {
				switch y := r2.(type) {
				case *ssa.Store:
					if y.Addr != ssa.Value(x) {
						return false
					}
				case *ssa.UnOp, *ssa.DebugRef:
				default:
					return false
				}
			}
		case *ssa.UnOp, *ssa.DebugRef:
		case *ssa.Store:
			if x.Addr != ssa.Value(al) {
				return false
			}
		default:
			return false
		}
	}
	return true
}

// retryGateRule: a request is re-sent only after a back-off sleep, on a path where the method's retry
// flag is known set and the reply's own error code equals the temporary-connection code. A retry taken on
// anything else (a converted error, a local send error) either re-executes handlers or — for the permanent
// "client closed" error — never ends.
func (c *Ctx) retryGateRule(rule string) {
	p, r := c.P, c.R
	if r.FnCall == nil {
		c.und(rule, "client call function", "-", "not resolved")
		return
	}
	call := r.FnCall
	temp, haveTemp := c.tempCode()
	tags := c.tagBoolFields()
	// transport call inside the retry loop
	sends := c.clientSends()
	if len(sends) == 0 {
		c.und(rule, fname(call)+": transport send", p.pos(call.Pos()), "the call sending the request was not found")
	}
	for _, s := range sends {
		construct := fmt.Sprintf("%s: re-send of a request", fname(call))
		if !inLoop(s.Block()) {
			c.ok(rule, construct, c.ipos(s), "the request is sent outside any loop: never re-sent")
			continue
		}
		// back edges into the loop header that dominates the send: find the latch path: any block from which the send is
		// reachable again. Conditions are taken at the sleep call (accepted idiom) or at the unique latch block.
		var sleeps []*ssa.Call
		allInstrs(call, func(in ssa.Instruction) {
			if ci, ok := in.(*ssa.Call); ok && calleeName(ci) == "time.Sleep" && inLoop(ci.Block()) {
				if reachFrom(ci, func(x ssa.Instruction) bool { return x == ssa.Instruction(s) }, nil) != nil {
					sleeps = append(sleeps, ci)
				}
			}
		})
		// every way back to the send must pass a sleep
		if back := reachFrom(s, func(x ssa.Instruction) bool { return x == ssa.Instruction(s) }, func(x ssa.Instruction) bool {
			for _, sl := range sleeps {
				if x == ssa.Instruction(sl) {
					return true
				}
			}
			return false
		}); back != nil {
			c.bad(rule, construct, c.ipos(s), "the request can be re-sent without a back-off sleep in between")
			continue
		}
		retryF, haveRetry := tags["retry"]
		okAll := len(sleeps) > 0
		for _, sl := range sleeps {
			conds := expandConds(impliedConds(sl.Block()))
			// (a) retry flag true
			flagOK := false
			for _, cf := range conds {
				if haveRetry && cf.True {
					if _, ok := loadsField(cf.Cond, retryF.Field); ok {
						flagOK = true
					}
				}
			}
			if !flagOK {
				okAll = false
				c.bad(rule, construct, c.ipos(sl), "a request can be re-sent although the method's retry flag is not known to be set: an untagged call may execute twice")
			}
			// (b) code == temporary (when the comparison is local)
			codeOK := false
			for _, cf := range conds {
				if bo, ok := cf.Cond.(*ssa.BinOp); ok && ((bo.Op == token.EQL && cf.True) || (bo.Op == token.NEQ && !cf.True)) {
					if c.isWireCodeVsTemp(bo, temp, haveTemp) {
						codeOK = true
					}
				}
			}
			if !codeOK {
				okAll = false
				c.bad(rule, construct, c.ipos(sl), "the re-send is not conditioned on the reply's own error code being the temporary-connection code (e.g. the decision is taken on a converted error value): handler errors could be retried, or connection errors not")
			}
		}
		if okAll {
			c.ok(rule, construct, c.ipos(s), "re-send only after a sleep, under retry flag && wire code == temporary")
		}
	}

}

// descriptorPerField: R04.9. The function installed for a proxy field is the call method bound to a
// descriptor allocated for that field in the same activation of the builder (whose retry / notify
// flags are then read from that field's own tags). A descriptor taken from a cache keyed by the wire
// name makes a later, untagged field of a merged client share the retry flag of an earlier tagged one:
// a plain call is then re-sent after a reconnect and runs twice.
func (c *Ctx) descriptorPerField(rule string) {
	p, r := c.P, c.R
	if r.FnCall == nil {
		c.und(rule, "client call function", "-", "not resolved")
		return
	}
	n := 0
	for _, fn := range p.Funcs {
		if pkgOf(fn) != p.Root.Pkg {
			continue
		}
		allInstrsRaw(fn, func(in ssa.Instruction) {
			ci, ok := in.(*ssa.Call)
			if !ok || calleeName(ci) != "reflect.MakeFunc" {
				return
			}
			mc, ok := stripConv(ci.Common().Args[1]).(*ssa.MakeClosure)
			if !ok || len(mc.Bindings) != 1 {
				return
			}
			g, _ := mc.Fn.(*ssa.Function)
			if g == nil || p.unbound(g) != r.FnCall {
				return
			}
			n++
			construct := fmt.Sprintf("%s: descriptor behind the installed proxy function", fname(fn))
			fresh := c.allOrigins(mc.Bindings[0], func(a apath) bool {
				if isNilConst(a.Root) && len(a.Fields) == 0 {
					return true // the nil returned next to an error by a constructor helper
				}
				al, ok := a.Root.(*ssa.Alloc)
				return ok && len(a.Fields) == 0 && al.Heap && (al.Parent() == fn || p.inCone(fn, al))
			})
			c.check(fresh, rule, construct, c.ipos(ci), "allocated for this field", "the proxy function is bound to a descriptor that was not allocated for this field (taken from a cache or table): fields that share it share its retry and notify flags, so an untagged call can be re-sent after a reconnect, or a notification be sent as a call")
		})
	}
	if n == 0 {
		c.und(rule, "proxy function installation", "-", "no reflect.MakeFunc bound to the client call function found")
	}
}

// clientSends: the calls in the client call function that hand the request to the transport.
func (c *Ctx) clientSends() []*ssa.Call {
	p, r := c.P, c.R
	call := r.FnCall
	var sends []*ssa.Call
	if call == nil {
		return nil
	}
	allInstrs(call, func(in ssa.Instruction) {
		ci, ok := in.(*ssa.Call)
		if !ok {
			return
		}
		f := staticCallee(ci)
		if f == nil || !p.allFns[f] {
			return
		}
		// the transport helper: builds a client request (stores to the mailbox field) or calls the doRequest field
		uses := false
		for _, u := range p.uses(r.FReady) {
			if u.Fn == f && u.Kind == "store" {
				uses = true
			}
		}
		for _, u := range p.uses(r.FDoReq) {
			if u.Fn == f && u.Kind == "call" {
				uses = true
			}
		}
		if uses {
			sends = append(sends, ci)
		}
	})
	for _, u := range p.uses(r.FDoReq) {
		if u.Fn == call && u.Kind == "call" {
			sends = append(sends, u.At.(*ssa.Call))
		}
	}
	return sends
}

// encodersRunOnce: R20.8 / R04.10. A registered parameter encoder may have side effects (the reader
// encoder starts an upload that drains the caller's reader and mints an id for it). It runs once per
// argument, before the request is first handed to the transport: from a transport send no encoder
// invocation is reachable any more (a retry re-sends the request it built, it does not encode again —
// a second upload would find the reader already drained, and the handler would see no bytes).
func (c *Ctx) encodersRunOnce(rule string) {
	p, r := c.P, c.R
	if r.FnCall == nil {
		c.und(rule, "client call function", "-", "not resolved")
		return
	}
	sends := c.clientSends()
	var encs []ssa.Instruction
	for _, g := range c.region(r.FnCall) {
		allInstrsRaw(g, func(in ssa.Instruction) {
			ci, ok := in.(*ssa.Call)
			if !ok || ci.Common().IsInvoke() || staticCallee(ci) != nil {
				return
			}
			if nt, ok := ci.Common().Value.Type().(*types.Named); ok && nt.Obj().Pkg() == p.Root.Pkg && strings.Contains(nt.Obj().Name(), "ParamEncoder") {
				encs = append(encs, in)
			}
		})
	}
	if len(sends) == 0 || len(encs) == 0 {
		c.und(rule, fname(r.FnCall)+": parameter encoding", p.pos(r.FnCall.Pos()), "the transport send or the encoder invocation was not found")
		return
	}
	for _, e := range encs {
		construct := fmt.Sprintf("%s: invocation of a registered parameter encoder", fname(e.Parent()))
		var after *ssa.Call
		for _, s := range sends {
			e := e
			if reachFromUp(s, func(x ssa.Instruction) bool { return x == e }, nil) != nil {
				after = s
			}
		}
		if after != nil {
			c.bad(rule, construct, c.ipos(e), "the encoder can run again after the request was handed to the transport at "+c.ipos(after)+" (re-encoding on a retry): an encoder with side effects — the reader encoder starts an upload that drains the caller's reader — then runs twice for one argument, and the retried request refers to an upload of an already drained reader, so the handler sees none of the caller's bytes")
		} else {
			c.ok(rule, construct, c.ipos(e), "only before the first transport send")
		}
	}
}

// enqueuedOnce: R04.12. The transport function (doRequest) hands the call's request to the connection
// loop once; whether a failed call is sent again is decided one level up, in the call function's retry
// loop, under the retry tag and the temporary-connection code (R04.1). A second hand-over of the same
// request inside the transport function ("it never left the process, hand it in again") is a re-send
// no tag controls — and when the bookkeeping that says "never left" is wrong, the handler runs twice.
func (c *Ctx) enqueuedOnce(rule string) {
	p, r := c.P, c.R
	if r.FRequests == nil && r.TCreq == nil {
		c.und(rule, "request queue", "-", "not resolved")
		return
	}
	n := 0
	for _, fn := range p.Funcs {
		if pkgOf(fn) != p.Root.Pkg {
			continue
		}
		// request-typed parameters of this function (the call's own request)
		var reqParams []*ssa.Parameter
		for _, prm := range fn.Params {
			if r.TCreq != nil && prm.Type() == types.Type(r.TCreq) {
				reqParams = append(reqParams, prm)
			}
		}
		if len(reqParams) == 0 {
			continue
		}
		sites := map[*ssa.Parameter][]ssa.Instruction{}
		allInstrsRaw(fn, func(in ssa.Instruction) {
			var sent []ssa.Value
			switch x := in.(type) {
			case *ssa.Send:
				sent = append(sent, x.X)
			case *ssa.Select:
				for _, st := range x.States {
					if st.Dir == types.SendOnly {
						sent = append(sent, st.Send)
					}
				}
			}
			for _, v := range sent {
				if r.TCreq == nil || v.Type() != types.Type(r.TCreq) {
					continue
				}
				for _, prm := range reqParams {
					if c.isParamOrForwarded(v, prm) {
						sites[prm] = append(sites[prm], in)
					}
				}
			}
		})
		for prm, ss := range sites {
			n++
			construct := fmt.Sprintf("%s: hand-over of the call's request to the connection loop", fname(fn))
			again := false
			for _, s := range ss {
				s := s
				if reachFrom(s, func(x ssa.Instruction) bool {
					for _, t := range ss {
						if t == x {
							return true
						}
					}
					return false
				}, nil) != nil {
					again = true
				}
			}
			_ = prm
			c.check(len(ss) == 1 && !again, rule, construct, c.ipos(ss[0]), "one site, not repeated", "the transport function can hand the same request to the connection loop more than once (re-submitting it after a locally generated failure): a re-send outside the retry-tag gate — when the request had in fact been written, the handler runs twice for an untagged call")
		}
	}
	if n == 0 {
		c.und(rule, "hand-over of requests", "-", "no function enqueueing its request parameter found")
	}
}

// httpExchangeOnce: R04.13. Inside one invocation of the HTTP transport function (the function that
// takes the client's request record and has (*http.Client).Do in its cone) the exchange is performed
// at most once: net/http reports io.EOF / ECONNRESET also when the server had already executed the
// request, so a second POST "on a stale connection" runs an untagged call twice.
func (c *Ctx) httpExchangeOnce(rule string) {
	p, r := c.P, c.R
	if r.TCreq == nil {
		return
	}
	isDo := func(x ssa.Instruction) bool {
		ci, ok := x.(ssa.CallInstruction)
		return ok && calleeName(ci) == "(*net/http.Client).Do"
	}
	for _, fn := range p.Funcs {
		if pkgOf(fn) != p.Root.Pkg {
			continue
		}
		takesReq := false
		for _, prm := range fn.Params {
			if prm.Type() == types.Type(r.TCreq) {
				takesReq = true
			}
		}
		if !takesReq {
			continue
		}
		var dos []ssa.Instruction
		p.coneInstrs(fn, func(in ssa.Instruction) {
			if isDo(in) {
				dos = append(dos, in)
			}
		})
		if len(dos) == 0 {
			continue
		}
		isExit := func(x ssa.Instruction) bool {
			_, ok := x.(*ssa.Return)
			return ok && x.Parent() == fn
		}
		construct := fmt.Sprintf("%s: one HTTP exchange per call", fname(fn))
		var again ssa.Instruction
		for _, d := range dos {
			if x := reachFromUp(d, isDo, isExit); x != nil {
				again = x
			}
		}
		if again != nil {
			c.bad(rule, construct, c.ipos(again), "a second (*http.Client).Do is reachable after the first inside the transport function: the request is posted again on the client's own initiative (e.g. after an EOF on a kept-alive connection) — the server may already have executed it, so an untagged call runs twice")
		} else {
			c.ok(rule, construct, c.ipos(dos[0]), "no second Do reachable before the transport function returns")
		}
	}
}

// everyCallFrameDispatched: R04.14. A notification carries no id: if the frame is not handed to the
// dispatcher nobody will ever know. In the executor-side function that starts the dispatcher (a go
// statement or call whose cone contains the dispatcher invocation) every path from the entry to a return
// therefore passes that start; the one excused path is the test "no handler configured" (the handler field
// is nil), which answers method-not-found. A load-shedding branch (non-blocking slot acquisition, queue
// full) that replies — into the discarding writer of a notification — and returns is reported.
func (c *Ctx) everyCallFrameDispatched(rule string) {
	p, r := c.P, c.R
	if r.FnExec == nil {
		c.und(rule, "role:FN_exec", "-", "frame executor not resolved")
		return
	}
	invs := c.dispInvokes()
	n := 0
	seen := map[*ssa.Function]bool{}
	for _, inv := range invs {
		starter := outermost(inv.Parent())
		if seen[starter] || !p.syncReachable(r.FnExec, starter) || starter == r.FnExec {
			continue
		}
		seen[starter] = true
		n++
		starts := func(in ssa.Instruction) bool {
			if in == inv {
				return true
			}
			switch x := in.(type) {
			case *ssa.Go:
				for _, g := range c.funcsOf(x.Common().Value) {
					if p.inCone(g, inv) {
						return true
					}
				}
				if g := staticCallee(x); g != nil && p.allFns[g] && p.inCone(g, inv) {
					return true
				}
				if x.Common().IsInvoke() && x.Common().Value.Type() == types.Type(r.IDisp) {
					return true
				}
			case *ssa.Call:
				if g := p.syncCallee(x); g != nil && p.allFns[g] && g != starter && p.inCone(g, inv) {
					return true
				}
			}
			return false
		}
		noHandler := func(b *ssa.BasicBlock, k int) bool {
			iff, ok := b.Instrs[len(b.Instrs)-1].(*ssa.If)
			if !ok || r.FHandler == nil {
				return true
			}
			bo, ok := curFacts.aliasOf(iff.Cond).(*ssa.BinOp)
			if !ok || (bo.Op != token.EQL && bo.Op != token.NEQ) {
				return true
			}
			var other ssa.Value
			if isNilConst(bo.Y) {
				other = bo.X
			} else if isNilConst(bo.X) {
				other = bo.Y
			} else {
				return true
			}
			if !isLoadOf(other, r.FHandler) {
				return true
			}
			isNil := (bo.Op == token.EQL) == (k == 0)
			return !isNil // the "handler == nil" side is excused
		}
		construct := fmt.Sprintf("%s: every frame starts the dispatcher", fname(starter))
		s := newIPSearch(isReturn, starts)
		s.edgeOK = noHandler
		s.seen[fmt.Sprintf("%p|", starter.Blocks[0])] = true
		if s.scan(starter.Blocks[0], 0, nil) {
			c.bad(rule, construct, c.ipos(s.found), "a path returns without handing the frame to the dispatcher although a handler is configured (load shedding, a full slot table): a notification on a healthy connection then runs zero times, and its error reply goes to the discarding writer")
		} else {
			c.ok(rule, construct, p.pos(starter.Pos()), "every path starts the dispatcher, except 'no handler configured'")
		}
	}
	if n == 0 {
		c.und(rule, "dispatcher start on the executor side", "-", "no function reachable from the frame executor starts the dispatcher")
	}
}
