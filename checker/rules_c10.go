package main

import (
	"fmt"
	"go/token"
	"go/types"
	"os"

	"golang.org/x/tools/go/ssa"
)

func init() {
	register(&propInfo{
		ID:          "C10",
		Explanation: "Static index-safety and key-hygiene analysis of every place where bytes decoded from a peer steer an operation that can panic: (R10.1) every index into a slice filled by a JSON decode is dominated by a length test that makes it in-range; (R10.2) every interface-typed key used on the per-connection tables originates from the id normaliser (or from locally generated requests); (R10.3) the frame executor dispatches only on the nil branches of both the frame-decode error and the id-normalisation error; (R10.4) results of comma-ok table lookups are used only on the found branch; (R10.5) the HTTP body is read through a limit strictly above the configured maximum, rejected exactly when it exceeds that maximum, and the rejection reaches neither a decoder nor the dispatcher; (R10.6) type assertions on decoded interface values use the comma-ok form. R10.1 also tracks tails s[k:] of decoded slices (in place or returned by a helper) with the known length minus k. (R10.9) a completion is delivered at most once per in-flight entry. (R10.10) no possibly-nil handler pointer is wrapped into the dispatcher interface. (R10.11) a pooled request buffer is Reset on every way from Get to Put. (R10.12) the frame executor never blocks on something only a finishing handler releases. (R10.13) every call frame reaches the dispatcher. (R10.14) no table of the connection object that is written to is ever set to nil.",
		NotDecided:  "Memory exhaustion by huge WebSocket frames (no read limit is configured by the library), panics inside user-supplied codecs, indexes into slices whose length is tied to the index by library invariants rather than by a local test (e.g. bytes.Buffer length), and whether a server keeps answering (liveness).",
		Assumptions: []string{
			"a slice is peer-sized when it is a local filled by encoding/json.Unmarshal or (*json.Decoder).Decode",
			"loads of the same local variable between a dominating test and the guarded use denote the same value (the variable is not reassigned in between)",
			"requests received from the client's own request queue carry ids minted by the library (checked under C02), not peer input",
		},
		Run: runC10,
	})
}

func runC10(c *Ctx) {
	c.rule("R10.12", "no sequence of frames wedges a connection: the frame executor never blocks on something only a finishing handler releases (a peer that parks enough calls would otherwise stop its cancels, responses and further calls from ever being executed)")
	c.executorNeverWaitsForHandlers("R10.12")
	c.rule("R10.13", "a peer's frames keep being served: every call frame reaches the dispatcher, except where no handler is configured (no frame is refused because of what earlier frames left behind)")
	c.everyCallFrameDispatched("R10.13")
	c.rule("R10.14", "a table of the connection object that is written to is never left nil: every store into such a map field stores a made map (an entry written after a reset to nil — by the handler of a peer's frame — panics with 'assignment to entry in nil map')")
	c.tablesNeverNil("R10.14")
	c.rule("R10.1", "every index into a slice decoded from peer bytes is dominated by a length test that makes it in range")
	c.rule("R10.2", "every interface-typed key used to index a per-connection table comes from the id normaliser, a constant, or a locally minted request")
	c.rule("R10.3", "the frame executor reaches the dispatcher only on the nil branches of the frame-decode error and of the id-normalisation error")
	c.rule("R10.4", "the result of a comma-ok lookup in a per-connection table is used only where the lookup is known to have succeeded")
	c.rule("R10.5", "HTTP body size: read limit > configured maximum, rejected iff size > maximum, rejection reaches no decoder and no handler")
	c.idxRule("R10.1")
	c.keyRule("R10.2")
	c.execGateRule("R10.3")
	c.commaOkRule("R10.4")
	c.sizeRule("R10.5")
	c.rule("R10.6", "no library mutex stays locked on any return path (a leaked lock wedges the connection for all later frames)")
	c.lockLeakRule("R10.6")
	c.rule("R10.10", "the reverse-call handler stored in the connection is a non-nil handler or the nil interface — never a nil pointer wrapped in the interface, which would pass the 'no handler' test and crash on the first inbound call")
	c.noTypedNilHandler("R10.10")
	c.ruleOpt("R10.11", "a pooled buffer is emptied on every way from the pool back to the pool (no path puts it back with what an earlier, possibly rejected, request left in it)")
	c.pooledBufferReset("R10.11")
	c.rule("R10.9", "a completion is delivered at most once per in-flight entry (the entry is removed on every path after delivering): a peer repeating a response cannot fill the one-slot mailbox and block the frame executor")
	c.inflightRemovalRule("R10.9")
	c.deliveryRules("R10.9", "R10.9")
	c.rule("R10.8", "every index into the bytes of the request body is guarded by a non-empty test of that same buffer")
	c.bodyBytesIndexRule("R10.8")
	c.rule("R10.7", "the read cycle never stalls: once the loop has taken a message from the socket reader, every path back to its select restarts the reader, signals loss or redials")
	c.readCycleRule("R10.7")
}

// ---- R10.1
// decodedSliceOrigin classifies the slice operand of an index expression.
// ok=false: not peer-sized (not checked). baseMin: length guaranteed by the
// producer (a helper's return paths), name: for reports.
func (c *Ctx) decodedSliceOrigin(fn *ssa.Function, slice ssa.Value, at ssa.Instruction, dec map[*ssa.Alloc]ssa.CallInstruction) (name string, baseMin int64, ok bool) {
	switch x := slice.(type) {
	case *ssa.Slice:
		// s[lo:] / s[lo:hi] of a decoded slice is as peer-sized as s; what is known about len(s) where the
		// slice expression stands, minus lo, is known about the result (nothing when hi is given)
		if _, isSl := x.X.Type().Underlying().(*types.Slice); !isSl {
			return "", 0, false
		}
		name, base, ok := c.decodedSliceOrigin(fn, x.X, x, dec)
		if !ok {
			return "", 0, false
		}
		lo := int64(0)
		if x.Low != nil {
			k, isK := constInt(x.Low)
			if !isK || k < 0 {
				return name + "[lo:]", 0, true
			}
			lo = k
		}
		if x.High != nil {
			return name + "[:hi]", 0, true
		}
		if m, _ := lenFactsBound(cmpFactsAt(x.Block()), x.X); m > base {
			base = m
		}
		if base -= lo; base < 0 {
			base = 0
		}
		return name + "[" + itoa(lo) + ":]", base, true
	case *ssa.UnOp:
		if x.Op != token.MUL {
			return "", 0, false
		}
		if al, isAl := x.X.(*ssa.Alloc); isAl {
			if _, isDec := dec[al]; isDec {
				return al.Comment, 0, true
			}
			// single-assignment local holding a helper's result
			var st *ssa.Store
			n := 0
			for _, ref := range *al.Referrers() {
				if s, isSt := ref.(*ssa.Store); isSt && s.Addr == al {
					st, n = s, n+1
				}
			}
			if n == 1 {
				return c.decodedSliceOrigin(fn, st.Val, at, dec)
			}
		}
	case *ssa.Extract:
		call, isCall := x.Tuple.(*ssa.Call)
		if !isCall {
			return "", 0, false
		}
		g := staticCallee(call)
		if g == nil || !c.P.allFns[g] {
			return "", 0, false
		}
		gdec := decodedAllocs(g)
		if len(gdec) == 0 {
			return "", 0, false
		}
		tainted := false
		hasNil := false
		min := int64(1 << 40)
		allInstrs(g, func(in ssa.Instruction) {
			rt, isRt := in.(*ssa.Return)
			if !isRt || x.Index >= len(rt.Results) {
				return
			}
			rv := blockLocalValue(rt.Results[x.Index])
			if isNilConst(rv) {
				hasNil = true
				return
			}
			if ld, isLd := rv.(*ssa.UnOp); isLd && ld.Op == token.MUL {
				if al, isAl := ld.X.(*ssa.Alloc); isAl {
					if _, isDec := gdec[al]; isDec {
						tainted = true
						m, _ := lenFactsBoundIn(cmpFactsAt(rt.Block()), rv, call)
						if m < min {
							min = m
						}
						return
					}
				}
			}
			if sl, isSl := rv.(*ssa.Slice); isSl {
				// the tail of a decoded slice: whatever the helper established about the whole, minus the offset
				if _, m, isT := c.decodedSliceOrigin(g, sl, rt, gdec); isT {
					tainted = true
					if ld, isLd := sl.X.(*ssa.UnOp); isLd && sl.High == nil {
						lo := int64(0)
						if sl.Low != nil {
							lo, _ = constInt(sl.Low)
						}
						if mm, _ := lenFactsBoundIn(cmpFactsAt(rt.Block()), ld, call); mm-lo > m {
							m = mm - lo
						}
					}
					if m < min {
						min = m
					}
					return
				}
			}
			min = 0
		})
		if !tainted {
			return "", 0, false
		}
		if hasNil {
			// the nil returns only stay out of reach when the caller tests a companion result of the same call
			guarded := false
			for _, cf := range expandConds(impliedConds(at.Block())) {
				if dependsOnCall(cf.Cond, call, 4) {
					guarded = true
				}
			}
			if !guarded {
				min = 0
			}
		}
		return "returned by " + fname(g), min, true
	case *ssa.Parameter:
		// tainted when some static caller passes a decoded slice; producer-side facts are the callers'
		idx := -1
		for i, q := range fn.Params {
			if q == x {
				idx = i
			}
		}
		min := int64(1 << 40)
		tainted := false
		for _, s := range c.P.callers[fn] {
			if idx < 0 || idx >= len(s.Common().Args) {
				continue
			}
			cfn := s.Parent()
			arg := s.Common().Args[idx]
			if _, _, isT := c.decodedSliceOrigin(cfn, arg, s, decodedAllocs(cfn)); isT {
				tainted = true
				m, _ := lenFactsBound(cmpFactsAt(s.Block()), arg)
				if m < min {
					min = m
				}
			}
		}
		if tainted {
			return "parameter " + x.Name(), min, true
		}
	}
	return "", 0, false
}

// dependsOnCall: is v computed (shallowly) from a result of call?
func dependsOnCall(v ssa.Value, call *ssa.Call, depth int) bool {
	if depth < 0 || v == nil {
		return false
	}
	switch x := v.(type) {
	case *ssa.Extract:
		return x.Tuple == ssa.Value(call)
	case *ssa.BinOp:
		return dependsOnCall(x.X, call, depth-1) || dependsOnCall(x.Y, call, depth-1)
	case *ssa.UnOp:
		if x.Op == token.MUL {
			if al, ok := x.X.(*ssa.Alloc); ok {
				for _, ref := range *al.Referrers() {
					if st, ok := ref.(*ssa.Store); ok && st.Addr == al && dependsOnCall(st.Val, call, depth-1) {
						return true
					}
				}
			}
			return false
		}
		return dependsOnCall(x.X, call, depth-1)
	}
	return false
}

func (c *Ctx) idxRule(rule string) {
	p := c.P
	for _, fn := range p.Funcs {
		dec := decodedAllocs(fn)
		allInstrs(fn, func(in ssa.Instruction) {
			var slice, idx ssa.Value
			switch x := in.(type) {
			case *ssa.IndexAddr:
				slice, idx = x.X, x.Index
			case *ssa.Index:
				slice, idx = x.X, x.Index
			default:
				return
			}
			if _, ok := slice.Type().Underlying().(*types.Slice); !ok {
				return
			}
			name, baseMin, ok := c.decodedSliceOrigin(fn, slice, in, dec)
			if !ok {
				return
			}
			construct := fmt.Sprintf("%s: index %s of decoded slice %s", fname(fn), idxString(idx), name)
			safe, why := indexSafe(in, slice, idx, baseMin)
			if !safe {
				// the dominating-test argument failed; try the path argument: every path from the
				// function's entry to this index takes an edge that establishes a sufficient length
				// (branches steered by one mode flag are followed consistently)
				if k, isK := constInt(idx); isK && k >= 0 && pathIndexSafe(fn, in, slice, k) {
					safe, why = true, "every path to the index passes a length test establishing len > "+itoa(k)
				}
			}
			c.check(safe, rule, construct, c.ipos(in), why, why+" (a peer-chosen params array can make this index out of range and crash the process)")
		})
	}
}

func idxString(v ssa.Value) string {
	if k, ok := constInt(v); ok {
		return "[" + itoa(k) + "]"
	}
	return "[var]"
}

// ---- R10.2
// normalisedKey decides whether the interface value `v`, used as a table key at
// instruction `at`, is certainly the output of the id normaliser (or nil / local).
func (c *Ctx) normalisedKey(v ssa.Value, depth int) (bool, string) {
	r := c.R
	if depth > 6 {
		return false, "origin chain too deep"
	}
	v = stripConvKeepIface(v)
	switch x := v.(type) {
	case *ssa.Const:
		return true, "constant"
	case *ssa.Extract:
		if call, ok := x.Tuple.(*ssa.Call); ok {
			if x.Index == 0 && staticCallee(call) == r.FnNorm {
				return true, "result of the id normaliser"
			}
			if ok, why, decided := c.resultNormalised(call, x.Index, depth); decided {
				return ok, why
			}
		}
		return false, "tuple result of something other than the id normaliser"
	case *ssa.Call:
		if ok, why, decided := c.resultNormalised(x, 0, depth); decided {
			return ok, why
		}
	case *ssa.Phi:
		for _, e := range x.Edges {
			if ok, why := c.normalisedKey(e, depth+1); !ok {
				return false, why
			}
		}
		return true, "all phi inputs normalised"
	case *ssa.Field:
		return c.normalisedIDField(x.X, fieldOfField(x), depth)
	case *ssa.UnOp:
		if x.Op == token.MUL {
			switch a := x.X.(type) {
			case *ssa.FieldAddr:
				return c.normalisedIDFieldAddr(a, x, depth)
			case *ssa.Alloc:
				// local interface variable: flow-sensitive (it may first be filled by a decoder and then normalised)
				return c.allocFieldNormalisedAt(a, nil, x, depth)
			case *ssa.FreeVar:
				cv := c.P.canonVar(a)
				if cv != ssa.Value(a) {
					return c.normalisedKey(&ssa.UnOp{Op: token.MUL, X: cv}, depth+1)
				}
			}
		}
	case *ssa.Parameter:
		// interface-typed parameter: all static callers must pass normalised values
		return c.paramNormalised(x, depth, func(arg ssa.Value) (bool, string) { return c.normalisedKey(arg, depth+1) })
	}
	return false, fmt.Sprintf("key originates from %T, not from the id normaliser", v)
}

// resultNormalised: result idx of a call of a tree helper is normalised on every return of the helper.
func (c *Ctx) resultNormalised(call *ssa.Call, idx int, depth int) (bool, string, bool) {
	g := c.P.unbound(staticCallee(call))
	if g == nil || !c.P.allFns[g] || len(g.Blocks) == 0 || g == c.R.FnNorm {
		return false, "", false
	}
	n := 0
	bad := ""
	allInstrsRaw(g, func(in ssa.Instruction) {
		rt, ok := in.(*ssa.Return)
		if !ok || idx >= len(rt.Results) {
			return
		}
		n++
		if ok, why := c.normalisedKey(rt.Results[idx], depth+1); !ok && bad == "" {
			bad = fmt.Sprintf("helper %s returns an un-normalised value (%s)", fname(g), why)
		}
	})
	if n == 0 {
		return false, "", false
	}
	if bad != "" {
		return false, bad, true
	}
	return true, "every return of helper " + fname(g) + " yields a normalised value", true
}

// resultStructNormalised: field f of the struct returned (as result idx) by a tree helper is normalised at every return.
func (c *Ctx) resultStructNormalised(call *ssa.Call, idx int, f *types.Var, depth int) (bool, string, bool) {
	g := c.P.unbound(staticCallee(call))
	if g == nil || !c.P.allFns[g] || len(g.Blocks) == 0 {
		return false, "", false
	}
	n := 0
	bad := ""
	allInstrsRaw(g, func(in ssa.Instruction) {
		rt, ok := in.(*ssa.Return)
		if !ok || idx >= len(rt.Results) {
			return
		}
		n++
		if ok, why := c.normalisedIDField(rt.Results[idx], f, depth+1); !ok && bad == "" {
			bad = fmt.Sprintf("helper %s returns a struct whose id is not normalised (%s)", fname(g), why)
		}
	})
	if n == 0 {
		return false, "", false
	}
	if bad != "" {
		return false, bad, true
	}
	return true, "every return of helper " + fname(g) + " yields a struct with a normalised id", true
}

func stripConvKeepIface(v ssa.Value) ssa.Value {
	for {
		switch x := v.(type) {
		case *ssa.ChangeType:
			v = x.X
		case *ssa.ChangeInterface:
			v = x.X
		default:
			return v
		}
	}
}

func (c *Ctx) paramNormalised(prm *ssa.Parameter, depth int, argOK func(ssa.Value) (bool, string)) (bool, string) {
	fn := prm.Parent()
	idx := -1
	for i, q := range fn.Params {
		if q == prm {
			idx = i
		}
	}
	sites := c.P.callers[fn]
	if idx < 0 || len(sites) == 0 {
		return false, "parameter of a function without static call sites"
	}
	for _, s := range sites {
		args := s.Common().Args
		if idx >= len(args) {
			return false, "call site arity mismatch"
		}
		if ok, why := argOK(args[idx]); !ok {
			return false, fmt.Sprintf("call site in %s passes an un-normalised value (%s)", fname(s.Parent()), why)
		}
	}
	return true, fmt.Sprintf("all %d call sites pass normalised values", len(sites))
}

// normalisedIDField: is field f of struct value sv a normalised id?
func (c *Ctx) normalisedIDField(sv ssa.Value, f *types.Var, depth int) (bool, string) {
	if depth > 6 {
		return false, "origin chain too deep"
	}
	switch s := sv.(type) {
	case *ssa.Parameter:
		return c.paramNormalised(s, depth, func(arg ssa.Value) (bool, string) { return c.normalisedIDField(arg, f, depth+1) })
	case *ssa.UnOp:
		if s.Op == token.MUL {
			switch a := s.X.(type) {
			case *ssa.Alloc:
				return c.allocFieldNormalisedAt(a, f, s, depth)
			case *ssa.FreeVar:
				cv := c.P.canonVar(a)
				if al, ok := cv.(*ssa.Alloc); ok {
					// captured local struct: the closure is created after the parent initialised it
					return c.allocFieldNormalisedAt(al, f, nil, depth)
				}
			case *ssa.FieldAddr:
				// nested struct (clientRequest.req): received from the local request queue?
				if c.fromRequestQueue(a.X) {
					return true, "locally minted request received from the request queue"
				}
			}
		}
		if s.Op == token.ARROW {
			return false, "struct received from a channel"
		}
	case *ssa.Field:
		if c.fromRequestQueue(s.X) {
			return true, "locally minted request received from the request queue"
		}
		return c.normalisedIDField(s.X, f, depth+1)
	case *ssa.Extract:
		if c.fromRequestQueue(s) {
			return true, "locally minted request received from the request queue"
		}
		if call, ok := s.Tuple.(*ssa.Call); ok {
			if ok, why, decided := c.resultStructNormalised(call, s.Index, f, depth); decided {
				return ok, why
			}
		}
	case *ssa.Call:
		if ok, why, decided := c.resultStructNormalised(s, 0, f, depth); decided {
			return ok, why
		}
	case *ssa.Const:
		return true, "zero value"
	}
	return false, fmt.Sprintf("id field of a struct originating from %T", sv)
}

// fromRequestQueue: v (a value, or the address of a variable) is, on every origin, (part of)
// an element received from the request queue by the connection loop.
func (c *Ctx) fromRequestQueue(v ssa.Value) bool {
	switch v.(type) {
	case *ssa.Alloc, *ssa.FieldAddr:
		v = &ssa.UnOp{Op: token.MUL, X: v}
	}
	return c.allOrigins(v, func(a apath) bool { return c.isQueueRecv(a.Root) })
}

func (c *Ctx) normalisedIDFieldAddr(fa *ssa.FieldAddr, load *ssa.UnOp, depth int) (bool, string) {
	f := fieldOfAddr(fa)
	switch b := fa.X.(type) {
	case *ssa.Alloc:
		return c.allocFieldNormalisedAt(b, f, load, depth)
	case *ssa.FreeVar:
		cv := c.P.canonVar(b)
		if al, ok := cv.(*ssa.Alloc); ok {
			return c.allocFieldNormalisedAt(al, f, nil, depth)
		}
	case *ssa.FieldAddr:
		if c.fromRequestQueue(b) {
			return true, "locally minted request received from the request queue"
		}
	}
	if c.fromRequestQueue(fa.X) {
		return true, "locally minted request received from the request queue"
	}
	// field of an object reached through a pointer (e.g. a method receiver): if every write to
	// the field is a visible store, all of them must store normalised ids
	if c.closedField(f) && depth < 5 {
		stores := usesOfKind(c.P.uses(f), "store")
		if len(stores) > 0 {
			for _, u := range stores {
				if ok, why := c.normalisedKey(u.Val, depth+1); !ok {
					return false, fmt.Sprintf("field %s is assigned an un-normalised value in %s (%s)", f.Name(), fname(u.Fn), why)
				}
			}
			return true, "every assignment to field " + f.Name() + " stores a normalised id"
		}
	}
	return false, fmt.Sprintf("id field addressed through %T", fa.X)
}

// allocFieldNormalisedAt: local struct variable `al`; is its field f normalised
// when read at `at` (nil: at closure creation / any later point)? Accepted shapes:
//
//	(a) the whole struct is a copy of a normalised parameter (single store of a Parameter);
//	(b) a store of the normaliser's result into al.f must-precedes `at`, and no
//	    decode into al or other store to al.f lies between that store and `at`.
func (c *Ctx) allocFieldNormalisedAt(al *ssa.Alloc, f *types.Var, at ssa.Instruction, depth int) (bool, string) {
	fn := al.Parent()
	var wholeStores []*ssa.Store
	var fieldStores []*ssa.Store
	var decodes []ssa.Instruction
	for _, ref := range *al.Referrers() {
		switch x := ref.(type) {
		case *ssa.Store:
			if x.Addr == al {
				if f == nil {
					fieldStores = append(fieldStores, x)
				} else {
					wholeStores = append(wholeStores, x)
				}
			}
		case *ssa.FieldAddr:
			if f != nil && fieldOfAddr(x) == f {
				for _, r2 := range *x.Referrers() {
					if st, ok := r2.(*ssa.Store); ok && st.Addr == x {
						fieldStores = append(fieldStores, st)
					}
				}
			}
		case *ssa.MakeInterface:
			for _, r2 := range *x.Referrers() {
				if ci, ok := r2.(ssa.CallInstruction); ok && decodeTarget(ci) == ssa.Value(al) {
					decodes = append(decodes, ci)
				}
			}
		}
	}
	if f != nil && len(wholeStores) == 1 && len(fieldStores) == 0 && len(decodes) == 0 {
		v := wholeStores[0].Val
		if prm, ok := v.(*ssa.Parameter); ok {
			return c.paramNormalised(prm, depth, func(arg ssa.Value) (bool, string) { return c.normalisedIDField(arg, f, depth+1) })
		}
		if c.fromRequestQueue(v) {
			return true, "locally minted request received from the request queue"
		}
		return c.normalisedIDField(v, f, depth+1)
	}
	// (b)
	var normStores []ssa.Instruction
	isNormStore := map[ssa.Instruction]bool{}
	for _, st := range fieldStores {
		if ok, _ := c.normalisedKey(st.Val, depth+1); ok {
			normStores = append(normStores, st)
			isNormStore[st] = true
		}
	}
	if len(normStores) == 0 {
		return false, "the id field of this local is never assigned from the normaliser"
	}
	if at == nil {
		return false, "captured local with field-wise initialisation (not decided)"
	}
	dirty := func(in ssa.Instruction) bool {
		for _, d := range decodes {
			if d == in {
				return true
			}
		}
		for _, st := range fieldStores {
			if ssa.Instruction(st) == in && !isNormStore[in] {
				return true
			}
		}
		for _, st := range wholeStores {
			if ssa.Instruction(st) == in {
				return true
			}
		}
		return false
	}
	// every path entry -> at passes a normalising store …
	if !mustPrecede(fn, func(in ssa.Instruction) bool { return isNormStore[in] }, at) {
		return false, "a path reaches this use without passing the normalising assignment"
	}
	// … and after the last normalising store nothing dirties the field before `at`
	for _, ns := range normStores {
		if w := reachFrom(ns, func(in ssa.Instruction) bool { return in == at }, func(in ssa.Instruction) bool { return isNormStore[in] && in != ns }); w != nil {
			// there is a path ns -> at without another normalising store; it must not pass a dirtying instruction
			if reachFromVia(ns, at, dirty, func(in ssa.Instruction) bool { return isNormStore[in] }) {
				return false, "the struct is re-decoded or its id overwritten after normalisation"
			}
		}
	}
	return true, "normalising assignment dominates the use; nothing overwrites the id in between"
}

// reachFromVia: is there a path from `from` to `to` passing through an instruction satisfying via
// (and avoiding `avoid`)?
func reachFromVia(from, to ssa.Instruction, via ipred, avoid ipred) bool {
	hit := false
	// find via-instructions reachable from `from`, then check `to` reachable from them
	var vias []ssa.Instruction
	allInstrs(from.Parent(), func(in ssa.Instruction) {
		if via(in) {
			vias = append(vias, in)
		}
	})
	for _, v := range vias {
		if reachFrom(from, func(in ssa.Instruction) bool { return in == v }, avoid) != nil &&
			(v == to || reachFrom(v, func(in ssa.Instruction) bool { return in == to }, avoid) != nil) {
			hit = true
		}
	}
	return hit
}

func (c *Ctx) keyRule(rule string) {
	p, r := c.P, c.R
	for _, f := range []*types.Var{r.FInflight, r.FHandling} {
		if !c.need(rule, "interface-keyed table", f != nil) {
			continue
		}
		for _, u := range usesOfKind(p.uses(f), "maplookup", "mapupdate", "delete") {
			construct := fmt.Sprintf("%s: %s key of table %s", fname(u.Fn), u.Kind, roleName(r, f))
			ok, why := c.normalisedKey(u.Val, 0)
			c.check(ok, rule, construct, c.ipos(u.At), why, why+" (an unhashable peer-chosen id — array or object — panics on map access)")
		}
	}
}

func roleName(r *Roles, f *types.Var) string {
	switch f {
	case r.FInflight:
		return "in-flight"
	case r.FHandling:
		return "handling"
	case r.FChanh:
		return "channel-sinks"
	}
	return f.Name()
}

// ---- R10.3
// Event form: from every decode of an inbound frame (in the executor's call cone) to the
// first test of the frame's method (the frame switch, wherever it lives), every path takes
// the nil side of a test of the decode error, passes a call of the id normaliser, and after
// that takes the nil side of a test of the normaliser's error.
func (c *Ctx) execGateRule(rule string) {
	p, r := c.P, c.R
	if !c.need(rule, "FN_exec", r.FnExec != nil) || !c.need(rule, "T_frame", r.TFrame != nil) {
		return
	}
	mf := respFieldByTag(r.TFrame, "method")
	isSwitch := func(in ssa.Instruction) bool {
		iff, ok := in.(*ssa.If)
		if !ok {
			return false
		}
		bo, ok := iff.Cond.(*ssa.BinOp)
		if !ok || bo.Op != token.EQL {
			return false
		}
		if _, ok := constString(bo.Y); ok {
			return c.fieldVal(bo.X, mf)
		}
		if _, ok := constString(bo.X); ok {
			return c.fieldVal(bo.Y, mf)
		}
		return false
	}
	var decodes, norms []*ssa.Call
	p.coneInstrs(r.FnExec, func(in ssa.Instruction) {
		ci, ok := in.(*ssa.Call)
		if !ok {
			return
		}
		if t := decodeTarget(ci); t != nil {
			if pt, ok := t.Type().Underlying().(*types.Pointer); ok && pt.Elem() == types.Type(r.TFrame) {
				decodes = append(decodes, ci)
			}
		}
		if p.unbound(staticCallee(ci)) == r.FnNorm {
			norms = append(norms, ci)
		}
	})
	if len(decodes) == 0 {
		c.und(rule, fname(r.FnExec)+": frame decode", p.pos(r.FnExec.Pos()), "no decode of an inbound frame found in the frame executor's call cone")
		return
	}
	nilSideVeto := func(e ssa.Value) func(*ssa.BasicBlock, int) bool { return c.errEdgeVeto(e, true) }
	search := func(from ssa.Instruction, target, avoid ipred, veto func(*ssa.BasicBlock, int) bool) ssa.Instruction {
		s := newIPSearch(target, avoid)
		s.up = true
		s.edgeOK = veto
		if s.scan(from.Block(), instrIndex(from)+1, nil) {
			return s.found
		}
		return nil
	}
	isDecode := func(in ssa.Instruction) bool {
		for _, d := range decodes {
			if in == ssa.Instruction(d) {
				return true
			}
		}
		return false
	}
	isNorm := func(in ssa.Instruction) bool {
		for _, n := range norms {
			if in == ssa.Instruction(n) {
				return true
			}
		}
		return false
	}
	for _, d := range decodes {
		construct := fmt.Sprintf("%s: decoded frame reaches the frame switch", fname(d.Parent()))
		if search(d, isSwitch, nil, nil) == nil {
			c.und(rule, construct, c.ipos(d), "the frame switch (test of the frame's method) is not reachable from this decode")
			continue
		}
		okAll := true
		if wv := search(d, isSwitch, isDecode, nilSideVeto(d)); wv != nil {
			okAll = false
			c.bad(rule, construct, c.ipos(d), "frame decode error is not known to be nil when the frame is dispatched (invalid frames must be dropped)")
		}
		if wv := search(d, isSwitch, func(in ssa.Instruction) bool { return isDecode(in) || isNorm(in) }, nil); wv != nil {
			okAll = false
			c.bad(rule, construct, c.ipos(d), "a path dispatches the frame without passing the id normaliser")
		}
		for _, n := range norms {
			var errv ssa.Value
			for _, ref := range *n.Referrers() {
				if ex, ok := ref.(*ssa.Extract); ok && ex.Index == 1 {
					errv = ex
				}
			}
			if errv == nil {
				okAll = false
				c.bad(rule, construct, c.ipos(n), "the id normaliser's error is discarded")
				continue
			}
			n := n
			if wv := search(n, isSwitch, func(in ssa.Instruction) bool { return isDecode(in) || in == ssa.Instruction(n) }, nilSideVeto(errv)); wv != nil {
				okAll = false
				c.bad(rule, construct, c.ipos(n), "id normalisation error is not known to be nil when the frame is dispatched (invalid frames must be dropped)")
			}
		}
		if okAll {
			c.ok(rule, construct, c.ipos(d), "every path to the frame switch takes the nil branches of the decode and normalisation errors")
		}
	}
}

// isErrOf: v is error value e (directly, through a local, or as the result of the helper that produced it).
func (c *Ctx) isErrOf(v, e ssa.Value) bool {
	if v == e || aliasOfLocal(v, e) {
		return true
	}
	some := false
	for _, o := range c.origins(v) {
		if len(o.Fields) != 0 {
			return false
		}
		if o.Root == e {
			some = true
			continue
		}
		if isNilConst(o.Root) {
			continue
		}
		return false
	}
	return some
}

// knownNil: on entry to block b, is error value e known to be nil? e may have been
// stored into a local and re-loaded; accept comparisons on e itself or on a load of
// a local whose only stores are e (and nil).
func (c *Ctx) knownNil(b *ssa.BasicBlock, e ssa.Value) bool {
	for _, cf := range expandConds(impliedConds(b)) {
		bo, ok := cf.Cond.(*ssa.BinOp)
		if !ok || (bo.Op != token.NEQ && bo.Op != token.EQL) {
			continue
		}
		var other ssa.Value
		if isNilConst(bo.Y) {
			other = bo.X
		} else if isNilConst(bo.X) {
			other = bo.Y
		} else {
			continue
		}
		isNil := (bo.Op == token.EQL) == cf.True
		if !isNil {
			continue
		}
		if other == e || aliasOfLocal(other, e) {
			return true
		}
	}
	return false
}

// aliasOfLocal: v is a load of a local variable whose reaching store is e.
func aliasOfLocal(v, e ssa.Value) bool {
	ld, ok := v.(*ssa.UnOp)
	if !ok || ld.Op != token.MUL {
		return false
	}
	al, ok := ld.X.(*ssa.Alloc)
	if !ok {
		return false
	}
	// last store in the same block before the load, or the only store
	var only *ssa.Store
	n := 0
	for _, ref := range *al.Referrers() {
		if st, ok := ref.(*ssa.Store); ok && st.Addr == al {
			n++
			only = st
			if st.Val == e && st.Block() == ld.Block() && instrIndex(st) < instrIndex(ld) {
				// no other store between
				clean := true
				for _, x := range ld.Block().Instrs[instrIndex(st)+1 : instrIndex(ld)] {
					if s2, ok := x.(*ssa.Store); ok && s2.Addr == al {
						clean = false
					}
				}
				if clean {
					return true
				}
			}
		}
	}
	return n == 1 && only.Val == e
}

// ---- R10.4
func (c *Ctx) commaOkRule(rule string) {
	p, r := c.P, c.R
	for _, f := range []*types.Var{r.FInflight, r.FHandling, r.FChanh} {
		if f == nil {
			continue
		}
		for _, u := range usesOfKind(p.uses(f), "maplookup") {
			lk := u.At.(*ssa.Lookup)
			construct := fmt.Sprintf("%s: lookup in table %s", fname(u.Fn), roleName(r, f))
			if !lk.CommaOk {
				// plain lookup: result must not be dereferenced/called without a nil test — only used in range-style re-lookups
				if c.lookupOfRangedKey(lk) {
					c.ok(rule, construct, c.ipos(lk), "plain lookup of a key obtained by ranging over the same table")
					continue
				}
				c.bad(rule, construct, c.ipos(lk), "lookup result used without testing presence")
				continue
			}
			var val, okv ssa.Value
			for _, ref := range *lk.Referrers() {
				if ex, ok := ref.(*ssa.Extract); ok {
					if ex.Index == 0 {
						val = ex
					} else {
						okv = ex
					}
				}
			}
			if val == nil {
				c.ok(rule, construct, c.ipos(lk), "value unused")
				continue
			}
			if use := c.unguardedLookupUse(val, okv, 0); use != nil {
				c.bad(rule, construct, c.ipos(use), "the looked-up entry is used on a path where the lookup may have failed (unknown id from the peer)")
			} else {
				c.ok(rule, construct, c.ipos(lk), "every use of the entry is dominated by the found branch")
			}
		}
	}
}

// unguardedLookupUse: a use of looked-up value val not dominated by the found branch of okv.
// A helper that merely returns (val, ok) hands the obligation to its call sites.
func (c *Ctx) unguardedLookupUse(val, okv ssa.Value, depth int) ssa.Instruction {
	for _, use := range transitiveUses(val) {
		if _, isDbg := use.(*ssa.DebugRef); isDbg {
			continue
		}
		if okv != nil && condKnown(use.Block(), okv, true) {
			continue
		}
		// results spilled around a deferred call (defer mu.Unlock(); return v, ok): the use is the store
		// into / the reload from the result slot, the return follows
		var spillRet *ssa.Return
		if ld, isLd := use.(*ssa.UnOp); isLd && ld.Op == token.MUL && ld.Referrers() != nil {
			for _, r2 := range *ld.Referrers() {
				if rt, isRt := r2.(*ssa.Return); isRt {
					spillRet = rt
				} else if _, isDbg := r2.(*ssa.DebugRef); !isDbg {
					spillRet = nil
					break
				}
			}
		}
		if spillRet != nil && okv != nil {
			// the value was put into the result slot only where the lookup is known to have succeeded
			// (return nil, false on the other path): the reload before the return is not a use of its own
			if al, isAl := use.(*ssa.UnOp).X.(*ssa.Alloc); isAl {
				guarded, n := true, 0
				for _, ref := range *al.Referrers() {
					if st, isSt := ref.(*ssa.Store); isSt && st.Addr == ssa.Value(al) && st.Val == val {
						n++
						if !condKnown(st.Block(), okv, true) {
							guarded = false
						}
					}
				}
				mixed := false
				for _, ref := range *al.Referrers() {
					if st, isSt := ref.(*ssa.Store); isSt && st.Addr == ssa.Value(al) && st.Val != val {
						mixed = true
					}
				}
				if n > 0 && guarded && mixed {
					continue
				}
			}
		}
		rt, ok := use.(*ssa.Return)
		if !ok && spillRet != nil {
			rt, ok = spillRet, true
		}
		if ok && okv != nil && depth < 3 {
			vi, oi := -1, -1
			for i, res := range rt.Results {
				rv := blockLocalValue(res)
				if res == val || rv == val || spilledFrom(res, val) {
					vi = i
				}
				if res == okv || rv == okv || spilledFrom(res, okv) {
					oi = i
				}
			}
			fn := rt.Parent()
			sites := c.P.callers[fn]
			if vi >= 0 && oi >= 0 && len(sites) > 0 && !c.P.asyncValueUsed(fn) {
				var bad ssa.Instruction
				for _, s := range sites {
					call, isCall := s.(*ssa.Call)
					if !isCall {
						bad = s
						break
					}
					var v2, o2 ssa.Value
					for _, ref := range *call.Referrers() {
						if ex, ok := ref.(*ssa.Extract); ok {
							if ex.Index == vi {
								v2 = ex
							}
							if ex.Index == oi {
								o2 = ex
							}
						}
					}
					if v2 == nil {
						continue
					}
					if b := c.unguardedLookupUse(v2, o2, depth+1); b != nil {
						bad = b
						break
					}
				}
				if bad == nil {
					continue
				}
				return bad
			}
		}
		return use
	}
	return nil
}

// lookupOfRangedKey: key comes from a `range` over the same map (closeChans idiom).
func (c *Ctx) lookupOfRangedKey(lk *ssa.Lookup) bool {
	k := lk.Index
	ex, ok := k.(*ssa.Extract)
	if !ok {
		return false
	}
	nx, ok := ex.Tuple.(*ssa.Next)
	if !ok {
		return false
	}
	rg, ok := nx.Iter.(*ssa.Range)
	if !ok {
		return false
	}
	return sameVal(rg.X, lk.X)
}

// transitiveUses: instructions using v, following stores into single-assignment
// locals and their loads, field selections and extracts.
func transitiveUses(v ssa.Value) []ssa.Instruction {
	var out []ssa.Instruction
	seen := map[ssa.Value]bool{}
	var walk func(x ssa.Value)
	walk = func(x ssa.Value) {
		if seen[x] || x.Referrers() == nil {
			return
		}
		seen[x] = true
		for _, ref := range *x.Referrers() {
			switch r := ref.(type) {
			case *ssa.Store:
				if r.Val == x {
					if al, ok := r.Addr.(*ssa.Alloc); ok {
						// loads of that local
						for _, r2 := range *al.Referrers() {
							switch y := r2.(type) {
							case *ssa.UnOp:
								out = append(out, y)
							case *ssa.FieldAddr:
								walk(y)
								for _, r3 := range *y.Referrers() {
									out = append(out, r3)
								}
							}
						}
						continue
					}
				}
				out = append(out, r)
			case *ssa.Field:
				out = append(out, r)
			case *ssa.DebugRef:
			default:
				out = append(out, ref)
			}
		}
	}
	walk(v)
	return out
}

// condKnown: on entry to block b, is boolean value cond known to equal want?
func condKnown(b *ssa.BasicBlock, cond ssa.Value, want bool) bool {
	for _, cf := range expandConds(impliedConds(b)) {
		if cf.Cond == cond && cf.True == want {
			return true
		}
	}
	return false
}

// ---- R10.5
func (c *Ctx) sizeRule(rule string) {
	p, r := c.P, c.R
	found := false
	for _, fn := range p.Funcs {
		if pkgOf(fn) != p.Root.Pkg {
			continue
		}
		allInstrs(fn, func(in ssa.Instruction) {
			call, ok := in.(*ssa.Call)
			if !ok || calleeName(call) != "io.LimitReader" {
				return
			}
			// the limit on what a peer sends us as a request: the reader handed to the server-side entry
			// (a parameter), not a response body the HTTP client chooses to read only partly
			if c.dependsOn(call.Common().Args[0], func(v ssa.Value) bool {
				f := loadedField(v)
				return f != nil && f.Name() == "Body" && f.Pkg() != nil && f.Pkg().Path() == "net/http" && isNamed(derefType(v, f), "net/http", "Response")
			}, 0, map[ssa.Value]bool{}) {
				return
			}
			found = true
			construct := fmt.Sprintf("%s: body size limit", fname(fn))
			limF, c1, ok := c.limitExpr(call.Common().Args[1], 0)
			if !ok {
				c.und(rule, construct, c.ipos(call), "read limit is not of the form <configured field> + constant")
				return
			}
			// find the comparison against the same field
			var cmp *ssa.BinOp
			allInstrs(fn, func(x ssa.Instruction) {
				bo, ok := x.(*ssa.BinOp)
				if !ok {
					return
				}
				switch bo.Op {
				case token.GTR, token.GEQ, token.LSS, token.LEQ:
				default:
					return
				}
				if f, _, ok := c.limitExpr(bo.Y, 0); ok && f == limF {
					cmp = bo
				} else if f, _, ok := c.limitExpr(bo.X, 0); ok && f == limF {
					cmp = bo
				}
			})
			if cmp == nil {
				c.bad(rule, construct, c.ipos(call), "the amount read is never compared with the configured maximum")
				return
			}
			// normalise to: reject iff n > M + c2
			op, nSide, mSide := cmp.Op, cmp.X, cmp.Y
			if f, _, ok := c.limitExpr(cmp.X, 0); ok && f == limF {
				op, nSide, mSide = flip(cmp.Op), cmp.Y, cmp.X
			}
			_, cm, _ := c.limitExpr(mSide, 0)
			if !countFromLimitedRead(nSide, call) {
				c.bad(rule, construct, c.ipos(cmp), "the value compared with the maximum is not the number of bytes read through the limit (e.g. a length taken after trimming): padded oversize bodies pass")
				return
			}
			// which branch rejects? the one that reaches an error reply and returns without decoding
			var iff *ssa.If
			for _, ref := range *cmp.Referrers() {
				if i, ok := ref.(*ssa.If); ok {
					iff = i
				}
			}
			if iff == nil {
				// the verdict is handed to the caller as a boolean result and tested there
				iff = c.verdictTestInCaller(cmp)
			}
			if iff == nil {
				c.und(rule, construct, c.ipos(cmp), "size comparison does not steer a branch")
				return
			}
			isDecodeOrDispatch := func(x ssa.Instruction) bool {
				ci, ok := x.(ssa.CallInstruction)
				if !ok {
					return false
				}
				if decodeTarget(ci) != nil || calleeName(ci) == "encoding/json.NewDecoder" {
					return true
				}
				return staticCallee(ci) != nil && p.unbound(staticCallee(ci)) == r.FnDisp
			}
			tReach := reachFromBlockUp(iff.Block().Succs[0], isDecodeOrDispatch, nil) != nil
			fReach := reachFromBlockUp(iff.Block().Succs[1], isDecodeOrDispatch, nil) != nil
			var rejectWhenTrue bool
			switch {
			case !tReach && fReach:
				rejectWhenTrue = true
			case tReach && !fReach:
				rejectWhenTrue = false
			case tReach && fReach:
				c.bad(rule, construct, c.ipos(iff), "both outcomes of the size test reach a decoder/handler: oversize bodies are not rejected")
				return
			default:
				c.und(rule, construct, c.ipos(iff), "neither outcome of the size test reaches a decoder")
				return
			}
			if !rejectWhenTrue {
				op = negate(op)
			}
			// now: reject iff n op M+cm  ; need op in {>, >=}; threshold t: reject iff n >= t
			var t int64
			switch op {
			case token.GTR:
				t = cm + 1
			case token.GEQ:
				t = cm
			default:
				c.bad(rule, construct, c.ipos(cmp), "the rejecting branch is taken for small bodies, not large ones")
				return
			}
			// exact boundary: reject iff n >= M+1 ; detectable: read limit M+c1 >= t  (so that n can reach t)
			if t != 1 {
				c.bad(rule, construct, c.ipos(cmp), fmt.Sprintf("bodies are rejected iff size >= max%+d, not exactly when they exceed the maximum", t))
				return
			}
			if c1 < t {
				c.bad(rule, construct, c.ipos(call), fmt.Sprintf("at most max%+d bytes are read, so a body exceeding the maximum can never be detected (it is silently truncated)", c1))
				return
			}
			// rejection emits an error reply
			rej := iff.Block().Succs[0]
			if !rejectWhenTrue {
				rej = iff.Block().Succs[1]
			}
			emits := reachFromBlockUp(rej, func(x ssa.Instruction) bool { return c.isErrFnCall(x) }, nil) != nil
			c.check(emits, rule, construct, c.ipos(cmp), fmt.Sprintf("limit max%+d, reject iff size > max, rejection replies with an error and reaches no decoder/handler", c1),
				"the oversize branch does not emit an error reply")
		})
	}
	if !found {
		c.bad(rule, "HTTP body reader: size limit", "-", "the HTTP request body is not read through io.LimitReader any more: no maximum request size is enforced")
	}
}

// limitExpr: v as <configured field> + constant. A parameter stands for what every caller passes
// for it (all callers must agree).
func (c *Ctx) limitExpr(v ssa.Value, depth int) (*types.Var, int64, bool) {
	v = stripConvInt(v)
	if depth > 3 {
		return nil, 0, false
	}
	switch x := v.(type) {
	case *ssa.BinOp:
		if x.Op != token.ADD && x.Op != token.SUB {
			return nil, 0, false
		}
		if k, ok := constInt(stripConvInt(x.Y)); ok {
			if f, c0, ok := c.limitExpr(x.X, depth); ok {
				if x.Op == token.SUB {
					k = -k
				}
				return f, c0 + k, true
			}
		}
		if k, ok := constInt(stripConvInt(x.X)); ok && x.Op == token.ADD {
			if f, c0, ok := c.limitExpr(x.Y, depth); ok {
				return f, c0 + k, true
			}
		}
		return nil, 0, false
	case *ssa.Parameter:
		fn := x.Parent()
		idx := -1
		for i, pa := range fn.Params {
			if pa == x {
				idx = i
			}
		}
		callers := c.P.syncCallers(fn)
		if idx < 0 || len(callers) == 0 || c.P.asyncUsed(fn) {
			return nil, 0, false
		}
		var f0 *types.Var
		var k0 int64
		for i, call := range callers {
			args := call.Common().Args
			if idx >= len(args) {
				return nil, 0, false
			}
			f, k, ok := c.limitExpr(args[idx], depth+1)
			if !ok || (i > 0 && (f != f0 || k != k0)) {
				return nil, 0, false
			}
			f0, k0 = f, k
		}
		return f0, k0, true
	}
	return fieldPlusConst(v)
}

// verdictTestInCaller: the comparison is returned as a boolean result; the branch that it steers
// is the test of that result in the (single) caller.
func (c *Ctx) verdictTestInCaller(cmp *ssa.BinOp) *ssa.If {
	fn := cmp.Parent()
	idx := -1
	for _, ref := range *cmp.Referrers() {
		ret, ok := ref.(*ssa.Return)
		if !ok {
			continue
		}
		for i, rv := range ret.Results {
			if rv == ssa.Value(cmp) {
				idx = i
			}
		}
	}
	callers := c.P.syncCallers(fn)
	if idx < 0 || len(callers) != 1 || c.P.asyncUsed(fn) {
		return nil
	}
	// every return passes the comparison itself or the constant false next to an error
	for _, b := range fn.Blocks {
		ret, ok := b.Instrs[len(b.Instrs)-1].(*ssa.Return)
		if !ok || idx >= len(ret.Results) {
			continue
		}
		if rv := ret.Results[idx]; rv != ssa.Value(cmp) {
			if k, ok := rv.(*ssa.Const); !ok || k.Value == nil || k.Value.String() != "false" {
				return nil
			}
		}
	}
	var res ssa.Value = callers[0]
	if fn.Signature.Results().Len() > 1 {
		res = nil
		for _, ref := range *callers[0].Referrers() {
			if ex, ok := ref.(*ssa.Extract); ok && ex.Index == idx {
				res = ex
			}
		}
	}
	if res == nil {
		return nil
	}
	for _, ref := range *res.Referrers() {
		if i, ok := ref.(*ssa.If); ok {
			return i
		}
	}
	return nil
}

// countFromLimitedRead: n is the byte count of the read that consumed the LimitReader
// `lim`: result #0 of a call taking the limited reader (ReadFrom/Copy), or len() of
// the slice such a call returned (ReadAll).
func countFromLimitedRead(n ssa.Value, lim *ssa.Call) bool {
	n = stripConvInt(n)
	takesLim := func(call *ssa.Call) bool {
		for _, a := range call.Common().Args {
			if stripConv(a) == ssa.Value(lim) {
				return true
			}
		}
		return false
	}
	switch x := n.(type) {
	case *ssa.Extract:
		if call, ok := x.Tuple.(*ssa.Call); ok && x.Index == 0 {
			return takesLim(call)
		}
	case *ssa.Call:
		if s, ok := lenOf(x); ok {
			if ex, ok := s.(*ssa.Extract); ok {
				if call, ok := ex.Tuple.(*ssa.Call); ok {
					return takesLim(call)
				}
			}
		}
		return takesLim(x)
	}
	return false
}

// isErrFnCall: a call of a value of the error-reply function type.
func (c *Ctx) isErrFnCall(in ssa.Instruction) bool {
	ci, ok := in.(ssa.CallInstruction)
	if !ok || c.R.TErrFn == nil {
		return false
	}
	v := ci.Common().Value
	if v == nil || ci.Common().IsInvoke() {
		return false
	}
	if v.Type() == types.Type(c.R.TErrFn) {
		return true
	}
	// direct call of a function whose signature is identical to the error-reply type
	if f := staticCallee(ci); f != nil && c.P.allFns[f] && f.Parent() == nil {
		return types.Identical(f.Signature, c.R.TErrFn.Underlying())
	}
	return false
}

// fieldPlusConst: v == load(field) [+ const], through integer conversions.
func fieldPlusConst(v ssa.Value) (*types.Var, int64, bool) {
	v = stripConvInt(v)
	if bo, ok := v.(*ssa.BinOp); ok && (bo.Op == token.ADD || bo.Op == token.SUB) {
		f, c0, ok := fieldPlusConst(bo.X)
		k, ok2 := constInt(stripConvInt(bo.Y))
		if ok && ok2 {
			if bo.Op == token.SUB {
				k = -k
			}
			return f, c0 + k, true
		}
		if bo.Op == token.ADD {
			f, c0, ok := fieldPlusConst(bo.Y)
			k, ok2 := constInt(stripConvInt(bo.X))
			if ok && ok2 {
				return f, c0 + k, true
			}
		}
		return nil, 0, false
	}
	if ld, ok := v.(*ssa.UnOp); ok && ld.Op == token.MUL {
		if fa, ok := ld.X.(*ssa.FieldAddr); ok {
			return fieldOfAddr(fa), 0, true
		}
	}
	if f, ok := v.(*ssa.Field); ok {
		return fieldOfField(f), 0, true
	}
	return nil, 0, false
}

// blockLocalValue: a load of a local variable that was stored earlier in the same block
// (named results are written and re-read at every return) stands for the stored value.
func blockLocalValue(v ssa.Value) ssa.Value {
	for i := 0; i < 4; i++ {
		ld, ok := v.(*ssa.UnOp)
		if !ok || ld.Op != token.MUL {
			return v
		}
		al, ok := ld.X.(*ssa.Alloc)
		if !ok {
			return v
		}
		var last *ssa.Store
		for _, in := range ld.Block().Instrs {
			if in == ssa.Instruction(ld) {
				break
			}
			if st, ok := in.(*ssa.Store); ok && st.Addr == ssa.Value(al) {
				last = st
			}
		}
		if last == nil {
			return v
		}
		v = last.Val
	}
	return v
}

// errEdgeVeto: an edge filter that forbids the CFG edges on which error value e is known to be
// nil (vetoNil) or known to be non-nil (!vetoNil).
func (c *Ctx) errEdgeVeto(e ssa.Value, vetoNil bool) func(*ssa.BasicBlock, int) bool {
	return func(b *ssa.BasicBlock, k int) bool {
		iff, ok := b.Instrs[len(b.Instrs)-1].(*ssa.If)
		if !ok {
			return true
		}
		bo, ok := iff.Cond.(*ssa.BinOp)
		if !ok || (bo.Op != token.NEQ && bo.Op != token.EQL) {
			return true
		}
		var other ssa.Value
		if isNilConst(bo.Y) {
			other = bo.X
		} else if isNilConst(bo.X) {
			other = bo.Y
		} else {
			return true
		}
		if !c.isErrOf(other, e) {
			return true
		}
		nilSide := 1
		if bo.Op == token.EQL {
			nilSide = 0
		}
		if vetoNil {
			return k != nilSide
		}
		return k == nilSide
	}
}

// pathIndexSafe: no path from fn's entry reaches the index instruction `at` without taking a branch
// edge on which len(slice) > k is known.
func pathIndexSafe(fn *ssa.Function, at ssa.Instruction, slice ssa.Value, k int64) bool {
	if len(fn.Blocks) == 0 {
		return false
	}
	veto := func(b *ssa.BasicBlock, succ int) bool {
		iff, ok := b.Instrs[len(b.Instrs)-1].(*ssa.If)
		if !ok {
			return true
		}
		bo, ok := curFacts.aliasOf(iff.Cond).(*ssa.BinOp)
		if !ok {
			return true
		}
		op, L, R := bo.Op, bo.X, bo.Y
		switch op {
		case token.LSS, token.LEQ, token.GTR, token.GEQ, token.EQL, token.NEQ:
		default:
			return true
		}
		if _, isLen := lenOf(L); !isLen {
			if _, isLen2 := lenOf(R); isLen2 {
				op, L, R = flip(op), R, L
			}
		}
		ls, isLen := lenOf(L)
		if !isLen || !sameVal(ls, slice) {
			return true
		}
		cst, isK := constInt(stripConvInt(R))
		if !isK {
			return true
		}
		if succ == 1 {
			op = negate(op)
		}
		switch op {
		case token.GTR:
			return !(cst >= k)
		case token.GEQ, token.EQL:
			return !(cst > k)
		}
		return true
	}
	s := newIPSearch(func(x ssa.Instruction) bool { return x == at }, nil)
	s.flat = true
	s.edgeOK = veto
	s.seen[fmt.Sprintf("%p|", fn.Blocks[0])] = true
	res := s.scan(fn.Blocks[0], 0, nil)
	if os.Getenv("JRP_DEBUG_IDX") != "" {
		fmt.Printf("pathIndexSafe %s k=%d reach=%v visited=%d\n", fname(fn), k, res, s.visited)
	}
	return !res
}

// readCycleRule: the socket is read by a goroutine that hands one message to the loop and ends; the
// loop's handling of that message must start the next read (or report the loss) on every path — also
// for degenerate frames (empty, oversized, undecodable). A path that returns to the select without
// doing so leaves the connection unread for ever: every later call on it hangs and no fault is noticed.
func (c *Ctx) readCycleRule(rule string) {
	p, r := c.P, c.R
	w := c.ws()
	arm, ok := w.Arms["incoming"]
	if !ok || arm.Body == nil || w.Reader == nil {
		c.und(rule, "socket-message arm of the connection loop", "-", "arm receiving from the socket reader, or the reader goroutine, not resolved")
		return
	}
	isRestart := func(in ssa.Instruction) bool {
		g, ok := in.(*ssa.Go)
		return ok && p.unbound(staticCallee(g)) == w.Reader
	}
	isLoss := func(in ssa.Instruction) bool {
		switch x := in.(type) {
		case *ssa.Send:
			return c.fieldVal(x.Chan, r.FReadErr)
		case *ssa.Select:
			for _, st := range x.States {
				if st.Dir == types.SendOnly && c.fieldVal(st.Chan, r.FReadErr) {
					return true
				}
			}
		case ssa.CallInstruction:
			if b, ok := x.Common().Value.(*ssa.Builtin); ok && b.Name() == "close" && len(x.Common().Args) == 1 {
				return c.fieldVal(x.Common().Args[0], r.FIncoming)
			}
		}
		return false
	}
	redial := map[ssa.Instruction]bool{}
	for _, g := range c.redialSpawns() {
		redial[g] = true
	}
	// the connection is over: the first instruction of a select arm that received the connection's exit
	// signal (or its context's Done): nothing is left to read for
	exitSeen := map[ssa.Instruction]bool{}
	exitEdge := map[[2]interface{}]bool{} // CFG edges into such an arm (its body may be a bare return)
	for _, fn := range p.Funcs {
		if pkgOf(fn) != p.Root.Pkg || fn == r.FnLoop {
			continue
		}
		allInstrs(fn, func(in ssa.Instruction) {
			sel, ok := in.(*ssa.Select)
			if !ok {
				return
			}
			arms, _ := selectArms(sel)
			for _, a := range arms {
				if a.Body == nil || a.State.Dir != types.RecvOnly || len(a.Body.Instrs) == 0 {
					continue
				}
				isDone := false
				if ci, ok := a.State.Chan.(*ssa.Call); ok && ci.Common().IsInvoke() && ci.Common().Method.Name() == "Done" && isNamed(ci.Common().Value.Type(), "context", "Context") {
					isDone = true
				}
				if isLoadOf(a.State.Chan, r.FExiting) || isDone {
					exitSeen[a.Body.Instrs[0]] = true
					for _, pr := range a.Body.Preds {
						for k, sc := range pr.Succs {
							if sc == a.Body {
								exitEdge[[2]interface{}{pr, k}] = true
							}
						}
					}
				}
			}
		})
	}
	// a goroutine started to deal with the message carries the obligation on: every path through it
	// must restart the reader or signal loss (recursively, bounded)
	var carries func(fn *ssa.Function, depth int) bool
	var done func(in ssa.Instruction) bool
	memo := map[*ssa.Function]bool{}
	carries = func(fn *ssa.Function, depth int) bool {
		if fn == nil || !p.allFns[fn] || len(fn.Blocks) == 0 || depth > 3 {
			return false
		}
		if v, ok := memo[fn]; ok {
			return v
		}
		memo[fn] = false
		hit := false
		p.coneInstrs(fn, func(x ssa.Instruction) {
			if isRestart(x) || isLoss(x) {
				hit = true
			}
		})
		noExit := func(from *ssa.BasicBlock, k int) bool { return !exitEdge[[2]interface{}{from, k}] }
		res := hit && reachFromBlockF(fn.Blocks[0], isReturn, done, noExit) == nil
		memo[fn] = res
		return res
	}
	done = func(in ssa.Instruction) bool {
		if isRestart(in) || isLoss(in) || redial[in] || exitSeen[in] {
			return true
		}
		if g, ok := in.(*ssa.Go); ok {
			return carries(p.unbound(staticCallee(g)), 0)
		}
		return false
	}
	atBoundary := func(in ssa.Instruction) bool { return p.boundary != nil && p.boundary[in] }
	construct := fmt.Sprintf("%s: message taken from the socket reader", fname(r.FnLoop))
	srch := newIPSearch(atBoundary, done)
	srch.up = true
	srch.edgeOK = func(from *ssa.BasicBlock, k int) bool { return !exitEdge[[2]interface{}{from, k}] }
	var wv ssa.Instruction
	if srch.scan(arm.Body, 0, nil) {
		wv = srch.found
	}
	if wv != nil {
		c.bad(rule, construct, c.ipos(arm.Body.Instrs[0]), "a path handles the message and returns to the loop's select without restarting the socket reader, signalling loss or redialling: the connection is never read again (later responses, cancels and close frames go unnoticed)")
	} else {
		c.ok(rule, construct, c.ipos(arm.Body.Instrs[0]), "every path restarts the reader, signals loss, redials or leaves the loop")
	}
}

// bodyBytesIndexRule: indexes into X.Bytes() of a bytes.Buffer (the HTTP reader peeks at the first and
// last byte to detect a batch) need X.Len() > 0 established for that very buffer value: a length taken
// from another buffer (e.g. the untrimmed read count) does not protect the access, and a
// whitespace-only body then panics instead of being answered with -32600.
func (c *Ctx) bodyBytesIndexRule(rule string) {
	p := c.P
	n := 0
	bufLen := func(v ssa.Value) (ssa.Value, bool) {
		v = stripConvInt(v)
		call, ok := v.(*ssa.Call)
		if !ok {
			return nil, false
		}
		switch calleeName(call) {
		case "(*bytes.Buffer).Len":
			return call.Common().Args[0], true
		}
		if b, ok := call.Common().Value.(*ssa.Builtin); ok && b.Name() == "len" {
			if bc, ok := call.Common().Args[0].(*ssa.Call); ok && calleeName(bc) == "(*bytes.Buffer).Bytes" {
				return bc.Common().Args[0], true
			}
		}
		return nil, false
	}
	for _, fn := range p.Funcs {
		if pkgOf(fn) != p.Root.Pkg {
			continue
		}
		allInstrs(fn, func(in ssa.Instruction) {
			var slice, idx ssa.Value
			switch x := in.(type) {
			case *ssa.IndexAddr:
				slice, idx = x.X, x.Index
			case *ssa.Index:
				slice, idx = x.X, x.Index
			default:
				return
			}
			bc, ok := slice.(*ssa.Call)
			if !ok || calleeName(bc) != "(*bytes.Buffer).Bytes" {
				return
			}
			n++
			buf := bc.Common().Args[0]
			construct := fmt.Sprintf("%s: index %s into the request body bytes", fname(fn), idxString(idx))
			// facts: Len(buf) != 0 / > 0 / >= 1 for this very buffer
			nonEmpty := false
			// a helper that hands the buffer out only after checking that it is not empty
			if ex, ok := buf.(*ssa.Extract); ok {
				if call, ok := ex.Tuple.(*ssa.Call); ok {
					if g := p.unbound(staticCallee(call)); g != nil && p.allFns[g] && len(g.Blocks) > 0 {
						all, some := true, false
						allInstrsRaw(g, func(x ssa.Instruction) {
							rt, ok := x.(*ssa.Return)
							if !ok || ex.Index >= len(rt.Results) {
								return
							}
							rv := blockLocalValue(rt.Results[ex.Index])
							if isNilConst(rv) {
								return
							}
							some = true
							okRet := false
							for _, f := range cmpFactsAt(rt.Block()) {
								op, L, R := f.Op, f.L, f.R
								b1, isL := bufLen(L)
								if !isL {
									if b2, isR := bufLen(R); isR {
										op, L, R, b1, isL = flip(op), R, L, b2, true
									}
								}
								if !isL || !(b1 == rv || sameVal(b1, rv)) {
									continue
								}
								if k, isK := constInt(stripConvInt(R)); isK && ((op == token.NEQ && k == 0) || (op == token.GTR && k >= 0) || (op == token.GEQ && k >= 1)) {
									okRet = true
								}
							}
							if !okRet {
								all = false
							}
						})
						if some && all {
							nonEmpty = true
						}
					}
				}
			}
			for _, f := range cmpFactsAt(in.Block()) {
				op, L, R := f.Op, f.L, f.R
				b1, isL := bufLen(L)
				if !isL {
					if b2, isR := bufLen(R); isR {
						op, L, R, b1, isL = flip(op), R, L, b2, true
					}
				}
				if !isL || !(b1 == buf || sameVal(b1, buf)) {
					continue
				}
				k, isK := constInt(stripConvInt(R))
				if !isK {
					continue
				}
				if (op == token.NEQ && k == 0) || (op == token.GTR && k >= 0) || (op == token.GEQ && k >= 1) {
					nonEmpty = true
				}
			}
			safe := false
			if k, isK := constInt(idx); isK {
				safe = nonEmpty && k == 0
			} else if bo, ok := stripConvInt(idx).(*ssa.BinOp); ok && bo.Op == token.SUB {
				// Len(buf) - 1
				if b1, isL := bufLen(bo.X); isL && (b1 == buf || sameVal(b1, buf)) {
					if k, isK := constInt(bo.Y); isK && k == 1 {
						safe = nonEmpty
					}
				}
			}
			c.check(safe, rule, construct, c.ipos(in), "guarded by a non-empty test of the same buffer",
				"the body bytes are indexed without a non-empty test of this very buffer (e.g. the emptiness check looks at the untrimmed read count): a whitespace-only body panics in the reader instead of being answered with the invalid-request error")
		})
	}
	if n == 0 {
		c.ok(rule, "no index into buffer bytes", "-", "the reader no longer peeks into the raw body bytes")
	}
}

// spilledFrom: res is a reload of a result slot whose every store is v.
func spilledFrom(res, v ssa.Value) bool {
	ld, ok := res.(*ssa.UnOp)
	if !ok || ld.Op != token.MUL {
		return false
	}
	al, ok := ld.X.(*ssa.Alloc)
	if !ok {
		return false
	}
	n := 0
	for _, ref := range *al.Referrers() {
		if st, ok := ref.(*ssa.Store); ok && st.Addr == ssa.Value(al) {
			if st.Val != v {
				return false
			}
			n++
		}
	}
	return n > 0
}

// noTypedNilHandler: R10.10. The connection's dispatcher field is an interface; inbound calls are
// refused when it is nil. A *handler variable that is only assigned when client handlers are
// configured, stored into that field, makes the field a non-nil interface holding a nil pointer: the
// guard passes and (*handler)(nil).handle panics on a bare goroutine — any server can then crash a
// client that has no handlers by sending it one call. Every pointer converted into the dispatcher
// interface must be non-nil on all origins.
func (c *Ctx) noTypedNilHandler(rule string) {
	p, r := c.P, c.R
	if r.IDisp == nil {
		c.und(rule, "dispatcher interface", "-", "not resolved")
		return
	}
	n := 0
	for _, fn := range p.Funcs {
		if pkgOf(fn) != p.Root.Pkg {
			continue
		}
		allInstrsRaw(fn, func(in ssa.Instruction) {
			mi, ok := in.(*ssa.MakeInterface)
			if !ok || mi.Type() != types.Type(r.IDisp) {
				return
			}
			if _, isPtr := mi.X.Type().Underlying().(*types.Pointer); !isPtr {
				return
			}
			n++
			construct := fmt.Sprintf("%s: handler converted to the dispatcher interface", fname(fn))
			maybeNil := false
			for _, o := range c.origins(mi.X) {
				if isNilConst(o.Root) && len(o.Fields) == 0 {
					maybeNil = true
				}
			}
			// a conversion that only happens where the pointer is known non-nil is fine
			if maybeNil {
				for _, cf := range expandConds(impliedConds(mi.Block())) {
					if bo, ok := cf.Cond.(*ssa.BinOp); ok && (bo.Op == token.NEQ || bo.Op == token.EQL) && (isNilConst(bo.X) || isNilConst(bo.Y)) {
						other := bo.X
						if isNilConst(bo.X) {
							other = bo.Y
						}
						if sameVal(other, mi.X) && (bo.Op == token.NEQ) == cf.True {
							maybeNil = false
						}
					}
				}
			}
			c.check(!maybeNil, rule, construct, c.ipos(mi), "non-nil on every origin", "a possibly nil *handler is wrapped into the dispatcher interface: the interface is then non-nil, the 'no handler configured' test passes, and the first inbound call dereferences the nil handler on a bare goroutine — the process dies")
		})
	}
	if n == 0 {
		c.ok(rule, "dispatcher interface conversions", "-", "none")
	}
}

// derefType: the struct type whose field f the load v reads.
func derefType(v ssa.Value, f *types.Var) types.Type {
	if ld, ok := v.(*ssa.UnOp); ok {
		if fa, ok := ld.X.(*ssa.FieldAddr); ok {
			if pt, ok := fa.X.Type().Underlying().(*types.Pointer); ok {
				return pt.Elem()
			}
		}
	}
	if fl, ok := v.(*ssa.Field); ok {
		return fl.X.Type()
	}
	return types.Typ[types.Invalid]
}

// pooledBufferReset: R10.11. A *bytes.Buffer taken from a sync.Pool carries whatever its last user left
// unless someone Resets it. Between Get and every Put (direct, or by a deferred function) there must be a
// Reset: an exit that puts the buffer back unemptied (the oversize-body rejection) prepends the rejected
// bytes to the next request that draws the buffer — whose handler then runs although it was refused.
func (c *Ctx) pooledBufferReset(rule string) {
	p := c.P
	n := 0
	for _, fn := range p.Funcs {
		if pkgOf(fn) != p.Root.Pkg {
			continue
		}
		allInstrsRaw(fn, func(in ssa.Instruction) {
			get, ok := in.(*ssa.Call)
			if !ok || calleeName(get) != "(*sync.Pool).Get" {
				return
			}
			// the buffer value
			var buf ssa.Value
			for _, ref := range *get.Referrers() {
				if ta, ok := ref.(*ssa.TypeAssert); ok {
					if pt, ok := ta.AssertedType.(*types.Pointer); ok && isNamed(pt.Elem(), "bytes", "Buffer") {
						buf = ta
						if ta.CommaOk {
							for _, r2 := range *ta.Referrers() {
								if ex, ok := r2.(*ssa.Extract); ok && ex.Index == 0 {
									buf = ex
								}
							}
						}
					}
				}
			}
			if buf == nil {
				return
			}
			n++
			isBuf := func(v ssa.Value) bool {
				return c.dependsOn(v, func(x ssa.Value) bool { return x == buf }, 0, map[ssa.Value]bool{})
			}
			resets := func(x ssa.Instruction) bool {
				switch y := x.(type) {
				case *ssa.Call:
					return calleeName(y) == "(*bytes.Buffer).Reset" && isBuf(y.Common().Args[0])
				case *ssa.Defer:
					// a deferred function that resets (and puts back)
					if calleeName(y) == "(*bytes.Buffer).Reset" {
						return true
					}
					for _, g := range c.funcsOf(y.Common().Value) {
						found := false
						allInstrs(g, func(z ssa.Instruction) {
							if ci, ok := z.(*ssa.Call); ok && calleeName(ci) == "(*bytes.Buffer).Reset" {
								found = true
							}
						})
						if found {
							return true
						}
					}
				}
				return false
			}
			puts := func(x ssa.Instruction) bool {
				ci, ok := x.(*ssa.Call)
				return ok && calleeName(ci) == "(*sync.Pool).Put" && len(ci.Common().Args) == 2 && isBuf(ci.Common().Args[1])
			}
			construct := fmt.Sprintf("%s: pooled buffer", fname(fn))
			bad := reachFrom(in, puts, resets)
			c.check(bad == nil, rule, construct, c.ipos(in), "emptied before every Put", "the buffer can go back to the pool without having been Reset on this path (an early-exit that rejects the request): the next request that draws it has the rejected bytes in front of its own — the refused request's handler runs after all, and the innocent caller gets its reply")
		})
	}
	if n == 0 {
		c.ok(rule, "no pooled buffers", "-", "nothing to check")
	}
}

// tablesNeverNil: R10.14. The per-connection tables are reset on a connection loss and written again by the
// handlers of the frames the peer sends on the next connection. A reset that stores nil instead of a fresh
// map (the sibling reset uses make) turns the next registration into "assignment to entry in nil map" on the
// frame executor: the peer's answer to a subscription kills the process.
func (c *Ctx) tablesNeverNil(rule string) {
	p, r := c.P, c.R
	if r.TConn == nil {
		c.und(rule, "role:T_conn", "-", "connection type not resolved")
		return
	}
	st := structOf(r.TConn)
	n := 0
	for i := 0; st != nil && i < st.NumFields(); i++ {
		f := st.Field(i)
		if _, ok := f.Type().Underlying().(*types.Map); !ok {
			continue
		}
		written := len(usesOfKind(p.uses(f), "mapupdate")) > 0
		if !written {
			continue
		}
		for _, u := range usesOfKind(p.uses(f), "store") {
			n++
			construct := fmt.Sprintf("%s: store into table %s", fname(u.Fn), f.Name())
			c.check(!isNilConst(u.Val), rule, construct, c.ipos(u.At), "a made map", "the table is set to nil although entries are written into it later (a registration after a reconnect): 'assignment to entry in nil map' on the frame executor kills the process — triggered by a frame of the peer")
		}
	}
	if n == 0 {
		c.und(rule, "stores into connection tables", "-", "none found")
	}
}
