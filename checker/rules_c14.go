package main

import (
	"fmt"
	"go/token"
	"go/types"
	"sort"
	"strings"

	"golang.org/x/tools/go/ssa"
)

func init() {
	register(&propInfo{
		ID:          "C14",
		Explanation: "Static lockset analysis (must-hold sets per SSA instruction, entry sets propagated over static call sites) of every write-side use of the WebSocket, of the socket swap, of the message writer's lifetime and of every access to the shared per-connection tables. Decides, on all control paths of the current source, the structural necessary conditions for frames not to interleave: a common mutex at every gorilla write-side call and at the socket swap; the message writer obtained from NextWriter stays inside that critical section and is closed on every path; the lazily published writer is confined until its consumer returned; every shared table/flag has one guarding mutex held at every non-construction access. R14.1 also covers close control frames written with WriteControl. (R14.7) nothing handed to WriteJSON contains an un-marshalled parameter value. (R14.8) what is written to the socket is not assembled in a field of the connection object outside the write lock. (R14.9) an encoder over a socket message writer encodes once per message.",
		NotDecided:  "Real interleavings, gorilla/websocket's own correctness, unlocked reads of the socket pointer on the read side (ordered by goroutine-spawn structure, not by a lock), payload well-formedness (values through encoding/json).",
		Assumptions: []string{
			"gorilla/websocket allows one concurrent writer; Close and WriteControl are documented as safe to call concurrently",
			"lock identity is the mutex field (type-based): two connection objects are not distinguished",
			"stores performed before the first goroutine is spawned by the connection loop are construction, not sharing",
		},
		Run: runC14,
	})
}

var gorillaWriteSide = map[string]bool{
	"NextWriter": true, "WriteMessage": true, "WriteJSON": true, "WritePreparedMessage": true,
	"SetWriteDeadline": true, "EnableWriteCompression": true, "SetCompressionLevel": true,
}

// gorillaConnCalls lists calls of *websocket.Conn methods in the tree.
func gorillaConnCalls(p *Prog) []ssa.CallInstruction {
	var out []ssa.CallInstruction
	for _, fn := range p.Funcs {
		allInstrs(fn, func(in ssa.Instruction) {
			ci, ok := in.(ssa.CallInstruction)
			if !ok {
				return
			}
			if strings.HasPrefix(calleeName(ci), "(*"+gorilla+".Conn).") {
				out = append(out, ci)
			}
		})
	}
	return out
}

func methodOf(ci ssa.CallInstruction) string {
	n := calleeName(ci)
	if i := strings.LastIndex(n, "."); i >= 0 {
		return n[i+1:]
	}
	return n
}

// spawns reports whether executing `in` may start a goroutine (a go statement,
// or a static call to a tree function that transitively contains one).
func (p *Prog) spawns(in ssa.Instruction) bool {
	if _, ok := in.(*ssa.Go); ok {
		return true
	}
	ci, ok := in.(*ssa.Call)
	if !ok {
		return false
	}
	cal := staticCallee(ci)
	if cal == nil || !p.allFns[cal] {
		return false
	}
	return p.fnSpawns(cal, map[*ssa.Function]bool{})
}

func (p *Prog) fnSpawns(fn *ssa.Function, seen map[*ssa.Function]bool) bool {
	if seen[fn] {
		return false
	}
	seen[fn] = true
	res := false
	allInstrs(fn, func(in ssa.Instruction) {
		if res {
			return
		}
		if _, ok := in.(*ssa.Go); ok {
			res = true
			return
		}
		if ci, ok := in.(*ssa.Call); ok {
			if cal := staticCallee(ci); cal != nil && p.allFns[cal] && p.fnSpawns(cal, seen) {
				res = true
			}
		}
	})
	return res
}

// isConstruction: the access happens before anything can run concurrently with
// it: its base is a fresh allocation of the same function, or it lies in the
// connection loop's prologue, i.e. no spawning instruction can reach it.
func (c *Ctx) isConstruction(u FieldUse) bool {
	if isFreshAlloc(u.Base) {
		return true
	}
	noSpawnBefore := func(fn *ssa.Function, at ssa.Instruction) bool {
		spawned := false
		allInstrs(fn, func(in ssa.Instruction) {
			if spawned || !c.P.spawns(in) {
				return
			}
			if in == at || reachFrom(in, func(x ssa.Instruction) bool { return x == at }, nil) != nil {
				spawned = true
			}
		})
		return !spawned
	}
	if u.Fn == c.R.FnLoop {
		return noSpawnBefore(u.Fn, u.At)
	}
	// a helper that sets up the connection state and is only ever called from the loop's prologue
	// (initConnState()): nothing runs concurrently there either
	if c.R.FnLoop == nil || c.P.asyncUsed(u.Fn) {
		return false
	}
	callers := c.P.syncCallers(u.Fn)
	if len(callers) == 0 || !noSpawnBefore(u.Fn, u.At) {
		return false
	}
	for _, cs := range callers {
		if cs.Parent() != c.R.FnLoop || !noSpawnBefore(c.R.FnLoop, cs) {
			return false
		}
	}
	return true
}

func runC14(c *Ctx) {
	p, r := c.P, c.R
	li := p.lockInfo()
	c.rule("R14.1", "every gorilla write-side call on the connection's socket holds a mutex, and one mutex is common to all of them")
	c.rule("R14.1b", "the message writer returned by NextWriter stays inside the write-lock critical section and is closed on every path after use")
	c.rule("R14.2", "every non-construction store to the socket field holds the common write lock")
	c.rule("R14.3", "a closure that publishes the message writer blocks until the consumer is done, and the completion signal is raised only after the consumer callback returned")
	c.rule("R14.4", "each shared table/flag of the connection has one guarding mutex that is held at every non-construction access")

	// ---- R14.7: what is encoded straight into an open message cannot fail half-way
	c.rule("R14.7", "values of user-chosen types are marshalled before a message is opened: nothing handed to WriteJSON contains an un-marshalled parameter value")
	{
		n := 0
		var hasUserValue func(t types.Type, d int) bool
		hasUserValue = func(t types.Type, d int) bool {
			if d > 6 {
				return false
			}
			if isNamed(t, "reflect", "Value") {
				return true
			}
			switch u := t.Underlying().(type) {
			case *types.Struct:
				for i := 0; i < u.NumFields(); i++ {
					if hasUserValue(u.Field(i).Type(), d+1) {
						return true
					}
				}
			case *types.Slice:
				return hasUserValue(u.Elem(), d+1)
			case *types.Array:
				return hasUserValue(u.Elem(), d+1)
			case *types.Pointer:
				return hasUserValue(u.Elem(), d+1)
			}
			return false
		}
		for _, ci := range gorillaConnCalls(p) {
			if methodOf(ci) != "WriteJSON" {
				continue
			}
			n++
			arg := ci.Common().Args[1]
			t := arg.Type()
			if mi, ok := arg.(*ssa.MakeInterface); ok {
				t = mi.X.Type()
			}
			c.check(!hasUserValue(t, 0), "R14.7", fmt.Sprintf("%s: value encoded into an open message", fname(ci.Parent())), c.ipos(ci), "contains only pre-marshalled parts", "a structure holding un-marshalled parameter values (reflect.Value) is encoded straight into the open message: when encoding/json refuses one of them (NaN, a failing MarshalJSON) the message has already been opened and an empty or partial, non-JSON message goes on the wire")
		}
		if n == 0 {
			c.ok("R14.7", "WriteJSON", "-", "not used")
		}
	}

	// ---- R14.8: bytes written to the socket are not kept in unguarded per-connection scratch memory
	c.ruleOpt("R14.9", "one WebSocket message carries exactly one JSON value: an encoder built over a message writer obtained from the socket encodes once (no loop, no second Encode before the writer is closed)")
	c.oneValuePerMessage("R14.9")
	c.ruleOpt("R14.8", "what is written to the socket is not assembled in a field of the connection object outside the write lock (a scratch buffer shared by the loop, the forwarder and the cancel goroutines)")
	{
		n := 0
		for _, ci := range gorillaConnCalls(p) {
			if methodOf(ci) != "WriteMessage" || len(ci.Common().Args) < 3 {
				continue
			}
			data := ci.Common().Args[2]
			var shared *types.Var
			c.dependsOn(data, func(v ssa.Value) bool {
				if fa, ok := v.(*ssa.FieldAddr); ok {
					if pt, ok := fa.X.Type().Underlying().(*types.Pointer); ok && r.TConn != nil && pt.Elem() == types.Type(r.TConn) {
						f := fieldOfAddr(fa)
						if _, isChan := f.Type().Underlying().(*types.Chan); !isChan && f != r.FSock {
							shared = f
						}
					}
				}
				return false
			}, 0, map[ssa.Value]bool{})
			if shared == nil {
				continue
			}
			n++
			held := li.mustAt(ci)
			construct := fmt.Sprintf("%s: message assembled in connection field %s", fname(ci.Parent()), shared.Name())
			var bare ssa.Instruction
			for _, u := range p.uses(shared) {
				if c.isConstruction(u) {
					continue
				}
				ok := false
				for l := range li.mustAt(u.At) {
					if held[l] {
						ok = true
					}
				}
				if !ok && bare == nil {
					bare = u.At
				}
			}
			if bare != nil {
				c.bad("R14.8", construct, c.ipos(bare), "the bytes handed to the socket are assembled in a field of the connection object that is touched here without the write lock: the loop, the forwarder and the cancel goroutines all send requests, so two of them encode into the same buffer at once and empty, concatenated or duplicated messages go out in otherwise valid frames")
			} else {
				c.ok("R14.8", construct, c.ipos(ci), "every access holds the lock held at the write")
			}
		}
		if n == 0 {
			c.ok("R14.8", "socket writes", "-", "no message is assembled in a field of the connection object")
		}
	}

	// ---- R14.1
	var common lockSet
	type site struct {
		ci ssa.CallInstruction
		ls lockSet
	}
	var sites []site
	for _, ci := range gorillaConnCalls(p) {
		if !gorillaWriteSide[methodOf(ci)] {
			// WriteControl may run concurrently with a message writer as far as gorilla is concerned, and a
			// ping or pong between two fragments is harmless. A close frame is not: every later write fails
			// with ErrCloseSent, so a message whose fragments are still being written is cut short.
			if methodOf(ci) != "WriteControl" || len(ci.Common().Args) < 2 {
				continue
			}
			if k, isK := constInt(ci.Common().Args[1]); isK && (k == 9 || k == 10) {
				continue
			}
		}
		ls := li.mustAt(ci)
		sites = append(sites, site{ci, ls})
		if common == nil {
			common = ls.clone()
		} else {
			common = intersect(common, ls)
		}
	}
	// the write lock = most frequently held lock over the sites
	var writeLock lockID
	{
		cnt := map[lockID]int{}
		for _, s := range sites {
			for l := range s.ls {
				cnt[l]++
			}
		}
		best := -1
		var ids []lockID
		for l := range cnt {
			ids = append(ids, l)
		}
		sort.Slice(ids, func(i, j int) bool { return ids[i].String() < ids[j].String() })
		for _, l := range ids {
			if cnt[l] > best {
				best, writeLock = cnt[l], l
			}
		}
	}
	for _, s := range sites {
		construct := fmt.Sprintf("%s: call %s on socket", fname(s.ci.Parent()), methodOf(s.ci))
		if len(sites) > 0 && (writeLock == lockID{}) {
			c.bad("R14.1", construct, c.ipos(s.ci), "no mutex is held at this write-side socket call")
			continue
		}
		c.check(s.ls[writeLock], "R14.1", construct, c.ipos(s.ci),
			"held: "+s.ls.names(), fmt.Sprintf("write lock (%s) not held here; held: %s", writeLock, s.ls.names()))
	}

	// ---- R14.1b writer lifetime
	for _, s := range sites {
		if methodOf(s.ci) != "NextWriter" {
			continue
		}
		call, ok := s.ci.(*ssa.Call)
		if !ok {
			continue
		}
		construct := fmt.Sprintf("%s: message writer from NextWriter", fname(call.Parent()))
		// the writer value: Extract #0 of the tuple
		var w ssa.Value
		for _, ref := range *call.Referrers() {
			if ex, ok := ref.(*ssa.Extract); ok && ex.Index == 0 {
				w = ex
			}
		}
		if w == nil {
			c.und("R14.1b", construct, c.ipos(call), "writer result not bound")
			continue
		}
		isCloseW := func(in ssa.Instruction) bool {
			ci, ok := in.(*ssa.Call)
			return ok && ci.Common().IsInvoke() && ci.Common().Method.Name() == "Close" && ci.Common().Value == w
		}
		// uses of the writer: callback invocations
		var uses []ssa.Instruction
		escapes := false
		refs := append([]ssa.Instruction{}, *w.Referrers()...)
		alias := map[ssa.Value]bool{w: true}
		for i := 0; i < len(refs); i++ {
			switch ch := refs[i].(type) {
			case *ssa.ChangeInterface:
				if !alias[ch] {
					alias[ch] = true
					refs = append(refs, *ch.Referrers()...)
				}
			case *ssa.Phi:
				// "the message writer, or a discarding writer when NextWriter failed"
				if !alias[ch] {
					alias[ch] = true
					refs = append(refs, *ch.Referrers()...)
				}
			}
		}
		for _, ref := range refs {
			switch x := ref.(type) {
			case *ssa.ChangeInterface, *ssa.Phi:
			case *ssa.BinOp:
				// comparison of the writer with nil
			case *ssa.Call:
				if isCloseW(x) {
					continue
				}
				passed := false
				for _, a := range x.Common().Args {
					if alias[a] {
						passed = true
					}
				}
				if passed {
					uses = append(uses, x)
				} else if alias[x.Common().Value] {
					uses = append(uses, x) // method on the writer (Write)
				}
			case *ssa.DebugRef:
			default:
				_ = x
				escapes = true
			}
		}
		if escapes {
			c.bad("R14.1b", construct, c.ipos(call), "the message writer is stored or passed on other than as a synchronous call argument")
			continue
		}
		okAll := true
		// no unlock of the write lock between NextWriter and Close
		unlock := func(in ssa.Instruction) bool {
			ci, ok := in.(*ssa.Call)
			if !ok {
				return false
			}
			id, op := p.lockOp(ci)
			return op == -1 && id == writeLock
		}
		// (only paths on which NextWriter succeeded have an open writer)
		var werr ssa.Value
		for _, ref := range *call.Referrers() {
			if ex, ok := ref.(*ssa.Extract); ok && ex.Index == 1 {
				werr = ex
			}
		}
		var veto func(*ssa.BasicBlock, int) bool
		if werr != nil {
			veto = c.errEdgeVeto(werr, false)
		}
		if wit := reachFromF(call, unlock, isCloseW, veto); wit != nil {
			okAll = false
			c.bad("R14.1b", construct, c.ipos(wit), "the write lock can be released while the message writer is still open")
		}
		mustFollowOK := func(u ssa.Instruction) ssa.Instruction {
			sr := newIPSearch(isEnd, isCloseW)
			sr.up = true
			sr.edgeOK = veto
			if sr.scan(u.Block(), instrIndex(u)+1, nil) {
				return sr.found
			}
			return nil
		}
		for _, u := range uses {
			if ret := mustFollowOK(u); ret != nil {
				okAll = false
				c.bad("R14.1b", construct, c.ipos(ret), fmt.Sprintf("a path from the use of the writer at %s returns without closing (flushing) it", c.ipos(u)))
			}
		}
		if len(uses) == 0 {
			okAll = false
			c.und("R14.1b", construct, c.ipos(call), "no use of the writer found")
		}
		if okAll {
			c.ok("R14.1b", construct, c.ipos(call), fmt.Sprintf("%d use(s), each followed by Close on all paths; no unlock in between", len(uses)))
		}
	}

	// ---- R14.2
	for _, u := range usesOfKind(p.uses(r.FSock), "store") {
		if c.isConstruction(u) {
			continue
		}
		construct := fmt.Sprintf("%s: store to socket field", fname(u.Fn))
		ls := li.mustAt(u.At)
		c.check(ls[writeLock] && (writeLock != lockID{}), "R14.2", construct, c.ipos(u.At), "held: "+ls.names(),
			fmt.Sprintf("socket swapped without the write lock (%s); held: %s", writeLock, ls.names()))
	}
	if c.ruleN["R14.2"] == 0 && r.FnRedial == nil {
		c.need("R14.2", "FN_redial", false)
	}

	// ---- R14.3 lazy writer confinement
	c.lazyWriterRule()

	// ---- R14.4 guarded state
	type guarded struct {
		name string
		f    *types.Var
	}
	for _, g := range []guarded{{"in-flight table", r.FInflight}, {"handling table", r.FHandling}, {"channel-sink table", r.FChanh}, {"connection-unusable flag", r.FFlag}, {"sink callback", r.FChanhCb}} {
		if !c.need("R14.4", g.name, g.f != nil) {
			continue
		}
		c.guardRule("R14.4", g.name, p.uses(g.f))
	}
	c.capturedMapGuard("R14.4")

	// ---- R14.5 pooled buffers
	c.ruleOpt("R14.6", "an object handed to another goroutine over a channel is not returned to a sync.Pool by the sender")
	c.poolSharedRule("R14.6", nil)
	c.ruleOpt("R14.5", "an object handed back to a sync.Pool (and byte slices obtained from it) is not used afterwards")
	c.pooledUseAfterPut("R14.5")
}

// guardRule: infer the guard (the lock most often held) and require it at every
// non-construction access.
func (c *Ctx) guardRule(rule, name string, us []FieldUse) {
	li := c.P.lockInfo()
	var acc []FieldUse
	for _, u := range us {
		switch u.Kind {
		case "subfield", "addr-arg":
			continue
		}
		if c.isConstruction(u) {
			continue
		}
		acc = append(acc, u)
	}
	cnt := map[lockID]int{}
	for _, u := range acc {
		for l := range li.mustAt(u.At) {
			cnt[l]++
		}
	}
	var guard lockID
	best := 0
	var ids []lockID
	for l := range cnt {
		ids = append(ids, l)
	}
	sort.Slice(ids, func(i, j int) bool { return ids[i].String() < ids[j].String() })
	for _, l := range ids {
		if cnt[l] > best {
			best, guard = cnt[l], l
		}
	}
	// de-duplicate per (function, kind)
	type key struct{ fn, kind string }
	seenOK := map[key]bool{}
	for _, u := range acc {
		construct := fmt.Sprintf("%s: %s of %s", fname(u.Fn), u.Kind, name)
		ls := li.mustAt(u.At)
		if best == 0 {
			c.bad(rule, construct, c.ipos(u.At), "no mutex is held at any access of this shared state")
			continue
		}
		if ls[guard] {
			k := key{fname(u.Fn), u.Kind}
			if !seenOK[k] {
				seenOK[k] = true
				c.ok(rule, construct, c.ipos(u.At), fmt.Sprintf("guard %s held", guard))
			}
		} else {
			c.bad(rule, construct, c.ipos(u.At), fmt.Sprintf("guard (%s, held at %d of %d accesses) not held here; held: %s", guard, best, len(acc), ls.names()))
		}
	}
}

// capturedMapGuard: maps that are local variables shared by several closures
// (the httpio rendezvous table) must be accessed under one common mutex.
func (c *Ctx) capturedMapGuard(rule string) {
	p := c.P
	li := p.lockInfo()
	for _, fn := range p.Funcs {
		for _, b := range fn.Blocks {
			for _, in := range b.Instrs {
				al, ok := in.(*ssa.Alloc)
				if !ok || !al.Heap {
					continue
				}
				if _, isMap := al.Type().(*types.Pointer).Elem().Underlying().(*types.Map); !isMap {
					continue
				}
				// closures capturing it
				var accesses []ssa.Instruction
				nclos := 0
				for _, ref := range *al.Referrers() {
					mc, ok := ref.(*ssa.MakeClosure)
					if !ok {
						continue
					}
					nclos++
					cf := mc.Fn.(*ssa.Function)
					for i, bnd := range mc.Bindings {
						if bnd != al {
							continue
						}
						fv := cf.FreeVars[i]
						for _, fr := range *fv.Referrers() {
							if ld, ok := fr.(*ssa.UnOp); ok && ld.Op == token.MUL {
								for _, use := range *ld.Referrers() {
									switch use.(type) {
									case *ssa.Lookup, *ssa.MapUpdate, *ssa.Range, ssa.CallInstruction:
										accesses = append(accesses, use)
									}
								}
							}
							if st, ok := fr.(*ssa.Store); ok {
								accesses = append(accesses, st)
							}
						}
					}
				}
				if nclos < 2 || len(accesses) == 0 {
					continue
				}
				var common lockSet
				for _, a := range accesses {
					if common == nil {
						common = li.mustAt(a).clone()
					} else {
						common = intersect(common, li.mustAt(a))
					}
				}
				for _, a := range accesses {
					construct := fmt.Sprintf("%s: access to shared map %s", fname(a.Parent()), al.Comment)
					c.check(len(common) > 0, rule, construct, c.ipos(a), "common guard "+common.names(),
						"no common mutex over the accesses of this captured map; held here: "+li.mustAt(a).names())
				}
			}
		}
	}
}

func (c *Ctx) lazyWriterRule() {
	p := c.P
	rule := "R14.3"
	// publishers: functions with an io.Writer parameter stored into a struct field
	for _, fn := range p.Funcs {
		if pkgOf(fn) != p.Root.Pkg {
			continue
		}
		// a publisher is a consumer of a message writer: a func(io.Writer) handed to a writer provider. A function
		// that merely keeps its own output writer in a small struct (handleReader's reply writer) is not one.
		if fn.Signature.Params().Len() != 1 {
			continue
		}
		for _, prm := range fn.Params {
			if !isNamed(prm.Type(), "io", "Writer") {
				continue
			}
			var pubStore *ssa.Store
			for _, ref := range *prm.Referrers() {
				if st, ok := ref.(*ssa.Store); ok && st.Val == prm {
					if _, ok := st.Addr.(*ssa.FieldAddr); ok {
						pubStore = st
					}
				}
			}
			if pubStore == nil {
				continue
			}
			construct := fmt.Sprintf("%s: publishes the message writer", fname(fn))
			// after publishing, every path to return must block on a channel receive
			var doneField *types.Var
			isRecv := func(in ssa.Instruction) bool {
				u, ok := in.(*ssa.UnOp)
				if !ok || u.Op != token.ARROW {
					return false
				}
				if ld, ok := u.X.(*ssa.UnOp); ok && ld.Op == token.MUL {
					if fa, ok := ld.X.(*ssa.FieldAddr); ok {
						doneField = fieldOfAddr(fa)
					}
				}
				return true
			}
			if ret := mustFollow(pubStore, isRecv); ret != nil {
				c.bad(rule, construct, c.ipos(ret), "a path returns (releasing the write lock) right after publishing the writer, without waiting for the consumer")
				continue
			}
			if doneField == nil {
				c.und(rule, construct, c.ipos(pubStore), "completion signal is not a struct field; cannot relate it to the consumer")
				continue
			}
			// completion signal: every close site is a defer registered before the consumer runs, or dominated by the consumer call
			okAll := true
			nclose := 0
			for _, u := range usesOfKind(p.uses(doneField), "close") {
				nclose++
				if _, isDefer := u.At.(*ssa.Defer); isDefer {
					continue
				}
				// direct close: no call taking the lazy writer object may follow
				base := u.Base
				follows := reachFrom(u.At, func(in ssa.Instruction) bool {
					ci, ok := in.(ssa.CallInstruction)
					if !ok {
						return false
					}
					for _, a := range ci.Common().Args {
						if stripConv(a) == base {
							return true
						}
					}
					return false
				}, nil)
				if follows != nil {
					okAll = false
					c.bad(rule, construct, c.ipos(u.At), "the completion signal is raised before the consumer callback is invoked")
				}
			}
			if nclose == 0 {
				okAll = false
				c.bad(rule, construct, c.ipos(pubStore), "the completion signal the publisher waits for is never raised")
			}
			if okAll {
				c.ok(rule, construct, c.ipos(pubStore), fmt.Sprintf("waits on %s; %d close site(s), all at/after consumer return", doneField.Name(), nclose))
			}
		}
	}
}

// pooledUseAfterPut: an object returned to a sync.Pool, a byte slice obtained from it, or a local that
// holds either, is not used after the Put (also not by a closure created afterwards that captured it).
func (c *Ctx) pooledUseAfterPut(rule string) {
	p := c.P
	for _, fn := range p.Funcs {
		allInstrs(fn, func(in ssa.Instruction) {
			put, ok := in.(*ssa.Call)
			if !ok || calleeName(put) != "(*sync.Pool).Put" {
				return
			}
			obj := stripConv(put.Common().Args[1])
			derived := map[ssa.Value]bool{obj: true}
			if refs := obj.Referrers(); refs != nil {
				for _, ref := range *refs {
					if call, ok := ref.(*ssa.Call); ok && call != put {
						if _, isSlice := call.Type().Underlying().(*types.Slice); isSlice {
							derived[call] = true
						}
					}
				}
			}
			// locals (captured variables) holding a derived value
			for v := range derived {
				if v.Referrers() == nil {
					continue
				}
				for _, ref := range *v.Referrers() {
					if st, ok := ref.(*ssa.Store); ok && st.Val == v {
						if al, ok := st.Addr.(*ssa.Alloc); ok {
							derived[al] = true
						}
					}
				}
			}
			construct := fmt.Sprintf("%s: object returned to a sync.Pool", fname(fn))
			use := reachFrom(put, func(x ssa.Instruction) bool {
				if x == ssa.Instruction(put) {
					return false
				}
				if st, ok := x.(*ssa.Store); ok && derived[st.Addr] && !derived[stripConv(st.Val)] {
					return false // the local is given a new value
				}
				for _, op := range x.Operands(nil) {
					if op != nil && *op != nil && derived[stripConv(*op)] {
						if _, isDbg := x.(*ssa.DebugRef); !isDbg {
							return true
						}
					}
				}
				return false
			}, nil)
			c.check(use == nil, rule, construct, c.ipos(put), "not used after Put", "the pooled object (or a byte slice taken from it) is still used after being returned to the pool: a concurrent user of the pool overwrites the bytes that are about to be written, so replies are duplicated, lost or blended")
		})
	}
}

// oneValuePerMessage: R14.9.
func (c *Ctx) oneValuePerMessage(rule string) {
	p := c.P
	isSockWriter := func(v ssa.Value) bool {
		return c.dependsOn(v, func(x ssa.Value) bool {
			call, ok := x.(*ssa.Call)
			return ok && calleeName(call) == "(*github.com/gorilla/websocket.Conn).NextWriter"
		}, 0, map[ssa.Value]bool{})
	}
	n := 0
	for _, fn := range p.Funcs {
		if pkgOf(fn) != p.Root.Pkg {
			continue
		}
		allInstrsRaw(fn, func(in ssa.Instruction) {
			mk, ok := in.(*ssa.Call)
			if !ok || calleeName(mk) != "encoding/json.NewEncoder" || !isSockWriter(mk.Common().Args[0]) {
				return
			}
			var encs []*ssa.Call
			for _, ref := range *mk.Referrers() {
				if e, ok := ref.(*ssa.Call); ok && calleeName(e) == "(*encoding/json.Encoder).Encode" {
					encs = append(encs, e)
				}
			}
			for _, e := range encs {
				n++
				construct := fmt.Sprintf("%s: JSON values written into one socket message", fname(fn))
				again := inLoop(e.Block()) && !inLoop(mk.Block())
				if !again {
					again = reachFrom(e, func(x ssa.Instruction) bool {
						for _, o := range encs {
							if x == ssa.Instruction(o) {
								return true
							}
						}
						return false
					}, func(x ssa.Instruction) bool { return x == ssa.Instruction(mk) }) != nil
				}
				c.check(!again, rule, construct, c.ipos(e), "one Encode per message writer", "more than one JSON value is encoded into the same WebSocket message (a burst written through one writer): the peer decodes a message as one value, fails on the second one and drops the whole message")
			}
		})
	}
	if n == 0 {
		c.ok(rule, "encoders over socket message writers", "-", "none (messages are written with WriteJSON or through the locked writer provider)")
	}
}
