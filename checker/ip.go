package main

import (
	"fmt"
	"go/constant"
	"go/token"
	"go/types"
	"strings"

	"golang.org/x/tools/go/ssa"
)

// ---------------------------------------------------------------------------
// Interprocedural ("virtually inlined") control-flow search.
//
// Rules must not depend on whether a piece of logic sits in a function or in a
// helper it calls. The searcher therefore follows synchronous static calls into
// tree functions (call-string context, bounded depth) and, when asked to, keeps
// going in the callers after the start function returns, until an *activity
// root* is reached (a goroutine entry, the connection loop, the frame executor,
// or a function without synchronous static callers).

// ipExhausted counts searches that hit their step budget.
var ipExhausted int

var theProg *Prog // set by main: lets the plain helpers (reachFrom, mustPrecede, …) be interprocedural

const ipMaxDepth = 5

// syncCallee: the tree function executed synchronously by this instruction.
func (p *Prog) syncCallee(in ssa.Instruction) *ssa.Function {
	call, ok := in.(*ssa.Call)
	if !ok {
		return nil
	}
	if g := p.unbound(staticCallee(call)); g != nil && p.allFns[g] && len(g.Blocks) > 0 {
		return g
	}
	// sync.Once.Do(f) runs f synchronously (the first time)
	if calleeName(call) == "(*sync.Once).Do" && len(call.Common().Args) == 2 {
		switch x := call.Common().Args[1].(type) {
		case *ssa.MakeClosure:
			if f, ok := x.Fn.(*ssa.Function); ok {
				if f = p.unbound(f); p.allFns[f] && len(f.Blocks) > 0 {
					return f
				}
			}
		case *ssa.Function:
			if p.allFns[x] {
				return x
			}
		}
	}
	return nil
}

// syncCallers: synchronous static call sites of fn in the tree (incl. Once.Do(fn-closure)).
func (p *Prog) syncCallers(fn *ssa.Function) []*ssa.Call {
	if p.syncCallersCache == nil {
		p.syncCallersCache = map[*ssa.Function][]*ssa.Call{}
		for _, f := range p.Funcs {
			allInstrsRaw(f, func(in ssa.Instruction) {
				if g := p.syncCallee(in); g != nil {
					p.syncCallersCache[g] = append(p.syncCallersCache[g], in.(*ssa.Call))
				}
			})
		}
	}
	return p.syncCallersCache[fn]
}

// asyncUsed: fn is also started with go, deferred, or used as a value (stored, passed on):
// then its callers' context cannot be assumed.
func (p *Prog) asyncUsed(fn *ssa.Function) bool {
	for _, ci := range p.callers[fn] {
		if _, ok := ci.(*ssa.Call); !ok {
			return true
		}
	}
	for _, mc := range p.closure[fn] {
		for _, ref := range *mc.Referrers() {
			switch x := ref.(type) {
			case *ssa.Call:
				if x.Common().Value == ssa.Value(mc) {
					continue
				}
				if calleeName(x) == "(*sync.Once).Do" {
					continue
				}
				return true
			case *ssa.DebugRef:
			default:
				return true
			}
		}
	}
	// bound-method / function values of named functions
	if p.valueUsed == nil {
		p.valueUsed = map[*ssa.Function]bool{}
		for _, f := range p.Funcs {
			allInstrsRaw(f, func(in ssa.Instruction) {
				for _, op := range in.Operands(nil) {
					if op == nil || *op == nil {
						continue
					}
					var g *ssa.Function
					switch x := (*op).(type) {
					case *ssa.Function:
						g = x
					case *ssa.MakeClosure:
						if ff, ok := x.Fn.(*ssa.Function); ok && ff.Synthetic != "" {
							g = p.unbound(ff)
						}
					}
					if g == nil {
						continue
					}
					if ci, ok := in.(ssa.CallInstruction); ok && ci.Common().Value == *op {
						continue // callee position of a call / go / defer: not a value use
					}
					if _, isMC := in.(*ssa.MakeClosure); isMC {
						continue
					}
					if ci, ok := in.(*ssa.Call); ok && calleeName(ci) == "(*sync.Once).Do" {
						continue // runs synchronously there
					}
					p.valueUsed[g] = true
				}
			})
		}
	}
	return p.valueUsed[fn]
}

// activityRoot: control returning from fn ends the activity being analysed.
func (p *Prog) activityRoot(fn *ssa.Function) bool {
	if p.roots != nil && p.roots[fn] {
		return true
	}
	return len(p.syncCallers(fn)) == 0 || p.asyncUsed(fn)
}

func allInstrsRaw(fn *ssa.Function, f func(ssa.Instruction)) {
	for _, b := range fn.Blocks {
		for _, in := range b.Instrs {
			f(in)
		}
	}
}

// factSet: values known to be a boolean constant / nil / non-nil on the path being explored
// (results of a callee that returned constants, parameters bound to constant arguments).
type factSet struct {
	v     ssa.Value
	kind  int // 1 true, 2 false, 3 nil, 4 non-nil, 5 same value as alias (a phi entered along a known edge)
	alias ssa.Value
	next  *factSet
}

// aliasOf: the value a boolean phi stands for on the path being explored (itself if unknown).
func (f *factSet) aliasOf(v ssa.Value) ssa.Value {
	for i := 0; i < 4; i++ {
		found := false
		for x := f; x != nil; x = x.next {
			if x.v == v && x.kind == 5 && x.alias != nil {
				v, found = x.alias, true
				break
			}
		}
		if !found {
			break
		}
	}
	return v
}

// curFacts: path facts of the edge an edge filter is currently being asked about.
var curFacts *factSet

func (f *factSet) add(v ssa.Value, kind int) *factSet { return &factSet{v: v, kind: kind, next: f} }

// without: the facts minus the one about v (v is being recomputed).
func (f *factSet) without(v ssa.Value) *factSet {
	if f == nil {
		return nil
	}
	if f.v == v {
		return f.next.without(v)
	}
	rest := f.next.without(v)
	if rest == f.next {
		return f
	}
	return &factSet{v: f.v, kind: f.kind, alias: f.alias, next: rest}
}

// multiTested: the boolean value decides more than one branch (directly or negated).
func multiTested(v ssa.Value) bool {
	if _, isConst := v.(*ssa.Const); isConst || v.Referrers() == nil {
		return false
	}
	n := 0
	var count func(x ssa.Value, d int)
	count = func(x ssa.Value, d int) {
		if x.Referrers() == nil || d > 2 {
			return
		}
		for _, ref := range *x.Referrers() {
			switch y := ref.(type) {
			case *ssa.If:
				n++
			case *ssa.UnOp:
				if y.Op == token.NOT {
					count(y, d+1)
				}
			}
		}
	}
	count(v, 0)
	return n >= 2
}

func (f *factSet) get(v ssa.Value) int {
	for x := f; x != nil; x = x.next {
		if x.v == v {
			return x.kind
		}
	}
	return 0
}

func constKind(v ssa.Value) int {
	k, ok := v.(*ssa.Const)
	if !ok {
		return 0
	}
	if k.Value == nil {
		if _, isBasic := k.Type().Underlying().(*types.Basic); isBasic {
			return 0
		}
		return 3
	}
	if k.Value.Kind() == constant.Bool {
		if constant.BoolVal(k.Value) {
			return 1
		}
		return 2
	}
	return 0
}

// evalCond: 1 = certainly true, 2 = certainly false, 0 = unknown, under the path facts.
func evalCond(cond ssa.Value, f *factSet) int {
	if f == nil {
		return 0
	}
	cond = f.aliasOf(cond)
	if k := f.get(cond); k == 1 || k == 2 {
		return k
	}
	switch x := cond.(type) {
	case *ssa.UnOp:
		if x.Op == token.NOT {
			switch evalCond(x.X, f) {
			case 1:
				return 2
			case 2:
				return 1
			}
		}
	case *ssa.BinOp:
		if x.Op != token.EQL && x.Op != token.NEQ {
			return 0
		}
		var other ssa.Value
		if isNilConst(x.Y) {
			other = x.X
		} else if isNilConst(x.X) {
			other = x.Y
		} else {
			// comparison with a bool constant
			if ky := constKind(x.Y); ky == 1 || ky == 2 {
				if kx := f.get(x.X); kx == 1 || kx == 2 {
					eq := kx == ky
					if (x.Op == token.EQL) == eq {
						return 1
					}
					return 2
				}
			}
			return 0
		}
		switch f.get(other) {
		case 3:
			if x.Op == token.EQL {
				return 1
			}
			return 2
		case 4:
			if x.Op == token.EQL {
				return 2
			}
			return 1
		}
	}
	return 0
}

type ipSearch struct {
	p        *Prog
	target   ipred
	avoid    ipred
	edgeOK   func(from *ssa.BasicBlock, succIdx int) bool
	up       bool          // continue in the callers after the start function returns
	flat     bool          // do not descend into callees (plain intraprocedural search)
	stop     *ssa.Function // with up: this function's returns end the activity
	seen     map[string]bool
	factSeen map[string][]*factSet // per program point: the fact sets it was explored under
	found    ssa.Instruction
	visited  int
}

func stackKey(stack []*ssa.Call) string {
	if len(stack) == 0 {
		return ""
	}
	var sb strings.Builder
	for _, c := range stack {
		fmt.Fprintf(&sb, "%p/", c)
	}
	return sb.String()
}

func inStack(stack []*ssa.Call, g *ssa.Function) bool {
	for _, c := range stack {
		if c.Parent() == g {
			return true
		}
	}
	return false
}

// scan explores from (b, from) in calling context `stack`.
func (s *ipSearch) scan(b *ssa.BasicBlock, from int, stack []*ssa.Call) bool {
	return s.scanF(b, from, stack, seedFacts(b))
}

// seedFacts: what is already decided where a search starts: the outcomes of mode flags and boolean
// parameters that the start block is conditioned on (a search starting inside `if closing { … }`
// knows closing is true; one starting inside `if remove { … }` knows the helper was called with true).
func seedFacts(b *ssa.BasicBlock) *factSet {
	var f *factSet
	for _, cf := range impliedConds(b) {
		cond, kind := cf.Cond, 1
		if !cf.True {
			kind = 2
		}
		for {
			u, ok := cond.(*ssa.UnOp)
			if !ok || u.Op != token.NOT {
				break
			}
			cond, kind = u.X, 3-kind
		}
		_, isParam := cond.(*ssa.Parameter)
		if (isParam || multiTested(cond)) && f.get(cond) == 0 {
			f = f.add(cond, kind)
		}
	}
	return f
}

// callerContradicts: the call site passes a constant for a parameter that the path knows to have the other value.
func callerContradicts(cs *ssa.Call, fn *ssa.Function, facts *factSet) bool {
	args := cs.Common().Args
	if len(args) != len(fn.Params) {
		return false
	}
	for i, q := range fn.Params {
		k := facts.get(q)
		if k == 0 {
			continue
		}
		if ka := constKind(args[i]); ka != 0 && ka != k && (k == 1 || k == 2 || k == 3) {
			return true
		}
	}
	return false
}

// curStack: calling context of the instruction a predicate is currently being asked about
// (lets value resolution pick the right call site for parameters).
var curStack []*ssa.Call

func (s *ipSearch) scanF(b *ssa.BasicBlock, from int, stack []*ssa.Call, facts *factSet) bool {
	s.visited++
	if s.visited > 200000 {
		ipExhausted++ // reported by the framework as an undecided obligation: no verdict rests on a cut-off search
		return false
	}
	for i := from; i < len(b.Instrs); i++ {
		in := b.Instrs[i]
		if _, isRet := in.(*ssa.Return); isRet {
			if len(stack) > 0 {
				call := stack[len(stack)-1]
				nf := retFacts(call, in.(*ssa.Return), facts)
				return s.scanF(call.Block(), instrIndex(call)+1, stack[:len(stack)-1], nf)
			}
			if s.up && b.Parent() != s.stop && !s.p.activityRoot(b.Parent()) {
				for _, cs := range s.p.syncCallers(b.Parent()) {
					if callerContradicts(cs, b.Parent(), facts) {
						continue // this caller cannot be the one: it passes the opposite constant
					}
					nf := retFacts(cs, in.(*ssa.Return), nil)
					key := fmt.Sprintf("up%p|%s", cs, factsKey(nf))
					if s.seen[key] {
						continue
					}
					s.seen[key] = true
					if s.scanF(cs.Block(), instrIndex(cs)+1, nil, nf) {
						return true
					}
				}
				return false
			}
		}
		curStack = stack
		if facts != nil {
			if v, ok := in.(ssa.Value); ok && facts.get(v) != 0 {
				_, isCall := in.(*ssa.Call)
				_, isPhi := in.(*ssa.Phi)
				_, isEx := in.(*ssa.Extract)
				if !isCall && !isPhi && !isEx {
					facts = facts.without(v) // recomputed (next loop iteration): the old outcome no longer binds
				}
			}
		}
		if s.up && s.p.boundary != nil && s.p.boundary[in] {
			// the event loop takes its next event here: the activity being analysed has ended
			if s.avoid != nil && s.avoid(in) {
				return false
			}
			if s.target != nil && s.target(in) {
				s.found = in
				return true
			}
			return false
		}
		if s.avoid != nil && s.avoid(in) {
			return false
		}
		if s.target != nil && s.target(in) {
			s.found = in
			return true
		}
		if !s.flat && len(stack) < ipMaxDepth {
			if g := s.p.syncCallee(in); g != nil && g != b.Parent() && !inStack(stack, g) {
				ns := append(append([]*ssa.Call{}, stack...), in.(*ssa.Call))
				key := fmt.Sprintf("%p|%s", g.Blocks[0], stackKey(ns))
				wf, skip := s.memo(key, facts)
				if skip {
					// this callee was already explored in this context under facts that allow at least
					// the paths allowed now; its continuation too
					return false
				}
				facts = wf
				// parameters bound to constant arguments are known inside the callee
				nf := facts
				args := in.(*ssa.Call).Common().Args
				if len(args) == len(g.Params) {
					for i, a := range args {
						if k := constKind(a); k != 0 {
							nf = nf.add(g.Params[i], k)
						}
					}
				}
				return s.scanF(g.Blocks[0], 0, ns, nf)
			}
		}
	}
	// branch pruning by path facts
	if iff, ok := b.Instrs[len(b.Instrs)-1].(*ssa.If); ok && facts != nil && len(b.Succs) == 2 {
		switch evalCond(iff.Cond, facts) {
		case 1:
			return s.follow(b, 0, stack, facts)
		case 2:
			return s.follow(b, 1, stack, facts)
		}
	}
	for k := range b.Succs {
		if s.follow(b, k, stack, facts) {
			return true
		}
	}
	return false
}

// subsumed: the program point `key` was already explored under a fact set that is a subset of
// `facts` (fewer facts prune fewer paths, so that exploration covered everything reachable now);
// otherwise records `facts` as explored.
func (s *ipSearch) subsumed(key string, facts *factSet) bool {
	_, skip := s.memo(key, facts)
	return skip
}

// memo: like subsumed, with widening: once a program point has been explored under several
// incomparable fact sets, the next visit drops all facts (every path is allowed again, as in a
// path-insensitive search), which subsumes all later visits. Returns the facts to continue with.
func (s *ipSearch) memo(key string, facts *factSet) (*factSet, bool) {
	if s.subsumedBy(key, facts) {
		return facts, true
	}
	if len(s.factSeen[key]) >= 6 && facts != nil {
		if s.subsumedBy(key, nil) {
			return nil, true
		}
		s.factSeen[key] = append(s.factSeen[key], nil)
		s.seen[key] = true
		return nil, false
	}
	s.factSeen[key] = append(s.factSeen[key], facts)
	s.seen[key] = true
	return facts, false
}

func (s *ipSearch) subsumedBy(key string, facts *factSet) bool {
	for _, prev := range s.factSeen[key] {
		sub := true
		for x := prev; x != nil; x = x.next {
			if x.kind == 5 {
				if facts.aliasOf(x.v) != x.alias {
					sub = false
					break
				}
				continue
			}
			if facts.get(x.v) != x.kind {
				sub = false
				break
			}
		}
		if sub {
			return true
		}
	}
	return false
}

// retFacts: constants returned by the callee become facts about the call's results in the caller.
func retFacts(call *ssa.Call, rt *ssa.Return, facts *factSet) *factSet {
	nf := facts
	// functions with defers spill their results into locals right before returning
	res := func(i int) ssa.Value { return blockLocalValue(rt.Results[i]) }
	// a value that is merely forwarded (return c.tryReconnect(ctx)) keeps what the path knows about it
	known := func(v ssa.Value) int {
		if k := facts.get(v); k >= 1 && k <= 4 {
			return k
		}
		return 0
	}
	if len(rt.Results) == 1 {
		if k := constKind(res(0)); k != 0 {
			nf = nf.add(call, k)
		} else if isFreshErrorValue(res(0)) || derefBefore(res(0), rt) {
			nf = nf.add(call, 4)
		} else if k := known(res(0)); k != 0 {
			nf = nf.add(call, k)
		}
	} else if refs := call.Referrers(); refs != nil {
		for _, ref := range *refs {
			if ex, ok := ref.(*ssa.Extract); ok && ex.Index < len(rt.Results) {
				if k := constKind(res(ex.Index)); k != 0 {
					nf = nf.add(ex, k)
				} else if isFreshErrorValue(res(ex.Index)) || derefBefore(res(ex.Index), rt) {
					nf = nf.add(ex, 4)
				} else if k := known(res(ex.Index)); k != 0 {
					nf = nf.add(ex, k)
				}
			}
		}
	}
	return nf
}

// derefBefore: pointer v was dereferenced on every path to `at` (so it is non-nil there).
func derefBefore(v ssa.Value, at ssa.Instruction) bool {
	if _, isPtr := v.Type().Underlying().(*types.Pointer); !isPtr || v.Referrers() == nil {
		return false
	}
	for _, ref := range *v.Referrers() {
		switch x := ref.(type) {
		case *ssa.FieldAddr:
			if x.X != v {
				continue
			}
		case *ssa.UnOp:
			if x.Op != token.MUL || x.X != v {
				continue
			}
		default:
			continue
		}
		// the address computation alone does not fault; require a use of it
		if fa, ok := ref.(*ssa.FieldAddr); ok {
			if fa.Referrers() == nil || len(*fa.Referrers()) == 0 {
				continue
			}
		}
		rb := ref.Block()
		if rb == at.Block() && instrIndex(ref) < instrIndex(at) {
			return true
		}
		if rb != at.Block() && rb.Dominates(at.Block()) {
			return true
		}
	}
	return false
}

func factsKey(f *factSet) string {
	if f == nil {
		return ""
	}
	var sb strings.Builder
	for x := f; x != nil; x = x.next {
		fmt.Fprintf(&sb, "%p=%d%p,", x.v, x.kind, x.alias)
	}
	return sb.String()
}

func (s *ipSearch) follow(b *ssa.BasicBlock, k int, stack []*ssa.Call, facts *factSet) bool {
	curFacts = facts
	if s.edgeOK != nil && !s.edgeOK(b, k) {
		return false
	}
	// a boolean that steers several branches (a mode flag computed once): remember which way
	// it went, so that later branches on the same value are taken consistently
	if iff, ok := b.Instrs[len(b.Instrs)-1].(*ssa.If); ok && len(b.Succs) == 2 && b.Succs[0] != b.Succs[1] {
		cond, kind := iff.Cond, 1
		if k == 1 {
			kind = 2
		}
		for {
			u, ok := cond.(*ssa.UnOp)
			if !ok || u.Op != token.NOT {
				break
			}
			cond, kind = u.X, 3-kind
		}
		if multiTested(cond) && facts.get(cond) == 0 {
			facts = facts.add(cond, kind)
		}
	}
	succ := b.Succs[k]
	// boolean phis at the head of the successor (short-circuit conditions kept as values):
	// along this edge they are a constant, or the very value computed in the predecessor
	for _, in := range succ.Instrs {
		ph, ok := in.(*ssa.Phi)
		if !ok {
			break
		}
		if bt, isB := ph.Type().Underlying().(*types.Basic); !isB || bt.Kind() != types.Bool {
			continue
		}
		for i, p := range succ.Preds {
			if p != b || i >= len(ph.Edges) {
				continue
			}
			e := ph.Edges[i]
			facts = facts.without(ph)
			if kk := constKind(e); kk == 1 || kk == 2 {
				facts = facts.add(ph, kk)
			} else if kk := facts.get(e); kk == 1 || kk == 2 {
				facts = facts.add(ph, kk)
			} else {
				facts = &factSet{v: ph, kind: 5, alias: e, next: facts}
			}
			break
		}
	}
	key := fmt.Sprintf("%p|%s", succ, stackKey(stack))
	if s.seen[key] && s.factSeen[key] == nil {
		return false // pre-seeded start block
	}
	facts, skip := s.memo(key, facts)
	if skip {
		return false
	}
	return s.scanF(succ, 0, stack, facts)
}

// isFreshErrorValue: a value that is certainly a non-nil error (constructor result).
func isFreshErrorValue(v ssa.Value) bool {
	if mi, ok := v.(*ssa.MakeInterface); ok {
		v = mi.X
		if _, isAlloc := v.(*ssa.Alloc); isAlloc {
			return true
		}
	}
	if call, ok := v.(*ssa.Call); ok {
		switch calleeName(call) {
		case "errors.New", "fmt.Errorf", "golang.org/x/xerrors.New", "golang.org/x/xerrors.Errorf":
			return true
		}
	}
	return false
}

func newIPSearch(target, avoid ipred) *ipSearch {
	return &ipSearch{p: theProg, target: target, avoid: avoid, seen: map[string]bool{}, factSeen: map[string][]*factSet{}}
}

// mustPrecedeIP: on every path of the enclosing activity that reaches b, an
// instruction satisfying A was executed before. Decided within b's function
// (following callees); if some path inside that function reaches b without A,
// every synchronous caller must establish A before the call.
func mustPrecedeIP(b ssa.Instruction, A ipred, depth int) bool {
	return mustPrecedeIPF(b, A, nil, depth)
}

// mustPrecedeIPF: mustPrecedeIP restricted to paths allowed by the edge filter.
func mustPrecedeIPF(b ssa.Instruction, A ipred, edgeOK func(*ssa.BasicBlock, int) bool, depth int) bool {
	return mustPrecedeIPOpt(b, A, edgeOK, depth, true)
}

// mustPrecedeIPOpt: followGo says whether what precedes a go statement counts as preceding
// the goroutine's body (true for events, false for held locks).
func mustPrecedeIPOpt(b ssa.Instruction, A ipred, edgeOK func(*ssa.BasicBlock, int) bool, depth int, followGo bool) bool {
	p := theProg
	fn := b.Parent()
	s := newIPSearch(func(in ssa.Instruction) bool { return in == b }, A)
	s.edgeOK = edgeOK
	if len(fn.Blocks) == 0 {
		return false
	}
	s.seen[fmt.Sprintf("%p|", fn.Blocks[0])] = true
	if !s.scan(fn.Blocks[0], 0, nil) {
		return true
	}
	if followGo && depth < ipMaxDepth && (p.roots == nil || !p.roots[fn]) {
		// a goroutine body starts after its go statement: what precedes the spawn precedes the body
		if gs := p.goSites(fn); len(gs) > 0 && len(p.syncCallers(fn)) == 0 && !p.asyncValueUsed(fn) {
			for _, g := range gs {
				if !mustPrecedeIPF(g, A, edgeOK, depth+1) {
					return false
				}
			}
			return true
		}
	}
	if depth >= ipMaxDepth || p.activityRoot(fn) {
		return false
	}
	callers := p.syncCallers(fn)
	if len(callers) == 0 {
		return false
	}
	for _, cs := range callers {
		if !mustPrecedeIPOpt(cs, A, edgeOK, depth+1, followGo) {
			return false
		}
	}
	return true
}

// goSites: the go statements that start fn, if fn is only ever started that way.
func (p *Prog) goSites(fn *ssa.Function) []*ssa.Go {
	var out []*ssa.Go
	for _, ci := range p.callers[fn] {
		g, ok := ci.(*ssa.Go)
		if !ok {
			return nil
		}
		out = append(out, g)
	}
	for _, mc := range p.closure[fn] {
		for _, ref := range *mc.Referrers() {
			switch x := ref.(type) {
			case *ssa.Go:
				dup := false
				for _, o := range out {
					if o == x {
						dup = true
					}
				}
				if !dup {
					out = append(out, x)
				}
			case *ssa.DebugRef:
			default:
				return nil
			}
		}
	}
	return out
}

// impliedCondsIP: branch conditions certainly true when b is reached, including
// those holding at every synchronous call site of b's function.
func impliedCondsIP(b *ssa.BasicBlock, depth int) []condFact {
	out := impliedConds(b)
	p := theProg
	fn := b.Parent()
	if p == nil || depth >= ipMaxDepth || p.activityRoot(fn) {
		return out
	}
	callers := p.syncCallers(fn)
	if len(callers) == 0 {
		return out
	}
	var common map[condFact]bool
	for _, cs := range callers {
		m := map[condFact]bool{}
		for _, cf := range impliedCondsIP(cs.Block(), depth+1) {
			m[cf] = true
		}
		if common == nil {
			common = m
		} else {
			for k := range common {
				if !m[k] {
					delete(common, k)
				}
			}
		}
	}
	for k := range common {
		out = append(out, k)
	}
	return out
}

// cone: fn and the tree functions it (transitively) calls synchronously.
func (p *Prog) cone(fn *ssa.Function) []*ssa.Function {
	var out []*ssa.Function
	seen := map[*ssa.Function]bool{}
	var visit func(f *ssa.Function, d int)
	visit = func(f *ssa.Function, d int) {
		if f == nil || seen[f] || d > ipMaxDepth {
			return
		}
		seen[f] = true
		out = append(out, f)
		allInstrsRaw(f, func(in ssa.Instruction) {
			if g := p.syncCallee(in); g != nil {
				visit(g, d+1)
			}
			// deferred calls run (synchronously) before f returns
			if df, ok := in.(*ssa.Defer); ok {
				if g := p.unbound(staticCallee(df)); g != nil && p.allFns[g] && len(g.Blocks) > 0 {
					visit(g, d+1)
				}
			}
		})
	}
	visit(fn, 0)
	return out
}

// coneInstrs iterates over the instructions of fn's cone.
func (p *Prog) coneInstrs(fn *ssa.Function, f func(ssa.Instruction)) {
	for _, g := range p.cone(fn) {
		allInstrsRaw(g, f)
	}
}

// inCone: is instruction `in` inside the cone of fn?
func (p *Prog) inCone(fn *ssa.Function, in ssa.Instruction) bool {
	for _, g := range p.cone(fn) {
		if in.Parent() == g {
			return true
		}
	}
	return false
}

// syncReachable: g is reachable from fn through synchronous static calls only.
func (p *Prog) syncReachable(fn, g *ssa.Function) bool {
	for _, x := range p.cone(fn) {
		if x == g {
			return true
		}
	}
	return false
}
