package main

import (
	"fmt"
	"go/token"
	"go/types"
	"os"
	"strings"

	"golang.org/x/tools/go/ssa"
)

// dispInvokes: every invocation (call or go) of the dispatcher interface's method in the tree.
// These are the points where a WebSocket call is handed to handler code; rules hang on them,
// not on whichever function happens to contain them.
func (c *Ctx) dispInvokes() []ssa.Instruction {
	var out []ssa.Instruction
	if c.R.IDisp == nil {
		return nil
	}
	for _, fn := range c.P.Funcs {
		allInstrsRaw(fn, func(in ssa.Instruction) {
			ci, ok := in.(ssa.CallInstruction)
			if ok && ci.Common().IsInvoke() && ci.Common().Value.Type() == types.Type(c.R.IDisp) {
				out = append(out, in)
			}
		})
	}
	return out
}

// onOwnGoroutine: the instruction runs on a goroutine started for it: it is a go statement, or it
// lies in a function (cone) that is only ever started with go and is not the frame executor.
func (c *Ctx) onOwnGoroutine(in ssa.Instruction) bool {
	if _, isGo := in.(*ssa.Go); isGo {
		return true
	}
	// walk up synchronous callers until a go-spawned function is found; the executor/loop are not "own"
	seen := map[*ssa.Function]bool{}
	var up func(fn *ssa.Function, d int) bool
	up = func(fn *ssa.Function, d int) bool {
		if fn == nil || seen[fn] || d > ipMaxDepth {
			return false
		}
		seen[fn] = true
		if fn == c.R.FnExec || fn == c.R.FnLoop {
			return false
		}
		if c.spawnedAsGoroutine(fn) {
			return true
		}
		callers := c.P.syncCallers(fn)
		if len(callers) == 0 {
			return false
		}
		for _, cs := range callers {
			if !up(cs.Parent(), d+1) {
				return false
			}
		}
		return true
	}
	return up(in.Parent(), 0)
}

// frameMethodTests: comparisons of an inbound frame's method with a string constant; returns
// constant -> block taken when equal.
func (c *Ctx) frameMethodTests() map[string]*ssa.BasicBlock {
	out := map[string]*ssa.BasicBlock{}
	if c.R.TFrame == nil {
		return out
	}
	mf := respFieldByTag(c.R.TFrame, "method")
	for _, fn := range c.P.Funcs {
		allInstrsRaw(fn, func(in ssa.Instruction) {
			iff, ok := in.(*ssa.If)
			if !ok {
				return
			}
			bo, ok := iff.Cond.(*ssa.BinOp)
			if !ok || bo.Op != token.EQL {
				return
			}
			var k string
			var other ssa.Value
			if s, ok := constString(bo.Y); ok {
				k, other = s, bo.X
			} else if s, ok := constString(bo.X); ok {
				k, other = s, bo.Y
			} else {
				return
			}
			if c.fieldVal(other, mf) {
				out[k] = iff.Block().Succs[0]
			}
		})
	}
	return out
}

// frameSwitchFn: the function that tests the frame's method.
func (c *Ctx) frameSwitchFn() *ssa.Function {
	var fn *ssa.Function
	for _, b := range c.frameMethodTests() {
		fn = b.Parent()
	}
	return fn
}

// executorNeverWaitsForHandlers: the frame executor is the only goroutine that delivers responses,
// stream values and cancels. If it blocks on something that only a finishing handler releases (a
// semaphore of handler slots taken in the call path and given back in the handler's completion
// callback), then (a) a handler that itself waits for a frame — a nested reverse call, a stream —
// can never finish, and (b) when the release is missing on one completion path the connection stops
// answering for good. So: for every blocking channel operation in the executor's synchronous cone,
// the opposite operation on the same channel variable must not be performed by code that runs as part
// of a handler's completion (functions reachable from the dispatcher, including closures handed to it).
func (c *Ctx) executorNeverWaitsForHandlers(rule string) {
	p, r := c.P, c.R
	if r.FnExec == nil || r.FnDisp == nil {
		c.und(rule, "frame executor / dispatcher", "-", "not resolved")
		return
	}
	dispRegion := map[*ssa.Function]bool{}
	for _, g := range c.region(r.FnDisp) {
		dispRegion[g] = true
	}
	// functions that run the dispatcher synchronously (a goroutine literal wrapping the handler call):
	// what they do after — or defer around — that call is part of the handler's completion as well
	runsDisp := map[*ssa.Function]bool{}
	for _, inv := range c.dispInvokes() {
		if _, isCall := inv.(*ssa.Call); isCall {
			f := inv.Parent()
			if f != r.FnExec && !inConeOf(p, r.FnExec, f) {
				runsDisp[f] = true
			}
		}
	}
	handlerSide := func(g *ssa.Function) bool {
		seen := map[*ssa.Function]bool{}
		var up func(f *ssa.Function, d int) bool
		up = func(f *ssa.Function, d int) bool {
			if f == nil || seen[f] || d > 8 {
				return false
			}
			seen[f] = true
			if dispRegion[f] || runsDisp[f] {
				return true
			}
			for _, cs := range p.dynCallers(f) {
				if up(cs.Parent(), d+1) {
					return true
				}
			}
			return false
		}
		return up(g, 0)
	}
	type chop struct {
		key  interface{}
		send bool
		at   ssa.Instruction
	}
	collect := func(fns []*ssa.Function, blockingOnly bool) []chop {
		var out []chop
		for _, f := range fns {
			allInstrsRaw(f, func(in ssa.Instruction) {
				add := func(ch ssa.Value, send bool) {
					ch = stripConv(ch)
					var key interface{}
					if ld, ok := ch.(*ssa.UnOp); ok && ld.Op == token.MUL {
						key = c.locKey(ld.X)
					} else {
						key = c.locKey(ch)
					}
					out = append(out, chop{key, send, in})
				}
				switch x := in.(type) {
				case *ssa.Send:
					add(x.Chan, true)
				case *ssa.UnOp:
					if x.Op == token.ARROW {
						add(x.X, false)
					}
				case *ssa.Select:
					if blockingOnly && !x.Blocking {
						return
					}
					for _, st := range x.States {
						add(st.Chan, st.Dir == types.SendOnly)
					}
				}
			})
		}
		return out
	}
	exec := p.cone(r.FnExec)
	execOps := collect(exec, true)
	all := collect(p.Funcs, false)
	n := 0
	for _, op := range execOps {
		if p.boundary != nil && p.boundary[op.at] {
			continue // the executor taking its next frame
		}
		if _, isField := op.key.(*types.Var); !isField {
			if _, isVal := op.key.(ssa.Value); !isVal {
				continue
			}
		}
		n++
		construct := fmt.Sprintf("%s: blocking channel operation on the frame executor", fname(op.at.Parent()))
		var by ssa.Instruction
		for _, o2 := range all {
			if o2.key == op.key && o2.send != op.send && handlerSide(o2.at.Parent()) {
				by = o2.at
			}
		}
		c.check(by == nil, rule, construct, c.ipos(op.at), "not released by handler completion", func() string {
			if by == nil {
				return ""
			}
			return "the frame executor blocks here until code at " + c.ipos(by) + " runs, which is part of a handler's completion: a handler that waits for a frame itself (a nested reverse call, a stream) can then never finish, and a completion path that skips the release (a call that keeps its context for a channel) leaves the connection unanswered for good"
		}())
	}
	if n == 0 {
		c.ok(rule, "frame executor", "-", "no blocking channel operation in the executor's cone")
	}
}

// descriptorReadAfterResolution: the dispatcher looks the method up by name and, failing that, through
// the alias table; the local that holds the method descriptor is assigned on both ways. Whatever is
// decided from the descriptor (does the call keep its context for a channel, how many parameters, which
// function) must be read after the last assignment: a value computed from the first lookup's result is
// that of the zero descriptor for every aliased method.
func (c *Ctx) descriptorReadAfterResolution(rule string) {
	p, r := c.P, c.R
	if r.FnDisp == nil {
		c.und(rule, "dispatcher", "-", "not resolved")
		return
	}
	isDescriptor := func(t types.Type) bool {
		nt, ok := t.(*types.Named)
		if !ok || nt.Obj().Pkg() != p.Root.Pkg {
			return false
		}
		st := structOf(nt)
		if st == nil {
			return false
		}
		hasFn := false
		for i := 0; i < st.NumFields(); i++ {
			if isNamed(st.Field(i).Type(), "reflect", "Value") {
				hasFn = true
			}
		}
		if !hasFn {
			return false
		}
		// it is the element type of a string-keyed table
		found := false
		for _, g := range c.region(r.FnDisp) {
			allInstrsRaw(g, func(in ssa.Instruction) {
				if lk, ok := in.(*ssa.Lookup); ok {
					if m, ok := lk.X.Type().Underlying().(*types.Map); ok && m.Elem() == t {
						found = true
					}
				}
			})
		}
		return found
	}
	n := 0
	for _, g := range c.region(r.FnDisp) {
		allInstrsRaw(g, func(in ssa.Instruction) {
			al, ok := in.(*ssa.Alloc)
			if !ok || !isDescriptor(al.Type().(*types.Pointer).Elem()) {
				return
			}
			var stores []ssa.Instruction
			var reads []ssa.Instruction
			for _, ref := range *al.Referrers() {
				switch x := ref.(type) {
				case *ssa.Store:
					if x.Addr == ssa.Value(al) {
						stores = append(stores, x)
					}
				case *ssa.FieldAddr:
					for _, r2 := range *x.Referrers() {
						if ld, ok := r2.(*ssa.UnOp); ok && ld.Op == token.MUL {
							reads = append(reads, ld)
						}
					}
				case *ssa.UnOp:
					if x.Op == token.MUL {
						reads = append(reads, x)
					}
				}
			}
			if len(stores) < 2 {
				return // assigned once: nothing can be read too early
			}
			n++
			construct := fmt.Sprintf("%s: method descriptor read after name and alias resolution", fname(g))
			isStore := func(x ssa.Instruction) bool {
				for _, s := range stores {
					if s == x {
						return true
					}
				}
				return false
			}
			var early ssa.Instruction
			for _, rd := range reads {
				if reachFrom(rd, isStore, nil) != nil && early == nil {
					early = rd
				}
			}
			// a callback of the dispatcher (done(keepCtx)) bound — called or deferred — with a computed argument
			// while the descriptor can still be re-assigned: the argument was computed from the unresolved descriptor
			if early == nil {
				allInstrsRaw(g, func(x ssa.Instruction) {
					ci, ok := x.(ssa.CallInstruction)
					if !ok || early != nil {
						return
					}
					if _, isParam := ci.Common().Value.(*ssa.Parameter); !isParam || ci.Common().IsInvoke() {
						return
					}
					computed := false
					for _, a := range ci.Common().Args {
						if _, isK := a.(*ssa.Const); !isK {
							if _, isB := a.Type().Underlying().(*types.Basic); isB {
								computed = true
							}
						}
					}
					if computed && reachFrom(x, isStore, nil) != nil {
						early = x
					}
				})
			}
			if early != nil {
				c.bad(rule, construct, c.ipos(early), "the method descriptor is read (or a value computed from it is handed to a callback) here although it can still be re-assigned afterwards (the alias lookup): what is computed from this read — e.g. whether the call keeps its context because it returns a channel — is that of the empty descriptor for every aliased method, so an aliased subscription's context is cancelled as soon as the subscribing call returns")
			} else {
				c.ok(rule, construct, c.ipos(al), "every read follows the last assignment")
			}
		})
	}
	if n == 0 {
		c.ok(rule, "method descriptor", "-", "the descriptor local is assigned once")
	}
}

func inConeOf(p *Prog, root, f *ssa.Function) bool {
	for _, g := range p.cone(root) {
		if g == f {
			return true
		}
	}
	return false
}

// rejectionReasons: before the handler runs, the dispatcher answers a request with an error only for
// the reasons the protocol names: the method (and its alias) is unknown, the transport cannot carry its
// channel result, or its params are malformed, of the wrong count or undecodable. Structurally: at every
// error reply that is not preceded by the user call, each controlling condition that depends on the
// request at all is (a) the comma-ok result of a table lookup, or (b) derived from the request's params
// (the params field, the slice decoded from it, a decoder's error). A condition that looks at the id
// ("a notification may not address a method with a result") or at the method name other than through
// the tables ("this name is not a valid metrics tag") rejects requests the property says must execute.
func (c *Ctx) rejectionReasons(rule string) {
	p, r := c.P, c.R
	d := r.FnDisp
	if d == nil || r.TReq == nil {
		c.und(rule, "dispatcher", "-", "not resolved")
		return
	}
	var paramsField *types.Var
	if st := structOf(r.TReq); st != nil {
		for i := 0; i < st.NumFields(); i++ {
			if strings.Contains(st.Tag(i), `json:"params`) {
				paramsField = st.Field(i)
			}
		}
	}
	n := 0
	for _, g := range p.cone(d) {
		for _, u := range r.FnUser {
			if g == u {
				g = nil
			}
		}
		if g == nil {
			continue
		}
		dec := decodedAllocs(g)
		isReqValue := func(v ssa.Value) bool {
			t := v.Type()
			if pt, ok := t.Underlying().(*types.Pointer); ok {
				t = pt.Elem()
			}
			if t != types.Type(r.TReq) {
				return false
			}
			switch v.(type) {
			case *ssa.Parameter, *ssa.Alloc:
				return true
			}
			return false
		}
		// what a table lookup yields (the method descriptor, a decoder) is the table's data, not the request's
		tableData := map[ssa.Value]bool{}
		allInstrsRaw(g, func(in ssa.Instruction) {
			if lk, ok := in.(*ssa.Lookup); ok {
				if _, isMap := lk.X.Type().Underlying().(*types.Map); isMap {
					if !lk.CommaOk {
						tableData[lk] = true
					} else if lk.Referrers() != nil {
						for _, ref := range *lk.Referrers() {
							if ex, ok := ref.(*ssa.Extract); ok && ex.Index == 0 {
								tableData[ex] = true
							}
						}
					}
				}
			}
		})
		// … also when a helper did the lookup (lookupMethod(name) (descriptor, bool))
		isTableRoot := func(a apath) bool {
			switch x := a.Root.(type) {
			case *ssa.Lookup:
				_, isMap := x.X.Type().Underlying().(*types.Map)
				return isMap
			case *ssa.Extract:
				lk, ok := x.Tuple.(*ssa.Lookup)
				return ok && x.Index == 0 && lk.CommaOk
			case *ssa.Const:
				return true // the zero descriptor returned with "not found"
			case *ssa.Alloc:
				return true // a zero-valued local returned with "not found"
			}
			return false
		}
		allInstrsRaw(g, func(in ssa.Instruction) {
			call, ok := in.(*ssa.Call)
			if !ok {
				return
			}
			if h := staticCallee(call); h == nil || !p.allFns[h] {
				return
			}
			cands := []ssa.Value{call}
			if call.Referrers() != nil {
				for _, ref := range *call.Referrers() {
					if ex, ok := ref.(*ssa.Extract); ok {
						cands = append(cands, ex)
					}
				}
			}
			for _, v := range cands {
				if _, isTuple := v.Type().(*types.Tuple); isTuple {
					continue
				}
				if _, isBasic := v.Type().Underlying().(*types.Basic); isBasic {
					continue
				}
				sawLookup := false
				if c.allOrigins(v, func(a apath) bool {
					if !isTableRoot(a) {
						return false
					}
					switch a.Root.(type) {
					case *ssa.Lookup, *ssa.Extract:
						sawLookup = true
					}
					return true
				}) && sawLookup {
					tableData[v] = true
				}
			}
		})
		fromRequest := func(v ssa.Value) bool {
			seen := map[ssa.Value]bool{}
			for k := range tableData {
				seen[k] = true
			}
			return c.dependsOn(v, isReqValue, 0, seen)
		}
		var fromParams func(v ssa.Value) bool
		fromParams = func(v ssa.Value) bool {
			return c.dependsOn(v, func(x ssa.Value) bool {
				if al, ok := x.(*ssa.Alloc); ok {
					if _, isDec := dec[al]; isDec {
						return true
					}
				}
				if paramsField != nil {
					if f := loadedField(x); f == paramsField {
						return true
					}
					if fa, ok := x.(*ssa.FieldAddr); ok && fieldOfAddr(fa) == paramsField {
						return true
					}
					if fl, ok := x.(*ssa.Field); ok && fieldOfField(fl) == paramsField {
						return true
					}
				}
				return false
			}, 0, map[ssa.Value]bool{})
		}
		isLookupOK := func(v ssa.Value) bool {
			return c.allOrigins(v, func(a apath) bool {
				ex, ok := a.Root.(*ssa.Extract)
				if !ok || len(a.Fields) != 0 || ex.Index != 1 {
					return false
				}
				lk, ok := ex.Tuple.(*ssa.Lookup)
				return ok && lk.CommaOk
			})
		}
		// results of helpers: the "found" flag next to a descriptor that is table data; the error (and code)
		// of a helper that decodes the params
		helperOK := map[ssa.Value]bool{}
		allInstrsRaw(g, func(in ssa.Instruction) {
			call, ok := in.(*ssa.Call)
			if !ok || call.Referrers() == nil {
				return
			}
			h := staticCallee(call)
			if h == nil || !p.allFns[h] {
				return
			}
			var exts []*ssa.Extract
			hasTable := false
			for _, ref := range *call.Referrers() {
				if ex, ok := ref.(*ssa.Extract); ok {
					exts = append(exts, ex)
					if tableData[ex] {
						hasTable = true
					}
				}
			}
			decodes := false
			p.coneInstrs(h, func(x ssa.Instruction) {
				if ci, ok := x.(ssa.CallInstruction); ok && decodeTarget(ci) != nil {
					decodes = true
				}
				if v, ok := x.(ssa.Value); ok && paramsField != nil && loadedField(v) == paramsField {
					decodes = true
				}
			})
			for _, ex := range exts {
				if tableData[ex] {
					continue
				}
				if hasTable || decodes {
					helperOK[ex] = true
				}
			}
			if len(exts) == 0 && decodes {
				helperOK[call] = true
			}
		})
		fromParams0 := fromParams
		fromParams = func(v ssa.Value) bool {
			if fromParams0(v) {
				return true
			}
			return c.dependsOn(v, func(x ssa.Value) bool { return helperOK[x] }, 0, map[ssa.Value]bool{})
		}
		allInstrsRaw(g, func(in ssa.Instruction) {
			if !c.isErrFnCall(in) {
				return
			}
			if mustPrecedeIP(in, c.isUserCall, 0) {
				return // a reply after the handler ran
			}
			n++
			construct := fmt.Sprintf("%s: rejection before the handler runs", fname(g))
			var odd ssa.Value
			for _, cf := range expandConds(impliedCondsIP(in.Block(), 0)) {
				v := cf.Cond
				for {
					u, ok := v.(*ssa.UnOp)
					if !ok || u.Op != token.NOT {
						break
					}
					v = u.X
				}
				if !fromRequest(v) {
					continue // configuration, descriptor, mode: not about this request
				}
				if isLookupOK(v) || fromParams(v) {
					continue
				}
				// a comparison whose request-dependent side is a lookup result or params-derived
				if bo, ok := v.(*ssa.BinOp); ok {
					good := true
					for _, side := range []ssa.Value{bo.X, bo.Y} {
						if fromRequest(side) && !isLookupOK(side) && !fromParams(side) {
							good = false
						}
					}
					if good {
						continue
					}
				}
				odd = v
				if os.Getenv("JRP_DEBUG") == "rej" {
					fmt.Fprintf(os.Stderr, "rej: %s cond %s = %s\n", c.ipos(in), v.Name(), v.String())
				}
			}
			if odd != nil {
				c.bad(rule, construct, c.ipos(in), "this error reply is controlled by a condition on the request that is neither a table lookup nor derived from its params (it looks at the id, or at the method name outside the method/alias tables): requests the protocol says must run — a notification to a method with a result, a method whose name is not plain ASCII — are refused instead")
			} else {
				c.ok(rule, construct, c.ipos(in), "controlled only by table lookups, params-derived tests and request-independent conditions")
			}
		})
	}
	if n == 0 {
		c.und(rule, "rejections before the handler", "-", "none found")
	}
}

// descriptorFromCheckedLookup: whatever ends up in the dispatcher's method descriptor comes from a
// comma-ok lookup (whose flag is what the "method not found" reply hangs on): a plain v := table[key]
// never reports absence, so an alias whose target is not registered yields the zero descriptor, and
// calling its nil function panics instead of answering -32601.
func (c *Ctx) descriptorFromCheckedLookup(rule string) {
	p, r := c.P, c.R
	if r.FnDisp == nil {
		c.und(rule, "dispatcher", "-", "not resolved")
		return
	}
	n := 0
	for _, g := range c.region(r.FnDisp) {
		allInstrsRaw(g, func(in ssa.Instruction) {
			lk, ok := in.(*ssa.Lookup)
			if !ok {
				return
			}
			mt, ok := lk.X.Type().Underlying().(*types.Map)
			if !ok {
				return
			}
			nt, ok := mt.Elem().(*types.Named)
			if !ok || nt.Obj().Pkg() != p.Root.Pkg {
				return
			}
			st := structOf(nt)
			if st == nil {
				return
			}
			hasFn := false
			for i := 0; i < st.NumFields(); i++ {
				if isNamed(st.Field(i).Type(), "reflect", "Value") {
					hasFn = true
				}
			}
			if !hasFn {
				return
			}
			n++
			c.check(lk.CommaOk, rule, fmt.Sprintf("%s: lookup in the method table", fname(g)), c.ipos(lk), "comma-ok form", "the method table is read without the comma-ok form: an unknown name (an alias whose target is not registered) yields the zero descriptor instead of 'not found', and calling its nil function panics — no reply over HTTP, a crashed process over WebSocket — instead of answering -32601")
		})
	}
	if n == 0 {
		c.und(rule, "method table lookups", "-", "none found in the dispatcher")
	}
}

// keepFlagFromDescriptor: R06.11. The flag handed to the dispatcher's completion callback (keep the
// context: the method returns a channel) must be computed from the descriptor of the method that runs.
// A set of "channel methods" filled at registration and asked with the request's wire name does not know
// aliases: a subscription opened through an alias has its handler context cancelled as soon as the
// subscribing call returns.
func (c *Ctx) keepFlagFromDescriptor(rule string) {
	p, r := c.P, c.R
	if r.FnDisp == nil {
		return
	}
	n := 0
	for _, g := range c.region(r.FnDisp) {
		allInstrsRaw(g, func(in ssa.Instruction) {
			ci, ok := in.(ssa.CallInstruction)
			if !ok || ci.Common().IsInvoke() {
				return
			}
			if _, isParam := ci.Common().Value.(*ssa.Parameter); !isParam {
				return
			}
			for _, a := range ci.Common().Args {
				b, isB := a.Type().Underlying().(*types.Basic)
				if !isB || b.Kind() != types.Bool {
					continue
				}
				if _, isK := a.(*ssa.Const); isK {
					continue
				}
				n++
				var side *ssa.Lookup
				c.dependsOn(a, func(v ssa.Value) bool {
					lk, ok := v.(*ssa.Lookup)
					if !ok {
						return false
					}
					mt, ok := lk.X.Type().Underlying().(*types.Map)
					if !ok {
						return false
					}
					switch e := mt.Elem().Underlying().(type) {
					case *types.Basic:
						if e.Kind() == types.Bool {
							side = lk
						}
					case *types.Struct:
						if e.NumFields() == 0 {
							side = lk
						}
					}
					return false
				}, 0, map[ssa.Value]bool{})
				construct := fmt.Sprintf("%s: keep-context flag handed to the completion callback", fname(g))
				c.check(side == nil, rule, construct, c.ipos(in), "computed from the method descriptor", "the keep-context flag is looked up in a side table (a set of channel-returning methods) instead of being computed from the resolved method descriptor: the table is keyed by the name the method was registered under, so a subscription opened through an alias is not in it and its handler context is cancelled the moment the subscribing call returns")
			}
		})
	}
	_ = p
	if n == 0 {
		c.ok(rule, "completion callback", "-", "only constant flags")
	}
}

// keepFlagNotNarrowed: R06.12. Every comparison the keep-context flag is computed from (followed through
// descriptor fields to where they are filled, through helpers and short-circuit operators) is either
// "the kind of a reflect type/value is Chan" or a test of an index against -1 / 0. A further conjunct
// (nOut == 2, errOut != -1) leaves out legal signatures — func(ctx) <-chan T — whose subscriptions
// then lose their context the moment the subscribing call returns.
func (c *Ctx) keepFlagNotNarrowed(rule string) {
	r := c.R
	if r.FnDisp == nil {
		return
	}
	for _, g := range c.region(r.FnDisp) {
		allInstrsRaw(g, func(in ssa.Instruction) {
			ci, ok := in.(ssa.CallInstruction)
			if !ok || ci.Common().IsInvoke() {
				return
			}
			if _, isParam := ci.Common().Value.(*ssa.Parameter); !isParam {
				return
			}
			for _, a := range ci.Common().Args {
				b, isB := a.Type().Underlying().(*types.Basic)
				if !isB || b.Kind() != types.Bool {
					continue
				}
				if _, isK := a.(*ssa.Const); isK {
					continue
				}
				var foreign ssa.Instruction
				kindSeen := false
				seen := map[ssa.Value]bool{}
				var walk func(v ssa.Value, d int)
				walk = func(v ssa.Value, d int) {
					if v == nil || seen[v] || d > 12 {
						return
					}
					seen[v] = true
					switch x := v.(type) {
					case *ssa.BinOp:
						switch x.Op {
						case token.EQL, token.NEQ, token.LSS, token.LEQ, token.GTR, token.GEQ:
							if isKindCall(x.X) || isKindCall(x.Y) {
								kindSeen = true
								return
							}
							if k, ok := constInt(stripConvInt(x.Y)); ok && (k == -1 || k == 0) {
								return
							}
							if k, ok := constInt(stripConvInt(x.X)); ok && (k == -1 || k == 0) {
								return
							}
							if foreign == nil {
								foreign = x
							}
						case token.AND, token.OR, token.LAND, token.LOR:
							walk(x.X, d+1)
							walk(x.Y, d+1)
						}
					case *ssa.UnOp:
						switch x.Op {
						case token.NOT:
							walk(x.X, d+1)
						case token.MUL:
							switch a := x.X.(type) {
							case *ssa.FieldAddr:
								if f := fieldOfAddr(a); f != nil {
									for _, w := range c.liftedFieldWrites(f) {
										walk(w.Val, d+1)
									}
								}
							case *ssa.Alloc:
								for _, ref := range *a.Referrers() {
									if st, ok := ref.(*ssa.Store); ok && st.Addr == ssa.Value(a) {
										walk(st.Val, d+1)
									}
								}
							}
						}
					case *ssa.Field:
						if f := fieldOfField(x); f != nil {
							for _, w := range c.liftedFieldWrites(f) {
								walk(w.Val, d+1)
							}
						}
					case *ssa.Phi:
						for _, e := range x.Edges {
							walk(e, d+1)
						}
						blk := x.Block()
						for _, pr := range blk.Preds {
							for b := pr; b != nil; b = b.Idom() {
								if iff, ok := b.Instrs[len(b.Instrs)-1].(*ssa.If); ok {
									walk(iff.Cond, d+1)
								}
								if b == blk.Idom() {
									break
								}
							}
						}
					case *ssa.Parameter:
						fn := x.Parent()
						for i, q := range fn.Params {
							if q != x {
								continue
							}
							for _, s := range c.P.syncCallers(fn) {
								if i < len(s.Common().Args) {
									walk(s.Common().Args[i], d+1)
								}
							}
						}
					case *ssa.Extract:
						if call, ok := x.Tuple.(*ssa.Call); ok {
							if callee := staticCallee(call); callee != nil && c.P.inTree(callee) {
								for _, b := range callee.Blocks {
									if ret, ok := b.Instrs[len(b.Instrs)-1].(*ssa.Return); ok && x.Index < len(ret.Results) {
										walk(ret.Results[x.Index], d+1)
									}
								}
							}
						}
					case *ssa.Call:
						if callee := staticCallee(x); callee != nil && c.P.inTree(callee) {
							for _, b := range callee.Blocks {
								if ret, ok := b.Instrs[len(b.Instrs)-1].(*ssa.Return); ok && len(ret.Results) == 1 {
									walk(ret.Results[0], d+1)
								}
							}
						}
					}
				}
				walk(a, 0)
				if !kindSeen {
					continue // not a flag derived from "is a channel": another rule's business
				}
				construct := fmt.Sprintf("%s: conditions the keep-context flag is computed from", fname(g))
				if foreign != nil {
					c.bad(rule, construct, c.ipos(foreign), "the keep-context flag is narrowed by a comparison other than 'the value result exists and is a channel' (e.g. the number of results): a channel-returning method of a shape that comparison leaves out — func(ctx) <-chan T — has its context cancelled and its cancel entry removed the moment the subscribing call returns")
				} else {
					c.ok(rule, construct, c.ipos(in), "only kind == Chan and index tests")
				}
			}
		})
	}
}

func isKindCall(v ssa.Value) bool {
	call, ok := stripConvInt(v).(*ssa.Call)
	if !ok {
		return false
	}
	switch calleeName(call) {
	case "(reflect.Value).Kind":
		return true
	}
	return call.Common().IsInvoke() && call.Common().Method.Name() == "Kind" && isNamed(call.Common().Value.Type(), "reflect", "Type")
}
