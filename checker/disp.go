package main

import (
	"go/token"
	"go/types"

	"golang.org/x/tools/go/ssa"
)

// dispInvokes: every invocation (call or go) of the dispatcher interface's method in the tree.
// These are the points where a WebSocket call is handed to handler code; rules hang on them,
// not on whichever function happens to contain them.
func (c *Ctx) dispInvokes() []ssa.Instruction {
	var out []ssa.Instruction
	if c.R.IDisp == nil {
		return nil
	}
	for _, fn := range c.P.Funcs {
		allInstrsRaw(fn, func(in ssa.Instruction) {
			ci, ok := in.(ssa.CallInstruction)
			if ok && ci.Common().IsInvoke() && ci.Common().Value.Type() == types.Type(c.R.IDisp) {
				out = append(out, in)
			}
		})
	}
	return out
}

// onOwnGoroutine: the instruction runs on a goroutine started for it: it is a go statement, or it
// lies in a function (cone) that is only ever started with go and is not the frame executor.
func (c *Ctx) onOwnGoroutine(in ssa.Instruction) bool {
	if _, isGo := in.(*ssa.Go); isGo {
		return true
	}
	// walk up synchronous callers until a go-spawned function is found; the executor/loop are not "own"
	seen := map[*ssa.Function]bool{}
	var up func(fn *ssa.Function, d int) bool
	up = func(fn *ssa.Function, d int) bool {
		if fn == nil || seen[fn] || d > ipMaxDepth {
			return false
		}
		seen[fn] = true
		if fn == c.R.FnExec || fn == c.R.FnLoop {
			return false
		}
		if c.spawnedAsGoroutine(fn) {
			return true
		}
		callers := c.P.syncCallers(fn)
		if len(callers) == 0 {
			return false
		}
		for _, cs := range callers {
			if !up(cs.Parent(), d+1) {
				return false
			}
		}
		return true
	}
	return up(in.Parent(), 0)
}

// frameMethodTests: comparisons of an inbound frame's method with a string constant; returns
// constant -> block taken when equal.
func (c *Ctx) frameMethodTests() map[string]*ssa.BasicBlock {
	out := map[string]*ssa.BasicBlock{}
	if c.R.TFrame == nil {
		return out
	}
	mf := respFieldByTag(c.R.TFrame, "method")
	for _, fn := range c.P.Funcs {
		allInstrsRaw(fn, func(in ssa.Instruction) {
			iff, ok := in.(*ssa.If)
			if !ok {
				return
			}
			bo, ok := iff.Cond.(*ssa.BinOp)
			if !ok || bo.Op != token.EQL {
				return
			}
			var k string
			var other ssa.Value
			if s, ok := constString(bo.Y); ok {
				k, other = s, bo.X
			} else if s, ok := constString(bo.X); ok {
				k, other = s, bo.Y
			} else {
				return
			}
			if c.fieldVal(other, mf) {
				out[k] = iff.Block().Succs[0]
			}
		})
	}
	return out
}

// frameSwitchFn: the function that tests the frame's method.
func (c *Ctx) frameSwitchFn() *ssa.Function {
	var fn *ssa.Function
	for _, b := range c.frameMethodTests() {
		fn = b.Parent()
	}
	return fn
}
