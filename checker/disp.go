package main

import (
	"fmt"
	"go/token"
	"go/types"

	"golang.org/x/tools/go/ssa"
)

// dispInvokes: every invocation (call or go) of the dispatcher interface's method in the tree.
// These are the points where a WebSocket call is handed to handler code; rules hang on them,
// not on whichever function happens to contain them.
func (c *Ctx) dispInvokes() []ssa.Instruction {
	var out []ssa.Instruction
	if c.R.IDisp == nil {
		return nil
	}
	for _, fn := range c.P.Funcs {
		allInstrsRaw(fn, func(in ssa.Instruction) {
			ci, ok := in.(ssa.CallInstruction)
			if ok && ci.Common().IsInvoke() && ci.Common().Value.Type() == types.Type(c.R.IDisp) {
				out = append(out, in)
			}
		})
	}
	return out
}

// onOwnGoroutine: the instruction runs on a goroutine started for it: it is a go statement, or it
// lies in a function (cone) that is only ever started with go and is not the frame executor.
func (c *Ctx) onOwnGoroutine(in ssa.Instruction) bool {
	if _, isGo := in.(*ssa.Go); isGo {
		return true
	}
	// walk up synchronous callers until a go-spawned function is found; the executor/loop are not "own"
	seen := map[*ssa.Function]bool{}
	var up func(fn *ssa.Function, d int) bool
	up = func(fn *ssa.Function, d int) bool {
		if fn == nil || seen[fn] || d > ipMaxDepth {
			return false
		}
		seen[fn] = true
		if fn == c.R.FnExec || fn == c.R.FnLoop {
			return false
		}
		if c.spawnedAsGoroutine(fn) {
			return true
		}
		callers := c.P.syncCallers(fn)
		if len(callers) == 0 {
			return false
		}
		for _, cs := range callers {
			if !up(cs.Parent(), d+1) {
				return false
			}
		}
		return true
	}
	return up(in.Parent(), 0)
}

// frameMethodTests: comparisons of an inbound frame's method with a string constant; returns
// constant -> block taken when equal.
func (c *Ctx) frameMethodTests() map[string]*ssa.BasicBlock {
	out := map[string]*ssa.BasicBlock{}
	if c.R.TFrame == nil {
		return out
	}
	mf := respFieldByTag(c.R.TFrame, "method")
	for _, fn := range c.P.Funcs {
		allInstrsRaw(fn, func(in ssa.Instruction) {
			iff, ok := in.(*ssa.If)
			if !ok {
				return
			}
			bo, ok := iff.Cond.(*ssa.BinOp)
			if !ok || bo.Op != token.EQL {
				return
			}
			var k string
			var other ssa.Value
			if s, ok := constString(bo.Y); ok {
				k, other = s, bo.X
			} else if s, ok := constString(bo.X); ok {
				k, other = s, bo.Y
			} else {
				return
			}
			if c.fieldVal(other, mf) {
				out[k] = iff.Block().Succs[0]
			}
		})
	}
	return out
}

// frameSwitchFn: the function that tests the frame's method.
func (c *Ctx) frameSwitchFn() *ssa.Function {
	var fn *ssa.Function
	for _, b := range c.frameMethodTests() {
		fn = b.Parent()
	}
	return fn
}

// executorNeverWaitsForHandlers: the frame executor is the only goroutine that delivers responses,
// stream values and cancels. If it blocks on something that only a finishing handler releases (a
// semaphore of handler slots taken in the call path and given back in the handler's completion
// callback), then (a) a handler that itself waits for a frame — a nested reverse call, a stream —
// can never finish, and (b) when the release is missing on one completion path the connection stops
// answering for good. So: for every blocking channel operation in the executor's synchronous cone,
// the opposite operation on the same channel variable must not be performed by code that runs as part
// of a handler's completion (functions reachable from the dispatcher, including closures handed to it).
func (c *Ctx) executorNeverWaitsForHandlers(rule string) {
	p, r := c.P, c.R
	if r.FnExec == nil || r.FnDisp == nil {
		c.und(rule, "frame executor / dispatcher", "-", "not resolved")
		return
	}
	dispRegion := map[*ssa.Function]bool{}
	for _, g := range c.region(r.FnDisp) {
		dispRegion[g] = true
	}
	// functions that run the dispatcher synchronously (a goroutine literal wrapping the handler call):
	// what they do after — or defer around — that call is part of the handler's completion as well
	runsDisp := map[*ssa.Function]bool{}
	for _, inv := range c.dispInvokes() {
		if _, isCall := inv.(*ssa.Call); isCall {
			f := inv.Parent()
			if f != r.FnExec && !inConeOf(p, r.FnExec, f) {
				runsDisp[f] = true
			}
		}
	}
	handlerSide := func(g *ssa.Function) bool {
		seen := map[*ssa.Function]bool{}
		var up func(f *ssa.Function, d int) bool
		up = func(f *ssa.Function, d int) bool {
			if f == nil || seen[f] || d > 8 {
				return false
			}
			seen[f] = true
			if dispRegion[f] || runsDisp[f] {
				return true
			}
			for _, cs := range p.dynCallers(f) {
				if up(cs.Parent(), d+1) {
					return true
				}
			}
			return false
		}
		return up(g, 0)
	}
	type chop struct {
		key  interface{}
		send bool
		at   ssa.Instruction
	}
	collect := func(fns []*ssa.Function, blockingOnly bool) []chop {
		var out []chop
		for _, f := range fns {
			allInstrsRaw(f, func(in ssa.Instruction) {
				add := func(ch ssa.Value, send bool) {
					ch = stripConv(ch)
					var key interface{}
					if ld, ok := ch.(*ssa.UnOp); ok && ld.Op == token.MUL {
						key = c.locKey(ld.X)
					} else {
						key = c.locKey(ch)
					}
					out = append(out, chop{key, send, in})
				}
				switch x := in.(type) {
				case *ssa.Send:
					add(x.Chan, true)
				case *ssa.UnOp:
					if x.Op == token.ARROW {
						add(x.X, false)
					}
				case *ssa.Select:
					if blockingOnly && !x.Blocking {
						return
					}
					for _, st := range x.States {
						add(st.Chan, st.Dir == types.SendOnly)
					}
				}
			})
		}
		return out
	}
	exec := p.cone(r.FnExec)
	execOps := collect(exec, true)
	all := collect(p.Funcs, false)
	n := 0
	for _, op := range execOps {
		if p.boundary != nil && p.boundary[op.at] {
			continue // the executor taking its next frame
		}
		if _, isField := op.key.(*types.Var); !isField {
			if _, isVal := op.key.(ssa.Value); !isVal {
				continue
			}
		}
		n++
		construct := fmt.Sprintf("%s: blocking channel operation on the frame executor", fname(op.at.Parent()))
		var by ssa.Instruction
		for _, o2 := range all {
			if o2.key == op.key && o2.send != op.send && handlerSide(o2.at.Parent()) {
				by = o2.at
			}
		}
		c.check(by == nil, rule, construct, c.ipos(op.at), "not released by handler completion", func() string {
			if by == nil {
				return ""
			}
			return "the frame executor blocks here until code at " + c.ipos(by) + " runs, which is part of a handler's completion: a handler that waits for a frame itself (a nested reverse call, a stream) can then never finish, and a completion path that skips the release (a call that keeps its context for a channel) leaves the connection unanswered for good"
		}())
	}
	if n == 0 {
		c.ok(rule, "frame executor", "-", "no blocking channel operation in the executor's cone")
	}
}

// descriptorReadAfterResolution: the dispatcher looks the method up by name and, failing that, through
// the alias table; the local that holds the method descriptor is assigned on both ways. Whatever is
// decided from the descriptor (does the call keep its context for a channel, how many parameters, which
// function) must be read after the last assignment: a value computed from the first lookup's result is
// that of the zero descriptor for every aliased method.
func (c *Ctx) descriptorReadAfterResolution(rule string) {
	p, r := c.P, c.R
	if r.FnDisp == nil {
		c.und(rule, "dispatcher", "-", "not resolved")
		return
	}
	isDescriptor := func(t types.Type) bool {
		nt, ok := t.(*types.Named)
		if !ok || nt.Obj().Pkg() != p.Root.Pkg {
			return false
		}
		st := structOf(nt)
		if st == nil {
			return false
		}
		hasFn := false
		for i := 0; i < st.NumFields(); i++ {
			if isNamed(st.Field(i).Type(), "reflect", "Value") {
				hasFn = true
			}
		}
		if !hasFn {
			return false
		}
		// it is the element type of a string-keyed table
		found := false
		for _, g := range c.region(r.FnDisp) {
			allInstrsRaw(g, func(in ssa.Instruction) {
				if lk, ok := in.(*ssa.Lookup); ok {
					if m, ok := lk.X.Type().Underlying().(*types.Map); ok && m.Elem() == t {
						found = true
					}
				}
			})
		}
		return found
	}
	n := 0
	for _, g := range c.region(r.FnDisp) {
		allInstrsRaw(g, func(in ssa.Instruction) {
			al, ok := in.(*ssa.Alloc)
			if !ok || !isDescriptor(al.Type().(*types.Pointer).Elem()) {
				return
			}
			var stores []ssa.Instruction
			var reads []ssa.Instruction
			for _, ref := range *al.Referrers() {
				switch x := ref.(type) {
				case *ssa.Store:
					if x.Addr == ssa.Value(al) {
						stores = append(stores, x)
					}
				case *ssa.FieldAddr:
					for _, r2 := range *x.Referrers() {
						if ld, ok := r2.(*ssa.UnOp); ok && ld.Op == token.MUL {
							reads = append(reads, ld)
						}
					}
				case *ssa.UnOp:
					if x.Op == token.MUL {
						reads = append(reads, x)
					}
				}
			}
			if len(stores) < 2 {
				return // assigned once: nothing can be read too early
			}
			n++
			construct := fmt.Sprintf("%s: method descriptor read after name and alias resolution", fname(g))
			isStore := func(x ssa.Instruction) bool {
				for _, s := range stores {
					if s == x {
						return true
					}
				}
				return false
			}
			var early ssa.Instruction
			for _, rd := range reads {
				if reachFrom(rd, isStore, nil) != nil && early == nil {
					early = rd
				}
			}
			// a callback of the dispatcher (done(keepCtx)) bound — called or deferred — with a computed argument
			// while the descriptor can still be re-assigned: the argument was computed from the unresolved descriptor
			if early == nil {
				allInstrsRaw(g, func(x ssa.Instruction) {
					ci, ok := x.(ssa.CallInstruction)
					if !ok || early != nil {
						return
					}
					if _, isParam := ci.Common().Value.(*ssa.Parameter); !isParam || ci.Common().IsInvoke() {
						return
					}
					computed := false
					for _, a := range ci.Common().Args {
						if _, isK := a.(*ssa.Const); !isK {
							if _, isB := a.Type().Underlying().(*types.Basic); isB {
								computed = true
							}
						}
					}
					if computed && reachFrom(x, isStore, nil) != nil {
						early = x
					}
				})
			}
			if early != nil {
				c.bad(rule, construct, c.ipos(early), "the method descriptor is read (or a value computed from it is handed to a callback) here although it can still be re-assigned afterwards (the alias lookup): what is computed from this read — e.g. whether the call keeps its context because it returns a channel — is that of the empty descriptor for every aliased method, so an aliased subscription's context is cancelled as soon as the subscribing call returns")
			} else {
				c.ok(rule, construct, c.ipos(al), "every read follows the last assignment")
			}
		})
	}
	if n == 0 {
		c.ok(rule, "method descriptor", "-", "the descriptor local is assigned once")
	}
}

func inConeOf(p *Prog, root, f *ssa.Function) bool {
	for _, g := range p.cone(root) {
		if g == f {
			return true
		}
	}
	return false
}
