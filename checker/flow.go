package main

import (
	"go/token"
	"go/types"

	"golang.org/x/tools/go/ssa"
)

// ---------------------------------------------------------------------------
// Interprocedural value resolution.
//
// origin(v) answers "where does this value come from?" independently of how the
// code is split into functions: it looks through local variables, phis,
// conversions, struct field projections (also of struct literals built field by
// field), parameters (to the arguments at every static call site), results of
// tree functions (to what they return) and captured variables. The answer is a
// set of access paths Root.f1.f2… whose root is a value that cannot be
// resolved further (a receive, a map lookup, a call of a library function, a
// parameter of an activity root, a constant, an allocation, …).

type apath struct {
	Root   ssa.Value
	Fields []*types.Var
	Via    []*types.Var // fields of locally visible objects the value was read out of on the way (resolved through their stores)
}

// through: the value was read from field f (as the unresolved tail of the path, or on the way).
func (a apath) through(f *types.Var) bool {
	if a.last() == f {
		return true
	}
	for _, v := range a.Via {
		if v == f {
			return true
		}
	}
	return false
}

func (a apath) last() *types.Var {
	if len(a.Fields) == 0 {
		return nil
	}
	return a.Fields[len(a.Fields)-1]
}

type resolver struct {
	c     *Ctx
	seen  map[resKey]bool
	steps int
	dyn   bool // resolve parameters of function literals kept in struct fields through the calls made via those fields
	heap  bool // resolve fields of objects reached through pointers by the stores to that field anywhere (closed struct types only)
}

type resKey struct {
	v ssa.Value
	n int
}

const resMaxSteps = 4000

// origins resolves v to its possible access paths.
func (c *Ctx) origins(v ssa.Value) []apath {
	r := &resolver{c: c, seen: map[resKey]bool{}}
	var out []apath
	r.res(v, nil, 0, &out)
	return dedupPaths(out)
}

func dedupPaths(in []apath) []apath {
	var out []apath
outer:
	for _, a := range in {
		for _, b := range out {
			if a.Root == b.Root && len(a.Fields) == len(b.Fields) && len(a.Via) == len(b.Via) {
				same := true
				for i := range a.Fields {
					if a.Fields[i] != b.Fields[i] {
						same = false
					}
				}
				for i := range a.Via {
					if a.Via[i] != b.Via[i] {
						same = false
					}
				}
				if same {
					continue outer
				}
			}
		}
		out = append(out, a)
	}
	return out
}

// res: resolve value v, to which the pending field projections `fs` (outermost last) are still to be applied.
func (r *resolver) res(v ssa.Value, fs []*types.Var, depth int, out *[]apath) {
	r.steps++
	if v == nil {
		return
	}
	k := resKey{v, len(fs)}
	if depth > 24 || r.steps > resMaxSteps || r.seen[k] {
		if depth > 24 || r.steps > resMaxSteps {
			*out = append(*out, apath{Root: v, Fields: append([]*types.Var{}, fs...)})
		}
		return
	}
	r.seen[k] = true
	p := r.c.P
	emit := func(root ssa.Value) {
		*out = append(*out, apath{Root: root, Fields: append([]*types.Var{}, fs...)})
	}
	switch x := v.(type) {
	case *ssa.Phi:
		for _, e := range x.Edges {
			r.res(e, fs, depth+1, out)
		}
	case *ssa.ChangeType:
		r.res(x.X, fs, depth+1, out)
	case *ssa.Convert:
		r.res(x.X, fs, depth+1, out)
	case *ssa.ChangeInterface:
		r.res(x.X, fs, depth+1, out)
	case *ssa.MakeInterface:
		r.res(x.X, fs, depth+1, out)
	case *ssa.TypeAssert:
		r.res(x.X, fs, depth+1, out)
	case *ssa.Field:
		f := fieldOfField(x)
		r.res(x.X, append([]*types.Var{f}, fs...), depth+1, out)
	case *ssa.UnOp:
		if x.Op != token.MUL {
			emit(v)
			return
		}
		r.load(x.X, fs, depth+1, out, v)
	case *ssa.Extract:
		if call, ok := x.Tuple.(*ssa.Call); ok {
			if g := p.unbound(staticCallee(call)); g != nil && p.allFns[g] && len(g.Blocks) > 0 && !r.c.opaqueFn(g) {
				n := 0
				allInstrsRaw(g, func(in ssa.Instruction) {
					if rt, ok := in.(*ssa.Return); ok && x.Index < len(rt.Results) {
						n++
						r.res(rt.Results[x.Index], fs, depth+1, out)
					}
				})
				if n > 0 {
					return
				}
			}
		}
		emit(v)
	case *ssa.Call:
		if g := p.unbound(staticCallee(x)); g != nil && p.allFns[g] && len(g.Blocks) > 0 && g.Signature.Results().Len() == 1 && !r.c.opaqueFn(g) {
			n := 0
			allInstrsRaw(g, func(in ssa.Instruction) {
				if rt, ok := in.(*ssa.Return); ok && len(rt.Results) == 1 {
					n++
					r.res(rt.Results[0], fs, depth+1, out)
				}
			})
			if n > 0 {
				return
			}
		}
		emit(v)
	case *ssa.Parameter:
		fn := x.Parent()
		idx := -1
		for i, q := range fn.Params {
			if q == x {
				idx = i
			}
		}
		sites := p.callers[fn]
		if r.dyn && idx >= 0 && (p.roots == nil || !p.roots[fn]) {
			// every call site of the whole-program (VTA) call graph: function values kept in fields,
			// bound methods, interface methods
			n := 0
			for _, s := range p.dynCallers(fn) {
				args := s.Common().Args
				if s.Common().IsInvoke() {
					// receiver is Common().Value, the remaining parameters follow
					if idx == 0 {
						n++
						r.res(s.Common().Value, fs, depth+1, out)
					} else if idx-1 < len(args) {
						n++
						r.res(args[idx-1], fs, depth+1, out)
					}
					continue
				}
				if idx < len(args) {
					n++
					r.res(args[idx], fs, depth+1, out)
				}
			}
			if n > 0 {
				return
			}
			if fn.Synthetic != "" {
				return // a wrapper nobody calls contributes no value
			}
		}
		// bound-method / closure invocations through Once.Do etc. carry no arguments
		if idx < 0 || len(sites) == 0 || (p.roots != nil && p.roots[fn]) {
			emit(v)
			return
		}
		n := 0
		for _, s := range sites {
			args := s.Common().Args
			if idx < len(args) {
				n++
				r.res(args[idx], fs, depth+1, out)
			}
		}
		if n == 0 || p.asyncValueUsed(fn) {
			emit(v) // may also be called with unknown arguments
		}
	case *ssa.FreeVar:
		// the address of a captured variable; only meaningful under a load (handled in load)
		emit(v)
	case *ssa.Alloc:
		// address value itself (pointer to a local struct): projections continue through stores in load();
		// as a value (e.g. &T{…} passed on) the alloc is the root
		if len(fs) > 0 {
			r.fieldOfAlloc(x, fs, depth+1, out)
			return
		}
		emit(v)
	default:
		emit(v)
	}
}

// load: value loaded from address a.
func (r *resolver) load(a ssa.Value, fs []*types.Var, depth int, out *[]apath, loadVal ssa.Value) {
	p := r.c.P
	switch x := a.(type) {
	case *ssa.FieldAddr:
		f := fieldOfAddr(x)
		// x.X is a pointer to the struct: either an Alloc (local struct) or a pointer value
		r.resPtr(x.X, append([]*types.Var{f}, fs...), depth+1, out)
	case *ssa.Alloc:
		r.allocContents(x, fs, depth+1, out, loadVal)
	case *ssa.FreeVar:
		cv := p.canonVar(x)
		if cv != ssa.Value(x) {
			r.load(cv, fs, depth+1, out, loadVal)
			return
		}
		*out = append(*out, apath{Root: loadVal, Fields: append([]*types.Var{}, fs...)})
	case *ssa.IndexAddr, *ssa.Global:
		*out = append(*out, apath{Root: loadVal, Fields: append([]*types.Var{}, fs...)})
	default:
		// load through an arbitrary pointer value (e.g. *p where p is a parameter): resolve the pointer, mark deref by root
		r.resPtr(a, fs, depth+1, out)
	}
}

// resPtr: ptr points to a struct; apply projections fs to the pointee.
func (r *resolver) resPtr(ptr ssa.Value, fs []*types.Var, depth int, out *[]apath) {
	switch x := ptr.(type) {
	case *ssa.Alloc:
		r.fieldOfAlloc(x, fs, depth+1, out)
	case *ssa.FreeVar:
		if cv := r.c.P.canonVar(x); cv != ssa.Value(x) {
			r.resPtr(cv, fs, depth+1, out)
			return
		}
		*out = append(*out, apath{Root: x, Fields: append([]*types.Var{}, fs...)})
	case *ssa.FieldAddr:
		// nested struct addressed in place: &(outer.f)
		f := fieldOfAddr(x)
		r.resPtr(x.X, append([]*types.Var{f}, fs...), depth+1, out)
	default:
		// pointer value: resolve where the pointer comes from; the path continues from the pointee
		var ptrs []apath
		sub := &resolver{c: r.c, seen: r.seen, steps: r.steps, heap: r.heap, dyn: r.dyn}
		sub.res(ptr, nil, depth+1, &ptrs)
		r.steps = sub.steps
		for _, pp := range ptrs {
			if al, ok := pp.Root.(*ssa.Alloc); ok && len(pp.Fields) == 0 {
				r.fieldOfAlloc(al, fs, depth+1, out)
				continue
			}
			if r.heap && len(fs) > 0 && r.c.closedField(fs[0]) && depth < 20 {
				// object not visible here: the field holds whatever some store put into it
				start := len(*out)
				n := 0
				for _, u := range usesOfKind(r.c.P.uses(fs[0]), "store") {
					n++
					r.res(u.Val, fs[1:], depth+1, out)
				}
				if n > 0 {
					if len(fs) == 1 {
						for i := start; i < len(*out); i++ {
							(*out)[i].Via = append(append([]*types.Var{}, (*out)[i].Via...), fs[0])
						}
					}
					continue
				}
			}
			*out = append(*out, apath{Root: pp.Root, Fields: append(append([]*types.Var{}, pp.Fields...), fs...)})
		}
	}
}

// fieldOfAlloc: the struct (or variable) in local allocation al, projected by fs.
func (r *resolver) fieldOfAlloc(al *ssa.Alloc, fs []*types.Var, depth int, out *[]apath) {
	if len(fs) == 0 {
		r.allocContents(al, fs, depth, out, al)
		return
	}
	// stores into al.f0 (composite literal or later assignment)
	f0 := fs[0]
	n := 0
	start := len(*out)
	defer func() {
		for i := start; i < len(*out); i++ {
			if len(fs) == 1 {
				(*out)[i].Via = append(append([]*types.Var{}, (*out)[i].Via...), f0)
			}
		}
	}()
	for _, ref := range *al.Referrers() {
		fa, ok := ref.(*ssa.FieldAddr)
		if !ok || fieldOfAddr(fa) != f0 {
			continue
		}
		for _, r2 := range *fa.Referrers() {
			switch y := r2.(type) {
			case *ssa.Store:
				if y.Addr == ssa.Value(fa) {
					n++
					r.res(y.Val, fs[1:], depth+1, out)
				}
			case *ssa.FieldAddr:
				// nested literal initialised in place: al.f0.g = …
				if len(fs) > 1 && fieldOfAddr(y) == fs[1] {
					for _, r3 := range *y.Referrers() {
						if st, ok := r3.(*ssa.Store); ok && st.Addr == ssa.Value(y) {
							n++
							r.res(st.Val, fs[2:], depth+1, out)
						}
					}
				}
			}
		}
	}
	// whole-struct stores (*al = v)
	for _, ref := range *al.Referrers() {
		if st, ok := ref.(*ssa.Store); ok && st.Addr == ssa.Value(al) {
			if k, isK := st.Val.(*ssa.Const); isK && k.Value == nil && n > 0 {
				continue // zero value then field-wise initialisation
			}
			n++
			r.res(st.Val, fs, depth+1, out)
		}
	}
	if n == 0 {
		*out = append(*out, apath{Root: al, Fields: append([]*types.Var{}, fs...)})
	}
}

// allocContents: the value stored in a local variable.
func (r *resolver) allocContents(al *ssa.Alloc, fs []*types.Var, depth int, out *[]apath, loadVal ssa.Value) {
	if len(fs) > 0 {
		if _, isStruct := al.Type().(*types.Pointer).Elem().Underlying().(*types.Struct); isStruct {
			r.fieldOfAlloc(al, fs, depth, out)
			return
		}
	}
	n := 0
	escapes := false
	for _, ref := range *al.Referrers() {
		switch y := ref.(type) {
		case *ssa.Store:
			if y.Addr == ssa.Value(al) {
				n++
				r.res(y.Val, fs, depth+1, out)
			}
		case *ssa.MakeInterface:
			escapes = true // e.g. json.Unmarshal(…, &v)
		case ssa.CallInstruction:
			for _, a := range y.Common().Args {
				if a == ssa.Value(al) {
					escapes = true
				}
			}
		}
	}
	if n == 0 || escapes {
		*out = append(*out, apath{Root: al, Fields: append([]*types.Var{}, fs...)})
	}
}

// asyncValueUsed: fn is referenced as a value somewhere (so it may be called with arguments we do not see).
func (p *Prog) asyncValueUsed(fn *ssa.Function) bool {
	if p.valueUsed == nil {
		p.asyncUsed(fn)
	}
	return p.valueUsed[fn]
}

// ---- convenience predicates over origins

// allOrigins: v has at least one origin and every origin satisfies pred.
func (c *Ctx) allOrigins(v ssa.Value, pred func(apath) bool) bool {
	os := c.origins(v)
	if len(os) == 0 {
		return false
	}
	for _, o := range os {
		if !pred(o) {
			return false
		}
	}
	return true
}

// someOrigin: some origin of v satisfies pred.
func (c *Ctx) someOrigin(v ssa.Value, pred func(apath) bool) bool {
	for _, o := range c.origins(v) {
		if pred(o) {
			return true
		}
	}
	return false
}

func pathIs(a apath, fields ...*types.Var) bool {
	if len(a.Fields) != len(fields) {
		return false
	}
	for i := range fields {
		if a.Fields[i] != fields[i] {
			return false
		}
	}
	return true
}

func pathEndsWith(a apath, fields ...*types.Var) bool {
	if len(a.Fields) < len(fields) {
		return false
	}
	off := len(a.Fields) - len(fields)
	for i := range fields {
		if a.Fields[off+i] != fields[i] {
			return false
		}
	}
	return true
}

// opaqueFn: functions whose results are meaningful origins themselves (semantic anchors),
// so value resolution does not look inside them.
func (c *Ctx) opaqueFn(g *ssa.Function) bool {
	return g == c.R.FnNorm
}

// originsOf: origins of v projected by the given fields (v.f1.f2…), looking through pointers.
func (c *Ctx) originsOf(v ssa.Value, fields ...*types.Var) []apath {
	r := &resolver{c: c, seen: map[resKey]bool{}}
	var out []apath
	if _, isPtr := v.Type().Underlying().(*types.Pointer); isPtr && len(fields) > 0 {
		r.resPtr(v, fields, 0, &out)
	} else {
		r.res(v, fields, 0, &out)
	}
	return dedupPaths(out)
}

// fieldVal: every origin of v is a read of field f (of whatever object).
func (c *Ctx) fieldVal(v ssa.Value, f *types.Var) bool {
	if f == nil {
		return false
	}
	return c.allOrigins(v, func(a apath) bool { return a.through(f) })
}

// constIntOf: v (projected by fields) is the same integer constant on every origin.
func (c *Ctx) constIntOf(v ssa.Value, fields ...*types.Var) (int64, bool) {
	os := c.originsOf(v, fields...)
	if len(os) == 0 {
		return 0, false
	}
	var val int64
	for i, o := range os {
		if len(o.Fields) != 0 {
			return 0, false
		}
		k, ok := constInt(stripConvInt(o.Root))
		if !ok {
			return 0, false
		}
		if i > 0 && k != val {
			return 0, false
		}
		val = k
	}
	return val, true
}

// siteVal: a write of a value into a field, lifted out of setter helpers: At is the
// instruction (the store itself, or the call of the helper that stores its parameter)
// at which Val — a value that is not merely a forwarded parameter — is written.
type siteVal struct {
	At    ssa.Instruction
	Val   ssa.Value
	Store *ssa.Store
	Base  ssa.Value // the object written to, as seen at At (the argument passed for it when lifted)
}

// liftedFieldWrites: all writes to field f; a store of a function's own parameter is
// replaced by that function's synchronous call sites with the corresponding argument.
func (c *Ctx) liftedFieldWrites(f *types.Var) []siteVal {
	var out []siteVal
	for _, u := range usesOfKind(c.P.uses(f), "store") {
		st := u.At.(*ssa.Store)
		c.liftWrite(st, st.Val, fieldBase(st), st, 0, &out)
	}
	return out
}

func (c *Ctx) liftWrite(at ssa.Instruction, v, base ssa.Value, st *ssa.Store, depth int, out *[]siteVal) {
	prm, ok := v.(*ssa.Parameter)
	if ok && depth < ipMaxDepth {
		fn := prm.Parent()
		idx, bidx := -1, -1
		for i, q := range fn.Params {
			if q == prm {
				idx = i
			}
			if base != nil && (ssa.Value(q) == base || c.isParamCopy(base, q)) {
				bidx = i
			}
		}
		sites := c.P.syncCallers(fn)
		if idx >= 0 && len(sites) > 0 && !c.P.asyncUsed(fn) {
			for _, s := range sites {
				if idx < len(s.Common().Args) {
					b2 := base
					if bidx >= 0 && bidx < len(s.Common().Args) {
						b2 = s.Common().Args[bidx]
					}
					c.liftWrite(s, s.Common().Args[idx], b2, st, depth+1, out)
				}
			}
			return
		}
	}
	*out = append(*out, siteVal{At: at, Val: v, Store: st, Base: base})
}

// nonNilAt: value v is certainly non-nil where it is used at instruction `at`
// (constructor result, address of a literal, or guarded by a dominating nil test;
// phis need every incoming edge to qualify).
func (c *Ctx) nonNilAt(v ssa.Value, at ssa.Instruction, depth int) bool {
	if depth > 6 {
		return false
	}
	if isNilConst(v) {
		return false
	}
	if isFreshErrorValue(v) {
		return true
	}
	if mi, ok := v.(*ssa.MakeInterface); ok {
		if _, isAl := mi.X.(*ssa.Alloc); isAl {
			return true
		}
		return c.nonNilAt(mi.X, at, depth+1)
	}
	if c.isNonNilErrorValue(v, at) {
		return true
	}
	if ph, ok := v.(*ssa.Phi); ok {
		for i, e := range ph.Edges {
			pred := ph.Block().Preds[i]
			last := pred.Instrs[len(pred.Instrs)-1]
			if !c.nonNilAt(e, last, depth+1) && !c.nonNilOnEdge(e, pred, ph.Block()) {
				return false
			}
		}
		return true
	}
	if ld, ok := v.(*ssa.UnOp); ok && ld.Op == token.MUL {
		if al, ok := ld.X.(*ssa.Alloc); ok {
			// every store reaching the load must be non-nil
			n := 0
			for _, ref := range *al.Referrers() {
				if st, ok := ref.(*ssa.Store); ok && st.Addr == ssa.Value(al) {
					n++
					if !c.nonNilAt(st.Val, st, depth+1) {
						return false
					}
				}
			}
			return n > 0
		}
	}
	return false
}

func (c *Ctx) nonNilOnEdge(v ssa.Value, pred, blk *ssa.BasicBlock) bool {
	for _, cf := range edgeConds(pred, blk) {
		bo, ok := cf.Cond.(*ssa.BinOp)
		if !ok || (bo.Op != token.NEQ && bo.Op != token.EQL) {
			continue
		}
		var other ssa.Value
		if isNilConst(bo.Y) {
			other = bo.X
		} else if isNilConst(bo.X) {
			other = bo.Y
		} else {
			continue
		}
		if (bo.Op == token.NEQ) == cf.True && other == v {
			return true
		}
	}
	return false
}

// reachingStores: the stores into local variable al that may be the last one executed before
// instruction `at` (same function). For uses in other functions (captured variable) all stores count.
func reachingStores(al *ssa.Alloc, at ssa.Instruction) []*ssa.Store {
	var all []*ssa.Store
	for _, ref := range *al.Referrers() {
		if st, ok := ref.(*ssa.Store); ok && st.Addr == ssa.Value(al) {
			all = append(all, st)
		}
	}
	if at == nil || at.Parent() != al.Parent() || len(all) <= 1 {
		return all
	}
	isStore := func(x ssa.Instruction) bool {
		for _, s := range all {
			if x == ssa.Instruction(s) {
				return true
			}
		}
		return false
	}
	var out []*ssa.Store
	for _, st := range all {
		s := newIPSearch(func(x ssa.Instruction) bool { return x == at }, func(x ssa.Instruction) bool { return isStore(x) && x != ssa.Instruction(st) })
		s.flat = true
		if s.scan(st.Block(), instrIndex(st)+1, nil) {
			out = append(out, st)
		}
	}
	return out
}

// funcsOf: the tree functions a function value can be (literals, named functions, bound
// methods), on every origin; nil if some origin is not a known function.
func (c *Ctx) funcsOf(v ssa.Value) []*ssa.Function {
	var out []*ssa.Function
	for _, o := range c.origins(v) {
		if len(o.Fields) != 0 {
			return nil
		}
		var f *ssa.Function
		switch x := o.Root.(type) {
		case *ssa.MakeClosure:
			f, _ = x.Fn.(*ssa.Function)
		case *ssa.Function:
			f = x
		}
		f = c.P.unbound(f)
		if f == nil || len(f.Blocks) == 0 {
			return nil
		}
		out = append(out, f)
	}
	return out
}

// originsHeap: like origins, but a field of an object that is only reachable through a pointer
// (a method receiver, say) resolves to everything stored into that field anywhere in the tree.
// Only for fields of closed struct types (see closedField).
func (c *Ctx) originsHeap(v ssa.Value) []apath {
	r := &resolver{c: c, seen: map[resKey]bool{}, heap: true}
	var out []apath
	r.res(v, nil, 0, &out)
	return dedupPaths(out)
}

// closedField: every write to field f is a visible store: its struct type is declared in the
// tree, no value of that type (or pointer to it) is ever converted to an interface (so neither
// a decoder nor reflection can fill it), and the field's address is never handed out.
func (c *Ctx) closedField(f *types.Var) bool {
	if c.closedFields == nil {
		c.closedFields = map[*types.Var]bool{}
		p := c.P
		open := map[types.Type]bool{}
		for _, fn := range p.Funcs {
			allInstrsRaw(fn, func(in ssa.Instruction) {
				if mi, ok := in.(*ssa.MakeInterface); ok {
					t := mi.X.Type()
					if pt, ok := t.Underlying().(*types.Pointer); ok {
						t = pt.Elem()
					}
					open[t] = true
				}
			})
		}
		for _, pkg := range []*ssa.Package{p.Root, p.Auth, p.Httpio} {
			if pkg == nil {
				continue
			}
			for _, nt := range namedStructs(pkg.Pkg) {
				st, ok := nt.Underlying().(*types.Struct)
				if !ok || open[nt] {
					continue
				}
				for i := 0; i < st.NumFields(); i++ {
					fv := st.Field(i)
					okf := true
					for _, u := range p.uses(fv) {
						if u.Kind == "addr-arg" {
							okf = false
						}
					}
					if okf {
						c.closedFields[fv] = true
					}
				}
			}
		}
	}
	return c.closedFields[f]
}

// fieldCallSites: fn is a function literal whose only use is being stored into struct fields;
// returns the calls made through those fields (its possible dynamic call sites).
func (c *Ctx) fieldCallSites(fn *ssa.Function) ([]ssa.CallInstruction, bool) {
	p := c.P
	mcs := p.closure[fn]
	if len(mcs) == 0 {
		return nil, false
	}
	fields := map[*types.Var]bool{}
	for _, mc := range mcs {
		for _, ref := range *mc.Referrers() {
			switch x := ref.(type) {
			case *ssa.DebugRef:
			case *ssa.Store:
				fa, ok := x.Addr.(*ssa.FieldAddr)
				if !ok || x.Val != ssa.Value(mc) {
					return nil, false
				}
				fields[fieldOfAddr(fa)] = true
			default:
				return nil, false
			}
		}
	}
	var out []ssa.CallInstruction
	for f := range fields {
		if !c.closedField(f) {
			return nil, false
		}
		for _, u := range usesOfKind(p.uses(f), "call") {
			if ci, ok := u.At.(ssa.CallInstruction); ok {
				out = append(out, ci)
			}
		}
	}
	return out, len(out) > 0
}

// originsDyn: originsOf that also follows parameters of function literals stored in struct
// fields to the arguments of the calls made through those fields.
func (c *Ctx) originsDyn(v ssa.Value, fields ...*types.Var) []apath {
	r := &resolver{c: c, seen: map[resKey]bool{}, dyn: true}
	var out []apath
	if _, isPtr := v.Type().Underlying().(*types.Pointer); isPtr && len(fields) > 0 {
		r.resPtr(v, fields, 0, &out)
	} else {
		r.res(v, fields, 0, &out)
	}
	return dedupPaths(out)
}
