package main

import (
	"fmt"
	"go/token"
	"go/types"

	"golang.org/x/tools/go/ssa"
)

// nilContextRule: R01.18 = R05.14 = R07.17. The context of a call is optional: a client function without
// a leading context.Context parameter is called with a nil context interface, which the generated call
// function hands down to the transport function and, for channel results, to the stream constructor.
// The library's own discipline is to test `ctx != nil` before touching it. A use that skips the test — a
// method call on it, or handing it to code outside the module (context.With*, trace, stats/tag, net/http),
// all of which dereference it — panics for exactly the signatures without a context: in the caller's
// goroutine, or, in the stream buffer, on a library goroutine where nothing can recover it.
//
// A value "may be nil" when it is a context-typed phi with a nil constant edge, a parameter that receives
// such a value at a static call site, a parameter of a function stored into the transport-function field
// (called with whatever the call function holds), or a variable captured from such a value. A phi edge
// coming from the side of a test on which the value is known non-nil does not count. A use is fine when a
// dominating test establishes `v != nil`.
func (c *Ctx) nilContextRule(rule string) {
	p, r := c.P, c.R
	if r.FnCall == nil {
		c.und(rule, "role:FN_call", "-", "client call function not resolved")
		return
	}
	isCtx := func(v ssa.Value) bool { return isNamed(v.Type(), "context", "Context") }
	nonNilOn := func(conds []condFact, v ssa.Value) bool {
		for _, cf := range expandConds(conds) {
			bo, ok := cf.Cond.(*ssa.BinOp)
			if !ok || (bo.Op != token.NEQ && bo.Op != token.EQL) {
				continue
			}
			var other ssa.Value
			if isNilConst(bo.Y) {
				other = bo.X
			} else if isNilConst(bo.X) {
				other = bo.Y
			} else {
				continue
			}
			if (bo.Op == token.NEQ) == cf.True && (other == v || sameVal(other, v)) {
				return true
			}
		}
		return false
	}
	mayNil := map[ssa.Value]bool{}
	var work []ssa.Value
	mark := func(v ssa.Value) {
		if v != nil && isCtx(v) && !mayNil[v] {
			mayNil[v] = true
			work = append(work, v)
		}
	}
	// seeds: context-typed phis with a nil edge, anywhere in the module
	for _, fn := range p.Funcs {
		if !p.inTree(fn) {
			continue
		}
		allInstrsRaw(fn, func(in ssa.Instruction) {
			if ph, ok := in.(*ssa.Phi); ok && isCtx(ph) {
				for _, e := range ph.Edges {
					if isNilConst(e) {
						mark(ph)
					}
				}
			}
		})
	}
	// functions stored into the transport-function field
	var transport []*ssa.Function
	if r.FDoReq != nil {
		for _, u := range usesOfKind(p.uses(r.FDoReq), "store") {
			if st, ok := u.At.(*ssa.Store); ok {
				transport = append(transport, c.funcsOf(st.Val)...)
			}
		}
	}
	// variables captured by closures live in cells: loads of a cell, also through free variables
	cellLoads := map[ssa.Value][]ssa.Value{}
	for _, fn := range p.Funcs {
		if !p.inTree(fn) {
			continue
		}
		allInstrsRaw(fn, func(in ssa.Instruction) {
			if u, ok := in.(*ssa.UnOp); ok && u.Op == token.MUL && isCtx(u) {
				cell := p.canonVar(u.X)
				cellLoads[cell] = append(cellLoads[cell], u)
			}
		})
	}
	for len(work) > 0 {
		v := work[len(work)-1]
		work = work[:len(work)-1]
		refs := v.Referrers()
		if refs == nil {
			continue
		}
		for _, ref := range *refs {
			switch x := ref.(type) {
			case *ssa.Store:
				if x.Val == v {
					c.nilCellFlow(x, mayNil, cellLoads, mark)
				}
			case *ssa.Phi:
				// through a phi unless the edge carrying v comes from a side where v is known non-nil
				for i, e := range x.Edges {
					if e == v && !nonNilOn(edgeCondsRaw(x.Block().Preds[i], x.Block()), v) {
						mark(x)
					}
				}
			case *ssa.MakeClosure:
				if f, ok := x.Fn.(*ssa.Function); ok {
					for i, b := range x.Bindings {
						if b == v && i < len(f.FreeVars) {
							mark(f.FreeVars[i])
						}
					}
				}
			case ssa.CallInstruction:
				cm := x.Common()
				if cm.IsInvoke() {
					continue
				}
				var targets []*ssa.Function
				if g := p.syncCallee(x); g != nil && p.allFns[g] {
					targets = append(targets, g)
				} else if g := staticCallee(x); g != nil && p.allFns[g] {
					targets = append(targets, g)
				} else if r.FDoReq != nil && isLoadOf(cm.Value, r.FDoReq) {
					targets = transport
				}
				if nonNilOn(condsAt(x), v) {
					continue
				}
				for _, g := range targets {
					off := 0
					if g.Signature.Recv() != nil && len(g.Params) == len(cm.Args) {
						off = 0
					}
					for i, a := range cm.Args {
						if a == v && i+off < len(g.Params) {
							mark(g.Params[i+off])
						}
					}
				}
			}
		}
	}
	// uses
	n, bad := 0, 0
	reported := map[ssa.Instruction]bool{}
	for v := range mayNil {
		refs := v.Referrers()
		if refs == nil {
			continue
		}
		for _, ref := range *refs {
			ci, ok := ref.(ssa.CallInstruction)
			if !ok || reported[ref] {
				continue
			}
			cm := ci.Common()
			what := ""
			if cm.IsInvoke() && cm.Value == v {
				what = "method " + cm.Method.Name() + " called on it"
			} else if !cm.IsInvoke() {
				passed := false
				for _, a := range cm.Args {
					if a == v {
						passed = true
					}
				}
				if !passed {
					continue
				}
				g := staticCallee(ci)
				if g == nil || p.allFns[g] {
					continue // module code: judged at its own uses; dynamic callees: transport functions, judged there
				}
				if g.Pkg != nil && g.Pkg.Pkg.Path() == "runtime/pprof" {
					continue
				}
				what = "handed to " + calleeName(ci)
			} else {
				continue
			}
			n++
			if nonNilOn(condsAt(ref), v) {
				continue
			}
			reported[ref] = true
			bad++
			c.bad(rule, fmt.Sprintf("%s: possibly nil context: %s", fname(ref.Parent()), what), c.ipos(ref), "the context of a call is nil when the client function has no context parameter; it reaches this use without a test for nil: calling such a function panics — in the caller, or on a library goroutine where it kills the process")
		}
	}
	if bad == 0 {
		c.ok(rule, "uses of a possibly nil context", "-", fmt.Sprintf("%d possibly nil context value(s), %d use(s) that would dereference one, all behind a test for nil", len(mayNil), n))
	}
	_ = types.Typ
}

// nilCellFlow: a possibly nil context is stored into a variable cell (a captured or address-taken
// variable). Forward flow over the owning function: the cell holds a possibly nil value after such a
// store, a certainly non-nil one after a store of anything else and on the side of a test `cell != nil`;
// loads in a possibly-nil state are marked, and so are the loads inside closures created in such a state.
func (c *Ctx) nilCellFlow(st *ssa.Store, mayNil map[ssa.Value]bool, cellLoads map[ssa.Value][]ssa.Value, mark func(ssa.Value)) {
	p := c.P
	cell := p.canonVar(st.Addr)
	al, ok := cell.(*ssa.Alloc)
	if !ok {
		// not a local cell (a field, a global): every load may see it
		for _, ld := range cellLoads[cell] {
			mark(ld)
		}
		return
	}
	fn := al.Parent()
	isCell := func(v ssa.Value) bool { return p.canonVar(v) == cell }
	in := map[*ssa.BasicBlock]bool{} // true = may be nil
	visited := map[*ssa.BasicBlock]bool{}
	work := []*ssa.BasicBlock{}
	push := func(b *ssa.BasicBlock, state bool) {
		if !visited[b] || (state && !in[b]) {
			visited[b] = true
			in[b] = in[b] || state
			work = append(work, b)
		}
	}
	closures := map[*ssa.MakeClosure]bool{}
	push(fn.Blocks[0], false)
	for len(work) > 0 {
		b := work[len(work)-1]
		work = work[:len(work)-1]
		state := in[b]
		var lastLoad ssa.Value
		for _, insn := range b.Instrs {
			switch x := insn.(type) {
			case *ssa.Store:
				if isCell(x.Addr) {
					state = mayNil[x.Val]
					lastLoad = nil
				}
			case *ssa.UnOp:
				if x.Op == token.MUL && isCell(x.X) {
					if state {
						mark(x)
					}
					lastLoad = x
				}
			case *ssa.MakeClosure:
				for _, bnd := range x.Bindings {
					if isCell(bnd) && state {
						closures[x] = true
					}
				}
			}
		}
		for k, succ := range b.Succs {
			es := state
			if iff, ok := b.Instrs[len(b.Instrs)-1].(*ssa.If); ok && lastLoad != nil && state {
				if bo, ok := iff.Cond.(*ssa.BinOp); ok && (bo.Op == token.EQL || bo.Op == token.NEQ) {
					var other ssa.Value
					if isNilConst(bo.Y) {
						other = bo.X
					} else if isNilConst(bo.X) {
						other = bo.Y
					}
					if other == lastLoad {
						nonNil := (bo.Op == token.NEQ) == (k == 0)
						if nonNil {
							es = false
						}
					}
				}
			}
			push(succ, es)
		}
	}
	for mc := range closures {
		f, _ := mc.Fn.(*ssa.Function)
		if f == nil {
			continue
		}
		for _, g := range withAnon(f) {
			allInstrsRaw(g, func(insn ssa.Instruction) {
				if u, ok := insn.(*ssa.UnOp); ok && u.Op == token.MUL && isCell(u.X) {
					mark(u)
				}
			})
		}
	}
}
