package main

import (
	"fmt"
	"go/token"
	"go/types"
	"strings"

	"golang.org/x/tools/go/ssa"
)

// WS: functions of the WebSocket connection machinery, resolved by what they
// do (never by name), plus structural facts about the connection loop.
type WS struct {
	Failer      *ssa.Function // ranges over the in-flight table and sends on every entry's mailbox
	SinkCloser  *ssa.Function // ranges over the channel-sink table
	Reader      *ssa.Function // calls NextReader on the socket
	ReadFrame   *ssa.Function // sends on the frame queue
	SendReq     *ssa.Function // calls WriteJSON on the socket
	NextWriter  *ssa.Function // calls NextWriter on the socket
	Resp        *ssa.Function // looks up the in-flight table (response handler)
	Cancel      *ssa.Function // looks up the handling table (cancel handler)
	Spawn       *ssa.Function // registers into the handling table and spawns the dispatcher
	ChanVal     *ssa.Function // looks up the sink table without deleting
	ChanClose   *ssa.Function // looks up the sink table and deletes
	OutChans    *ssa.Function // forwarding goroutine (reflect.Select over registered channels)
	Registrar   *ssa.Function // select-sends on the registration channel
	CtxAsync    *ssa.Function // subscription context watcher
	SetupPings  *ssa.Function // installs pong/ping handlers
	ResetDL     *ssa.Function // calls SetReadDeadline
	FrameSwitch *ssa.Function // dispatches a decoded frame by method (calls Resp/Cancel/ChanVal/ChanClose/Spawn)

	LoopSelect *ssa.Select
	Arms       map[string]selArm // incoming, readErr, ctx, requests, pongs, timeout, stop
	Defers     []*ssa.Defer
	missing    []string
}

func pickOne(fs []*ssa.Function) *ssa.Function {
	set := map[*ssa.Function]bool{}
	var out []*ssa.Function
	for _, f := range fs {
		if !set[f] {
			set[f] = true
			out = append(out, f)
		}
	}
	if len(out) == 1 {
		return out[0]
	}
	return nil
}

func fnsOf(us []FieldUse) []*ssa.Function {
	var out []*ssa.Function
	for _, u := range us {
		out = append(out, u.Fn)
	}
	return out
}

func (c *Ctx) ws() *WS {
	if c.wsCache != nil {
		return c.wsCache
	}
	p, r := c.P, c.R
	w := &WS{Arms: map[string]selArm{}}
	w.Failer = pickOne(fnsOf(usesOfKind(p.uses(r.FInflight), "range")))
	w.SinkCloser = pickOne(fnsOf(usesOfKind(p.uses(r.FChanh), "range")))
	w.ReadFrame = pickOne(fnsOf(usesOfKind(p.uses(r.FQueue), "send", "select-send")))
	w.Resp = pickOne(fnsOf(usesOfKind(p.uses(r.FInflight), "maplookup")))
	w.Cancel = pickOne(fnsOf(usesOfKind(p.uses(r.FHandling), "maplookup")))
	w.Spawn = pickOne(fnsOf(usesOfKind(p.uses(r.FHandling), "mapupdate")))
	w.Registrar = pickOne(fnsOf(usesOfKind(p.uses(r.FReg), "send", "select-send")))
	// sink lookups: the one that also deletes is the close handler
	{
		var val, cl []*ssa.Function
		dels := map[*ssa.Function]bool{}
		for _, u := range usesOfKind(p.uses(r.FChanh), "delete") {
			dels[u.Fn] = true
		}
		for _, u := range usesOfKind(p.uses(r.FChanh), "maplookup") {
			if u.Fn == w.SinkCloser {
				continue
			}
			if dels[u.Fn] {
				cl = append(cl, u.Fn)
			} else {
				val = append(val, u.Fn)
			}
		}
		w.ChanVal, w.ChanClose = pickOne(val), pickOne(cl)
	}
	// by gorilla call
	byCall := map[string][]*ssa.Function{}
	for _, ci := range gorillaConnCalls(p) {
		byCall[methodOf(ci)] = append(byCall[methodOf(ci)], ci.Parent())
	}
	w.Reader = pickOne(byCall["NextReader"])
	// request writer: the function taking a wire request and performing a write-side socket call
	{
		var cands []*ssa.Function
		for _, ci := range gorillaConnCalls(p) {
			if !gorillaWriteSide[methodOf(ci)] {
				continue
			}
			fn := ci.Parent()
			for _, prm := range fn.Params {
				if r.TReq != nil && prm.Type() == types.Type(r.TReq) {
					cands = append(cands, fn)
				}
			}
		}
		w.SendReq = pickOne(cands)
	}
	w.NextWriter = pickOne(byCall["NextWriter"])
	w.SetupPings = pickOne(byCall["SetPongHandler"])
	w.ResetDL = pickOne(byCall["SetReadDeadline"])
	// forwarding goroutine: function calling reflect.Select that also mentions the registration channel
	for _, u := range p.uses(r.FReg) {
		has := false
		allInstrs(u.Fn, func(in ssa.Instruction) {
			if ci, ok := in.(ssa.CallInstruction); ok && calleeName(ci) == "reflect.Select" {
				has = true
			}
		})
		if has {
			w.OutChans = u.Fn
		}
	}
	// context watcher: function with a context parameter that receives from its Done() and then calls SendReq
	for _, fn := range p.Funcs {
		if pkgOf(fn) != p.Root.Pkg || fn.Parent() != nil || w.SendReq == nil {
			continue
		}
		waits, sends := false, false
		allInstrs(fn, func(in ssa.Instruction) {
			if u, ok := in.(*ssa.UnOp); ok && u.Op == token.ARROW {
				if call, ok := u.X.(*ssa.Call); ok && call.Common().IsInvoke() && call.Common().Method.Name() == "Done" {
					waits = true
				}
			}
			if ci, ok := in.(*ssa.Call); ok && staticCallee(ci) == w.SendReq {
				sends = true
			}
		})
		if waits && sends {
			w.CtxAsync = fn
		}
	}
	// frame switch: static caller of Resp
	if w.Resp != nil {
		var cs []*ssa.Function
		for _, s := range p.callers[w.Resp] {
			cs = append(cs, s.Parent())
		}
		w.FrameSwitch = pickOne(cs)
	}
	// loop facts
	if r.FnLoop != nil {
		allInstrs(r.FnLoop, func(in ssa.Instruction) {
			switch x := in.(type) {
			case *ssa.Defer:
				w.Defers = append(w.Defers, x)
			case *ssa.Select:
				for _, st := range x.States {
					if _, ok := loadsField(st.Chan, r.FRequests); ok {
						w.LoopSelect = x
					}
				}
			}
		})
	}
	if w.LoopSelect != nil {
		arms, _ := selectArms(w.LoopSelect)
		for _, a := range arms {
			ch := a.State.Chan
			name := ""
			switch {
			case isLoadOf(ch, r.FIncoming):
				name = "incoming"
			case isLoadOf(ch, r.FReadErr):
				name = "readErr"
			case isLoadOf(ch, r.FRequests):
				name = "requests"
			case isLoadOf(ch, r.FPongs):
				name = "pongs"
			case isLoadOf(ch, r.FStop):
				name = "stop"
			default:
				if call, ok := ch.(*ssa.Call); ok && call.Common().IsInvoke() && call.Common().Method.Name() == "Done" {
					name = "ctx"
				} else if cht, ok := ch.Type().Underlying().(*types.Chan); ok && isNamed(cht.Elem(), "time", "Time") {
					name = "timeout"
				}
			}
			if name != "" {
				w.Arms[name] = a
			}
		}
	}
	for k, f := range map[string]*ssa.Function{"failer": w.Failer, "sinkCloser": w.SinkCloser, "reader": w.Reader, "readFrame": w.ReadFrame, "sendReq": w.SendReq,
		"nextWriter": w.NextWriter, "resp": w.Resp, "cancel": w.Cancel, "spawn": w.Spawn, "chanVal": w.ChanVal, "chanClose": w.ChanClose, "outChans": w.OutChans,
		"registrar": w.Registrar, "ctxAsync": w.CtxAsync, "setupPings": w.SetupPings, "resetDeadline": w.ResetDL, "frameSwitch": w.FrameSwitch} {
		if f == nil {
			w.missing = append(w.missing, k)
		}
	}
	c.wsCache = w
	return w
}

func isLoadOf(v ssa.Value, f *types.Var) bool {
	if f == nil {
		return false
	}
	_, ok := loadsField(v, f)
	return ok
}

// armBlocks: blocks belonging to a select arm = dominated by its body block.
func armBlocks(a selArm) map[*ssa.BasicBlock]bool {
	if a.Body == nil {
		return nil
	}
	return blocksDominatedBy(a.Body)
}

// callsTo lists call instructions in fn (not nested closures) whose static callee is g.
func callsTo(fn, g *ssa.Function) []ssa.CallInstruction {
	var out []ssa.CallInstruction
	if fn == nil || g == nil {
		return nil
	}
	allInstrs(fn, func(in ssa.Instruction) {
		if ci, ok := in.(ssa.CallInstruction); ok && staticCallee(ci) == g {
			out = append(out, ci)
		}
	})
	return out
}

func isCallTo(in ssa.Instruction, g *ssa.Function) bool {
	ci, ok := in.(ssa.CallInstruction)
	return ok && g != nil && staticCallee(ci) == g
}

// deferOf: the defer in fn that (directly, or as a bound method) calls g.
func deferCalls(d *ssa.Defer, p *Prog) *ssa.Function {
	f := staticCallee(d)
	if f == nil {
		return nil
	}
	return p.unbound(f)
}

// needWS reports unresolved WS roles for a rule.
func (c *Ctx) needWS(rule string, what string, f *ssa.Function) bool {
	return c.need(rule, "ws."+what, f != nil)
}

// isNonNilErrorValue: v is certainly a non-nil error at instruction `at`:
// fresh error constructor result, or known != nil by dominating conditions.
func (c *Ctx) isNonNilErrorValue(v ssa.Value, at ssa.Instruction) bool {
	v0 := v
	if mi, ok := v.(*ssa.MakeInterface); ok {
		v = mi.X
	}
	if call, ok := v.(*ssa.Call); ok {
		switch calleeName(call) {
		case "errors.New", "fmt.Errorf", "golang.org/x/xerrors.New", "golang.org/x/xerrors.Errorf":
			return true
		}
	}
	if _, ok := v.(*ssa.Alloc); ok { // &T{} made into an interface
		return true
	}
	for _, cf := range expandConds(impliedConds(at.Block())) {
		bo, ok := cf.Cond.(*ssa.BinOp)
		if !ok || (bo.Op != token.NEQ && bo.Op != token.EQL) {
			continue
		}
		var other ssa.Value
		if isNilConst(bo.Y) {
			other = bo.X
		} else if isNilConst(bo.X) {
			other = bo.Y
		} else {
			continue
		}
		nonNil := (bo.Op == token.NEQ) == cf.True
		if nonNil && (other == v0 || other == v || aliasOfLocal(other, v0)) {
			return true
		}
	}
	return false
}

// deadlineRenewalRule: the read deadline may be pushed forward only on evidence
// of inbound activity: right before a blocking read in the socket reader, in the
// loop's pong/ping-activity arm, or from an io.Reader wrapper's Read (slow
// inbound frame). Renewing it on outbound activity hides a silent peer.
func (c *Ctx) deadlineRenewalRule(rule string) {
	p := c.P
	w := c.ws()
	if !c.needWS(rule, "resetDeadline", w.ResetDL) {
		return
	}
	n := 0
	for _, s := range p.callers[w.ResetDL] {
		n++
		fn := s.Parent()
		construct := fmt.Sprintf("%s: renewal of the read deadline", fname(fn))
		switch {
		case fn == w.Reader:
			c.ok(rule, construct, c.ipos(s), "before a blocking read")
		case fn == c.R.FnLoop:
			arm, ok := w.Arms["pongs"]
			in := ok && arm.Body != nil && arm.Body.Dominates(s.Block())
			c.check(in, rule, construct, c.ipos(s), "in the peer-activity arm",
				"the read deadline is renewed in the connection loop outside the peer-activity arm (e.g. on every iteration or on outbound requests): a client that keeps sending never detects a silent peer")
		case fn.Signature.Recv() != nil && fn.Name() == "Read" && fn.Signature.Params().Len() == 1:
			c.ok(rule, construct, c.ipos(s), "during a slow inbound read")
		case c.isControlFrameHandler(fn):
			c.ok(rule, construct, c.ipos(s), "in a pong/ping handler (peer activity)")
		default:
			writes := false
			for _, g := range withAnon(outermost(fn)) {
				allInstrs(g, func(in ssa.Instruction) {
					if ci, ok := in.(ssa.CallInstruction); ok && strings.HasPrefix(calleeName(ci), "(*"+gorilla+".Conn).") && gorillaWriteSide[methodOf(ci)] {
						writes = true
					}
				})
			}
			if writes {
				c.bad(rule, construct, c.ipos(s), "the read deadline is renewed on a write path: outbound traffic masks a silent peer, so blocked calls are never failed")
			} else if fn.Parent() != nil && outermost(fn) == w.SetupPings {
				c.ok(rule, construct, c.ipos(s), "in a pong/ping handler (peer activity)")
			} else {
				c.bad(rule, construct, c.ipos(s), "the read deadline is renewed at a place that is not evidence of inbound activity")
			}
		}
	}
	if n == 0 {
		c.und(rule, "read-deadline renewal", "-", "no static call of the deadline-renewal function found")
	}
}

// isControlFrameHandler: fn is a function literal installed with SetPongHandler/SetPingHandler.
func (c *Ctx) isControlFrameHandler(fn *ssa.Function) bool {
	for _, ci := range gorillaConnCalls(c.P) {
		m := methodOf(ci)
		if m != "SetPongHandler" && m != "SetPingHandler" {
			continue
		}
		switch x := ci.Common().Args[1].(type) {
		case *ssa.MakeClosure:
			if x.Fn == ssa.Value(fn) {
				return true
			}
		case *ssa.Function:
			if x == fn {
				return true
			}
		}
	}
	return false
}

// inRegion: instruction `in` belongs to the region `blocks` of some function, or to a
// function called from it (the interprocedural search only gets into other functions by
// descending from the region, so anything outside the region's own function is inside).
func inRegion(blocks map[*ssa.BasicBlock]bool, in ssa.Instruction) bool {
	if blocks[in.Block()] {
		return true
	}
	for b := range blocks {
		return in.Parent() != b.Parent()
	}
	return false
}
