package main

import (
	"fmt"
	"go/token"
	"go/types"

	"golang.org/x/tools/go/ssa"
)

func init() {
	register(&propInfo{
		ID:          "C05",
		Explanation: "Path and origin analysis of the reconnect machinery: (R05.1) the redial function declines (returns false) exactly when no dial factory is configured, and the no-reconnect option is what makes the factory nil before the connection object is built; (R05.2) inside the redial loop every path from the loop head to a dial passes a sleep on the configured back-off with an attempt counter that grows on every iteration; the method-level retry sleeps before each re-send; (R05.3) after a successful dial the new socket is installed and, on every path to the end of the goroutine, the connection-unusable flag is cleared, keepalive is re-armed on the new socket and the socket reader is restarted; (R05.4) the temporary-connection code is one constant everywhere: seeded for the typed connection error, carried by every locally synthesised failure reply, compared by the retry gate; loss signals always mark the connection unusable (so loss leads to reconnect, not to a silent exit); (R05.5) every configuration field written by an option is read again on the construction path; (R05.6) the back-off delay is clamped before it is converted to an integer duration. (R05.8) the accept arm answers every request accepted during an outage, for both id polarities. (R05.9) the code-to-type direction of an error table is written only by the registry's constructor and Register or copied from another such map. (R05.10) the WebSocket transport function fails a call by itself only behind the hand-over to the connection loop; (R05.11) the code-to-type lookup is skipped only when the table pointer is nil. (R05.12) a reported connection error of whatever kind leads to the redial function; (R05.13) a deadline on the dial is created per dial. (R05.14) a possibly nil call context (client functions without a context parameter) is never dereferenced without a test for nil.",
		NotDecided:  "That the link actually heals, back-off durations themselves, real outage shapes.",
		Assumptions: []string{"NewErrors and RPCConnectionError are resolved by exported name", "a float that is not bounded by a dominating comparison may exceed the int64 range"},
		Run:         runC05,
	})
}

// redialGoroutine: the closure (nested in FN_redial) that stores to the socket field.
func (c *Ctx) redialGoroutine() *ssa.Function {
	var out *ssa.Function
	for _, g := range c.redialSpawns() {
		t := c.P.unbound(staticCallee(g))
		if out != nil && out != t {
			return nil
		}
		out = t
	}
	return out
}

func (c *Ctx) isFactoryCall(in ssa.Instruction) bool {
	ci, ok := in.(*ssa.Call)
	if !ok || ci.Common().IsInvoke() {
		return false
	}
	_, ok = loadsField(ci.Common().Value, c.R.FFactory)
	return ok
}

func (c *Ctx) isSockStore(in ssa.Instruction) bool {
	st, ok := in.(*ssa.Store)
	if !ok {
		return false
	}
	fa, ok := st.Addr.(*ssa.FieldAddr)
	return ok && fieldOfAddr(fa) == c.R.FSock
}

// installsKeepalive: does calling fn (transitively, static callees) install both pong and ping handlers?
func (c *Ctx) installsHandlers(fn *ssa.Function, seen map[*ssa.Function]bool) (pong, ping bool) {
	if fn == nil || seen[fn] {
		return
	}
	seen[fn] = true
	allInstrs(fn, func(in ssa.Instruction) {
		ci, ok := in.(ssa.CallInstruction)
		if !ok {
			return
		}
		switch calleeName(ci) {
		case "(*" + gorilla + ".Conn).SetPongHandler":
			pong = true
		case "(*" + gorilla + ".Conn).SetPingHandler":
			ping = true
		}
		if g := staticCallee(ci); g != nil && c.P.allFns[g] {
			if _, isCall := in.(*ssa.Call); isCall {
				p2, q2 := c.installsHandlers(g, seen)
				pong, ping = pong || p2, ping || q2
			}
		}
	})
	return
}

// isPingWrite: in writes a websocket ping, directly or through static tree callees.
func (c *Ctx) isPingWrite(in ssa.Instruction, seen map[*ssa.Function]bool) bool {
	return c.isPingWriteIn(in, seen, nil)
}

// isPingWriteIn: bind maps the parameters of the helper being looked into to the arguments of the call that
// led there (writeControl(websocket.PingMessage, nil) -> WriteMessage(kind, data)).
func (c *Ctx) isPingWriteIn(in ssa.Instruction, seen map[*ssa.Function]bool, bind map[*ssa.Parameter]ssa.Value) bool {
	ci, ok := in.(ssa.CallInstruction)
	if !ok {
		return false
	}
	if calleeName(ci) == "(*"+gorilla+".Conn).WriteMessage" {
		kind := ci.Common().Args[1]
		if prm, isP := kind.(*ssa.Parameter); isP && bind != nil && bind[prm] != nil {
			kind = bind[prm]
		}
		if k, ok := constInt(kind); ok && k == 9 { // websocket.PingMessage
			return true
		}
		return false
	}
	if _, isCall := in.(*ssa.Call); !isCall {
		return false
	}
	g := staticCallee(ci)
	if g == nil || !c.P.allFns[g] || seen[g] {
		return false
	}
	seen[g] = true
	defer delete(seen, g)
	nb := map[*ssa.Parameter]ssa.Value{}
	args := ci.Common().Args
	for i, prm := range g.Params {
		if i < len(args) {
			a := args[i]
			if ap, isP := a.(*ssa.Parameter); isP && bind != nil && bind[ap] != nil {
				a = bind[ap]
			}
			nb[prm] = a
		}
	}
	res := false
	allInstrs(g, func(x ssa.Instruction) {
		if c.isPingWriteIn(x, seen, nb) {
			res = true
		}
	})
	return res
}

// startsPinger: does calling fn start a goroutine that writes pings in a loop?
func (c *Ctx) startsPinger(fn *ssa.Function, seen map[*ssa.Function]bool) bool {
	if fn == nil || seen[fn] {
		return false
	}
	seen[fn] = true
	res := false
	allInstrs(fn, func(in ssa.Instruction) {
		if g, ok := in.(*ssa.Go); ok {
			if cl := staticCallee(g); cl != nil {
				allInstrs(cl, func(x ssa.Instruction) {
					if inLoop(x.Block()) && c.isPingWrite(x, map[*ssa.Function]bool{}) {
						res = true
					}
				})
			}
		}
		if ci, ok := in.(*ssa.Call); ok {
			if g := staticCallee(ci); g != nil && c.P.allFns[g] && c.startsPinger(g, seen) {
				res = true
			}
		}
	})
	return res
}

func runC05(c *Ctx) {
	c.rule("R05.14", "retry-tagged methods without a context parameter ride out outages too: the possibly nil context is never dereferenced without a test for nil")
	c.nilContextRule("R05.14")
	p, r := c.P, c.R
	w := c.ws()
	c.rule("R05.1", "the redial function declines exactly when no dial factory is configured; the no-reconnect option nils the factory before the connection is built")
	c.rule("R05.2", "every path from the redial loop head to a dial sleeps on the configured back-off with a growing attempt counter; method-level retry sleeps before re-sending")
	c.rule("R05.3", "after the socket swap: unusable flag cleared, keepalive re-armed on the new socket, reader restarted, on every path")
	c.rule("R05.4", "one temporary-connection code: typed-error seed, every synthesised failure reply, retry gate; every loss signal marks the connection unusable")
	c.rule("R05.5", "every configuration field written by an option is read on the construction path")
	c.rule("R05.6", "no unbounded float is converted to an integer duration in the back-off computation")
	if !c.need("R05.1", "FN_redial", r.FnRedial != nil) || !c.need("R05.1", "F_factory", r.FFactory != nil) {
		return
	}
	redial := r.FnRedial
	g := c.redialGoroutine()

	// ---- R05.1
	{
		construct := fmt.Sprintf("%s: declines iff no dial factory", fname(redial))
		okAll := true
		nfalse := 0
		allInstrs(redial, func(in ssa.Instruction) {
			rt, ok := in.(*ssa.Return)
			if !ok || len(rt.Results) != 1 {
				return
			}
			k, isConst := rt.Results[0].(*ssa.Const)
			factNil := func(want bool) bool {
				for _, cf := range expandConds(impliedConds(rt.Block())) {
					bo, ok := cf.Cond.(*ssa.BinOp)
					if !ok || !(isNilConst(bo.X) || isNilConst(bo.Y)) {
						continue
					}
					other := bo.X
					if isNilConst(bo.X) {
						other = bo.Y
					}
					if _, isF := loadsField(other, r.FFactory); isF {
						if ((bo.Op == token.EQL) == cf.True) == want {
							return true
						}
					}
				}
				return false
			}
			if !isConst || k.Value == nil {
				okAll = false
				c.bad("R05.1", construct, c.ipos(rt), "non-constant verdict")
				return
			}
			if k.Value.String() == "false" {
				nfalse++
				if !factNil(true) {
					okAll = false
					c.bad("R05.1", construct, c.ipos(rt), "the redial function can decline although a dial factory is configured: a reconnecting client gives up")
				}
			} else if !factNil(false) {
				okAll = false
				c.bad("R05.1", construct, c.ipos(rt), "the redial function reports 'reconnecting' although no dial factory may be configured")
			}
		})
		if nfalse == 0 {
			okAll = false
			c.bad("R05.1", construct, p.pos(redial.Pos()), "the redial function never declines: a server-side or no-reconnect connection would loop for ever")
		}
		if okAll {
			c.ok("R05.1", construct, p.pos(redial.Pos()), "false exactly under factory == nil")
		}
		// no-reconnect option: the factory stored into the connection literal is nil under a config bool set by an option
		for _, u := range usesOfKind(p.uses(r.FFactory), "store") {
			if !isFreshAlloc(u.Base) {
				continue
			}
			cons := fmt.Sprintf("%s: no-reconnect option nils the dial factory", fname(u.Fn))
			found := false
			// the stored value, or — when a dial helper hands the factory back — what that helper returns there
			cands := []ssa.Value{u.Val}
			{
				var call *ssa.Call
				idx := 0
				switch x := u.Val.(type) {
				case *ssa.Extract:
					call, _ = x.Tuple.(*ssa.Call)
					idx = x.Index
				case *ssa.Call:
					call = x
				}
				if call != nil {
					if hg := staticCallee(call); hg != nil && p.allFns[hg] {
						allInstrs(hg, func(y ssa.Instruction) {
							if rt, ok := y.(*ssa.Return); ok && idx < len(rt.Results) {
								cands = append(cands, rt.Results[idx])
							}
						})
					}
				}
			}
			for _, cand := range cands {
				ph, ok := cand.(*ssa.Phi)
				if !ok {
					continue
				}
				for i, e := range ph.Edges {
					if !isNilConst(e) {
						continue
					}
					for _, cf := range edgeConds(ph.Block().Preds[i], ph.Block()) {
						if cf.True {
							if f := loadedField(cf.Cond); f != nil {
								if b, ok := f.Type().Underlying().(*types.Basic); ok && b.Kind() == types.Bool && c.setByOption(f) {
									found = true
								}
							}
						}
					}
				}
			}
			c.check(found, "R05.1", cons, c.ipos(u.At), "factory is nil exactly when the option's flag is set", "the no-reconnect option no longer leads to a nil dial factory: such a client keeps redialling")
		}
	}

	// ---- R05.2
	if c.need("R05.2", "redial goroutine", g != nil) {
		construct := fmt.Sprintf("%s: back-off before every dial", fname(g))
		var dials []ssa.Instruction
		p.coneInstrs(g, func(in ssa.Instruction) {
			if c.isFactoryCall(in) {
				dials = append(dials, in)
			}
		})
		if len(dials) == 0 {
			c.bad("R05.2", construct, p.pos(g.Pos()), "the redial goroutine never dials")
		}
		isBackoffSleep := func(in ssa.Instruction) bool {
			ci, ok := in.(*ssa.Call)
			if !ok || calleeName(ci) != "time.Sleep" {
				return false
			}
			nx, ok := ci.Common().Args[0].(*ssa.Call)
			if !ok || len(nx.Common().Args) < 2 {
				return false
			}
			fa, ok := nx.Common().Args[0].(*ssa.FieldAddr)
			return ok && fieldOfAddr(fa) == r.FBackoff
		}
		for _, d := range dials {
			d := d
			isD := func(in ssa.Instruction) bool { return in == d }
			if reachFromUp(d, isD, nil) == nil {
				c.bad("R05.2", construct, c.ipos(d), "the dial is not retried in a loop: a client whose first redial fails never heals")
				continue
			}
			// from the previous dial (or the start of the goroutine) to this dial every path sleeps
			bad := reachFromEntry(g, isD, isBackoffSleep) != nil || reachFromUp(d, isD, isBackoffSleep) != nil
			if bad {
				c.bad("R05.2", construct, c.ipos(d), "a dial can be reached without sleeping on the configured back-off first (e.g. the first attempt, or only some iterations): a flapping link or a down server is redialled in a busy loop")
				continue
			}
			// attempt counter grows
			grows := false
			p.coneInstrs(g, func(in ssa.Instruction) {
				if !isBackoffSleep(in) {
					return
				}
				nx := in.(*ssa.Call).Common().Args[0].(*ssa.Call)
				for _, o := range c.origins(nx.Common().Args[1]) {
					if bo, ok := o.Root.(*ssa.BinOp); ok && len(o.Fields) == 0 && bo.Op == token.ADD {
						if k, ok := constInt(bo.Y); ok && k > 0 {
							grows = true
						}
						if k, ok := constInt(bo.X); ok && k > 0 {
							grows = true
						}
					}
				}
			})
			c.check(grows, "R05.2", construct, c.ipos(d), "sleep(backoff.next(attempts)) on every path, attempts incremented per iteration", "the attempt counter passed to the back-off does not grow: the delay never backs off")
		}
	}

	// ---- R05.3
	if g != nil {
		var swaps []ssa.Instruction
		p.coneInstrs(g, func(in ssa.Instruction) {
			if c.isSwap(in) {
				swaps = append(swaps, in)
			}
		})
		if len(swaps) == 0 {
			c.und("R05.3", "socket swap", "-", "no store to the socket field in the redial goroutine")
		}
		_, clears := c.flagEvents()
		isReaderStart := func(in ssa.Instruction) bool {
			gi, ok := in.(*ssa.Go)
			return ok && w.Reader != nil && p.unbound(staticCallee(gi)) == w.Reader
		}
		for _, swap := range swaps {
			type need struct {
				name string
				is   ipred
				why  string
			}
			needs := []need{
				{"connection-unusable flag cleared", func(in ssa.Instruction) bool { return clears[in] },
					"after reconnecting the connection stays marked unusable: every later call fails immediately although the link is healthy"},
				{"keepalive re-armed on the new socket", func(in ssa.Instruction) bool {
					ci, ok := in.(*ssa.Call)
					if !ok {
						return false
					}
					f := p.unbound(staticCallee(ci))
					if f == nil || !p.allFns[f] {
						return false
					}
					pong, ping := c.installsHandlers(f, map[*ssa.Function]bool{})
					return pong && ping && c.startsPinger(f, map[*ssa.Function]bool{})
				}, "after reconnecting, pong/ping handlers and the ping sender are not (all) set up on the new socket: a healthy but idle link is dropped at every timeout, or silent peers are no longer detected"},
				{"socket reader restarted", isReaderStart, "after reconnecting nobody reads from the new socket: every call on the healed link hangs"},
			}
			for _, nd := range needs {
				construct := fmt.Sprintf("%s: after the socket swap: %s", fname(g), nd.name)
				if ret := mustFollowFrom(swap, nd.is); ret != nil {
					c.bad("R05.3", construct, c.ipos(ret), nd.why)
				} else {
					c.ok("R05.3", construct, c.ipos(swap), "on every path to the end of the goroutine")
				}
			}
		}
		// the reader must be restarted only after the swap (it reads the socket field)
		p.coneInstrs(g, func(in ssa.Instruction) {
			if isReaderStart(in) {
				c.check(mustPrecedeIP(in, c.isSwap, 0), "R05.3", fmt.Sprintf("%s: reader restarted on the new socket", fname(g)), c.ipos(in),
					"after the swap", "the reader is restarted before the new socket is installed: it reads the dead socket and immediately signals another loss")
			}
		})
	}

	// ---- R05.4
	{
		temp, have := c.tempCode()
		c.check(have, "R05.4", "NewErrors: typed connection error seeded", "-", fmt.Sprintf("code %d -> *RPCConnectionError", temp), "NewErrors no longer maps a code to the typed connection error: untagged calls cannot surface it as *RPCConnectionError")
		// every JSONRPCError literal built inside the connection type's methods (locally synthesised failures)
		n := 0
		for _, fn := range p.Funcs {
			if pkgOf(fn) != p.Root.Pkg {
				continue
			}
			rf := outermost(fn)
			if rf.Signature.Recv() == nil || !isPtrToNamed(rf.Signature.Recv().Type(), p.ModPath, r.TConn.Obj().Name()) {
				continue
			}
			allInstrs(fn, func(in ssa.Instruction) {
				al, ok := in.(*ssa.Alloc)
				if !ok || al.Type().(*types.Pointer).Elem() != types.Type(r.TRPCErr) {
					return
				}
				code, ok := c.errCodeOfLiteral(al)
				if !ok {
					return
				}
				n++
				c.check(have && code == temp, "R05.4", fmt.Sprintf("%s: synthesised connection failure", fname(fn)), c.ipos(al), "temporary-connection code",
					fmt.Sprintf("a locally synthesised connection failure carries code %d instead of the temporary-connection code %d: retry-tagged calls do not retry it and it is not mapped to the typed connection error", code, temp))
			})
		}
		if n == 0 {
			c.und("R05.4", "synthesised failures", "-", "no locally synthesised failure reply found")
		}
		// retry gate compares against it (shared with C04)
		if r.FnCall != nil {
			found := false
			for _, fn := range append([]*ssa.Function{r.FnCall}, c.staticCallees(r.FnCall)...) {
				allInstrs(fn, func(in ssa.Instruction) {
					if bo, ok := in.(*ssa.BinOp); ok && (bo.Op == token.EQL || bo.Op == token.NEQ) && c.isWireCodeVsTemp(bo, temp, have) {
						found = true
					}
				})
			}
			c.check(found, "R05.4", fmt.Sprintf("%s: retry gate code", fname(r.FnCall)), p.pos(r.FnCall.Pos()), "compares the wire code with the temporary-connection code", "the retry gate does not compare the reply's error code with the temporary-connection code: retry-tagged calls do not ride out outages (or retry on handler errors)")
		}
		// loss signals mark the connection unusable (otherwise a clean remote close is taken for 'remote closed' and the client exits instead of reconnecting)
		c.lossSignalsMarkUnusable("R05.4")
	}

	// ---- R05.5
	c.optionPlumbing("R05.5")

	// ---- R05.7
	c.rule("R05.8", "during an outage every accepted request is answered: the accept arm is total for calls and notifications, and the connection-unusable path answers with the temporary error")
	c.acceptArmRule("R05.8")
	c.rule("R05.9", "the error table a client is given is installed as it is: the built-in code-to-type entry for the connection error (which NewErrors puts only in the code direction) is not lost to a rebuilt copy")
	c.registryInstalledAsGiven("R05.9")
	c.rule("R05.10", "a call issued during an outage goes through the connection loop (whose answer carries the temporary-error code the retry gate tests): the transport function does not fail a call by itself before handing it over, except for the caller's own context")
	c.handOverBeforeFailing("R05.10")
	c.ruleOpt("R05.13", "every redial gets a fresh chance: a deadline on the dial is created per dial, inside the dial function")
	c.dialDeadlinePerDial("R05.13")
	c.rule("R05.12", "whenever the socket reader reported the end of the connection together with an error — whatever kind of error, a close frame included — the loop goes through the redial function before it can return (only the error-free end, set aside for a connection this side closed, exits)")
	c.lossLeadsToRedial("R05.12")
	c.rule("R05.11", "with an error table installed the reply's code is always looked up in its code-to-type direction (where the built-in connection error lives): the lookup is not skipped by a test of anything but the table pointer itself")
	c.codeLookupNotGated("R05.11")
	c.rule("R05.7", "every completion delivered to an id-bearing call carries that call's id")
	c.completionIDs("R05.7")

	// ---- R05.6
	{
		n := 0
		for _, fn := range p.Funcs {
			if pkgOf(fn) != p.Root.Pkg {
				continue
			}
			allInstrs(fn, func(in ssa.Instruction) {
				cv, ok := in.(*ssa.Convert)
				if !ok {
					return
				}
				from, ok1 := cv.X.Type().Underlying().(*types.Basic)
				to, ok2 := cv.Type().Underlying().(*types.Basic)
				if !ok1 || !ok2 || from.Info()&types.IsFloat == 0 || to.Info()&types.IsInteger == 0 {
					return
				}
				if _, isConst := cv.X.(*ssa.Const); isConst {
					return
				}
				// only conversions that end up as a duration (the back-off): other float-to-integer
				// conversions are not this rule's business
				isDur := isNamed(cv.Type(), "time", "Duration")
				for _, u := range transitiveUses(cv) {
					if v, ok := u.(ssa.Value); ok && v.Type() != nil && isNamed(v.Type(), "time", "Duration") {
						isDur = true
					}
				}
				if !isDur {
					return
				}
				n++
				construct := fmt.Sprintf("%s: float to integer conversion", fname(fn))
				bounded := false
				for _, f := range cmpFactsAt(cv.Block()) {
					op, L, R := f.Op, f.L, f.R
					if R == cv.X {
						op, L, R = flip(op), R, L
					}
					_ = R
					if L == cv.X && (op == token.LEQ || op == token.LSS) {
						bounded = true
					}
				}
				c.check(bounded, "R05.6", construct, c.ipos(cv), "bounded above by a dominating comparison",
					"a float that can grow without bound (min*1.5^attempt) is converted to an integer duration before being clamped: beyond the int64 range the result is negative, the sleep returns at once and the redial/retry loop spins")
			})
		}
		if n == 0 {
			c.ok("R05.6", "no float-to-integer conversion", "-", "the back-off computation no longer converts floats")
		}
	}
}

func loadedField(v ssa.Value) *types.Var {
	switch x := v.(type) {
	case *ssa.UnOp:
		if fa, ok := x.X.(*ssa.FieldAddr); ok && x.Op == token.MUL {
			return fieldOfAddr(fa)
		}
	case *ssa.Field:
		return fieldOfField(x)
	}
	return nil
}

// setByOption: field f is stored inside a closure returned by an exported option constructor.
func (c *Ctx) setByOption(f *types.Var) bool {
	for _, u := range usesOfKind(c.P.uses(f), "store", "mapupdate") {
		if u.Fn.Parent() != nil && u.Fn.Parent().Object() != nil && u.Fn.Parent().Object().Exported() {
			return true
		}
	}
	return false
}

func (c *Ctx) staticCallees(fn *ssa.Function) []*ssa.Function {
	var out []*ssa.Function
	seen := map[*ssa.Function]bool{fn: true}
	var visit func(f *ssa.Function)
	visit = func(f *ssa.Function) {
		allInstrs(f, func(in ssa.Instruction) {
			if ci, ok := in.(ssa.CallInstruction); ok {
				if g := c.P.unbound(staticCallee(ci)); g != nil && c.P.allFns[g] && !seen[g] {
					seen[g] = true
					out = append(out, g)
					visit(g)
				}
			}
		})
	}
	visit(fn)
	return out
}

// lossSignalsMarkUnusable: same decision as R03.1, reported under another rule id.
func (c *Ctx) lossSignalsMarkUnusable(rule string) { c.lossSignalRule(rule) }

// optionPlumbing: R05.5
func (c *Ctx) optionPlumbing(rule string) {
	p := c.P
	n := 0
	for _, cfgName := range []string{"Config", "ServerConfig"} {
		tn, ok := p.Root.Pkg.Scope().Lookup(cfgName).(*types.TypeName)
		if !ok {
			c.und(rule, "configuration type "+cfgName, "-", "exported configuration struct not found")
			continue
		}
		st := structOf(tn.Type())
		for i := 0; i < st.NumFields(); i++ {
			f := st.Field(i)
			if !c.setByOption(f) {
				continue
			}
			n++
			construct := fmt.Sprintf("%s.%s: option value is consumed", cfgName, f.Name())
			read := false
			for _, u := range p.uses(f) {
				if u.IsWrite() || u.Kind == "addr-arg" {
					continue
				}
				par := outermost(u.Fn)
				// reads inside the option constructors themselves (e.g. appending to a slice, indexing a map to store) do not count
				if u.Fn.Parent() != nil && par.Object() != nil && par.Object().Exported() && isOptionCtor(par) {
					continue
				}
				read = true
			}
			c.check(read, rule, construct, "-", "read on a construction path", "a value set by an option is never read when clients/servers are built: the option has no effect (e.g. timeout, back-off or ping interval silently fall back to zero/defaults)")
		}
	}
	if n == 0 {
		c.und(rule, "options", "-", "no option-written configuration field found")
	}
	// the connection object's tuning fields are filled from configuration
	r := c.R
	for _, f := range []*types.Var{r.FBackoff, r.FTimeout, r.FPingIv} {
		if f == nil {
			continue
		}
		construct := fmt.Sprintf("connection field %s is configured", f.Name())
		ok := false
		for _, u := range usesOfKind(p.uses(f), "store") {
			if lf := loadedField(u.Val); lf != nil && lf != f && types.Identical(lf.Type(), f.Type()) {
				ok = true
			}
		}
		c.check(ok, rule, construct, "-", "stored from a configuration field", "the connection's "+f.Name()+" is never filled from the configuration")
	}
}

func isOptionCtor(fn *ssa.Function) bool {
	res := fn.Signature.Results()
	if res.Len() != 1 {
		return false
	}
	sig, ok := res.At(0).Type().Underlying().(*types.Signature)
	if !ok || sig.Params().Len() != 1 || sig.Results().Len() != 0 {
		return false
	}
	_, isPtr := sig.Params().At(0).Type().(*types.Pointer)
	return isPtr
}

// completionIDs: the caller compares the id of the completion with its request's id before it looks
// at the error code. A locally synthesised failure that leaves the id out therefore surfaces as an
// "id mismatch" client error: retry-tagged calls are not retried and untagged ones do not get the
// typed connection error. An id-less completion is fine only where the request has no id.
func (c *Ctx) completionIDs(rule string) {
	p, r := c.P, c.R
	w := c.ws()
	idF := respFieldByTag(r.TCresp, "id")
	frameID := respFieldByTag(r.TFrame, "id")
	if !c.need(rule, "id member of the client response", idF != nil) {
		return
	}
	arm, haveArm := w.Arms["requests"]
	n := 0
	for _, fn := range p.Funcs {
		if pkgOf(fn) != p.Root.Pkg {
			continue
		}
		allInstrsRaw(fn, func(in ssa.Instruction) {
			if !c.isCompletion(in) {
				return
			}
			var v ssa.Value
			switch x := in.(type) {
			case *ssa.Send:
				v = x.X
			case *ssa.Select:
				for _, st := range x.States {
					if st.Dir == types.SendOnly && st.Send != nil {
						v = st.Send
					}
				}
			}
			if v == nil {
				return
			}
			n++
			construct := fmt.Sprintf("%s: id of the delivered completion", fname(fn))
			os := c.originsOf(v, idF)
			allID, anyOther := len(os) > 0, false
			for _, o := range os {
				switch {
				case o.through(r.FReqID) || (frameID != nil && o.through(frameID)) || c.isInflightKey(o):
				case zeroFieldOrigin(o) || (len(o.Fields) == 0 && isNilConst(o.Root)):
					allID = false
				default:
					allID = false
					anyOther = true
				}
			}
			switch {
			case allID:
				c.ok(rule, construct, c.ipos(in), "the id of the request / frame being answered")
			case anyOther:
				c.bad(rule, construct, c.ipos(in), "the completion's id is neither the id of the request being answered nor absent")
			default:
				// id-less completion: only where the request being answered has no id
				reach := ssa.Instruction(nil)
				if haveArm && arm.Body != nil {
					reach = reachFromBlockF(arm.Body, func(x ssa.Instruction) bool { return x == in }, func(x ssa.Instruction) bool { return x == ssa.Instruction(w.LoopSelect) }, c.assumeID(false))
				}
				inArm := haveArm && arm.Body != nil && reachFromBlock(arm.Body, func(x ssa.Instruction) bool { return x == in }, func(x ssa.Instruction) bool { return x == ssa.Instruction(w.LoopSelect) }) != nil
				c.check(inArm && reach == nil, rule, construct, c.ipos(in), "id-less completion only for requests without id",
					"a completion without id is delivered to a call that has one (e.g. when writing the request failed): the caller's id check turns the temporary-connection error into an id-mismatch client error, so retry-tagged calls are not retried and untagged ones do not see the typed connection error")
			}
		})
	}
	if n == 0 {
		c.und(rule, "completions", "-", "no delivery of a client response found")
	}
}

// isInflightKey: the key obtained by ranging over the in-flight table (entries are registered under their own id).
func (c *Ctx) isInflightKey(o apath) bool {
	ex, ok := o.Root.(*ssa.Extract)
	if !ok || len(o.Fields) != 0 || ex.Index != 1 {
		return false
	}
	nx, ok := ex.Tuple.(*ssa.Next)
	if !ok {
		return false
	}
	rg, ok := nx.Iter.(*ssa.Range)
	return ok && c.fieldVal(rg.X, c.R.FInflight)
}

// registryInstalledAsGiven: R05.9. NewErrors registers code -1111111 → *RPCConnectionError in the
// code-to-type direction only; Register fills both directions. Whoever writes the code-to-type map
// outside those two (a "private snapshot" rebuilt from the type-to-code direction) produces a table
// without that entry: untagged calls during an outage then get the generic error instead of the typed
// connection error. So the code-to-type map is written only by the registry's own constructor and
// Register, or copied from another code-to-type map.
func (c *Ctx) registryInstalledAsGiven(rule string) {
	p := c.P
	tn, ok := p.Root.Pkg.Scope().Lookup("Errors").(*types.TypeName)
	if !ok {
		c.und(rule, "error registry type", "-", "not found")
		return
	}
	reg := p.SSA.LookupMethod(types.NewPointer(tn.Type()), p.Root.Pkg, "Register")
	n := 0
	for _, fn := range p.Funcs {
		if pkgOf(fn) != p.Root.Pkg {
			continue
		}
		allInstrsRaw(fn, func(in ssa.Instruction) {
			mu, ok := in.(*ssa.MapUpdate)
			if !ok {
				return
			}
			mt, ok := mu.Map.Type().Underlying().(*types.Map)
			if !ok || !isNamed(mt.Elem(), "reflect", "Type") {
				return
			}
			if _, isBasic := mt.Key().Underlying().(*types.Basic); !isBasic {
				return
			}
			n++
			construct := fmt.Sprintf("%s: write into the code-to-type direction of the error registry", fname(fn))
			// allowed writers: Register itself, and functions that return a registry (the constructor)
			if fn == reg || p.unbound(fn) == reg {
				c.ok(rule, construct, c.ipos(mu), "Register")
				return
			}
			res := outermost(fn).Signature.Results()
			if res.Len() == 1 && res.At(0).Type() == tn.Type() {
				c.ok(rule, construct, c.ipos(mu), "the registry's constructor")
				return
			}
			// a copy from another code-to-type map: the stored type comes out of a lookup/range of such a map
			copied := c.dependsOn(mu.Value, func(v ssa.Value) bool {
				switch x := v.(type) {
				case *ssa.Lookup:
					m, ok := x.X.Type().Underlying().(*types.Map)
					return ok && isNamed(m.Elem(), "reflect", "Type")
				case *ssa.Next:
					if rg, ok := x.Iter.(*ssa.Range); ok {
						m, ok := rg.X.Type().Underlying().(*types.Map)
						return ok && isNamed(m.Elem(), "reflect", "Type")
					}
				}
				return false
			}, 0, map[ssa.Value]bool{})
			c.check(copied, rule, construct, c.ipos(mu), "copied from another code-to-type map", "the code-to-type direction of an error table is rebuilt from something else than an existing code-to-type map (e.g. from the type-to-code direction): the built-in entry for the connection error, which exists only in the code direction, is lost, and callers get the generic error instead of *RPCConnectionError during an outage")
		})
	}
	if n == 0 {
		c.und(rule, "code-to-type writes", "-", "none found")
	}
}

// handOverBeforeFailing: R05.10. In the transport function of the WebSocket client (the function that
// sends its request parameter on a channel) no return with a possibly non-nil error lies on a path
// that has not reached the hand-over select/send — unless the error is the caller's context error.
// A link-down verdict returned as a Go error never meets the retry gate, which looks at the code
// of the *response*: a retry-tagged call issued during an outage fails at once.
func (c *Ctx) handOverBeforeFailing(rule string) {
	p, r := c.P, c.R
	if r.TCreq == nil {
		c.und(rule, "request record type", "-", "not resolved")
		return
	}
	n := 0
	for _, fn := range p.Funcs {
		if pkgOf(fn) != p.Root.Pkg {
			continue
		}
		var reqParams []*ssa.Parameter
		for _, prm := range fn.Params {
			if prm.Type() == types.Type(r.TCreq) {
				reqParams = append(reqParams, prm)
			}
		}
		if len(reqParams) == 0 {
			continue
		}
		handOver := map[ssa.Instruction]bool{}
		p.coneInstrs(fn, func(in ssa.Instruction) {
			var sent []ssa.Value
			switch x := in.(type) {
			case *ssa.Send:
				sent = append(sent, x.X)
			case *ssa.Select:
				for _, st := range x.States {
					if st.Dir == types.SendOnly {
						sent = append(sent, st.Send)
					}
				}
			}
			for _, v := range sent {
				if v.Type() != types.Type(r.TCreq) {
					continue
				}
				for _, prm := range reqParams {
					if c.isParamOrForwarded(v, prm) {
						handOver[in] = true
					}
				}
			}
		})
		if len(handOver) == 0 {
			continue
		}
		n++
		construct := fmt.Sprintf("%s: no failure before the hand-over to the connection loop", fname(fn))
		var bad ssa.Instruction
		early := func(x ssa.Instruction) bool {
			ret, ok := x.(*ssa.Return)
			if !ok || x.Parent() != fn {
				return false
			}
			for _, rv := range ret.Results {
				if !isErrorType(rv.Type()) {
					continue
				}
				if k, ok := rv.(*ssa.Const); ok && k.IsNil() {
					continue
				}
				if c.dependsOn(rv, func(v ssa.Value) bool {
					call, ok := v.(*ssa.Call)
					return ok && call.Common().IsInvoke() && call.Common().Method.Name() == "Err" && isNamed(call.Common().Value.Type(), "context", "Context")
				}, 0, map[ssa.Value]bool{}) {
					continue
				}
				return true
			}
			return false
		}
		bad = reachFromEntry(fn, early, func(x ssa.Instruction) bool { return handOver[x] })
		if bad != nil {
			c.bad(rule, construct, c.ipos(bad), "the transport function can return an error without having handed the request to the connection loop (e.g. a \"link is down\" fast path): that failure is a Go error, not a response with the temporary-error code, so the retry gate never sees it — a retry-tagged call issued during an outage fails at once")
		} else {
			c.ok(rule, construct, p.pos(fn.Pos()), "every failing return lies behind the hand-over select (or reports the caller's context)")
		}
	}
	if n == 0 {
		c.und(rule, "hand-over of requests", "-", "no function enqueueing its request parameter found")
	}
}

// codeLookupNotGated: R05.11. In the client's error reconstruction (the method of the wire error type
// that returns a reflect.Value) every return is preceded by the lookup in the code-to-type map, except
// on the branch where the table pointer is nil. NewErrors puts the connection error only in the
// code direction: a fast path "no types registered → nothing to map" (len of the type direction,
// a counter of Register calls) turns the typed connection error into the generic one.
func (c *Ctx) codeLookupNotGated(rule string) {
	p := c.P
	tn, ok := p.Root.Pkg.Scope().Lookup("Errors").(*types.TypeName)
	if !ok {
		c.und(rule, "error registry type", "-", "not found")
		return
	}
	var val *ssa.Function
	for _, fn := range p.Funcs {
		if pkgOf(fn) != p.Root.Pkg || fn.Parent() != nil || fn.Signature.Recv() == nil {
			continue
		}
		if fn.Signature.Results().Len() == 1 && isNamed(fn.Signature.Results().At(0).Type(), "reflect", "Value") {
			for _, prm := range fn.Params {
				if pt, ok := prm.Type().(*types.Pointer); ok && pt.Elem() == tn.Type() {
					val = fn
				}
			}
		}
	}
	if val == nil {
		c.und(rule, "client error reconstruction method", "-", "not found")
		return
	}
	isLookup := func(in ssa.Instruction) bool {
		lk, ok := in.(*ssa.Lookup)
		if !ok {
			return false
		}
		mt, ok := lk.X.Type().Underlying().(*types.Map)
		if !ok || !isNamed(mt.Elem(), "reflect", "Type") {
			return false
		}
		_, isBasic := mt.Key().Underlying().(*types.Basic)
		return isBasic
	}
	found := false
	p.coneInstrs(val, func(in ssa.Instruction) {
		if isLookup(in) {
			found = true
		}
	})
	construct := fmt.Sprintf("%s: code-to-type lookup", fname(val))
	if !found {
		c.und(rule, construct, p.pos(val.Pos()), "no lookup in a code-to-type map found")
		return
	}
	// edges on which the table pointer is known to be nil are not of interest
	edgeOK := func(b *ssa.BasicBlock, succ int) bool {
		iff, ok := b.Instrs[len(b.Instrs)-1].(*ssa.If)
		if !ok {
			return true
		}
		bo, ok := iff.Cond.(*ssa.BinOp)
		if !ok || (bo.Op != token.EQL && bo.Op != token.NEQ) {
			return true
		}
		other := bo.X
		if isNilConst(bo.X) {
			other = bo.Y
		} else if !isNilConst(bo.Y) {
			return true
		}
		pt, ok := other.Type().(*types.Pointer)
		if !ok || pt.Elem() != tn.Type() {
			return true
		}
		nilEdge := 0
		if bo.Op == token.NEQ {
			nilEdge = 1
		}
		return succ != nilEdge
	}
	var bad ssa.Instruction
	for _, b := range val.Blocks {
		ret, ok := b.Instrs[len(b.Instrs)-1].(*ssa.Return)
		if !ok {
			continue
		}
		if !mustPrecedeIPF(ret, isLookup, edgeOK, ipMaxDepth) {
			bad = ret
		}
	}
	if bad != nil {
		c.bad(rule, construct, c.ipos(bad), "a return is reachable with the error table present but without the code having been looked up in its code-to-type direction (e.g. a fast path for \"no types registered\"): the built-in entry for the connection error lives only there, so calls failing during an outage yield the generic error instead of *RPCConnectionError")
	} else {
		c.ok(rule, construct, p.pos(val.Pos()), "every return with a table present lies behind the lookup")
	}
}

// lossLeadsToRedial: R05.12. In the loop's socket-message arm no return is reachable without passing a
// call of the redial function, except along the edge on which an error value was found nil. A test of
// the *kind* of error (websocket.IsCloseError(err, 1000, 1001): "the peer closed regularly") beside it
// makes a reconnecting client give up for good when a server restarts gracefully.
func (c *Ctx) lossLeadsToRedial(rule string) {
	r := c.R
	w := c.ws()
	arm, ok := w.Arms["incoming"]
	if !ok || arm.Body == nil || r.FnRedial == nil || r.FnLoop == nil {
		c.und(rule, "socket-message arm / redial function", "-", "not resolved")
		return
	}
	edgeOK := func(b *ssa.BasicBlock, succ int) bool {
		iff, ok := b.Instrs[len(b.Instrs)-1].(*ssa.If)
		if !ok {
			return true
		}
		bo, ok := iff.Cond.(*ssa.BinOp)
		if !ok || (bo.Op != token.EQL && bo.Op != token.NEQ) {
			return true
		}
		other := bo.X
		if isNilConst(bo.X) {
			other = bo.Y
		} else if !isNilConst(bo.Y) {
			return true
		}
		if !isErrorType(other.Type()) {
			return true
		}
		nilEdge := 0
		if bo.Op == token.NEQ {
			nilEdge = 1
		}
		return succ != nilEdge
	}
	blocks := armBlocks(arm)
	s := newIPSearch(func(in ssa.Instruction) bool {
		ret, ok := in.(*ssa.Return)
		return ok && ret.Parent() == r.FnLoop
	}, func(in ssa.Instruction) bool {
		return isCallTo(in, r.FnRedial) || (in.Parent() == r.FnLoop && !inRegion(blocks, in))
	})
	s.edgeOK = edgeOK
	construct := fmt.Sprintf("%s: a reported connection error leads to the redial function", fname(r.FnLoop))
	if s.scan(arm.Body, 0, nil) {
		c.bad(rule, construct, c.ipos(s.found), "the loop can return from its socket-message arm although the reader reported an error, without having asked the redial function (e.g. a regular close frame taken for 'remote closed'): a reconnecting client whose server restarts gracefully never redials — every later call fails with 'routine exiting'")
	} else {
		c.ok(rule, construct, c.ipos(arm.Body.Instrs[0]), "every return in the arm lies behind the redial call or on the error-free edge")
	}
}
