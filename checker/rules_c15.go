package main

import (
	"fmt"
	"go/token"
	"go/types"
	"os"
	"strings"

	"golang.org/x/tools/go/ssa"
)

func init() {
	register(&propInfo{
		ID:          "C15",
		Explanation: "Origin, must-call and site analysis of what happens to server-side work when a connection ends: (R15.1) the context handed to every handler derives, through cancellation-preserving steps only, from the per-connection context whose cancel function is deferred in the connection loop; every loop exit also runs the in-flight failer, which invokes the cancel function of every entry of the handling table; (R15.2) every function that can serve as a writer provider invokes its callback on every path (a response written for a dead connection must not park its handler goroutine); (R15.3) the forwarding goroutine's select set contains the exit signal and returns on it, and the channel registrar's hand-over is a select alternative to the exit signal; (R15.4) channels on which helper goroutines report back to the loop have room for a report that arrives after the loop has exited; (R15.5) the loop's deferred cleanup cannot block (the ping stopper does not wait for anything), so the cancellations are actually reached; (R15.6) exit cleanup is registered before every return of the loop. R15.3 also decides, under the situation 'exit case chosen with ok=false' (comparisons of the chosen index with constants decided, short-circuit phis evaluated over feasible edges), that the forwarder returns before its next select. R15.3 also: no goroutine is started on the forwarder's exit path; R15.5 also: no deferred call of the loop waits on a WaitGroup. (R15.9) once a message was taken from the socket reader every path restarts the reader, signals loss or redials. (R15.10) no blocking read lies in the connection loop's synchronous cone. (R15.11) every send on the frame-header channel or the frame queue is a select alternative to the exit signal (or a context's Done): a reader goroutine is not left parked when the loop exits while a frame arrives. (R15.12) the ping/pong handlers, which run on the socket reader, take no mutex and write no message.",
		NotDecided:  "Goroutine counts at run time, handlers that ignore their context, a socket reader parked on its bare hand-over when the loop exits at the instant a frame header arrives (observation recorded in DESIGN.md).",
		Assumptions: []string{"writer providers are the functions that flow into a parameter of type func(func(io.Writer)) of the dispatcher / lazy-writer helper"},
		Run:         runC15,
	})
}

func runC15(c *Ctx) {
	p, r := c.P, c.R
	w := c.ws()
	c.rule("R15.1", "handler contexts derive from the per-connection context cancelled on loop exit; the failer cancels every handling entry")
	c.rule("R15.2", "every writer provider invokes its callback on every path")
	c.rule("R15.3", "the forwarder watches the exit signal and returns on it; the registrar's hand-over is a select alternative to the exit signal")
	c.rule("R15.4", "report channels from helper goroutines to the loop are buffered")
	c.rule("R15.5", "deferred cleanup of the loop cannot block")
	c.rule("R15.6", "exit cleanup registered before every return of the loop")

	// ---- R15.1
	if c.need("R15.1", "FN_loop", r.FnLoop != nil) {
		invs := c.dispInvokes()
		if len(invs) == 0 {
			c.und("R15.1", "context of the handler goroutine", "-", "no dispatcher invocation found")
		}
		for _, in := range invs {
			construct := fmt.Sprintf("%s: context of the handler goroutine", fname(outermost(in.Parent())))
			var arg ssa.Value
			for _, a := range in.(ssa.CallInstruction).Common().Args {
				if isNamed(a.Type(), "context", "Context") {
					arg = a
				}
			}
			good := arg != nil && c.ctxDerives(arg, c.isLoopCtxRoot, 0, map[ssa.Value]bool{})
			c.check(good, "R15.1", construct, c.ipos(in), "derives (through cancellation-preserving steps only) from the per-connection context whose cancel is deferred in the loop",
				"the handler's context does not derive from the per-connection context that the loop cancels when it exits: it survives the end of its connection")
		}
		// the connection-loss sweep cancels every running handler
		cons3 := "connection-loss sweep cancels every running handler"
		var call ssa.Instruction
		for _, fn := range p.Funcs {
			allInstrsRaw(fn, func(in ssa.Instruction) {
				ci, ok := in.(*ssa.Call)
				if !ok || ci.Common().IsInvoke() || ci.Common().Value == nil {
					return
				}
				if ex, ok := ci.Common().Value.(*ssa.Extract); ok {
					if nx, ok := ex.Tuple.(*ssa.Next); ok {
						if rg, ok := nx.Iter.(*ssa.Range); ok && c.fieldVal(rg.X, r.FHandling) {
							call = in
						}
					}
				}
			})
		}
		if call == nil {
			c.bad("R15.1", cons3, "-", "nothing sweeps the handling table any more: handlers of id-bearing calls keep running after a connection loss")
		} else {
			uncond := true
			for _, cf := range expandConds(impliedConds(call.Block())) {
				if ex, ok := cf.Cond.(*ssa.Extract); ok {
					if _, ok := ex.Tuple.(*ssa.Next); ok {
						continue
					}
				}
				if u, ok := cf.Cond.(*ssa.UnOp); ok && u.Op == token.NOT {
					continue
				}
				uncond = false
			}
			c.check(uncond, "R15.1", cons3, c.ipos(call), "unconditional cancel in the range body", "only some handling entries are cancelled")
			// and the sweep runs on every loop exit and on every loss path
			sweep := func(in ssa.Instruction) bool { return c.isRangeOver(in, r.FHandling) }
			ranOnExit := false
			for _, d := range w.Defers {
				tgt := p.unbound(staticCallee(d))
				if tgt != nil && p.allFns[tgt] {
					p.coneInstrs(tgt, func(x ssa.Instruction) {
						if sweep(x) {
							ranOnExit = true
						}
					})
				}
			}
			c.check(ranOnExit, "R15.1", cons3+" (on loop exit)", c.ipos(call), "part of the deferred cleanup", "the sweep is not part of the loop's deferred cleanup")
			for _, g := range c.redialSpawns() {
				c.check(mustPrecedeIP(g, sweep, 0), "R15.1", cons3+" (before redial)", c.ipos(g), "runs on every loss path", "a loss path reconnects without cancelling the handlers of the lost connection")
			}
		}
	}

	// ---- R15.2
	{
		provs := map[*ssa.Function]bool{}
		// values flowing into provider-typed parameters of tree functions / dispatcher invocations
		for _, fn := range p.Funcs {
			if pkgOf(fn) != p.Root.Pkg {
				continue
			}
			allInstrs(fn, func(in ssa.Instruction) {
				ci, ok := in.(ssa.CallInstruction)
				if !ok {
					return
				}
				for _, a := range ci.Common().Args {
					if !isWriterProviderType(a.Type()) {
						continue
					}
					v := a
					if ld, ok := v.(*ssa.UnOp); ok && ld.Op == token.MUL {
						if cv := p.canonVar(ld.X); cv != ld.X {
							v = &ssa.UnOp{Op: token.MUL, X: cv}
						}
					}
					var lv []ssa.Value
					leaves(v, map[ssa.Value]bool{}, &lv)
					for _, l := range lv {
						switch x := l.(type) {
						case *ssa.MakeClosure:
							if f, ok := x.Fn.(*ssa.Function); ok {
								provs[p.unbound(f)] = true
							}
						case *ssa.Function:
							provs[x] = true
						}
					}
				}
			})
		}
		for _, fn := range p.Funcs {
			if c.isLockedWriterProvider(fn) {
				provs[fn] = true
			}
		}
		n := 0
		for _, fn := range p.Funcs {
			if !provs[fn] || len(fn.Params) == 0 {
				continue
			}
			cb := fn.Params[len(fn.Params)-1]
			if !isWriterCallbackType(cb.Type()) {
				continue
			}
			n++
			construct := fmt.Sprintf("%s: writer provider calls back", fname(fn))
			isCB := func(in ssa.Instruction) bool {
				ci, ok := in.(*ssa.Call)
				return ok && ci.Common().Value == ssa.Value(cb)
			}
			if ret := reachFromEntry(fn, isReturn, isCB); ret != nil {
				c.bad("R15.2", construct, c.ipos(ret), "a path returns without invoking the callback: the lazy writer waits for it unconditionally, so a handler finishing after its connection died parks its goroutine for ever")
			} else {
				c.ok("R15.2", construct, p.pos(fn.Pos()), "callback invoked on every path to a return")
			}
		}
		if n == 0 {
			c.und("R15.2", "writer providers", "-", "none found")
		}
	}

	// ---- R15.3
	if c.needWS("R15.3", "outChans", w.OutChans) && c.needWS("R15.3", "registrar", w.Registrar) {
		// forwarder: a reflect.SelectCase literal built from reflect.ValueOf(load F_exiting), and a return in the branch for that case index
		construct := fmt.Sprintf("%s: watches the exit signal", fname(w.OutChans))
		exitWatched := false
		allInstrs(w.OutChans, func(in ssa.Instruction) {
			if ci, ok := in.(*ssa.Call); ok && calleeName(ci) == "reflect.ValueOf" && isLoadOf(stripConv(ci.Common().Args[0]), r.FExiting) {
				// its result must be stored into a SelectCase.Chan that is part of the select set
				for _, use := range transitiveUses(ci) {
					if st, ok := use.(*ssa.Store); ok {
						if fa, ok := st.Addr.(*ssa.FieldAddr); ok && isNamed(fa.X.Type(), "reflect", "SelectCase") {
							exitWatched = true
						}
					}
				}
			}
		})
		if !exitWatched {
			// the case list may be built by a helper that is handed reflect.ValueOf(exit signal)
			var exitVals []ssa.Value
			allInstrs(w.OutChans, func(in ssa.Instruction) {
				if ci, ok := in.(*ssa.Call); ok && calleeName(ci) == "reflect.ValueOf" && isLoadOf(stripConv(ci.Common().Args[0]), r.FExiting) {
					exitVals = append(exitVals, ci)
				}
			})
			isExitVal := func(v ssa.Value) bool {
				for _, e := range exitVals {
					if e == v {
						return true
					}
				}
				return false
			}
			for _, g := range c.region(w.OutChans) {
				allInstrsRaw(g, func(in ssa.Instruction) {
					st, ok := in.(*ssa.Store)
					if !ok {
						return
					}
					if fa, ok := st.Addr.(*ssa.FieldAddr); ok && isNamed(fa.X.Type(), "reflect", "SelectCase") && isNamed(st.Val.Type(), "reflect", "Value") {
						if len(exitVals) > 0 && c.dependsOn(st.Val, isExitVal, 0, map[ssa.Value]bool{}) {
							exitWatched = true
						}
						// … or is handed the exit channel itself and wraps it
						if g != w.OutChans && c.dependsOn(st.Val, func(v ssa.Value) bool { return isLoadOf(v, r.FExiting) }, 0, map[ssa.Value]bool{}) {
							exitWatched = true
						}
					}
				})
			}
		}
		c.check(exitWatched, "R15.3", construct, p.pos(w.OutChans.Pos()), "exit signal is one of the select cases", "the forwarding goroutine does not watch the connection's exit signal: it lives on after the connection ended")
		// it must be able to return (a branch of the chosen-index switch returns without further select)
		hasRet := false
		allInstrs(w.OutChans, func(in ssa.Instruction) {
			if isReturn(in) {
				hasRet = true
			}
		})
		c.check(hasRet, "R15.3", construct+" (returns)", p.pos(w.OutChans.Pos()), "has a return path", "the forwarding goroutine never returns")
		c.forwarderExitArm("R15.3", w.OutChans)
		cons2 := fmt.Sprintf("%s: hand-over of a channel registration", fname(w.Registrar))
		n := 0
		for _, u := range usesOfKind(p.uses(r.FReg), "send", "select-send") {
			n++
			if u.Kind == "send" {
				c.bad("R15.3", cons2, c.ipos(u.At), "bare send on the registration channel: once the forwarding goroutine is gone (connection ended) a handler returning its channel blocks for ever")
				continue
			}
			sel := u.At.(*ssa.Select)
			hasExit := false
			for _, st := range sel.States {
				if st.Dir == types.RecvOnly && isLoadOf(st.Chan, r.FExiting) {
					hasExit = true
				}
			}
			c.check(hasExit && sel.Blocking, "R15.3", cons2, c.ipos(sel), "select alternative to the exit signal", "the registration hand-over does not watch the exit signal")
		}
		if n == 0 {
			c.und("R15.3", cons2, p.pos(w.Registrar.Pos()), "no send on the registration channel")
		}
	}

	// ---- R15.4
	if r.FReadErr != nil {
		n := 0
		for _, u := range usesOfKind(p.uses(r.FReadErr), "store") {
			n++
			construct := fmt.Sprintf("%s: read-error report channel", fname(u.Fn))
			mk, ok := u.Val.(*ssa.MakeChan)
			sz, isK := int64(0), false
			if ok {
				sz, isK = constInt(mk.Size)
			}
			// every sender must be a bare send only if buffered
			bare := len(usesOfKind(p.uses(r.FReadErr), "send")) > 0
			c.check(!bare || (ok && isK && sz >= 1), "R15.4", construct, c.ipos(u.At), "buffered (the frame reader reports with a plain send)", "the frame reader reports a failed read with a plain send on an unbuffered channel: if the loop has already exited (server shutdown while a frame is half received) the goroutine and its connection are pinned for ever")
		}
		if n == 0 {
			c.und("R15.4", "read-error report channel", "-", "never made")
		}
	}

	// ---- R15.11
	c.rule("R15.11", "the socket-reading goroutines hand a frame header to the loop and a frame body to the frame executor with a send that is a select alternative to the connection's exit signal (or its context): a plain send parks the reader, with the connection it holds, for ever when the loop exits at the instant a frame has arrived")
	c.readSideHandOvers("R15.11")
	c.rule("R15.12", "the socket reader is never held up by the write side: the ping / pong handlers, which gorilla runs on the reading goroutine, take no library mutex and write nothing under it (a reader parked behind a writer stuck on a silent peer never sees the connection end, so nothing is cancelled)")
	c.controlHandlersDoNotLock("R15.12")

	// ---- R15.5 / R15.6
	c.cleanupCannotBlock("R15.5")
	c.exitCleanup("R15.6")

	// ---- R15.7: handlers run on their own goroutine: a handler on the frame executor keeps frames from
	// being executed, the reader then blocks on the full queue, the close of the connection is never seen and
	// nothing is cancelled
	c.rule("R15.7", "every handler runs on its own goroutine, never on the frame executor")
	if invs := c.dispInvokes(); len(invs) == 0 {
		c.und("R15.7", "handler goroutine", "-", "no dispatcher invocation found")
	} else {
		for _, in := range invs {
			c.check(c.onOwnGoroutine(in), "R15.7", fmt.Sprintf("%s: handler goroutine", fname(outermost(in.Parent()))), c.ipos(in), "own goroutine",
				"a handler (e.g. of a notification) runs on the frame executor itself: while it runs no frame is executed, the reader blocks once the queue is full, the peer's disconnect is never seen and the handler's context is never cancelled")
		}
	}

	// ---- R15.8: the context-cancelled arm must not wait for anything
	c.rule("R15.9", "the connection keeps being read until it ends (so that the peer's close, FIN or RST is seen and handlers are cancelled): once a message was taken from the socket reader, every path restarts the reader, signals loss or redials")
	c.readCycleRule("R15.9")
	c.rule("R15.10", "the connection loop never reads from the socket itself (message bodies are read on a goroutine of their own): a peer stalling in the middle of a message cannot keep the loop from seeing its context, the stop signal or the timeout")
	c.loopNeverReadsSocket("R15.10")
	c.rule("R15.8", "the loop's context-cancelled arm returns without taking a lock, writing to the socket or sending on a channel")
	if arm, ok := w.Arms["ctx"]; !ok || arm.Body == nil {
		c.und("R15.8", "context arm of the connection loop", "-", "not recovered")
	} else {
		li := p.lockInfo()
		_ = li
		blocking := func(in ssa.Instruction) bool {
			switch x := in.(type) {
			case *ssa.Send:
				return true
			case *ssa.Select:
				return x.Blocking
			case *ssa.Call:
				if _, op := p.lockOp(x); op == 1 {
					return true
				}
				n := calleeName(x)
				if strings.HasPrefix(n, "(*"+gorilla+".Conn).") && gorillaWriteSide[methodOf(x)] {
					return true
				}
			}
			return false
		}
		atEnd := func(in ssa.Instruction) bool { return isReturn(in) || (p.boundary != nil && p.boundary[in]) }
		wv := reachFromBlock(arm.Body, blocking, atEnd)
		c.check(wv == nil, "R15.8", fmt.Sprintf("%s: context-cancelled arm", fname(r.FnLoop)), c.ipos(arm.Body.Instrs[0]), "returns at once", "when its context is cancelled the loop first waits for something (the write lock, a socket write, a channel): a writer stuck on a stalled peer holds that lock, so the loop never returns and its cleanup (cancelling handlers, failing calls, closing the socket) never runs")
	}
}

// forwarderExitArm: once the exit-signal case of the forwarder's reflect.Select fires with ok=false
// (the signal channel was closed), every path returns before the next select. The case index is the
// constant position of the SelectCase whose Chan is reflect.ValueOf(exit signal); the arm is the
// true edge of `chosen == index`. A forwarder that keeps selecting (to drain producers) lives as long as
// some handler's channel stays open — the goroutine and the connection it references are retained.
// When the index is not a constant compared with ==, nothing is claimed beyond the weaker checks above.
func (c *Ctx) forwarderExitArm(rule string, fwd *ssa.Function) {
	p, r := c.P, c.R
	var sel *ssa.Call
	exitIdx := int64(-1)
	allInstrs(fwd, func(in ssa.Instruction) {
		ci, ok := in.(*ssa.Call)
		if !ok {
			return
		}
		switch calleeName(ci) {
		case "reflect.Select":
			sel = ci
		case "reflect.ValueOf":
			if !isLoadOf(stripConv(ci.Common().Args[0]), r.FExiting) {
				return
			}
			for _, use := range transitiveUses(ci) {
				st, ok := use.(*ssa.Store)
				if !ok {
					continue
				}
				fa, ok := st.Addr.(*ssa.FieldAddr)
				if !ok || !isNamed(fa.X.Type(), "reflect", "SelectCase") {
					continue
				}
				if ia, ok := fa.X.(*ssa.IndexAddr); ok {
					if k, isK := constInt(ia.Index); isK {
						exitIdx = k
					}
				}
				// a composite literal built in a local and copied into its slot
				if al, ok := fa.X.(*ssa.Alloc); ok {
					for _, r1 := range *al.Referrers() {
						ld, ok := r1.(*ssa.UnOp)
						if !ok || ld.Op != token.MUL || ld.Referrers() == nil {
							continue
						}
						for _, r2 := range *ld.Referrers() {
							if st2, ok := r2.(*ssa.Store); ok && st2.Val == ssa.Value(ld) {
								if ia, ok := st2.Addr.(*ssa.IndexAddr); ok {
									if k, isK := constInt(ia.Index); isK {
										exitIdx = k
									}
								}
							}
						}
					}
				}
			}
		}
	})
	if sel == nil || exitIdx < 0 {
		return
	}
	var chosen, okv ssa.Value
	for _, ref := range *sel.Referrers() {
		if ex, isEx := ref.(*ssa.Extract); isEx {
			switch ex.Index {
			case 0:
				chosen = ex
			case 2:
				okv = ex
			}
		}
	}
	if chosen == nil {
		return
	}
	construct := fmt.Sprintf("%s: exit-signal case returns", fname(fwd))
	// the situation "case exitIdx fired, ok == false" as path facts: every comparison of the chosen index
	// with a constant is decided; a comparison with something that is not a constant cannot be decided
	// here, and then nothing is claimed
	truthOf := map[ssa.Value]bool{}
	if okv != nil {
		truthOf[okv] = false
	}
	n := 0
	decidable := true
	allInstrs(fwd, func(in ssa.Instruction) {
		bo, ok := in.(*ssa.BinOp)
		if !ok {
			return
		}
		x, y, op := bo.X, bo.Y, bo.Op
		if y == chosen {
			x, y, op = y, x, flip(op)
		}
		if x != chosen {
			return
		}
		switch op {
		case token.EQL, token.NEQ, token.LSS, token.LEQ, token.GTR, token.GEQ:
		default:
			return // arithmetic on the index (chosen - internal): not a test
		}
		k, isK := constInt(y)
		if !isK {
			decidable = false
			return
		}
		switch op {
		case token.EQL:
			truthOf[bo] = exitIdx == k
			if exitIdx == k {
				n++
			}
		case token.NEQ:
			truthOf[bo] = exitIdx != k
		case token.LSS:
			truthOf[bo] = exitIdx < k
		case token.LEQ:
			truthOf[bo] = exitIdx <= k
		case token.GTR:
			truthOf[bo] = exitIdx > k
		case token.GEQ:
			truthOf[bo] = exitIdx >= k
		}
	})
	if !decidable || n == 0 {
		return
	}
	phiBusy := map[*ssa.Phi]bool{}
	var decide func(v ssa.Value) int
	decide = func(v ssa.Value) int {
		if t, ok := truthOf[v]; ok {
			if t {
				return 1
			}
			return 2
		}
		if u, ok := v.(*ssa.UnOp); ok && u.Op == token.NOT {
			switch decide(u.X) {
			case 1:
				return 2
			case 2:
				return 1
			}
		}
		if ph, ok := v.(*ssa.Phi); ok {
			// a short-circuit condition kept as a value: the incoming edges that the decided tests allow
			// must agree
			if phiBusy[ph] {
				return 0
			}
			phiBusy[ph] = true
			defer delete(phiBusy, ph)
			res := 0
			for i, pred := range ph.Block().Preds {
				if iff, isIf := pred.Instrs[len(pred.Instrs)-1].(*ssa.If); isIf && len(pred.Succs) == 2 && pred.Succs[0] != pred.Succs[1] {
					d := decide(iff.Cond)
					if (d == 1 && pred.Succs[0] != ph.Block()) || (d == 2 && pred.Succs[1] != ph.Block()) {
						continue // this edge is not taken in the situation considered
					}
				}
				var e int
				if k := constKind(ph.Edges[i]); k == 1 || k == 2 {
					e = k
				} else {
					e = decide(ph.Edges[i])
				}
				if e == 0 || (res != 0 && res != e) {
					return 0
				}
				res = e
			}
			return res
		}
		return 0
	}
	s := &ipSearch{p: p, seen: map[string]bool{}, factSeen: map[string][]*factSet{},
		// the forwarder's own select again, or any other select on the way out (a drain loop in a helper)
		target: func(in ssa.Instruction) bool {
			ci, ok := in.(*ssa.Call)
			return ok && calleeName(ci) == "reflect.Select"
		},
		avoid: func(in ssa.Instruction) bool { return isReturn(in) && in.Parent() == fwd },
		edgeOK: func(from *ssa.BasicBlock, k int) bool {
			iff, ok := from.Instrs[len(from.Instrs)-1].(*ssa.If)
			if !ok {
				return true
			}
			if os.Getenv("JRP_DEBUG") == "exitarm" {
				fmt.Fprintf(os.Stderr, "  edge from block %d cond %s decide=%d k=%d\n", from.Index, iff.Cond.Name()+"="+iff.Cond.String(), decide(iff.Cond), k)
			}
			switch decide(iff.Cond) {
			case 1:
				return k == 0
			case 2:
				return k == 1
			}
			return true
		}}
	again := s.scanF(sel.Block(), instrIndex(sel)+1, nil, nil)
	if os.Getenv("JRP_DEBUG") == "exitarm" {
		fmt.Fprintf(os.Stderr, "exitarm: idx=%d n=%d decidable=%v again=%v found=%v truth=%d\n", exitIdx, n, decidable, again, s.found, len(truthOf))
	}
	// … and starts nothing that outlives the connection on the way out
	s2 := &ipSearch{p: p, flat: true, seen: map[string]bool{}, factSeen: map[string][]*factSet{},
		target: func(in ssa.Instruction) bool { _, isGo := in.(*ssa.Go); return isGo },
		avoid:  isReturn, edgeOK: s.edgeOK}
	if s2.scanF(sel.Block(), instrIndex(sel)+1, nil, nil) {
		c.bad(rule, construct+" (no goroutine left behind)", c.ipos(s2.found), "on its way out (exit signal closed) the forwarding goroutine starts another goroutine — e.g. one per registered channel that drains it until the handler closes it: a streaming handler that just returns on cancellation never closes its channel, so that goroutine stays blocked for ever after the connection is gone")
	} else {
		c.ok(rule, construct+" (no goroutine left behind)", c.ipos(sel), "no go statement on the exit path")
	}
	c.check(!again, rule, construct, c.ipos(sel), "on the closed exit signal every path returns before the next select",
		"after the exit signal fired (channel closed) the forwarding goroutine can go back to its select: it then lives until every handler has closed its channel — a streaming handler that just returns on cancellation keeps the goroutine and the whole connection object alive for ever")
	_ = n
}

// loopNeverReadsSocket: R15.10. No blocking read (io.ReadAll, ReadFrom, io.Copy, a Read through the
// io.Reader interface, gorilla's NextReader/ReadMessage/ReadJSON) is reachable from the connection loop
// through synchronous calls.
func (c *Ctx) loopNeverReadsSocket(rule string) {
	p, r := c.P, c.R
	if r.FnLoop == nil {
		c.und(rule, "connection loop", "-", "not resolved")
		return
	}
	construct := fmt.Sprintf("%s: no socket read on the loop's own goroutine", fname(r.FnLoop))
	var bad ssa.Instruction
	p.coneInstrs(r.FnLoop, func(in ssa.Instruction) {
		ci, ok := in.(*ssa.Call)
		if !ok {
			return
		}
		switch calleeName(ci) {
		case "io.ReadAll", "io/ioutil.ReadAll", "(*bytes.Buffer).ReadFrom", "io.Copy", "io.CopyN", "io.ReadFull", "io.ReadAtLeast",
			"(*github.com/gorilla/websocket.Conn).NextReader", "(*github.com/gorilla/websocket.Conn).ReadMessage", "(*github.com/gorilla/websocket.Conn).ReadJSON":
			bad = in
		}
		if cm := ci.Common(); cm.IsInvoke() && cm.Method.Name() == "Read" && isNamed(cm.Value.Type(), "io", "Reader") {
			bad = in
		}
	})
	if bad != nil {
		c.bad(rule, construct, c.ipos(bad), "the connection loop reads a message body itself: while a peer stalls in the middle of a message the loop sits in that read and looks at neither its context nor the stop signal nor the timeout — the connection, its goroutines and its handlers' cleanup are retained")
	} else {
		c.ok(rule, construct, p.pos(r.FnLoop.Pos()), "no blocking read in the loop's synchronous cone")
	}
}

// readSideHandOvers: R15.11. The goroutine that waits for the next message hands its reader to the
// connection loop over an unbuffered channel, and the goroutine that has read a frame's body hands it to the
// frame executor over a bounded queue. Both receivers stop when the loop exits (the executor on the
// connection context the loop cancels). A frame that arrives at that instant — the peer keeps sending while
// the server cancels the connection's context, or while the dead-peer timer fires — leaves the sender
// parked on a channel nobody receives from: one library goroutine, and the socket it references, retained
// per dead connection. The hand-over must therefore be a blocking select with the exit signal (or the
// connection context's Done channel) as an alternative; a non-blocking send is no hand-over and is left to
// the read-cycle rule.
func (c *Ctx) readSideHandOvers(rule string) {
	p, r := c.P, c.R
	if r.FIncoming == nil && r.FQueue == nil {
		c.und(rule, "role:F_incoming/F_queue", "-", "neither the frame-header channel nor the frame queue could be resolved")
		return
	}
	which := func(v ssa.Value) string {
		switch {
		case isLoadOf(v, r.FIncoming):
			return "frame header to the loop"
		case isLoadOf(v, r.FQueue):
			return "frame body to the executor"
		}
		return ""
	}
	isCtxDone := func(v ssa.Value) bool {
		ci, ok := v.(*ssa.Call)
		if !ok {
			return false
		}
		cm := ci.Common()
		return cm.IsInvoke() && cm.Method.Name() == "Done" && isNamed(cm.Value.Type(), "context", "Context")
	}
	n := 0
	for _, fn := range p.Funcs {
		if pkgOf(fn) != p.Root.Pkg {
			continue
		}
		allInstrs(fn, func(in ssa.Instruction) {
			switch x := in.(type) {
			case *ssa.Send:
				if k := which(x.Chan); k != "" {
					n++
					c.bad(rule, fmt.Sprintf("%s: hand-over of a %s", fname(fn), k), c.ipos(x), "plain send: when the connection loop exits at the instant this frame has arrived (server-side context cancel or dead-peer timer while the peer is still sending) nobody receives any more, and this goroutine — with the connection it references — is retained for ever")
				}
			case *ssa.Select:
				for _, st := range x.States {
					if st.Dir != types.SendOnly {
						continue
					}
					k := which(st.Chan)
					if k == "" {
						continue
					}
					n++
					watches := !x.Blocking
					for _, s2 := range x.States {
						if s2.Dir == types.RecvOnly && (isLoadOf(s2.Chan, r.FExiting) || isCtxDone(s2.Chan)) {
							watches = true
						}
					}
					c.check(watches, rule, fmt.Sprintf("%s: hand-over of a %s", fname(fn), k), c.ipos(x), "select alternative to the exit signal", "the hand-over does not watch the connection's exit signal or context: it can park for ever once the loop is gone")
				}
			}
		})
	}
	if n == 0 {
		c.und(rule, "read-side hand-overs", "-", "no send on the frame-header channel or the frame queue found")
	}
}

// controlHandlersDoNotLock: R15.12 = R17.16. gorilla invokes the ping and pong handlers from NextReader, i.e.
// on the goroutine that reads the socket. A handler that takes the write lock (to answer a ping with a pong,
// say) waits behind whichever writer holds it; when that writer is stuck on a peer that stopped reading, the
// reader goroutine is stuck too: the peer's FIN or close frame is never read, the loop never learns that the
// connection ended, handler contexts are never cancelled and everything of the connection is retained. On the
// server no timeout is configured, so the wait has no bound at all. Reported: a sync.Mutex / RWMutex Lock, or a
// message write (WriteMessage / WriteJSON / NextWriter), in the cone of a function installed with
// SetPingHandler / SetPongHandler. WriteControl, which gorilla serialises itself under a deadline, is fine.
func (c *Ctx) controlHandlersDoNotLock(rule string) {
	p := c.P
	n := 0
	for _, ci := range gorillaConnCalls(p) {
		m := methodOf(ci)
		if m != "SetPingHandler" && m != "SetPongHandler" {
			continue
		}
		for _, h := range c.funcsOf(ci.Common().Args[1]) {
			n++
			var bad ssa.Instruction
			what := ""
			p.coneInstrs(h, func(in ssa.Instruction) {
				if bad != nil {
					return
				}
				x, ok := in.(ssa.CallInstruction)
				if !ok {
					return
				}
				switch nm := calleeName(x); {
				case nm == "(*sync.Mutex).Lock" || nm == "(*sync.RWMutex).Lock" || nm == "(*sync.RWMutex).RLock":
					bad, what = in, "takes a mutex"
				case strings.HasPrefix(nm, "(*"+gorilla+".Conn).") && (methodOf(x) == "WriteMessage" || methodOf(x) == "WriteJSON" || methodOf(x) == "NextWriter" || methodOf(x) == "WritePreparedMessage"):
					bad, what = in, "writes a message"
				}
			})
			construct := fmt.Sprintf("%s: %s handler runs on the socket reader", fname(h), strings.TrimSuffix(strings.TrimPrefix(m, "Set"), "Handler"))
			if bad != nil {
				c.bad(rule, construct, c.ipos(bad), "the handler "+what+": it runs on the goroutine that reads the socket, which then waits behind a writer that may be stuck on a silent peer — the connection's end is never read, the loop never returns and nothing is cancelled or released")
			} else {
				c.ok(rule, construct, p.pos(h.Pos()), "takes no mutex and writes no message")
			}
		}
	}
	if n == 0 {
		c.ok(rule, "control-frame handlers", "-", "none installed: gorilla's defaults (WriteControl under a deadline) are in place")
	}
}
