package main

import (
	"fmt"
	"go/token"
	"go/types"
	"golang.org/x/tools/go/callgraph/cha"
	"golang.org/x/tools/go/callgraph/vta"
	"os"
	"path/filepath"
	"sort"
	"strings"

	"golang.org/x/tools/go/packages"
	"golang.org/x/tools/go/ssa"
	"golang.org/x/tools/go/ssa/ssautil"
)

// Prog is the type-checked, SSA-built view of one source tree of the library.
type Prog struct {
	Dir     string
	ModPath string
	Fset    *token.FileSet
	Pkgs    []*packages.Package
	SSA     *ssa.Program
	Root    *ssa.Package // module root package
	Auth    *ssa.Package
	Httpio  *ssa.Package
	ByPath  map[string]*ssa.Package
	// Funcs: every function (methods, closures, generic instantiations) whose
	// source lies in the analysed tree, sorted by position.
	Funcs []*ssa.Function

	callers  map[*ssa.Function][]ssa.CallInstruction // static call sites per callee
	closure  map[*ssa.Function][]*ssa.MakeClosure    // MakeClosure sites per anonymous function
	allFns   map[*ssa.Function]bool
	acc      *accessIndex
	progWide map[*ssa.Function]bool
	locks    *lockInfo

	syncCallersCache map[*ssa.Function][]*ssa.Call
	valueUsed        map[*ssa.Function]bool
	roots            map[*ssa.Function]bool // activity roots (connection loop, frame executor, dispatcher, client call)
	rootsAreExits    bool
	loopRoots        map[*ssa.Function]bool
	dynIn            map[*ssa.Function][]ssa.CallInstruction // VTA call graph: dynamic and static call sites per callee
	boundary         map[ssa.Instruction]bool                // in the event loops: the instruction that takes the next event
}

func allFunctions(prog *ssa.Program) map[*ssa.Function]bool { return ssautil.AllFunctions(prog) }

func loadProg(dir string) (*Prog, error) {
	dir, err := filepath.Abs(dir)
	if err != nil {
		return nil, err
	}
	modPath, err := readModPath(filepath.Join(dir, "go.mod"))
	if err != nil {
		return nil, err
	}
	env := []string{}
	for _, e := range os.Environ() {
		if strings.HasPrefix(e, "GOFLAGS=") || strings.HasPrefix(e, "GOWORK=") || strings.HasPrefix(e, "GOPROXY=") ||
			strings.HasPrefix(e, "GOSUMDB=") || strings.HasPrefix(e, "GOTOOLCHAIN=") {
			continue
		}
		env = append(env, e)
	}
	env = append(env, "GOFLAGS=-mod=readonly", "GOWORK=off", "GOPROXY=off", "GOSUMDB=off", "GOTOOLCHAIN=local")
	cfg := &packages.Config{
		Mode:  packages.LoadAllSyntax,
		Dir:   dir,
		Env:   env,
		Tests: false,
	}
	pkgs, err := packages.Load(cfg, "./...")
	if err != nil {
		return nil, fmt.Errorf("packages.Load: %w", err)
	}
	if len(pkgs) == 0 {
		return nil, fmt.Errorf("no packages loaded from %s", dir)
	}
	nerr := 0
	var firstErr string
	packages.Visit(pkgs, nil, func(p *packages.Package) {
		for _, e := range p.Errors {
			if nerr == 0 {
				firstErr = e.Error()
			}
			nerr++
		}
	})
	if nerr > 0 {
		return nil, fmt.Errorf("%d load/type errors, first: %s", nerr, firstErr)
	}
	sprog, spkgs := ssautil.AllPackages(pkgs, ssa.InstantiateGenerics)
	sprog.Build()
	p := &Prog{Dir: dir, ModPath: modPath, Fset: pkgs[0].Fset, Pkgs: pkgs, SSA: sprog, ByPath: map[string]*ssa.Package{}}
	for i, pk := range pkgs {
		if spkgs[i] == nil {
			return nil, fmt.Errorf("no SSA for package %s", pk.PkgPath)
		}
		p.ByPath[pk.PkgPath] = spkgs[i]
	}
	p.Root = p.ByPath[modPath]
	p.Auth = p.ByPath[modPath+"/auth"]
	p.Httpio = p.ByPath[modPath+"/httpio"]
	if p.Root == nil {
		return nil, fmt.Errorf("root package %s not loaded", modPath)
	}
	p.allFns = map[*ssa.Function]bool{}
	for fn := range ssautil.AllFunctions(sprog) {
		if fn.Synthetic != "" && fn.Syntax() == nil && fn.Parent() == nil && fn.Origin() == nil {
			// wrappers/thunks/bound methods: keep those whose underlying object is ours for call resolution only
			continue
		}
		if strings.HasPrefix(fn.Synthetic, "instantiation wrapper") {
			continue // forwarding thunk of a generic function: calls are attributed to the generic itself
		}
		if isInstance(fn) {
			continue // a generic function is analysed once, in its generic form; calls of its instances count as calls of it
		}
		if p.inTree(fn) {
			p.allFns[fn] = true
			p.Funcs = append(p.Funcs, fn)
		}
	}
	sort.Slice(p.Funcs, func(i, j int) bool {
		pi, pj := p.Fset.Position(p.Funcs[i].Pos()), p.Fset.Position(p.Funcs[j].Pos())
		if pi.Filename != pj.Filename {
			return pi.Filename < pj.Filename
		}
		if pi.Line != pj.Line {
			return pi.Line < pj.Line
		}
		if pi.Column != pj.Column {
			return pi.Column < pj.Column
		}
		return p.Funcs[i].String() < p.Funcs[j].String()
	})
	p.callers = map[*ssa.Function][]ssa.CallInstruction{}
	p.closure = map[*ssa.Function][]*ssa.MakeClosure{}
	for _, fn := range p.Funcs {
		for _, b := range fn.Blocks {
			for _, in := range b.Instrs {
				if ci, ok := in.(ssa.CallInstruction); ok {
					if cal := staticCallee(ci); cal != nil {
						p.callers[cal] = append(p.callers[cal], ci)
						if strings.HasPrefix(cal.Synthetic, "instantiation wrapper") {
							if u := p.unbound(cal); u != cal {
								p.callers[u] = append(p.callers[u], ci)
							}
						}
					}
				}
				if mc, ok := in.(*ssa.MakeClosure); ok {
					if f, ok := mc.Fn.(*ssa.Function); ok {
						p.closure[f] = append(p.closure[f], mc)
						if u := p.unbound(f); u != f {
							// bound method value c.m: also a "closure" of the method itself
							p.closure[u] = append(p.closure[u], mc)
						}
					}
				}
			}
		}
	}
	return p, nil
}

func readModPath(gomod string) (string, error) {
	b, err := os.ReadFile(gomod)
	if err != nil {
		return "", err
	}
	for _, l := range strings.Split(string(b), "\n") {
		l = strings.TrimSpace(l)
		if strings.HasPrefix(l, "module ") {
			return strings.TrimSpace(strings.TrimPrefix(l, "module ")), nil
		}
	}
	return "", fmt.Errorf("no module line in %s", gomod)
}

// inTree reports whether fn's source is in the analysed tree.
func (p *Prog) inTree(fn *ssa.Function) bool {
	for f := fn; f != nil; f = f.Parent() {
		if f.Pkg != nil {
			_, ok := p.ByPath[f.Pkg.Pkg.Path()]
			return ok
		}
		if o := f.Origin(); o != nil && o.Pkg != nil {
			_, ok := p.ByPath[o.Pkg.Pkg.Path()]
			return ok
		}
	}
	return false
}

// pkgOf returns the types.Package a function belongs to (through parents / generic origin).
func pkgOf(fn *ssa.Function) *types.Package {
	for f := fn; f != nil; f = f.Parent() {
		if f.Pkg != nil {
			return f.Pkg.Pkg
		}
		if o := f.Origin(); o != nil && o.Pkg != nil {
			return o.Pkg.Pkg
		}
	}
	return nil
}

func (p *Prog) pos(pos token.Pos) string {
	if !pos.IsValid() {
		return "-"
	}
	ps := p.Fset.Position(pos)
	rel, err := filepath.Rel(p.Dir, ps.Filename)
	if err != nil {
		rel = ps.Filename
	}
	return fmt.Sprintf("%s:%d", rel, ps.Line)
}

// instrPos gives the best available position for an instruction.
func (p *Prog) ipos(in ssa.Instruction) string {
	if in == nil {
		return "-"
	}
	if in.Pos().IsValid() {
		return p.pos(in.Pos())
	}
	// fall back: nearest instruction in the same block with a position
	b := in.Block()
	if b != nil {
		idx := -1
		for i, x := range b.Instrs {
			if x == in {
				idx = i
			}
		}
		for d := 1; d < len(b.Instrs); d++ {
			for _, j := range []int{idx - d, idx + d} {
				if j >= 0 && j < len(b.Instrs) && b.Instrs[j].Pos().IsValid() {
					return p.pos(b.Instrs[j].Pos()) + "~"
				}
			}
		}
		if b.Parent() != nil {
			return p.pos(b.Parent().Pos()) + "~"
		}
	}
	return "-"
}

// fname is a stable, human-readable function name (no positions).
func fname(fn *ssa.Function) string {
	if fn == nil {
		return "<nil>"
	}
	s := fn.RelString(pkgOf(fn))
	return s
}

// staticCallee returns the statically known callee of a call instruction:
// a function, a closure created in place, or a bound method.
func staticCallee(ci ssa.CallInstruction) *ssa.Function {
	c := ci.Common()
	if c.IsInvoke() {
		return nil
	}
	switch v := c.Value.(type) {
	case *ssa.Function:
		if strings.HasPrefix(v.Synthetic, "instance of") && v.Origin() != nil {
			return v.Origin()
		}
		return v
	case *ssa.MakeClosure:
		if f, ok := v.Fn.(*ssa.Function); ok {
			return f
		}
	}
	return nil
}

// isInstance: fn is (or lies inside) an instantiation of a generic function.
func isInstance(fn *ssa.Function) bool {
	for f := fn; f != nil; f = f.Parent() {
		if strings.HasPrefix(f.Synthetic, "instance of") {
			return true
		}
	}
	return false
}

// unbound maps a "$bound"/"$thunk" synthetic wrapper to the method it wraps.
func (p *Prog) unbound(fn *ssa.Function) *ssa.Function {
	if fn == nil {
		return nil
	}
	if fn.Synthetic != "" && fn.Object() != nil {
		if f, ok := fn.Object().(*types.Func); ok {
			if real := p.SSA.FuncValue(f); real != nil {
				return real
			}
		}
	}
	return fn
}

// calleeName returns "pkgpath.Func" or "(pkgpath.T).Method" / "(*pkgpath.T).Method"
// for static callees and for interface invokes ("(pkgpath.I).Method").
func calleeName(ci ssa.CallInstruction) string {
	c := ci.Common()
	if c.IsInvoke() {
		return c.Method.FullName()
	}
	if f := staticCallee(ci); f != nil {
		if f.Object() != nil {
			if tf, ok := f.Object().(*types.Func); ok {
				return tf.FullName()
			}
		}
		return f.String()
	}
	if b, ok := c.Value.(*ssa.Builtin); ok {
		return "builtin." + b.Name()
	}
	return ""
}

// dynCallers: call sites (static and dynamic: through function values, bound methods and
// interfaces) that may invoke fn, from a VTA call graph over the whole program.
func (p *Prog) dynCallers(fn *ssa.Function) []ssa.CallInstruction {
	if p.dynIn == nil {
		p.dynIn = map[*ssa.Function][]ssa.CallInstruction{}
		all := ssautil.AllFunctions(p.SSA)
		g := vta.CallGraph(all, cha.CallGraph(p.SSA))
		for f, n := range g.Nodes {
			if f == nil || n == nil {
				continue
			}
			for _, e := range n.In {
				if e.Site != nil && e.Caller != nil && e.Caller.Func != nil {
					p.dynIn[f] = append(p.dynIn[f], e.Site)
				}
			}
		}
	}
	return p.dynIn[fn]
}
