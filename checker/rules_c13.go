package main

import (
	"fmt"
	"go/token"
	"go/types"
	"strings"

	"golang.org/x/tools/go/ssa"
)

func init() {
	register(&propInfo{
		ID:          "C13",
		Explanation: "Path analysis of every reflective call into user code in the library: (R13.1) each reflect.Value.Call/CallSlice lies in a function that, on every path to the call, has registered a deferred function literal which calls recover() directly, never re-panics, never type-asserts the recovered value unsafely, and — whenever the recovered value is non-nil, with no further condition — assigns a non-nil error to the function's error result, which is what the function returns; (R13.2) every caller of such a function tests that error and, when it is non-nil, emits an error reply and returns without reaching the success reply; (R13.3) user code is never invoked reflectively from any other place (no goroutine runs handler code outside that frame). (R13.5) nothing acquired before the user call (semaphore send/receive, Lock, WaitGroup.Add, atomic add) is released only after it in straight-line code of the recovering function. R13.2 also requires the value results of the protected call to be indexed only where its error is known nil. (R13.6) the HTTP client reads error replies in full. (R13.7) no pooled memory is used after it was handed back. (R13.8) the client re-sends only on the temporary-connection code. (R13.9) no library mutex stays locked on a return path; (R13.10) the recovering function makes no call through a function value not known to be non-nil. (R13.11) the recovering function does not unwrap the call's arguments or results (no user method runs while recovering). (R13.12) every call frame reaches the dispatcher.",
		NotDecided:  "Panics raised on goroutines the handler itself starts, panics in user-supplied param codecs / tracers / error marshalers (outside the property), and that other calls are unaffected in every schedule (follows from goroutine-per-call structure, not explored).",
		Assumptions: []string{
			"Go semantics: recover() only stops a panic when called directly by the deferred function",
			"handlers are invoked only through reflect.Value.Call/CallSlice in the root package",
		},
		Run: runC13,
	})
}

func isBuiltinCall(in ssa.Instruction, name string) (*ssa.Call, bool) {
	c, ok := in.(*ssa.Call)
	if !ok {
		return nil, false
	}
	b, ok := c.Call.Value.(*ssa.Builtin)
	if !ok || b.Name() != name {
		return nil, false
	}
	return c, true
}

func runC13(c *Ctx) {
	p := c.P
	c.rule("R13.1", "every reflective user call is preceded on all paths by a defer of a function literal that recovers directly, does not re-panic, and turns any recovered value into the function's returned error")
	c.rule("R13.2", "every caller of a protected user-call function checks its error and, when non-nil, emits an error reply and returns without reaching the success reply")
	c.rule("R13.3", "reflective calls into user code occur only inside protected functions")

	c.rule("R13.5", "nothing acquired before the user call is released only after it in straight-line code of the recovering function (a panic skips that code: the slot, lock or counter would leak and later calls block)")
	c.ruleOpt("R13.6", "the HTTP client reads error replies in full (a cap on non-200 bodies cuts a long panic report: the caller then sees a decode error that does not mention the panic)")
	{
		n := 0
		for _, fn := range p.Funcs {
			if pkgOf(fn) != p.Root.Pkg {
				continue
			}
			allInstrs(fn, func(in ssa.Instruction) {
				call, ok := in.(*ssa.Call)
				if !ok || calleeName(call) != "io.LimitReader" {
					return
				}
				isRespBody := c.dependsOn(call.Common().Args[0], func(v ssa.Value) bool {
					f := loadedField(v)
					return f != nil && f.Name() == "Body" && isNamed(derefType(v, f), "net/http", "Response")
				}, 0, map[ssa.Value]bool{})
				if isRespBody {
					n++
					c.bad("R13.6", fmt.Sprintf("%s: response body read through a limit", fname(fn)), c.ipos(call), "the HTTP client reads (some) response bodies through io.LimitReader: an error object longer than the limit — a handler panic with a long payload — is cut, decoding fails, and the caller's error no longer mentions the panic")
				}
			})
		}
		if n == 0 {
			c.ok("R13.6", "HTTP response bodies", "-", "read without a cap")
		}
	}
	c.rule("R13.9", "a panicking call still gets its error reply: no library mutex stays locked on a return path (a lock leaked by the panic-reporting code blocks every later panicking call inside its recover)")
	c.lockLeakRule("R13.9")
	c.rule("R13.10", "the function that recovers a handler's panic cannot panic itself: it makes no call through a function value (a hook) that is not known to be non-nil there — a nil hook on one construction site turns a recovered panic into a crash of the process")
	c.recoverMakesNoUnguardedDynamicCall("R13.10")
	c.ruleOpt("R13.11", "recovering does not go back into user code: the function that recovers a handler's panic (and what it calls) does not unwrap the call's arguments or results (reflect.Value.Interface and friends) — formatting them runs the user's String/Format methods, which can block on a lock the panicking handler still holds, or crash on data another goroutine is writing")
	c.recoverTouchesNoArguments("R13.11")
	c.rule("R13.12", "later calls behave as if the panic had not happened: every call frame reaches the dispatcher (no bookkeeping left behind by an earlier, panicked call can make the connection refuse a frame)")
	c.everyCallFrameDispatched("R13.12")
	c.rule("R13.8", "the reply to a panicking call is final: the client re-sends only on the wire's temporary-connection code (the panic reply carries code 0), so the handler is not run again and the caller gets its answer")
	c.retryGateRule("R13.8")
	c.ruleOpt("R13.7", "the error reply for a panicking call is not encoded into pooled memory that is handed back before it is written")
	c.pooledUseAfterPut("R13.7")
	c.rule("R13.4", "the error reply for a panicking handler has somewhere to go: the writer provider handed to the dispatcher is never nil (a nil provider turns the recovered panic into a crash on the library's own goroutine)")
	c.wsWriterChoice("R13.4")

	protected := map[*ssa.Function]bool{}
	nsites := 0
	for _, fn := range p.Funcs {
		if pkgOf(fn) != p.Root.Pkg {
			continue
		}
		allInstrs(fn, func(in ssa.Instruction) {
			ci, ok := in.(ssa.CallInstruction)
			if !ok {
				return
			}
			nm := calleeName(ci)
			if nm != "(reflect.Value).Call" && nm != "(reflect.Value).CallSlice" {
				return
			}
			nsites++
			construct := fmt.Sprintf("%s: reflective call into user code", fname(fn))
			if _, isGo := in.(*ssa.Go); isGo {
				c.bad("R13.3", construct, c.ipos(in), "user code is started on a bare goroutine: a panic there terminates the process")
				return
			}
			ok2, why := c.recoverFrame(fn, in)
			if ok2 {
				protected[fn] = true
			}
			c.check(ok2, "R13.1", construct, c.ipos(in), why, why)
			c.check(ok2, "R13.3", construct, c.ipos(in), "inside a recover frame", "reflective call into user code outside a recover frame")
			c.panicLeak("R13.5", fn, in)
		})
	}
	if nsites == 0 {
		c.und("R13.1", "reflective user call", "-", "no reflect.Value.Call found: handler invocation mechanism not recognised")
	}
	// R13.2
	for fn := range protected {
		sites := p.callers[fn]
		if len(sites) == 0 {
			c.und("R13.2", fname(fn)+": callers", p.pos(fn.Pos()), "protected function has no static caller")
		}
		for _, s := range sites {
			construct := fmt.Sprintf("%s: call of %s", fname(s.Parent()), fname(fn))
			call, ok := s.(*ssa.Call)
			if !ok {
				c.bad("R13.2", construct, c.ipos(s), "the protected function is spawned/deferred: its error result is lost")
				continue
			}
			var errv ssa.Value
			nres := fn.Signature.Results().Len()
			errIdx := -1
			for i := 0; i < nres; i++ {
				if isErrorType(fn.Signature.Results().At(i).Type()) {
					errIdx = i
				}
			}
			for _, ref := range *call.Referrers() {
				if ex, ok := ref.(*ssa.Extract); ok && ex.Index == errIdx {
					errv = ex
				}
			}
			if errv == nil {
				c.bad("R13.2", construct, c.ipos(call), "the error result (which carries a recovered panic) is discarded")
				continue
			}
			// find the branch on errv != nil
			var iff *ssa.If
			var errBranch *ssa.BasicBlock
			for _, ref := range transitiveUses(errv) {
				bo, ok := ref.(*ssa.BinOp)
				if !ok || (bo.Op != token.NEQ && bo.Op != token.EQL) || !(isNilConst(bo.X) || isNilConst(bo.Y)) {
					continue
				}
				for _, r2 := range *bo.Referrers() {
					if i, ok := r2.(*ssa.If); ok {
						iff = i
						if bo.Op == token.NEQ {
							errBranch = i.Block().Succs[0]
						} else {
							errBranch = i.Block().Succs[1]
						}
					}
				}
			}
			if iff == nil {
				c.bad("R13.2", construct, c.ipos(call), "the error result is never tested against nil")
				continue
			}
			// on the error branch: every path to return passes an error reply
			if ret := reachFromBlock(errBranch, isReturn, c.isErrFnCall); ret != nil {
				c.bad("R13.2", construct, c.ipos(ret), "a path on the error branch returns without emitting an error reply (the caller would hang or see success)")
				continue
			}
			// and never reaches the success emitter (lazy writer) or a second user call
			succ := func(in ssa.Instruction) bool { return c.isSuccessEmit(in) }
			if w := reachFromBlock(errBranch, succ, nil); w != nil {
				c.bad("R13.2", construct, c.ipos(w), "the error branch falls through to the success reply")
				continue
			}
			// the test must come before any use of the value results: after a recovered panic they are nil, and
			// indexing them (to pick the method's error for a tracer, say) panics again — outside the recover frame
			early := false
			for _, ref := range *call.Referrers() {
				ex, ok := ref.(*ssa.Extract)
				if !ok || ex.Index == errIdx {
					continue
				}
				for _, use := range transitiveUses(ex) {
					switch x := use.(type) {
					case *ssa.IndexAddr, *ssa.Index, *ssa.Slice:
					case *ssa.Call:
						// handed to a helper (a tracer wrapper) that indexes it
						g := staticCallee(x)
						if g == nil || !p.allFns[g] {
							continue
						}
						indexes := false
						for i, a := range x.Common().Args {
							if a != ssa.Value(ex) || i >= len(g.Params) {
								continue
							}
							for _, u2 := range transitiveUses(g.Params[i]) {
								switch u2.(type) {
								case *ssa.IndexAddr, *ssa.Index:
									indexes = true
								}
							}
						}
						if !indexes {
							continue
						}
					default:
						continue
					}
					known := false
					for _, cf := range expandConds(impliedConds(use.Block())) {
						bo, ok := cf.Cond.(*ssa.BinOp)
						if !ok || (bo.Op != token.NEQ && bo.Op != token.EQL) {
							continue
						}
						var other ssa.Value
						if isNilConst(bo.Y) {
							other = bo.X
						} else if isNilConst(bo.X) {
							other = bo.Y
						} else {
							continue
						}
						if other == errv || blockLocalValue(other) == errv {
							if (bo.Op == token.EQL) == cf.True {
								known = true
							}
						}
					}
					if !known && !early {
						early = true
						c.bad("R13.2", construct, c.ipos(use), "the value results of the protected call are indexed where its error is not known to be nil: after a recovered handler panic they are nil, so this indexing panics again, outside the recover frame — over WebSocket the process dies, over HTTP the caller gets an empty reply that does not mention the panic")
					}
				}
			}
			if early {
				continue
			}
			c.ok("R13.2", construct, c.ipos(iff), "error tested; error branch replies with an error and returns")
		}
	}
}

// isSuccessEmit: call of the lazy-writer helper / any function taking a writer provider and a writer callback.
func (c *Ctx) isSuccessEmit(in ssa.Instruction) bool {
	ci, ok := in.(ssa.CallInstruction)
	if !ok {
		return false
	}
	f := staticCallee(ci)
	if f == nil || !c.P.allFns[f] || f.Parent() != nil {
		return false
	}
	sig := f.Signature
	if sig.Recv() != nil || sig.Params().Len() != 2 {
		return false
	}
	return isWriterProviderType(sig.Params().At(0).Type()) && isWriterCallbackType(sig.Params().At(1).Type())
}

// func(func(io.Writer))
func isWriterProviderType(t types.Type) bool {
	s, ok := t.Underlying().(*types.Signature)
	if !ok || s.Params().Len() != 1 || s.Results().Len() != 0 {
		return false
	}
	return isWriterCallbackType(s.Params().At(0).Type())
}

// func(io.Writer)
func isWriterCallbackType(t types.Type) bool {
	s, ok := t.Underlying().(*types.Signature)
	if !ok || s.Params().Len() != 1 || s.Results().Len() != 0 {
		return false
	}
	return isNamed(s.Params().At(0).Type(), "io", "Writer")
}

// recoverFrame decides R13.1 for the reflective call `site` in fn.
func (c *Ctx) recoverFrame(fn *ssa.Function, site ssa.Instruction) (bool, string) {
	// named error result alloc
	var errAlloc *ssa.Alloc
	for _, b := range fn.Blocks {
		for _, in := range b.Instrs {
			if al, ok := in.(*ssa.Alloc); ok {
				if isErrorType(al.Type().(*types.Pointer).Elem()) && isNamedResult(fn, al) {
					errAlloc = al
				}
			}
		}
	}
	var lastWhy = "no deferred function literal calling recover() is registered before the call"
	for _, b := range fn.Blocks {
		for _, in := range b.Instrs {
			df, ok := in.(*ssa.Defer)
			if !ok {
				continue
			}
			cl := staticCallee(df)
			if cl == nil || cl.Parent() != fn {
				// a deferred named function / helper: recover there is direct only if that function itself calls recover
				if cl == nil {
					continue
				}
			}
			var rec *ssa.Call
			allInstrs(cl, func(x ssa.Instruction) {
				if r, ok := isBuiltinCall(x, "recover"); ok {
					rec = r
				}
			})
			if rec == nil {
				// recover nested deeper (helper / inner closure) is ineffective
				nested := false
				for _, a := range withAnon(cl)[1:] {
					allInstrs(a, func(x ssa.Instruction) {
						if _, ok := isBuiltinCall(x, "recover"); ok {
							nested = true
						}
					})
				}
				allInstrs(cl, func(x ssa.Instruction) {
					if ci, ok := x.(*ssa.Call); ok {
						if g := staticCallee(ci); g != nil && c.P.allFns[g] {
							allInstrs(g, func(y ssa.Instruction) {
								if _, ok := isBuiltinCall(y, "recover"); ok {
									nested = true
								}
							})
						}
					}
				})
				if nested {
					lastWhy = "recover() is called in a helper of the deferred function, where it has no effect"
				}
				continue
			}
			if !mustPrecede(fn, func(x ssa.Instruction) bool { return x == ssa.Instruction(df) }, site) {
				lastWhy = "a path reaches the user call without the recovering defer being registered"
				continue
			}
			// no re-panic in the deferred function
			repanic := false
			allInstrs(cl, func(x ssa.Instruction) {
				if _, ok := x.(*ssa.Panic); ok {
					repanic = true
				}
			})
			if repanic {
				lastWhy = "the deferred function can panic again after recovering"
				continue
			}
			// unsafe use of the recovered value
			unsafe := false
			for _, u := range transitiveUses(rec) {
				if ta, ok := u.(*ssa.TypeAssert); ok && !ta.CommaOk {
					unsafe = true
				}
			}
			if unsafe {
				lastWhy = "the recovered value is type-asserted without comma-ok: other panic payloads escape"
				continue
			}
			if why := c.recoveredValueMisuse(rec, 0, map[ssa.Value]bool{}); why != "" {
				lastWhy = why
				continue
			}
			if errAlloc == nil {
				lastWhy = "the function has no named error result the deferred function could set"
				continue
			}
			// store to the error result on the recovered path
			var store *ssa.Store
			allInstrs(cl, func(x ssa.Instruction) {
				st, ok := x.(*ssa.Store)
				if !ok {
					return
				}
				if c.P.canonVar(st.Addr) == ssa.Value(errAlloc) && !isNilConst(st.Val) {
					store = st
				}
				// a named function deferred directly with the address of the error result:
				// defer recoverCall(name, &err) … *errOut = …
				if prm, isPrm := st.Addr.(*ssa.Parameter); isPrm && prm.Parent() == cl && !isNilConst(st.Val) {
					for i, q := range cl.Params {
						if q == prm && i < len(df.Common().Args) && df.Common().Args[i] == ssa.Value(errAlloc) {
							store = st
						}
					}
				}
			})
			if store == nil {
				lastWhy = "the deferred function recovers but does not turn the panic into the function's error result"
				continue
			}
			// conditions on the store: exactly `recovered != nil`
			conds := expandConds(impliedConds(store.Block()))
			okCond := true
			sawRec := false
			for _, cf := range conds {
				bo, isBo := cf.Cond.(*ssa.BinOp)
				if isBo && (bo.Op == token.NEQ || bo.Op == token.EQL) && (bo.X == ssa.Value(rec) || bo.Y == ssa.Value(rec)) && (isNilConst(bo.X) || isNilConst(bo.Y)) {
					if (bo.Op == token.NEQ) == cf.True {
						sawRec = true
						continue
					}
				}
				if u, ok := cf.Cond.(*ssa.UnOp); ok && u.Op == token.NOT {
					continue // expanded below
				}
				okCond = false
			}
			if !okCond {
				lastWhy = "the panic is converted into an error only under an additional condition (narrowed recover): other panics are swallowed and the call proceeds with no result"
				continue
			}
			_ = sawRec
			// every return yields the named error result (loaded after the defers ran)
			retOK := true
			allInstrs(fn, func(x ssa.Instruction) {
				rt, ok := x.(*ssa.Return)
				if !ok {
					return
				}
				found := false
				for _, res := range rt.Results {
					if ld, ok := res.(*ssa.UnOp); ok && ld.Op == token.MUL && ld.X == ssa.Value(errAlloc) {
						found = true
					}
				}
				if !found {
					retOK = false
				}
			})
			if !retOK {
				lastWhy = "a return does not yield the named error result set by the deferred function"
				continue
			}
			return true, "deferred literal recovers directly, sets the error result whenever a panic was recovered, never re-panics"
		}
	}
	return false, lastWhy
}

func isNamedResult(fn *ssa.Function, al *ssa.Alloc) bool {
	res := fn.Signature.Results()
	for i := 0; i < res.Len(); i++ {
		if res.At(i).Name() != "" && res.At(i).Name() == al.Comment {
			return true
		}
	}
	return false
}

// recoveredValueMisuse follows the recovered panic value (through comma-ok
// assertions, type switches and static tree callees). It may be compared with
// nil and handed to formatting functions (which themselves survive panicking
// Error/String methods); it must not have methods invoked on it directly (a
// second panic inside the deferred function is fatal) nor be retained inside the
// returned error (an unencodable payload would make the error reply fail).
func (c *Ctx) recoveredValueMisuse(v ssa.Value, depth int, seen map[ssa.Value]bool) string {
	if depth > 6 || seen[v] || v.Referrers() == nil {
		return ""
	}
	seen[v] = true
	for _, ref := range *v.Referrers() {
		switch x := ref.(type) {
		case *ssa.DebugRef, *ssa.BinOp, *ssa.If:
		case *ssa.TypeAssert:
			if !x.CommaOk {
				return "the recovered value is type-asserted without comma-ok: other panic payloads escape"
			}
			if w := c.recoveredValueMisuse(x, depth+1, seen); w != "" {
				return w
			}
		case *ssa.Extract:
			if w := c.recoveredValueMisuse(x, depth+1, seen); w != "" {
				return w
			}
		case *ssa.MakeInterface, *ssa.ChangeInterface, *ssa.Phi:
			if w := c.recoveredValueMisuse(x.(ssa.Value), depth+1, seen); w != "" {
				return w
			}
		case *ssa.Store:
			if x.Val != v {
				continue
			}
			// only stores into a variadic argument array are fine
			okStore := false
			if ia, ok := x.Addr.(*ssa.IndexAddr); ok {
				if al, ok := ia.X.(*ssa.Alloc); ok && al.Comment == "varargs" {
					okStore = true
				}
			}
			if !okStore {
				return "the recovered panic value is retained (stored into the returned error or other memory) instead of being formatted into the message: an unencodable payload then breaks the error reply"
			}
		case ssa.CallInstruction:
			com := x.Common()
			if com.IsInvoke() && com.Value == v {
				return "a method of the recovered value is invoked inside the deferred function: if it panics (nil-receiver Error/String of the payload) the second panic escapes the recover frame and kills the process"
			}
			if f := staticCallee(x); f != nil && c.P.allFns[f] {
				for i, a := range com.Args {
					if a == v && i < len(f.Params) {
						if w := c.recoveredValueMisuse(f.Params[i], depth+1, seen); w != "" {
							return w
						}
					}
				}
			}
		}
	}
	return ""
}

// panicLeak: R13.5. In the function that calls into user code under its own deferred recover, a
// panic unwinds from the call straight into the deferred functions: statements after the call do
// not run. An acquisition before the call (send into / receive from a channel used as a semaphore,
// Lock, WaitGroup.Add, atomic add) whose counterpart stands after the call in the function body
// instead of in a deferred function is therefore never undone for a panicking handler; after enough
// panics every other call blocks on the acquisition.
func (c *Ctx) panicLeak(rule string, fn *ssa.Function, user ssa.Instruction) {
	type op struct {
		kind string // "send", "recv", "lock", "unlock", "add", "done", "atomic"
		obj  ssa.Value
		at   ssa.Instruction
	}
	var ops []op
	allInstrsRaw(fn, func(in ssa.Instruction) {
		switch x := in.(type) {
		case *ssa.Send:
			ops = append(ops, op{"send", x.Chan, in})
		case *ssa.UnOp:
			if x.Op == token.ARROW {
				ops = append(ops, op{"recv", x.X, in})
			}
		case *ssa.Select:
			for _, st := range x.States {
				if st.Dir == types.SendOnly {
					ops = append(ops, op{"send", st.Chan, in})
				} else {
					ops = append(ops, op{"recv", st.Chan, in})
				}
			}
		case *ssa.Call:
			nm := calleeName(x)
			args := x.Common().Args
			switch nm {
			case "(*sync.Mutex).Lock", "(*sync.RWMutex).Lock", "(*sync.RWMutex).RLock":
				ops = append(ops, op{"lock", args[0], in})
			case "(*sync.Mutex).Unlock", "(*sync.RWMutex).Unlock", "(*sync.RWMutex).RUnlock":
				ops = append(ops, op{"unlock", args[0], in})
			case "(*sync.WaitGroup).Add":
				ops = append(ops, op{"add", args[0], in})
			case "(*sync.WaitGroup).Done":
				ops = append(ops, op{"done", args[0], in})
			default:
				if strings.HasPrefix(nm, "sync/atomic.Add") || (strings.HasPrefix(nm, "(*sync/atomic.") && strings.HasSuffix(nm, ").Add")) {
					ops = append(ops, op{"atomic", args[0], in})
				}
			}
		}
	})
	pairs := map[string]string{"send": "recv", "recv": "send", "lock": "unlock", "add": "done", "atomic": "atomic"}
	isUser := func(in ssa.Instruction) bool { return in == user }
	construct := fmt.Sprintf("%s: state held across user code", fname(fn))
	for _, a := range ops {
		want, ok := pairs[a.kind]
		if !ok || a.at == user || reachFrom(a.at, isUser, nil) == nil {
			continue
		}
		for _, b := range ops {
			if b.kind != want || b.at == a.at || !sameVal(a.obj, b.obj) {
				continue
			}
			bAt := b.at
			if reachFrom(user, func(in ssa.Instruction) bool { return in == bAt }, nil) == nil {
				continue
			}
			c.bad(rule, construct, c.ipos(b.at), "the "+a.kind+" at "+c.ipos(a.at)+" before the user call is undone by the "+b.kind+" after it in the function body: a panicking handler unwinds past it into the deferred recover, so the acquisition leaks — after enough panics every later call (on every connection) blocks at the acquisition")
			return
		}
	}
	c.ok(rule, construct, c.ipos(user), "nothing acquired before the user call is released after it outside a deferred function")
}

// recoverMakesNoUnguardedDynamicCall: R13.10. In every function literal (or named function) that is
// deferred and calls recover() directly, each call through a function value is dominated by a test
// that the value is non-nil.
func (c *Ctx) recoverMakesNoUnguardedDynamicCall(rule string) {
	p := c.P
	n := 0
	for _, fn := range p.Funcs {
		if !p.inTree(fn) {
			continue
		}
		recovers := false
		allInstrsRaw(fn, func(in ssa.Instruction) {
			if ci, ok := in.(*ssa.Call); ok {
				if b, ok := ci.Common().Value.(*ssa.Builtin); ok && b.Name() == "recover" {
					recovers = true
				}
			}
		})
		if !recovers {
			continue
		}
		n++
		construct := fmt.Sprintf("%s: calls made while recovering", fname(fn))
		var bad ssa.Instruction
		allInstrsRaw(fn, func(in ssa.Instruction) {
			ci, ok := in.(ssa.CallInstruction)
			if !ok || ci.Common().IsInvoke() {
				return
			}
			v := ci.Common().Value
			switch v.(type) {
			case *ssa.Function, *ssa.Builtin, *ssa.MakeClosure:
				return
			}
			if _, isSig := v.Type().Underlying().(*types.Signature); !isSig {
				return
			}
			guarded := false
			for _, cf := range expandConds(impliedConds(in.Block())) {
				bo, ok := cf.Cond.(*ssa.BinOp)
				if !ok || (bo.Op != token.NEQ && bo.Op != token.EQL) {
					continue
				}
				other := bo.X
				if isNilConst(bo.X) {
					other = bo.Y
				} else if !isNilConst(bo.Y) {
					continue
				}
				if cf.True == (bo.Op == token.NEQ) && sameVal(other, v) {
					guarded = true
				}
			}
			if !guarded {
				bad = in
			}
		})
		if bad != nil {
			c.bad(rule, construct, c.ipos(bad), "the recovering function calls a function value that may be nil (a hook filled on one construction site but not on another): the call panics inside the deferred function, after recover() has been used up — the process dies instead of the call being answered with an error")
		} else {
			c.ok(rule, construct, p.pos(fn.Pos()), "only static calls (or calls behind a nil test)")
		}
	}
	if n == 0 {
		c.und(rule, "recovering functions", "-", "none found")
	}
}

// recoverTouchesNoArguments: R13.11. The panic of a handler is turned into that call's error reply by
// the deferred function that calls recover(). Anything that function does with the call's arguments —
// "log the arguments with the panic" — is user code again: Sprintf("%+v", arg.Interface()) calls the
// String / Format / Error / MarshalJSON methods of user types, while the panicking handler's frame has not
// been unwound (its locks are still held, its goroutines still write). A blocked or crashing recover means
// the caller never gets its error, or the process dies: the very thing the frame exists to prevent.
// Reported: a call of (reflect.Value).Interface / Call / Method* / String / MapRange in the synchronous
// cone of a function that calls recover() directly. The recovered value itself may be formatted (the reply
// has to mention the panic).
func (c *Ctx) recoverTouchesNoArguments(rule string) {
	p := c.P
	n := 0
	for _, fn := range p.Funcs {
		if !p.inTree(fn) {
			continue
		}
		recovers := false
		allInstrsRaw(fn, func(in ssa.Instruction) {
			if ci, ok := in.(*ssa.Call); ok {
				if b, ok := ci.Common().Value.(*ssa.Builtin); ok && b.Name() == "recover" {
					recovers = true
				}
			}
		})
		if !recovers {
			continue
		}
		var bad ssa.Instruction
		p.coneInstrs(fn, func(in ssa.Instruction) {
			if bad != nil {
				return
			}
			ci, ok := in.(ssa.CallInstruction)
			if !ok {
				return
			}
			switch calleeName(ci) {
			case "(reflect.Value).Interface", "(reflect.Value).Call", "(reflect.Value).CallSlice", "(reflect.Value).Method", "(reflect.Value).MethodByName", "(reflect.Value).MapRange", "(reflect.Value).MapKeys":
				bad = in
			}
		})
		if bad != nil {
			n++
			c.bad(rule, fmt.Sprintf("%s: reflective access to call data while recovering", fname(fn)), c.ipos(bad), "the recovering function unwraps a reflect.Value of the call (to log or report the arguments): formatting it runs user methods while the panicking handler's locks are still held and its goroutines still run — the recover can block or crash, and the caller never receives its error")
		}
	}
	if n == 0 {
		c.ok(rule, "no instance", "-", "no recovering function unwraps the call's arguments or results")
	}
}
