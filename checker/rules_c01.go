package main

import (
	"fmt"
	"go/token"
	"go/types"
	"reflect"
	"sort"
	"strings"

	"golang.org/x/tools/go/ssa"
)

func init() {
	register(&propInfo{
		ID:          "C01",
		Explanation: "Symbolic comparison of index expressions (linear forms over loop indexes and descriptor fields, resolved through locals, helpers and the stores that fill the descriptor fields) at the places where argument and result positions are decided: (R01.1) on the server the slot of the reflective call's argument list into which parameter i is stored equals the index of the declared input whose type was used to decode it (the receiver-type table is filled with In(e1) at index e2; the value decoded with entry j is stored at slot e1[e2:=j]); (R01.2) the argument list is made with as many slots as the method has inputs, and the context is placed in exactly the input position that was tested for being a context (server: behind the receiver; client: first argument); (R01.3) on the client the i-th wire parameter is the argument at position i + (number of leading context arguments), for the same i, and the parameter list has len(args) minus that number of entries. These are the structural halves of 'calling the client function runs the handler with those arguments': a position mismatch makes reflect.Call panic or hands an argument to the wrong parameter for signatures the suite does not exercise (context plus several parameters, three or more parameters). (R01.4) no frame, parameter or result bytes live in sync.Pool memory that is put back (also by a deferred closure) while a slice of it was sent on a channel or returned; (R01.5) every handler argument is decoded into a fresh reflect.New of the declared type; (R01.6) the context input and error output of a signature are recognised by identity of the declared In/Out type with the reference type, never by Implements/AssignableTo/ConvertibleTo. (R01.7) between building the response and emitting it the result or the error member is set on every path; (R01.8) tables filled by options are made per configuration value; (R01.9) no proxy function is bound to a copy of the client. (R01.10) before the handler runs a request is refused only for an unknown method, an unsupported channel mode or bad params. (R01.11) the reply's result is decoded whenever it is present, not depending on its bytes; (R01.12) the reverse client is built per connection. (R01.13) every wire parameter is the caller's argument or a parameter encoder's result; (R01.14) inbound frames are decoded into fresh memory. R01.8 also: not made in a function that runs once per process; (R01.15) the params member of the wire request is always written. (R01.16) the frame executor never blocks on something only a finishing handler releases. (R01.17) no append onto a prefix reslice of a byte buffer that arrived from elsewhere. (R01.18) a possibly nil call context (client functions without a context parameter) is never dereferenced without a test for nil. (R01.19) the socket's read limit is not derived from the option that bounds HTTP request bodies.",
		NotDecided:  "Everything about values: JSON round trips (nil vs empty, 64-bit extremes, escaping), custom encoders/decoders, result positions computed by processFuncOut, equality of outcomes across transports and name formatters. Shapes that do not use index arithmetic (an argument list built by append) are reported as not compared, not as violations.",
		Assumptions: []string{"reflect.Call requires argument k to be assignable to input k of the function", "descriptor fields are written only by the visible stores (closed struct types)"},
		Run:         runC01,
	})
}

// linForm: c + Σ coef·atom. Atoms are struct fields (a descriptor field and every value stored into
// it are the same atom), calls of reflect's NumIn/len (by callee name and receiver origin), or SSA values.
type linForm struct {
	k     int64
	terms map[interface{}]int64
}

func (l linForm) String() string {
	var parts []string
	for a, c := range l.terms {
		name := fmt.Sprint(a)
		switch x := a.(type) {
		case *types.Var:
			name = "field " + x.Name()
		case ssa.Value:
			name = x.Name()
		}
		parts = append(parts, fmt.Sprintf("%d*%s", c, name))
	}
	sort.Strings(parts)
	return fmt.Sprintf("%d + %s", l.k, strings.Join(parts, " + "))
}

func (l linForm) add(o linForm, sign int64) linForm {
	out := linForm{k: l.k + sign*o.k, terms: map[interface{}]int64{}}
	for a, c := range l.terms {
		out.terms[a] += c
	}
	for a, c := range o.terms {
		out.terms[a] += sign * c
	}
	for a, c := range out.terms {
		if c == 0 {
			delete(out.terms, a)
		}
	}
	return out
}

func (l linForm) equal(o linForm) bool {
	d := l.add(o, -1)
	return d.k == 0 && len(d.terms) == 0
}

// subst replaces atom a by form f.
func (l linForm) subst(a interface{}, f linForm) linForm {
	c, ok := l.terms[a]
	if !ok {
		return l
	}
	out := linForm{k: l.k, terms: map[interface{}]int64{}}
	for x, cx := range l.terms {
		if x != a {
			out.terms[x] = cx
		}
	}
	scaled := linForm{k: f.k * c, terms: map[interface{}]int64{}}
	for x, cx := range f.terms {
		scaled.terms[x] = cx * c
	}
	return out.add(scaled, 1)
}

type linEnv struct {
	c       *Ctx
	fieldOf map[ssa.Value]*types.Var // values stored into an integer descriptor field
}

func (c *Ctx) newLinEnv() *linEnv {
	e := &linEnv{c: c, fieldOf: map[ssa.Value]*types.Var{}}
	for _, fn := range c.P.Funcs {
		if pkgOf(fn) != c.P.Root.Pkg {
			continue
		}
		allInstrsRaw(fn, func(in ssa.Instruction) {
			st, ok := in.(*ssa.Store)
			if !ok {
				return
			}
			fa, ok := st.Addr.(*ssa.FieldAddr)
			if !ok {
				return
			}
			f := fieldOfAddr(fa)
			if b, ok := f.Type().Underlying().(*types.Basic); !ok || b.Info()&types.IsInteger == 0 {
				return
			}
			if _, isConst := st.Val.(*ssa.Const); isConst {
				return
			}
			e.fieldOf[st.Val] = f
			// the value is a helper's result: what the helper returns at that position is the same quantity
			var call *ssa.Call
			idx := 0
			switch x := st.Val.(type) {
			case *ssa.Extract:
				call, _ = x.Tuple.(*ssa.Call)
				idx = x.Index
			case *ssa.Call:
				call = x
			}
			if call != nil {
				if g := c.P.syncCallee(call); g != nil && c.P.allFns[g] {
					allInstrsRaw(g, func(y ssa.Instruction) {
						if ret, ok := y.(*ssa.Return); ok && idx < len(ret.Results) {
							if _, isConst := ret.Results[idx].(*ssa.Const); !isConst {
								e.fieldOf[ret.Results[idx]] = f
							}
						}
					})
				}
			}
		})
	}
	return e
}

func (e *linEnv) atom(a interface{}) linForm {
	return linForm{terms: map[interface{}]int64{a: 1}}
}

func (e *linEnv) lin(v ssa.Value, depth int) linForm {
	if depth > 12 {
		return e.atom(v)
	}
	if f, ok := e.fieldOf[v]; ok {
		return e.atom(f)
	}
	switch x := v.(type) {
	case *ssa.Const:
		if k, ok := constInt(x); ok {
			return linForm{k: k, terms: map[interface{}]int64{}}
		}
	case *ssa.Convert:
		return e.lin(x.X, depth+1)
	case *ssa.ChangeType:
		return e.lin(x.X, depth+1)
	case *ssa.BinOp:
		switch x.Op {
		case token.ADD:
			return e.lin(x.X, depth+1).add(e.lin(x.Y, depth+1), 1)
		case token.SUB:
			return e.lin(x.X, depth+1).add(e.lin(x.Y, depth+1), -1)
		}
	case *ssa.Field:
		if f := fieldOfField(x); f != nil {
			return e.atom(f)
		}
	case *ssa.UnOp:
		if x.Op == token.MUL {
			if fa, ok := x.X.(*ssa.FieldAddr); ok {
				return e.atom(fieldOfAddr(fa))
			}
			// local variable with a single store
			if al, ok := x.X.(*ssa.Alloc); ok {
				var only *ssa.Store
				n := 0
				for _, ref := range *al.Referrers() {
					if st, ok := ref.(*ssa.Store); ok && st.Addr == ssa.Value(al) {
						n++
						only = st
					}
				}
				if n == 1 {
					return e.lin(only.Val, depth+1)
				}
			}
		}
	case *ssa.Call:
		// reflect's NumIn on a function type and len(x): one atom per callee kind and receiver origin
		n := calleeName(x)
		if x.Common().IsInvoke() && x.Common().Method.Name() == "NumIn" {
			return e.atom("NumIn")
		}
		if b, ok := x.Common().Value.(*ssa.Builtin); ok && b.Name() == "len" {
			// len of a slice made with a known length expression
			os := e.c.origins(x.Common().Args[0])
			if len(os) == 1 && len(os[0].Fields) == 0 {
				if mk, ok := os[0].Root.(*ssa.MakeSlice); ok {
					return e.lin(mk.Len, depth+1)
				}
			}
			return e.atom("len:" + e.c.originKey(x.Common().Args[0]))
		}
		_ = n
	case *ssa.Parameter:
		// forwarded through a helper: the same form at every call site, or an atom
		sites := e.c.P.syncCallers(x.Parent())
		idx := -1
		for i, q := range x.Parent().Params {
			if q == x {
				idx = i
			}
		}
		if idx >= 0 && len(sites) > 0 && !e.c.P.asyncValueUsed(x.Parent()) {
			var first *linForm
			same := true
			for _, s := range sites {
				if idx >= len(s.Common().Args) {
					same = false
					break
				}
				f := e.lin(s.Common().Args[idx], depth+1)
				if first == nil {
					first = &f
				} else if !first.equal(f) {
					same = false
				}
			}
			if same && first != nil {
				return *first
			}
		}
	}
	return e.atom(v)
}

// originKey: a printable identity of where a slice value comes from (for len(x) atoms).
func (c *Ctx) originKey(v ssa.Value) string {
	var ks []string
	for _, o := range c.origins(v) {
		k := fmt.Sprintf("%p", o.Root)
		for _, f := range o.Fields {
			k += "." + f.Name()
		}
		ks = append(ks, k)
	}
	sort.Strings(ks)
	return strings.Join(ks, "|")
}

func runC01(c *Ctx) {
	p, r := c.P, c.R
	c.rule("R01.16", "every call reaches its handler whatever else is in progress on the connection: the frame executor never blocks on something only a finishing handler releases, and the start of a handler never waits for other handlers")
	c.executorNeverWaitsForHandlers("R01.16")
	c.ruleOpt("R01.17", "frame, parameter and result bytes arrive as they were sent: no append onto a prefix reslice of a byte buffer that arrived from elsewhere")
	c.noAppendIntoForeignBytes("R01.17")
	c.rule("R01.18", "a client function without a context parameter works like one with: the nil context it is called with is never dereferenced (no method call on it, not handed to code outside the module) without a test for nil")
	c.nilContextRule("R01.18")
	c.ruleOpt("R01.19", "results of any size come back over a WebSocket: the socket's read limit is not derived from the option that bounds HTTP request bodies (frames also carry responses to reverse calls and stream values, which that option says nothing about)")
	c.readLimitNotRequestSize("R01.19")
	c.noWaitBeforeHandler("R01.16")
	c.ruleOpt("R01.1", "server: the argument-list slot a decoded parameter is stored in equals the index of the declared input whose type decoded it")
	c.ruleOpt("R01.2", "the argument list has one slot per declared input; the context sits in the input position that was tested for being a context (server and client)")
	c.ruleOpt("R01.3", "client: wire parameter i is the argument at position i + number of leading context arguments; the parameter list has len(args) minus that number of entries")
	c.ruleOpt("R01.4", "no frame, parameter or result bytes live in pooled memory that is recycled while another goroutine or the caller still holds it")
	c.poolSharedRule("R01.4", nil)
	c.rule("R01.5", "every handler argument is the receiver, the context, the raw params, or a value decoded into a fresh reflect.New of the declared type (nothing left over from an earlier call can be merged in)")
	c.argumentOrigins("R01.5")
	c.ruleOpt("R01.7", "a successful reply carries the handler's value: between building the response and emitting it either the result or the error member is set on every path")
	c.resultAlwaysSet("R01.7")
	c.rule("R01.8", "tables filled by options (parameter encoders/decoders, aliases) belong to one client or server: each is a map made for that configuration value, never one shared through a package-level default")
	c.configMapsOwned("R01.8")
	c.rule("R01.9", "responses are routed by ids drawn from one counter per connection: no proxy function is bound to a copy of the client object")
	c.clientCopyRule("R01.9", true)
	c.rule("R01.10", "a request is refused before the handler runs only for an unknown method, an unsupported channel mode or bad params — never because of its id or the spelling of its name")
	c.rejectionReasons("R01.10")
	c.rule("R01.11", "the reply's result is decoded whenever it is present: no test of its bytes (\"is it null?\") decides that — null is a value, a raw-JSON result or a custom decoder gives it a meaning")
	c.resultDecodedWhenPresent("R01.11")
	c.rule("R01.12", "a reverse call runs the handler of the very client it was made for: the reverse client, its queue and its proxy are built per connection")
	c.reverseClientFresh("R01.12")
	c.rule("R01.15", "raw parameters arrive as they were given: the params member of the wire request is always written (no omitempty), so a nil RawParams reaches the handler as null and not as an empty, undecodable value")
	if r.TReq != nil {
		st := structOf(r.TReq)
		found := false
		for i := 0; st != nil && i < st.NumFields(); i++ {
			tag := reflect.StructTag(st.Tag(i)).Get("json")
			if strings.Split(tag, ",")[0] != "params" {
				continue
			}
			found = true
			c.check(!strings.Contains(tag, "omitempty"), "R01.15", "wire request: params member", p.pos(st.Field(i).Pos()), "always written", "the params member is omitted when empty: a raw-params call made with nil (whose JSON form is null) reaches the handler with no bytes at all, and decoding them fails where the direct call would have worked")
		}
		if !found {
			c.und("R01.15", "wire request: params member", "-", "no field tagged params")
		}
	} else {
		c.und("R01.15", "wire request type", "-", "not resolved")
	}
	c.rule("R01.14", "the handler sees the parameters that were sent: inbound frames are decoded into fresh memory (a notification's params are still being read by its handler when the next frame arrives)")
	c.freshDecodeTarget("R01.14")
	c.ruleOpt("R01.13", "every wire parameter is the caller's argument itself or what a registered parameter encoder made of it — never a value the client substitutes (an empty slice for a nil one, a zero value)")
	c.rule("R01.6", "the context input and the error output of a signature are recognised by identity of the declared type with context.Context / error, never by Implements/AssignableTo/ConvertibleTo")
	c.signatureClassification("R01.6")
	if r.FnDisp == nil || r.FnCall == nil {
		c.und("R01.1", "dispatcher / client call", "-", "not resolved")
		return
	}
	env := c.newLinEnv()
	isReflectType := func(t types.Type) bool { return isNamed(t, "reflect", "Type") }
	isReflectValueSlice := func(t types.Type) bool {
		sl, ok := t.Underlying().(*types.Slice)
		return ok && isNamed(sl.Elem(), "reflect", "Value")
	}

	// ---- the receiver-type table: stores  table[e2] = X.In(e1)
	type fill struct {
		at     *ssa.Store
		e1, e2 linForm
		loop   ssa.Value // the atom of e2 when e2 is a bare loop index
	}
	var fills []fill
	for _, fn := range p.Funcs {
		if pkgOf(fn) != p.Root.Pkg {
			continue
		}
		allInstrsRaw(fn, func(in ssa.Instruction) {
			st, ok := in.(*ssa.Store)
			if !ok || !isReflectType(st.Val.Type()) {
				return
			}
			ia, ok := st.Addr.(*ssa.IndexAddr)
			if !ok {
				return
			}
			call, ok := st.Val.(*ssa.Call)
			if !ok || !call.Common().IsInvoke() || call.Common().Method.Name() != "In" {
				return
			}
			f := fill{at: st, e1: env.lin(call.Common().Args[0], 0), e2: env.lin(ia.Index, 0)}
			if len(f.e2.terms) == 1 && f.e2.k == 0 {
				for a, cf := range f.e2.terms {
					if v, ok := a.(ssa.Value); ok && cf == 1 {
						f.loop = v
					}
				}
			}
			fills = append(fills, f)
		})
	}

	// ---- R01.1: stores of decoded parameters into the argument list
	nCmp := 0
	p.coneInstrs(r.FnDisp, func(in ssa.Instruction) {
		st, ok := in.(*ssa.Store)
		if !ok || !isNamed(st.Val.Type(), "reflect", "Value") {
			return
		}
		ia, ok := st.Addr.(*ssa.IndexAddr)
		if !ok || !isReflectValueSlice(ia.X.Type()) {
			return
		}
		// which entry of the receiver-type table decoded this value?
		var recvIdx []ssa.Value
		seen := map[ssa.Value]bool{}
		var walk func(v ssa.Value, d int)
		walk = func(v ssa.Value, d int) {
			if v == nil || seen[v] || d > 10 {
				return
			}
			seen[v] = true
			for _, o := range c.origins(v) {
				switch x := o.Root.(type) {
				case *ssa.Call:
					for _, a := range x.Common().Args {
						walk(a, d+1)
					}
					if x.Common().IsInvoke() {
						walk(x.Common().Value, d+1)
					}
				case *ssa.UnOp:
					if x.Op == token.MUL {
						if ia2, ok := x.X.(*ssa.IndexAddr); ok && isReflectType(x.Type()) {
							recvIdx = append(recvIdx, ia2.Index)
						}
					}
				case *ssa.Extract:
					walk(x.Tuple, d+1)
				case *ssa.Lookup:
					walk(x.Index, d+1)
				}
			}
		}
		walk(st.Val, 0)
		if len(recvIdx) == 0 || len(fills) == 0 {
			return
		}
		slot := env.lin(ia.Index, 0)
		construct := fmt.Sprintf("%s: slot of a decoded parameter", fname(in.Parent()))
		for _, ri := range recvIdx {
			j := env.lin(ri, 0)
			for _, f := range fills {
				if f.loop == nil {
					continue
				}
				nCmp++
				want := f.e1.subst(f.loop, j)
				c.check(slot.equal(want), "R01.1", construct, c.ipos(st), fmt.Sprintf("slot %s = input index used for its type", slot),
					fmt.Sprintf("parameter decoded with the type of declared input [%s] is stored into argument slot [%s]: reflect.Call then receives it in the wrong position (panic or wrong parameter) for signatures with a context and/or several parameters", want, slot))
			}
		}
	})
	if nCmp == 0 {
		c.ok("R01.1", "server parameter slots", "-", "no index arithmetic to compare (argument list not filled by indexed stores of table-typed values)")
	}

	// ---- R01.2: argument-list length and context slot
	{
		n := 0
		// the declared count field: value stored = NumIn - 1 - hasCtx
		p.coneInstrs(r.FnDisp, func(in ssa.Instruction) {
			mk, ok := in.(*ssa.MakeSlice)
			if !ok || !isReflectValueSlice(mk.Type()) {
				return
			}
			L := env.lin(mk.Len, 0)
			// substitute descriptor fields that are defined by an expression (declared count =
			// NumIn - 1 - hasCtx); fields holding a plain flag/counter stay atoms
			for round := 0; round < 3; round++ {
				var fs []*types.Var
				for f := range L.terms {
					if fv, ok := f.(*types.Var); ok {
						fs = append(fs, fv)
					}
				}
				sort.Slice(fs, func(i, j int) bool { return fs[i].Name() < fs[j].Name() })
				changed := false
				for _, f := range fs {
					var def *linForm
					uniq := true
					for v, fv := range env.fieldOf {
						if fv != f {
							continue
						}
						d := env.linNoField(v, f)
						if def == nil {
							def = &d
						} else if !def.equal(d) {
							uniq = false
						}
					}
					if def == nil || !uniq {
						continue
					}
					if _, self := def.terms[f]; self {
						continue
					}
					if len(def.terms)+btoi(def.k != 0) < 2 {
						continue
					}
					L = L.subst(f, *def)
					changed = true
				}
				if !changed {
					break
				}
			}
			n++
			want := env.atom("NumIn")
			c.check(L.equal(want), "R01.2", fmt.Sprintf("%s: length of the argument list", fname(in.Parent())), c.ipos(mk), "one slot per declared input",
				fmt.Sprintf("the argument list is made with [%s] slots, which is not the number of declared inputs: reflect.Call panics (or arguments are dropped) for some signatures", L))
		})
		// context slot: callParams[K] = ValueOf(ctx) ; hasCtx := 1 under In(K') == contextType
		ctxIn := func(fn *ssa.Function) (int64, bool) {
			var k int64
			found := false
			for _, g := range c.region(fn) {
				allInstrsRaw(g, func(in ssa.Instruction) {
					bo, ok := in.(*ssa.BinOp)
					if !ok || bo.Op != token.EQL {
						return
					}
					for _, side := range []ssa.Value{bo.X, bo.Y} {
						call, ok := side.(*ssa.Call)
						if !ok || !call.Common().IsInvoke() || call.Common().Method.Name() != "In" {
							continue
						}
						other := bo.X
						if side == bo.X {
							other = bo.Y
						}
						if ld, ok := other.(*ssa.UnOp); ok && ld.Op == token.MUL {
							if g, ok := ld.X.(*ssa.Global); ok && strings.Contains(strings.ToLower(g.Name()), "context") {
								if kk, ok := constInt(call.Common().Args[0]); ok {
									k, found = kk, true
								}
							}
						}
					}
				})
			}
			return k, found
		}
		// server: the function filling the receiver-type table tests In(K'); the dispatcher stores ctx at slot K
		if len(fills) > 0 {
			reg := outermost(fills[0].at.Parent())
			if kIn, ok := ctxIn(reg); ok {
				p.coneInstrs(r.FnDisp, func(in ssa.Instruction) {
					st, ok := in.(*ssa.Store)
					if !ok {
						return
					}
					ia, ok := st.Addr.(*ssa.IndexAddr)
					if !ok || !isReflectValueSlice(ia.X.Type()) {
						return
					}
					vo, ok := st.Val.(*ssa.Call)
					if !ok || calleeName(vo) != "reflect.ValueOf" {
						return
					}
					if !isNamed(stripConv(vo.Common().Args[0]).Type(), "context", "Context") {
						return
					}
					n++
					k, isK := constInt(ia.Index)
					c.check(isK && k == kIn, "R01.2", fmt.Sprintf("%s: slot of the context argument", fname(in.Parent())), c.ipos(st), fmt.Sprintf("slot %d = the input position tested for context.Context", kIn),
						fmt.Sprintf("the context is stored into a slot other than input %d, the position that was tested for being a context", kIn))
				})
			}
		}
		if n == 0 {
			c.ok("R01.2", "argument list", "-", "no indexed argument list to compare")
		}
	}

	// ---- R01.3: client
	{
		n := 0
		for _, fn := range c.region(r.FnCall) {
			allInstrsRaw(fn, func(in ssa.Instruction) {
				st, ok := in.(*ssa.Store)
				if !ok {
					return
				}
				ia, ok := st.Addr.(*ssa.IndexAddr)
				if !ok {
					// params[i] = param{v: arg} is compiled to a store into a field of &params[i]
					if fa, isFA := st.Addr.(*ssa.FieldAddr); isFA {
						ia, ok = fa.X.(*ssa.IndexAddr)
					}
				}
				if !ok {
					return
				}
				sl, ok := ia.X.Type().Underlying().(*types.Slice)
				if !ok || paramTypeOf(c) == nil || sl.Elem() != types.Type(paramTypeOf(c)) {
					return
				}
				if !isNamed(st.Val.Type(), "reflect", "Value") && st.Val.Type() != types.Type(paramTypeOf(c)) {
					return
				}
				// the argument this wire parameter is built from: an element of a reslice args[lo:]
				var argIdx, lo ssa.Value
				var base ssa.Value
				var fresh *ssa.Call
				seen := map[ssa.Value]bool{}
				var walk func(v ssa.Value, d int)
				walk = func(v ssa.Value, d int) {
					if v == nil || seen[v] || d > 8 {
						return
					}
					seen[v] = true
					for _, o := range c.origins(v) {
						switch x := o.Root.(type) {
						case *ssa.UnOp:
							if x.Op == token.MUL {
								if ia2, ok := x.X.(*ssa.IndexAddr); ok {
									if s2, ok := ia2.X.(*ssa.Slice); ok && isReflectValueSlice(s2.X.Type()) {
										argIdx, lo, base = ia2.Index, s2.Low, s2.X
									}
								}
							}
						case *ssa.Phi:
							for _, e := range x.Edges {
								walk(e, d+1)
							}
						case *ssa.Extract:
							walk(x.Tuple, d+1)
						case *ssa.Call:
							switch calleeName(x) {
							case "reflect.MakeSlice", "reflect.MakeMap", "reflect.MakeMapWithSize", "reflect.Zero", "reflect.New", "reflect.MakeChan":
								fresh = x
							}
							for _, a := range x.Common().Args {
								walk(a, d+1)
							}
						}
					}
				}
				if st.Val.Type() == types.Type(paramTypeOf(c)) {
					// the literal is built in a local and copied in: look at its reflect.Value field
					pst := paramTypeOf(c).Underlying().(*types.Struct)
					for k := 0; k < pst.NumFields(); k++ {
						if isNamed(pst.Field(k).Type(), "reflect", "Value") {
							for _, o := range c.originsOf(st.Val, pst.Field(k)) {
								if len(o.Fields) == 0 {
									walk(o.Root, 0)
								}
							}
						}
					}
				} else {
					walk(st.Val, 0)
				}
				if argIdx == nil {
					return
				}
				n++
				c.check(fresh == nil, "R01.13", fmt.Sprintf("%s: wire parameter value", fname(fn)), c.ipos(st), "the caller's argument or a parameter encoder's result",
					"a wire parameter can be a value the client made itself (reflect.MakeSlice/Zero/New …) instead of the caller's argument: what the handler receives is no longer what was passed (nil becomes empty, a raw message becomes invalid)")
				construct := fmt.Sprintf("%s: wire parameter position", fname(fn))
				pi, ai := env.lin(ia.Index, 0), env.lin(argIdx, 0)
				c.check(pi.equal(ai), "R01.3", construct, c.ipos(st), "parameter i is built from element i of args[ctx:]",
					fmt.Sprintf("wire parameter [%s] is built from element [%s] of the argument tail: parameters reach the handler shifted or permuted", pi, ai))
				// the tail starts behind the leading context arguments; the list has len(args) - that many entries
				if mk, ok := stripSliceOrigin(ia.X).(*ssa.MakeSlice); ok && lo != nil {
					L := env.lin(mk.Len, 0)
					want := env.atom("len:"+c.originKey(base)).add(env.lin(lo, 0), -1)
					c.check(L.equal(want), "R01.3", construct+" (count)", c.ipos(mk), "len(args) minus the leading context arguments",
						fmt.Sprintf("the parameter list has [%s] entries but the argument tail has [%s]: a parameter is dropped or a null is appended", L, want))
				}
			})
		}
		// client context position: the argument read as the call's context is the one whose declared
		// type was tested for being a context when the function descriptor was built
		for _, fn := range c.region(r.FnCall) {
			allInstrsRaw(fn, func(in ssa.Instruction) {
				ta, ok := in.(*ssa.TypeAssert)
				if !ok || !isNamed(ta.AssertedType, "context", "Context") {
					return
				}
				ic, ok := ta.X.(*ssa.Call)
				if !ok || calleeName(ic) != "(reflect.Value).Interface" {
					return
				}
				ld, ok := ic.Common().Args[0].(*ssa.UnOp)
				if !ok || ld.Op != token.MUL {
					return
				}
				ia, ok := ld.X.(*ssa.IndexAddr)
				if !ok || !isReflectValueSlice(ia.X.Type()) {
					return
				}
				k, isK := constInt(ia.Index)
				// the builder of the client descriptor: where a context test on In(k') decides the flag
				var kIn int64
				found := false
				for _, g := range p.Funcs {
					if pkgOf(g) != p.Root.Pkg || g.Parent() != nil {
						continue
					}
					isBuilder := false
					allInstrsRaw(g, func(x ssa.Instruction) {
						if mf, ok := x.(*ssa.Call); ok && calleeName(mf) == "reflect.MakeFunc" {
							isBuilder = true
						}
					})
					if !isBuilder {
						continue
					}
					allInstrsRaw(g, func(x ssa.Instruction) {
						bo, ok := x.(*ssa.BinOp)
						if !ok || bo.Op != token.EQL {
							return
						}
						for _, side := range []ssa.Value{bo.X, bo.Y} {
							call, ok := side.(*ssa.Call)
							if !ok || !call.Common().IsInvoke() || call.Common().Method.Name() != "In" {
								continue
							}
							other := bo.X
							if side == bo.X {
								other = bo.Y
							}
							if l2, ok := other.(*ssa.UnOp); ok && l2.Op == token.MUL {
								if gl, ok := l2.X.(*ssa.Global); ok && strings.Contains(strings.ToLower(gl.Name()), "context") {
									if kk, ok := constInt(call.Common().Args[0]); ok {
										kIn, found = kk, true
									}
								}
							}
						}
					})
				}
				if !found {
					return
				}
				n++
				c.check(isK && k == kIn, "R01.3", fmt.Sprintf("%s: argument read as the call's context", fname(fn)), c.ipos(in), fmt.Sprintf("argument %d, the position tested for context.Context", kIn),
					fmt.Sprintf("the call's context is read from an argument other than position %d, the one whose declared type was tested for being a context", kIn))
			})
		}
		if n == 0 {
			c.ok("R01.3", "client parameter positions", "-", "no index arithmetic to compare")
		}
	}
}

// linNoField: linear form of v without mapping v itself to the field it is stored into.
func (e *linEnv) linNoField(v ssa.Value, f *types.Var) linForm {
	saved, had := e.fieldOf[v]
	delete(e.fieldOf, v)
	out := e.lin(v, 0)
	if had {
		e.fieldOf[v] = saved
	}
	return out
}

func stripSliceOrigin(v ssa.Value) ssa.Value {
	for i := 0; i < 4; i++ {
		switch x := v.(type) {
		case *ssa.Slice:
			v = x.X
		case *ssa.UnOp:
			if x.Op == token.MUL {
				if al, ok := x.X.(*ssa.Alloc); ok {
					var only *ssa.Store
					n := 0
					for _, ref := range *al.Referrers() {
						if st, ok := ref.(*ssa.Store); ok && st.Addr == ssa.Value(al) {
							n++
							only = st
						}
					}
					if n == 1 {
						v = only.Val
						continue
					}
				}
			}
			return v
		default:
			return v
		}
	}
	return v
}

// paramTypeOf: the named struct wrapping one wire parameter (a struct with a reflect.Value field
// and a []byte field, used as the element type of the parameter list).
func paramTypeOf(c *Ctx) *types.Named {
	for _, nt := range namedStructs(c.P.Root.Pkg) {
		st, ok := nt.Underlying().(*types.Struct)
		if !ok || st.NumFields() != 2 {
			continue
		}
		hasV, hasB := false, false
		for i := 0; i < st.NumFields(); i++ {
			if isNamed(st.Field(i).Type(), "reflect", "Value") {
				hasV = true
			}
			if sl, ok := st.Field(i).Type().Underlying().(*types.Slice); ok && isByteType(sl.Elem()) {
				hasB = true
			}
		}
		if hasV && hasB {
			return nt
		}
	}
	return nil
}

func btoi(b bool) int {
	if b {
		return 1
	}
	return 0
}

// signatureClassification: R01.6. A declared input / output type of a method (the result of
// reflect.Type.In / Out) decides a descriptor slot (leading context, error output). The client
// builds the error output as reflect.New(error).Elem() and the server reads it as an error
// interface, so only the interface type itself may be classified as "the error" — a value type that
// merely has an Error method is a value. Likewise a first parameter that merely implements
// context.Context is an ordinary parameter. Every classification is therefore an identity
// comparison with the reference type; Implements / AssignableTo / ConvertibleTo between a declared
// type and a reference type misclassifies such signatures.
func (c *Ctx) signatureClassification(rule string) {
	p := c.P
	isRT := func(t types.Type) bool { return isNamed(t, "reflect", "Type") }
	// declared: v is (or comes from) a reflect.Type.In / Out call
	declared := func(v ssa.Value) string {
		for _, o := range c.origins(v) {
			if call, ok := o.Root.(*ssa.Call); ok && len(o.Fields) == 0 && call.Common().IsInvoke() && isRT(call.Common().Value.Type()) {
				switch call.Common().Method.Name() {
				case "In", "Out":
					return call.Common().Method.Name()
				}
			}
		}
		return ""
	}
	// reference: v is the reflect.Type of the error or context.Context interface
	refGlobals := map[*ssa.Global]string{}
	refOfElem := func(v ssa.Value) string {
		call, ok := v.(*ssa.Call)
		if ok && !call.Common().IsInvoke() {
			// reflect.TypeFor[error]() / reflect.TypeFor[context.Context]()
			if f := call.Common().StaticCallee(); f != nil && strings.HasPrefix(calleeName(call), "reflect.TypeFor") && len(f.TypeArgs()) == 1 {
				if isErrorType(f.TypeArgs()[0]) {
					return "error"
				}
				if isNamed(f.TypeArgs()[0], "context", "Context") {
					return "context"
				}
			}
			return ""
		}
		if !ok || !call.Common().IsInvoke() || call.Common().Method.Name() != "Elem" {
			return ""
		}
		tof, ok := call.Common().Value.(*ssa.Call)
		if !ok || calleeName(tof) != "reflect.TypeOf" {
			return ""
		}
		arg := tof.Common().Args[0]
		if mi, ok := arg.(*ssa.MakeInterface); ok {
			if pt, ok := mi.X.Type().Underlying().(*types.Pointer); ok {
				if isErrorType(pt.Elem()) {
					return "error"
				}
				if isNamed(pt.Elem(), "context", "Context") {
					return "context"
				}
			}
		}
		return ""
	}
	scan := append([]*ssa.Function{}, p.Funcs...)
	for _, pk := range p.ByPath {
		if ini := pk.Func("init"); ini != nil {
			scan = append(scan, ini)
		}
	}
	for _, fn := range scan {
		allInstrsRaw(fn, func(in ssa.Instruction) {
			st, ok := in.(*ssa.Store)
			if !ok {
				return
			}
			g, ok := st.Addr.(*ssa.Global)
			if !ok {
				return
			}
			if k := refOfElem(st.Val); k != "" {
				refGlobals[g] = k
			}
		})
	}
	reference := func(v ssa.Value) string {
		for _, o := range c.origins(v) {
			if len(o.Fields) != 0 {
				continue
			}
			switch x := o.Root.(type) {
			case *ssa.Global:
				if k := refGlobals[x]; k != "" {
					return k
				}
			case *ssa.UnOp:
				if g, ok := x.X.(*ssa.Global); ok {
					if k := refGlobals[g]; k != "" {
						return k
					}
				}
			case *ssa.Call:
				if k := refOfElem(x); k != "" {
					return k
				}
			}
		}
		return ""
	}
	for _, fn := range p.Funcs {
		if pkgOf(fn) != p.Root.Pkg {
			continue
		}
		allInstrsRaw(fn, func(in ssa.Instruction) {
			switch x := in.(type) {
			case *ssa.BinOp:
				if (x.Op != token.EQL && x.Op != token.NEQ) || !isRT(x.X.Type()) {
					return
				}
				a, b := x.X, x.Y
				if declared(a) == "" {
					a, b = b, a
				}
				d, k := declared(a), reference(b)
				if d == "" || k == "" {
					return
				}
				c.ok(rule, fmt.Sprintf("%s: declared %s type vs %s", fname(fn), strings.ToLower(d), k), c.ipos(in), "identity comparison")
			case *ssa.Call:
				if !x.Common().IsInvoke() || !isRT(x.Common().Value.Type()) || len(x.Common().Args) != 1 {
					return
				}
				switch x.Common().Method.Name() {
				case "Implements", "AssignableTo", "ConvertibleTo":
				default:
					return
				}
				a, b := x.Common().Value, x.Common().Args[0]
				if declared(a) == "" {
					a, b = b, a
				}
				d, k := declared(a), reference(b)
				if d == "" || k == "" {
					return
				}
				c.bad(rule, fmt.Sprintf("%s: declared %s type vs %s", fname(fn), strings.ToLower(d), k), c.ipos(in),
					"a declared "+strings.ToLower(d)+" type is classified as the "+k+" by "+x.Common().Method.Name()+": a value type that merely implements the interface (a result struct with an Error method, a parameter type embedding a context) is then treated as the "+k+" slot — the server turns the value into an error (or drops the parameter) and the client's reflect.MakeFunc panics on the mismatching output")
			}
		})
	}
}

// resultAlwaysSet: R01.7. In the function that builds the response value and hands it to the
// success emitter, every path from the response's construction to the emission stores the result
// member or (a non-nil value into) the error member. Paths on which neither happened know the error
// member to be nil, so tests of it are decided. A reply with neither member set is encoded as
// "result": null, which is not the JSON of what the handler returned for every type (a value
// whose zero value marshals to something else, or whose decoder rejects null).
func (c *Ctx) resultAlwaysSet(rule string) {
	p, r := c.P, c.R
	if r.FnDisp == nil || r.TResp == nil {
		return
	}
	resF, errF := respFieldByTag(r.TResp, "result"), respFieldByTag(r.TResp, "error")
	if resF == nil || errF == nil {
		return
	}
	for _, g := range c.region(r.FnDisp) {
		var resp *ssa.Alloc
		var emits []ssa.Instruction
		allInstrsRaw(g, func(in ssa.Instruction) {
			if al, ok := in.(*ssa.Alloc); ok && al.Type().(*types.Pointer).Elem() == types.Type(r.TResp) {
				// the response literal: one whose version member is stored
				for _, ref := range *al.Referrers() {
					if fa, ok := ref.(*ssa.FieldAddr); ok && fieldOfAddr(fa) == respFieldByTag(r.TResp, "jsonrpc") {
						resp = al
					}
				}
			}
			if c.isSuccessEmit(in) {
				emits = append(emits, in)
			}
		})
		if resp == nil || len(emits) == 0 {
			continue
		}
		fieldOf := func(addr ssa.Value) *types.Var {
			fa, ok := addr.(*ssa.FieldAddr)
			if !ok || fa.X != ssa.Value(resp) {
				return nil
			}
			return fieldOfAddr(fa)
		}
		sets := func(in ssa.Instruction) bool {
			st, ok := in.(*ssa.Store)
			if !ok {
				return false
			}
			switch fieldOf(st.Addr) {
			case resF:
				return true
			case errF:
				return !isNilConst(st.Val)
			}
			return false
		}
		isEmit := func(in ssa.Instruction) bool {
			for _, e := range emits {
				if e == in {
					return true
				}
			}
			return false
		}
		// on a path without any such store the error member is still nil
		errNil := func(cond ssa.Value) int {
			neg := false
			for {
				u, ok := cond.(*ssa.UnOp)
				if !ok || u.Op != token.NOT {
					break
				}
				cond, neg = u.X, !neg
			}
			bo, ok := cond.(*ssa.BinOp)
			if !ok || (bo.Op != token.EQL && bo.Op != token.NEQ) {
				return 0
			}
			other := bo.X
			if isNilConst(bo.X) {
				other = bo.Y
			} else if !isNilConst(bo.Y) {
				return 0
			}
			ld, ok := other.(*ssa.UnOp)
			if !ok || ld.Op != token.MUL || fieldOf(ld.X) != errF {
				return 0
			}
			truth := bo.Op == token.EQL
			if neg {
				truth = !truth
			}
			if truth {
				return 1
			}
			return 2
		}
		s := &ipSearch{p: p, flat: true, seen: map[string]bool{}, factSeen: map[string][]*factSet{},
			target: isEmit,
			avoid:  func(in ssa.Instruction) bool { return sets(in) || isReturn(in) },
			edgeOK: func(from *ssa.BasicBlock, k int) bool {
				iff, ok := from.Instrs[len(from.Instrs)-1].(*ssa.If)
				if !ok {
					return true
				}
				switch errNil(iff.Cond) {
				case 1:
					return k == 0
				case 2:
					return k == 1
				}
				return true
			}}
		construct := fmt.Sprintf("%s: reply carries the result or the error", fname(g))
		bare := s.scanF(resp.Block(), instrIndex(resp)+1, nil, nil)
		c.check(!bare, rule, construct, c.ipos(resp), "result or error stored on every path to the emission", "a path reaches the success emission with neither the result nor the error member set (e.g. the result is left out when it is the zero value): the reply then says \"result\": null, which does not decode back into what the handler returned for types whose zero value marshals to something else or whose decoder rejects null")
	}
}

// configMapsOwned: R01.8. A configuration struct T is one for which the package declares an
// option type func(*T). Every map-typed field of T that some function updates (an option such as
// WithParamEncoder writing c.paramEncoders[t] = enc) must get its value, at every store, from a
// make/map literal executed in an ordinary function (the defaults constructor, run per client),
// not in the package initialiser: a defaults value built once and handed out by value shares its
// maps between all clients, so an encoder registered for one client is applied by every other.
func (c *Ctx) configMapsOwned(rule string) {
	p := c.P
	cfg := map[*types.Named]bool{}
	for _, pk := range []*ssa.Package{p.Root} {
		sc := pk.Pkg.Scope()
		for _, name := range sc.Names() {
			tn, ok := sc.Lookup(name).(*types.TypeName)
			if !ok {
				continue
			}
			sig, ok := tn.Type().Underlying().(*types.Signature)
			if !ok || sig.Params().Len() != 1 || sig.Results().Len() != 0 {
				continue
			}
			if pt, ok := sig.Params().At(0).Type().(*types.Pointer); ok {
				if nt, ok := pt.Elem().(*types.Named); ok && structOf(nt) != nil {
					cfg[nt] = true
				}
			}
		}
	}
	n := 0
	for nt := range cfg {
		st := structOf(nt)
		for i := 0; i < st.NumFields(); i++ {
			f := st.Field(i)
			if _, isMap := f.Type().Underlying().(*types.Map); !isMap {
				continue
			}
			if len(usesOfKind(p.uses(f), "mapupdate")) == 0 {
				continue
			}
			n++
			construct := fmt.Sprintf("%s.%s: table filled by options", nt.Obj().Name(), f.Name())
			stores := usesOfKind(p.uses(f), "store")
			okAll := len(stores) > 0
			why := "the table is never made in an ordinary function: it comes from a package-level default built once, so every client (or server) created from the defaults shares it — an encoder, decoder or alias registered for one is applied by all"
			for _, u := range stores {
				fresh := c.allOrigins(u.Val, func(a apath) bool {
					_, isMake := a.Root.(*ssa.MakeMap)
					return isMake && len(a.Fields) == 0
				})
				if !fresh {
					okAll = false
					why = "the table is taken from somewhere else than a make/map literal of its own (" + c.ipos(u.At) + "): configurations built this way share it"
				}
				if c.runsOnce(u.Fn) {
					okAll = false
					why = "the table is made in a function that runs once per process (sync.OnceValue / Once.Do / package initialisation, " + c.ipos(u.At) + "): every configuration built from that value shares the map — an encoder, decoder or alias registered for one client is applied by all"
				}
			}
			pos := "-"
			if len(stores) > 0 {
				pos = c.ipos(stores[0].At)
			}
			c.check(okAll, rule, construct, pos, "made per configuration value", why)
		}
	}
	if n == 0 {
		c.und(rule, "configuration tables", "-", "no map-typed configuration field updated by an option was found")
	}
}

// resultDecodedWhenPresent: R01.11. On the client the decode of the reply's result into the declared
// type is conditional on the result being present (a nil / length test), the call having a value output,
// and nothing else about the result: comparing its bytes with "null" (to skip decoding) makes a
// json.RawMessage result come back as nil instead of null and never invokes a custom UnmarshalJSON
// for null.
func (c *Ctx) resultDecodedWhenPresent(rule string) {
	r := c.R
	if r.FnCall == nil || r.TCresp == nil {
		c.und(rule, "client call function / client response type", "-", "not resolved")
		return
	}
	resF := respFieldByTag(r.TCresp, "result")
	if resF == nil {
		c.und(rule, "result member of the client response", "-", "not found")
		return
	}
	isRes := func(v ssa.Value) bool { return loadedField(v) == resF }
	n := 0
	for _, g := range c.region(r.FnCall) {
		allInstrsRaw(g, func(in ssa.Instruction) {
			ci, ok := in.(*ssa.Call)
			if !ok || decodeTarget(ci) == nil || len(ci.Common().Args) == 0 {
				return
			}
			if !c.dependsOn(ci.Common().Args[0], isRes, 0, map[ssa.Value]bool{}) {
				return
			}
			n++
			construct := fmt.Sprintf("%s: decoding of the reply's result", fname(g))
			var odd ssa.Value
			for _, cf := range expandConds(impliedCondsIP(in.Block(), 0)) {
				v := cf.Cond
				if !c.dependsOn(v, isRes, 0, map[ssa.Value]bool{}) {
					continue
				}
				if bo, ok := v.(*ssa.BinOp); ok {
					// result != nil, len(result) > 0
					if isNilConst(bo.X) || isNilConst(bo.Y) {
						continue
					}
					if _, isLen := lenOf(bo.X); isLen {
						continue
					}
					if _, isLen := lenOf(bo.Y); isLen {
						continue
					}
				}
				odd = v
			}
			c.check(odd == nil, rule, construct, c.ipos(in), "conditional only on the result being present", "whether the result is decoded depends on a test of its bytes (e.g. it is skipped when they spell null): a raw-JSON result of null comes back as nil, and a result type whose decoder gives null a meaning never sees it — the caller does not get the JSON round-trip of what the handler returned")
		})
	}
	if n == 0 {
		c.und(rule, "decoding of the reply's result", "-", "not found in the client call path")
	}
}

// runsOnce: fn (or the function literal it lies in) only ever runs as the argument of
// sync.OnceValue / OnceValues / OnceFunc / (*sync.Once).Do, or during package initialisation.
func (c *Ctx) runsOnce(fn *ssa.Function) bool {
	p := c.P
	for f := fn; f != nil; f = f.Parent() {
		if f.Name() == "init" && f.Parent() == nil && f.Signature.Recv() == nil {
			return true
		}
		once := false
		check := func(call ssa.CallInstruction) {
			switch calleeName(call) {
			case "sync.OnceValue", "sync.OnceValues", "sync.OnceFunc", "(*sync.Once).Do":
				once = true
			}
		}
		for _, mc := range p.closure[f] {
			for _, ref := range *mc.Referrers() {
				if call, ok := ref.(ssa.CallInstruction); ok && call.Common().Value != ssa.Value(mc) {
					check(call)
				}
			}
		}
		for _, g := range p.Funcs {
			allInstrsRaw(g, func(in ssa.Instruction) {
				call, ok := in.(ssa.CallInstruction)
				if !ok {
					return
				}
				for _, a := range call.Common().Args {
					if a == ssa.Value(f) {
						check(call)
					}
				}
			})
		}
		if pk := p.Root.Func("init"); pk != nil {
			allInstrsRaw(pk, func(in ssa.Instruction) {
				call, ok := in.(ssa.CallInstruction)
				if !ok {
					return
				}
				for _, a := range call.Common().Args {
					if a == ssa.Value(f) {
						check(call)
					}
					if mc, ok := a.(*ssa.MakeClosure); ok && mc.Fn == ssa.Value(f) {
						check(call)
					}
				}
			})
		}
		if once {
			return true
		}
	}
	return false
}

// readLimitNotRequestSize: R01.19 = R16.14. The option that bounds the size of an HTTP request body is about
// requests. A WebSocket carries, in the same direction, the *responses* to reverse calls and the values of
// streams; putting that bound on the socket with SetReadLimit makes gorilla fail the read — and the whole
// connection — as soon as a client-side handler returns a result larger than the largest request the server
// wants to accept. Reported: a (*websocket.Conn).SetReadLimit whose argument depends on a field that also
// feeds the byte count of an io.LimitReader (the HTTP body limit), directly or through a copy into another field.
func (c *Ctx) readLimitNotRequestSize(rule string) {
	p := c.P
	limitFields := map[*types.Var]bool{}
	for _, fn := range p.Funcs {
		if !p.inTree(fn) {
			continue
		}
		allInstrs(fn, func(in ssa.Instruction) {
			call, ok := in.(*ssa.Call)
			if !ok || calleeName(call) != "io.LimitReader" || len(call.Common().Args) != 2 {
				return
			}
			c.dependsOn(call.Common().Args[1], func(v ssa.Value) bool {
				if f := loadedField(v); f != nil {
					limitFields[f] = true
				}
				return false
			}, 0, map[ssa.Value]bool{})
		})
	}
	// copies: a field stored from a load of a limit field
	for changed := true; changed; {
		changed = false
		for _, fn := range p.Funcs {
			if !p.inTree(fn) {
				continue
			}
			allInstrsRaw(fn, func(in ssa.Instruction) {
				st, ok := in.(*ssa.Store)
				if !ok {
					return
				}
				fa, ok := st.Addr.(*ssa.FieldAddr)
				if !ok {
					return
				}
				if f := loadedField(stripConvInt(st.Val)); f != nil && limitFields[f] && !limitFields[fieldOfAddr(fa)] {
					limitFields[fieldOfAddr(fa)] = true
					changed = true
				}
			})
		}
	}
	n := 0
	for _, ci := range gorillaConnCalls(p) {
		if methodOf(ci) != "SetReadLimit" {
			continue
		}
		args := ci.Common().Args
		dep := c.dependsOn(args[len(args)-1], func(v ssa.Value) bool {
			f := loadedField(v)
			return f != nil && limitFields[f]
		}, 0, map[ssa.Value]bool{})
		if dep {
			n++
			c.bad(rule, fmt.Sprintf("%s: read limit of the socket", fname(ci.Parent())), c.ipos(ci), "the WebSocket read limit is taken from the option that bounds HTTP request bodies: a response to a reverse call (or a stream value) larger than the largest accepted request tears the connection down, and the calls in progress with it")
		}
	}
	if n == 0 {
		c.ok(rule, "no instance", "-", "no socket read limit derived from the request-size option")
	}
}
