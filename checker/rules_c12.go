package main

import (
	"fmt"
	"go/token"
	"go/types"

	"golang.org/x/tools/go/ssa"
)

func init() {
	register(&propInfo{
		ID:          "C12",
		Explanation: "Value-origin and path analysis of method naming and dispatch: (R12.1) the key under which a handler method is registered is the result of the handler's own configured name formatter applied to (namespace argument, reflected method name); the name a client function sends is its configured formatter's result or, when present, the rpc_method tag; both formatter fields are filled from the respective configuration; the wire request carries exactly that name; (R12.2) in every function resolving a method, the alias table is consulted only after the direct lookup failed, its result is looked up in the method table, and the handler that runs is the one found; (R12.3) a failed parameter decode is tested at once and its failure branch reaches neither another decode nor the handler without an intervening error test; the arity test guards every positional-params path to the handler. (R12.5) the method descriptor is read after name and alias resolution. (R12.6) the only rejections before the handler are unknown name and alias, unsupported channel mode and bad params; (R12.7) an alias is recorded unconditionally. (R12.8) every read of the method table in the dispatcher is a comma-ok lookup. (R12.9) no prefix or substring test of the method name in the frame switch. (R12.10) nothing on the receiving side stores into the method member of a received request.",
		NotDecided:  "What formatter functions return (string values), namespace non-leakage between namespaces (a consequence of string equality on formatted names), type mismatches detected by encoding/json itself.",
		Assumptions: []string{"the method table is the map[string]<struct> field of the dispatcher's receiver; the alias table its map[string]string field"},
		Run:         runC12,
	})
}

func isFormatterType(t types.Type) bool {
	sig, ok := t.Underlying().(*types.Signature)
	if !ok || sig.Params().Len() != 2 || sig.Results().Len() != 1 {
		return false
	}
	isStr := func(x types.Type) bool {
		b, ok := x.Underlying().(*types.Basic)
		return ok && b.Kind() == types.String
	}
	return isStr(sig.Params().At(0).Type()) && isStr(sig.Params().At(1).Type()) && isStr(sig.Results().At(0).Type())
}

func runC12(c *Ctx) {
	p, r := c.P, c.R
	c.rule("R12.1", "registration key and client-side name come from the configured formatter (or the rpc_method tag); formatter fields are filled from configuration; the wire request carries that name")
	c.rule("R12.9", "a frame is taken for one of the protocol's own notifications only by equality with its name: no prefix / substring test of the method name decides the dispatch (a method registered or aliased under such a prefix must still reach the handler table)")
	c.noPrefixDispatch("R12.9")
	c.ruleOpt("R12.10", "a request is dispatched under the method name it was sent with: nothing on the server stores into the method member of a received request (a name 'cleaned' for logs or metrics would otherwise make an unregistered spelling run a registered handler)")
	c.methodNameUntouched("R12.10")
	c.rule("R12.2", "direct lookup first; alias only after it failed; alias target looked up in the method table")
	c.rule("R12.3", "a failed parameter decode is tested at once and cannot reach another decode or the handler; the arity test guards every positional-params path")
	if !c.need("R12.1", "FN_disp", r.FnDisp != nil) {
		return
	}
	recvT := r.FnDisp.Signature.Recv().Type()
	st := structOf(recvT)
	var fMethods, fAlias, fFmt *types.Var
	for i := 0; i < st.NumFields(); i++ {
		f := st.Field(i)
		if m, ok := f.Type().Underlying().(*types.Map); ok {
			if b, ok := m.Key().Underlying().(*types.Basic); ok && b.Kind() == types.String {
				if _, ok := m.Elem().Underlying().(*types.Struct); ok {
					fMethods = f
				}
				if b2, ok := m.Elem().Underlying().(*types.Basic); ok && b2.Kind() == types.String {
					fAlias = f
				}
			}
		}
		if isFormatterType(f.Type()) {
			fFmt = f
		}
	}
	if !c.need("R12.1", "method table / alias table / formatter field of the dispatcher", fMethods != nil && fAlias != nil && fFmt != nil) {
		return
	}

	// ---- R12.1 server registration
	nreg := 0
	for _, u := range usesOfKind(p.uses(fMethods), "mapupdate") {
		nreg++
		construct := fmt.Sprintf("%s: key of a registered method", fname(u.Fn))
		call, ok := u.Val.(*ssa.Call)
		if !ok {
			c.bad("R12.1", construct, c.ipos(u.At), "the registration key is not computed by the configured name formatter")
			continue
		}
		base, isFmt := loadsField(call.Common().Value, fFmt)
		okAll := true
		if !isFmt || !sameVal(base, u.Base) && base != u.Base {
			okAll = false
			c.bad("R12.1", construct, c.ipos(call), "the registration key is not produced by this handler's configured formatter (e.g. the default formatter is used instead)")
		}
		args := call.Common().Args
		if okAll && (len(args) != 2 || !isStringParam(args[0], u.Fn)) {
			okAll = false
			c.bad("R12.1", construct, c.ipos(call), "the formatter is not applied to the namespace given at registration")
		}
		if okAll && !isReflectMethodName(args[1]) {
			okAll = false
			c.bad("R12.1", construct, c.ipos(call), "the formatter is not applied to the reflected method name")
		}
		if okAll {
			c.ok("R12.1", construct, c.ipos(u.At), "configured formatter(namespace, method name)")
		}
	}
	if nreg == 0 {
		c.und("R12.1", "registration", "-", "no store into the method table found")
	}
	// formatter field plumbing (server)
	c.plumbField("R12.1", fFmt, "dispatcher's name formatter")

	// ---- R12.1 client side
	if r.TClient != nil {
		var cFmt *types.Var
		cst := structOf(r.TClient)
		for i := 0; i < cst.NumFields(); i++ {
			if isFormatterType(cst.Field(i).Type()) {
				cFmt = cst.Field(i)
			}
		}
		if c.need("R12.1", "client name formatter field", cFmt != nil) {
			c.plumbField("R12.1", cFmt, "client's name formatter")
			// the function reading the rpc_method tag
			var mk *ssa.Function
			var tagLookup *ssa.Call
			for _, fn := range p.Funcs {
				if pkgOf(fn) != p.Root.Pkg {
					continue
				}
				allInstrs(fn, func(in ssa.Instruction) {
					if ci, ok := in.(*ssa.Call); ok && (calleeName(ci) == "(reflect.StructTag).Lookup" || calleeName(ci) == "(reflect.StructTag).Get") {
						if s, ok := constString(ci.Common().Args[1]); ok && s == "rpc_method" {
							mk, tagLookup = fn, ci
						}
					}
				})
			}
			construct := "client function: method name"
			if mk == nil {
				c.bad("R12.1", construct, "-", "the rpc_method tag is no longer consulted")
			} else {
				// the name field: a string field some store fills with a value that has the tag among its origins
				var nameStore *ssa.Store
				var nameField *types.Var
				isTag := func(o apath) bool {
					if len(o.Fields) != 0 {
						return false
					}
					if ex, ok := o.Root.(*ssa.Extract); ok && ex.Tuple == ssa.Value(tagLookup) {
						return true
					}
					return o.Root == ssa.Value(tagLookup)
				}
				for _, fn := range p.Funcs {
					if pkgOf(fn) != p.Root.Pkg {
						continue
					}
					allInstrsRaw(fn, func(in ssa.Instruction) {
						st, ok := in.(*ssa.Store)
						if !ok {
							return
						}
						fa, ok := st.Addr.(*ssa.FieldAddr)
						if !ok {
							return
						}
						if b, ok := fieldOfAddr(fa).Type().Underlying().(*types.Basic); !ok || b.Kind() != types.String {
							return
						}
						if c.someOrigin(st.Val, isTag) {
							nameStore, nameField = st, fieldOfAddr(fa)
						}
					})
				}
				if nameStore == nil {
					c.bad("R12.1", construct, p.pos(mk.Pos()), "the rpc_method tag value does not reach the method name the function sends")
				} else {
					okAll, sawFmt := true, false
					for _, o := range c.origins(nameStore.Val) {
						if isTag(o) {
							continue
						}
						if call, ok := o.Root.(*ssa.Call); ok && len(o.Fields) == 0 {
							if c.fieldVal(call.Common().Value, cFmt) && len(call.Common().Args) == 2 {
								sawFmt = true
								// namespace = client's namespace field; method = struct field name
								continue
							}
						}
						okAll = false
						c.bad("R12.1", construct, c.ipos(nameStore), fmt.Sprintf("the method name can originate from %T, neither the configured formatter nor the rpc_method tag", o.Root))
					}
					if okAll && !sawFmt {
						okAll = false
						c.bad("R12.1", construct, c.ipos(nameStore), "the client's configured formatter is not used for untagged fields")
					}
					if okAll {
						c.ok("R12.1", construct, c.ipos(nameStore), "configured formatter, overridden by the rpc_method tag when present")
					}
					// the wire request's method is that field
					if r.FnCall != nil && r.FReqMethod != nil {
						n := 0
						for _, g := range c.region(r.FnCall) {
							allInstrsRaw(g, func(in ssa.Instruction) {
								st, ok := in.(*ssa.Store)
								if !ok {
									return
								}
								fa, ok := st.Addr.(*ssa.FieldAddr)
								if !ok || fieldOfAddr(fa) != r.FReqMethod {
									return
								}
								n++
								isName := c.fieldVal(st.Val, nameField)
								c.check(isName, "R12.1", fmt.Sprintf("%s: method member of the outgoing request", fname(g)), c.ipos(st), "the function's resolved name", "the request does not carry the name resolved for this client function")
							})
						}
						if n == 0 {
							c.und("R12.1", "outgoing request method", "-", "no store to the method member of the request found in the call path")
						}
					}
				}
			}
		}
	}

	// ---- R12.2
	{
		nfn := 0
		fnsWithLookups := map[*ssa.Function]bool{}
		for _, u := range usesOfKind(p.uses(fMethods), "maplookup") {
			fnsWithLookups[u.Fn] = true
		}
		for _, u := range usesOfKind(p.uses(fAlias), "maplookup") {
			fnsWithLookups[u.Fn] = true
		}
		for _, fn := range p.Funcs {
			if !fnsWithLookups[fn] {
				continue
			}
			nfn++
			construct := fmt.Sprintf("%s: method resolution order", fname(fn))
			var direct, second []*ssa.Lookup
			var alias []*ssa.Lookup
			for _, u := range usesOfKind(usesIn(p.uses(fAlias), fn), "maplookup") {
				alias = append(alias, u.At.(*ssa.Lookup))
			}
			for _, u := range usesOfKind(usesIn(p.uses(fMethods), fn), "maplookup") {
				lk := u.At.(*ssa.Lookup)
				fromAlias := false
				for _, a := range alias {
					if ex, ok := lk.Index.(*ssa.Extract); ok && ex.Tuple == ssa.Value(a) {
						fromAlias = true
					}
					if lk.Index == ssa.Value(a) {
						fromAlias = true // plain (not comma-ok) alias lookup used as the key
					}
					var lv []ssa.Value
					leaves(lk.Index, map[ssa.Value]bool{}, &lv)
					for _, l := range lv {
						if ex, ok := l.(*ssa.Extract); ok && ex.Tuple == ssa.Value(a) {
							fromAlias = true
						}
					}
				}
				if fromAlias {
					second = append(second, lk)
				} else {
					direct = append(direct, lk)
				}
			}
			okAll := true
			if len(direct) == 0 {
				okAll = false
				c.bad("R12.2", construct, p.pos(fn.Pos()), "the method table is never looked up under the requested name itself: a directly registered name no longer wins")
			}
			for _, a := range alias {
				// dominated by a failed direct lookup
				dom := false
				for _, d := range direct {
					var okv ssa.Value
					for _, ref := range *d.Referrers() {
						if ex, ok := ref.(*ssa.Extract); ok && ex.Index == 1 {
							okv = ex
						}
					}
					if okv != nil && condKnown(a.Block(), okv, false) {
						dom = true
					}
				}
				if !dom {
					okAll = false
					c.bad("R12.2", construct, c.ipos(a), "the alias table is consulted although the direct lookup has not failed: an alias shadows a directly registered method of the same name")
				}
				// alias result only used under its ok
				var aok ssa.Value
				for _, ref := range *a.Referrers() {
					if ex, ok := ref.(*ssa.Extract); ok && ex.Index == 1 {
						aok = ex
					}
				}
				for _, s2 := range second {
					if !a.CommaOk && s2.CommaOk {
						continue // the empty string of a missing alias is looked up and reported as not found by the comma-ok lookup itself
					}
					if aok == nil || !condKnown(s2.Block(), aok, true) {
						okAll = false
						c.bad("R12.2", construct, c.ipos(s2), "the alias target is looked up although no alias was found")
					}
				}
				if len(second) == 0 {
					okAll = false
					c.bad("R12.2", construct, c.ipos(a), "the alias target is never looked up in the method table")
				}
			}
			if okAll {
				c.ok("R12.2", construct, p.pos(fn.Pos()), fmt.Sprintf("%d direct lookup(s) first; %d alias lookup(s) only on the not-found branch", len(direct), len(alias)))
			}
		}
		if nfn == 0 {
			c.und("R12.2", "method resolution", "-", "no lookup in the method table found")
		}
		if len(usesOfKind(p.uses(fAlias), "maplookup")) == 0 {
			c.bad("R12.2", "alias fallback", "-", "the alias table is never consulted: aliased methods are rejected as not found")
		}
	}

	// ---- R12.3
	c.decodeRejections("R12.3")
	c.arityGate("R12.3")
	c.ruleOpt("R12.5", "arity, parameter types and function are read from the method descriptor after name and alias resolution")
	c.descriptorReadAfterResolution("R12.5")
	c.rule("R12.6", "the only rejections before the handler are: unknown name and alias, unsupported channel mode, malformed / mis-sized / undecodable params")
	c.rejectionReasons("R12.6")
	c.rule("R12.7", "an alias is recorded unconditionally (it is resolved when a request arrives, so it may be declared before its target is registered)")
	c.aliasStoredUnconditionally("R12.7")
	c.rule("R12.8", "every read of the method table in the dispatcher is a comma-ok lookup (an alias whose target is missing is 'not found', not a zero descriptor)")
	c.descriptorFromCheckedLookup("R12.8")
	c.rule("R12.4", "handler arguments are only ever produced by encoding/json or the registered parameter decoder (type mismatches cannot be bypassed)")
	c.argumentOrigins("R12.4")
}

func isStringParam(v ssa.Value, fn *ssa.Function) bool {
	for _, prm := range fn.Params {
		if v == ssa.Value(prm) {
			b, ok := prm.Type().Underlying().(*types.Basic)
			return ok && b.Kind() == types.String
		}
	}
	// spilled parameter
	if ld, ok := v.(*ssa.UnOp); ok && ld.Op == token.MUL {
		if al, ok := ld.X.(*ssa.Alloc); ok {
			for _, ref := range *al.Referrers() {
				if st, ok := ref.(*ssa.Store); ok && st.Addr == al {
					if _, isP := st.Val.(*ssa.Parameter); isP {
						return true
					}
				}
			}
		}
	}
	return false
}

// isReflectMethodName: v is the Name field of a reflect.Method value.
func isReflectMethodName(v ssa.Value) bool {
	switch x := v.(type) {
	case *ssa.Field:
		return isNamed(x.X.Type(), "reflect", "Method") && structOf(x.X.Type()).Field(x.Field).Name() == "Name"
	case *ssa.UnOp:
		if fa, ok := x.X.(*ssa.FieldAddr); ok && x.Op == token.MUL {
			return isNamed(fa.X.Type(), "reflect", "Method") && fieldOfAddr(fa).Name() == "Name"
		}
	}
	return false
}

// plumbField: every store to field f (in composite literals) takes its value from a
// configuration struct's field of the same type (or a parameter of that type).
func (c *Ctx) plumbField(rule string, f *types.Var, what string) {
	p := c.P
	n := 0
	for _, u := range usesOfKind(p.uses(f), "store") {
		n++
		construct := fmt.Sprintf("%s: %s is configured", fname(u.Fn), what)
		okSrc := false
		v := u.Val
		switch x := v.(type) {
		case *ssa.UnOp:
			if fa, ok := x.X.(*ssa.FieldAddr); ok && x.Op == token.MUL {
				src := fieldOfAddr(fa)
				okSrc = types.Identical(src.Type(), f.Type()) && src != f
			}
		case *ssa.Field:
			src := fieldOfField(x)
			okSrc = types.Identical(src.Type(), f.Type()) && src != f
		case *ssa.Parameter:
			okSrc = true
		}
		c.check(okSrc, rule, construct, c.ipos(u.At), "taken from the configuration", "the "+what+" is not taken from the configuration (a fixed/default formatter is installed): client and server configured alike would disagree on names")
	}
	if n == 0 {
		c.bad(rule, what+" is configured", "-", "the "+what+" is never set")
	}
}

// decodeRejections: R12.3 — decodes of individual params inside the dispatcher.
func (c *Ctx) decodeRejections(rule string) {
	r := c.R
	d := r.FnDisp
	isErrTest := func(in ssa.Instruction) bool {
		iff, ok := in.(*ssa.If)
		if !ok {
			return false
		}
		bo, ok := iff.Cond.(*ssa.BinOp)
		if !ok || (bo.Op != token.NEQ && bo.Op != token.EQL) {
			return false
		}
		var other ssa.Value
		if isNilConst(bo.Y) {
			other = bo.X
		} else if isNilConst(bo.X) {
			other = bo.Y
		} else {
			return false
		}
		return isErrorType(other.Type())
	}
	isDecode := func(in ssa.Instruction) bool {
		ci, ok := in.(*ssa.Call)
		if !ok {
			return false
		}
		if decodeTarget(ci) != nil {
			return true
		}
		// call of a user-supplied param decoder: value of a func type returning (reflect.Value, error)
		if !ci.Common().IsInvoke() && staticCallee(ci) == nil {
			if sig, ok := ci.Common().Value.Type().Underlying().(*types.Signature); ok && sig.Results().Len() == 2 &&
				isNamed(sig.Results().At(0).Type(), "reflect", "Value") && isErrorType(sig.Results().At(1).Type()) {
				return true
			}
		}
		return false
	}
	n := 0
	hdrs := map[*ssa.Function]map[*ssa.BasicBlock]bool{}
	c.P.coneInstrs(d, func(in ssa.Instruction) {
		if !isDecode(in) {
			return
		}
		n++
		call := in.(*ssa.Call)
		construct := fmt.Sprintf("%s: failure of a parameter decode", fname(in.Parent()))
		// error value
		var e ssa.Value = call
		if tup, ok := call.Type().(*types.Tuple); ok {
			e = nil
			for _, ref := range *call.Referrers() {
				if ex, ok := ref.(*ssa.Extract); ok && ex.Index == tup.Len()-1 {
					e = ex
				}
			}
		}
		if e == nil {
			c.bad(rule, construct, c.ipos(call), "the decode error is discarded: a parameter that does not decode reaches the handler as a zero value")
			return
		}
		// tested at once: from the decode, no other decode / user call / loop back-edge before an error test
		target := func(x ssa.Instruction) bool {
			f := x.Parent()
			if hdrs[f] == nil {
				hdrs[f] = loopHeaders(f)
			}
			return x != in && (isDecode(x) || c.isUserCall(x) || (hdrs[f][x.Block()] && x == x.Block().Instrs[0]))
		}
		if w := reachFromUp(in, target, isErrTest); w != nil {
			c.bad(rule, construct, c.ipos(w), fmt.Sprintf("the decode at %s is not followed by a test of its error before the next decode / the handler", c.ipos(in)))
			return
		}
		// failure branch: find the If testing e (directly or via a local)
		var failBranch *ssa.BasicBlock
		for _, use := range transitiveUses(e) {
			bo, ok := use.(*ssa.BinOp)
			if !ok || (bo.Op != token.NEQ && bo.Op != token.EQL) || !(isNilConst(bo.X) || isNilConst(bo.Y)) {
				continue
			}
			for _, r2 := range *bo.Referrers() {
				if iff, ok := r2.(*ssa.If); ok {
					if bo.Op == token.NEQ {
						failBranch = iff.Block().Succs[0]
					} else {
						failBranch = iff.Block().Succs[1]
					}
				}
			}
		}
		if failBranch == nil {
			c.bad(rule, construct, c.ipos(call), "the decode error is never compared with nil")
			return
		}
		tgt2 := func(x ssa.Instruction) bool { return isDecode(x) || c.isUserCall(x) }
		if w := reachFromBlockUp(failBranch, tgt2, isErrTest); w != nil {
			c.bad(rule, construct, c.ipos(w), fmt.Sprintf("after the decode at %s failed, decoding continues / the handler is reached without another error test: a later successful decode can mask the failure and the handler runs with a zero value", c.ipos(in)))
			return
		}
		c.ok(rule, construct, c.ipos(call), "tested at once; failure branch reaches neither another decode nor the handler")
	})
	if n == 0 {
		c.und(rule, fname(d)+": parameter decodes", "-", "no parameter decode found in the dispatcher")
	}
}

// argumentOrigins: R12.4 — closed world of what can become a handler argument. Every element stored
// into the argument list of the reflective call is reflect.ValueOf(x) where x is the receiver /
// context / raw params, or the Interface() of a value that is reflect.New(declared type) (filled by
// encoding/json) or the result of the registered parameter decoder. Any other construction (a
// hand-written fast path with SetInt, a cached value) bypasses encoding/json's type and range checks,
// so a mismatching parameter would run the handler.
func (c *Ctx) argumentOrigins(rule string) {
	p, r := c.P, c.R
	if r.FnDisp == nil {
		c.und(rule, "dispatcher", "-", "not resolved")
		return
	}
	n := 0
	p.coneInstrs(r.FnDisp, func(in ssa.Instruction) {
		st, ok := in.(*ssa.Store)
		if !ok || !isNamed(st.Val.Type(), "reflect", "Value") {
			return
		}
		ia, ok := st.Addr.(*ssa.IndexAddr)
		if !ok {
			return
		}
		sl, ok := ia.X.Type().Underlying().(*types.Slice)
		if !ok || !isNamed(sl.Elem(), "reflect", "Value") {
			return
		}
		// only argument lists that reach a reflective call
		n++
		construct := fmt.Sprintf("%s: handler argument", fname(in.Parent()))
		bad := ""
		for _, o := range c.origins(st.Val) {
			if k, isK := o.Root.(*ssa.Const); isK && k.Value == nil && len(o.Fields) == 0 {
				continue // the zero reflect.Value returned next to an error by a decoding helper
			}
			if len(o.Fields) != 0 {
				if isNamed(o.Fields[len(o.Fields)-1].Type(), "reflect", "Value") {
					continue // a reflect.Value kept in the method table (the receiver)
				}
				bad = "field " + o.Fields[len(o.Fields)-1].Name()
				continue
			}
			call, ok := o.Root.(*ssa.Call)
			if !ok || calleeName(call) != "reflect.ValueOf" {
				bad = fmt.Sprintf("%T", o.Root)
				if ok {
					bad = calleeName(call)
				}
				continue
			}
			// ValueOf(rp.Interface()): rp must be reflect.New(...) or a decoder result
			arg := stripConv(call.Common().Args[0])
			ic, ok := arg.(*ssa.Call)
			if !ok || calleeName(ic) != "(reflect.Value).Interface" {
				continue // ValueOf(ctx), ValueOf(RawParams(...))
			}
			for _, o2 := range c.origins(ic.Common().Args[0]) {
				if k, isK := o2.Root.(*ssa.Const); isK && k.Value == nil && len(o2.Fields) == 0 {
					continue
				}
				c2, ok := o2.Root.(*ssa.Call)
				if len(o2.Fields) == 0 && ok && calleeName(c2) == "(reflect.Value).Elem" {
					// rp.Elem() of the freshly allocated, decoded pointer
					inner := c.origins(c2.Common().Args[0])
					if len(inner) == 1 && len(inner[0].Fields) == 0 {
						if c3, ok := inner[0].Root.(*ssa.Call); ok {
							c2 = c3
						}
					}
				}
				if len(o2.Fields) == 0 && ok && calleeName(c2) == "reflect.New" && decodedInto(c2) {
					continue
				}
				if ex, isEx := o2.Root.(*ssa.Extract); isEx && len(o2.Fields) == 0 {
					if dc, ok := ex.Tuple.(*ssa.Call); ok && staticCallee(dc) == nil && !dc.Common().IsInvoke() {
						continue // dynamic call: the registered parameter decoder
					}
				}
				bad = "a value that is neither reflect.New(type) nor a decoder result"
			}
		}
		c.check(bad == "", rule, construct, c.ipos(st), "reflect.ValueOf of the receiver/context/raw params or of a value decoded by encoding/json / the registered decoder",
			"a handler argument is produced by "+bad+" instead of encoding/json or the registered parameter decoder: its type and range checks are bypassed, so a parameter that does not fit the declared type (e.g. 300 for an int8) runs the handler with a truncated value instead of being rejected")
	})
	if n == 0 {
		c.und(rule, "argument list stores", "-", "no store of a reflect.Value into an argument list found in the dispatcher")
	}
}

// decodedInto: the pointer made by this reflect.New call is handed (as Interface()) to encoding/json.
func decodedInto(newCall *ssa.Call) bool {
	if newCall.Referrers() == nil {
		return false
	}
	found := false
	var walk func(v ssa.Value, d int)
	walk = func(v ssa.Value, d int) {
		if v.Referrers() == nil || d > 4 || found {
			return
		}
		for _, ref := range *v.Referrers() {
			switch x := ref.(type) {
			case *ssa.Phi:
				walk(x, d+1)
			case *ssa.Call:
				if calleeName(x) == "(reflect.Value).Interface" && len(x.Common().Args) > 0 && x.Common().Args[0] == v {
					// the interface value flows into a decode call
					for _, r2 := range *x.Referrers() {
						if ci, ok := r2.(ssa.CallInstruction); ok && decodeTarget(ci) == ssa.Value(x) {
							found = true
						}
					}
				}
			}
		}
	}
	walk(newCall, 0)
	return found
}

// aliasStoredUnconditionally: R12.7. An alias names its target by string and is resolved when a request
// arrives; it may be declared before the target is registered. The function that records an alias
// therefore stores it without asking any table whether the target exists (a "typo check" against the
// method table silently drops aliases declared ahead of Register).
func (c *Ctx) aliasStoredUnconditionally(rule string) {
	p := c.P
	n := 0
	for _, fn := range p.Funcs {
		if pkgOf(fn) != p.Root.Pkg || fn.Parent() != nil || len(fn.Params) != 3 {
			continue
		}
		// a method (receiver, alias string, original string) that updates a map[string]string field
		allInstrsRaw(fn, func(in ssa.Instruction) {
			mu, ok := in.(*ssa.MapUpdate)
			if !ok {
				return
			}
			mt, ok := mu.Map.Type().Underlying().(*types.Map)
			if !ok || !isStringType(mt.Key()) || !isStringType(mt.Elem()) {
				return
			}
			if mu.Key != ssa.Value(fn.Params[1]) || mu.Value != ssa.Value(fn.Params[2]) {
				return
			}
			n++
			construct := fmt.Sprintf("%s: alias recorded", fname(fn))
			var odd ssa.Value
			for _, cf := range expandConds(impliedConds(mu.Block())) {
				if c.dependsOn(cf.Cond, func(v ssa.Value) bool { _, isLk := v.(*ssa.Lookup); return isLk }, 0, map[ssa.Value]bool{}) {
					odd = cf.Cond
				}
			}
			c.check(odd == nil, rule, construct, c.ipos(mu), "stored without consulting another table", "the alias is recorded only if a table lookup (is the target registered?) succeeds: an alias declared before its target is registered is silently dropped, and requests for it get 'method not found' although alias and target both exist when they arrive")
		})
	}
	if n == 0 {
		c.und(rule, "alias registration", "-", "no function recording (alias, original) into a string table found")
	}
}

// noPrefixDispatch: R12.9. In the frame switch (and what it calls synchronously up to the dispatcher)
// no strings.HasPrefix / HasSuffix / Contains / EqualFold / Cut is applied to the frame's method name.
func (c *Ctx) noPrefixDispatch(rule string) {
	p, r := c.P, c.R
	w := c.ws()
	if w.FrameSwitch == nil || r.TFrame == nil {
		c.und(rule, "frame switch", "-", "not resolved")
		return
	}
	mf := respFieldByTag(r.TFrame, "method")
	if mf == nil {
		c.und(rule, "frame method member", "-", "not found")
		return
	}
	construct := fmt.Sprintf("%s: how a frame's method selects its handling", fname(w.FrameSwitch))
	var bad ssa.Instruction
	allInstrs(w.FrameSwitch, func(in ssa.Instruction) {
		ci, ok := in.(*ssa.Call)
		if !ok {
			return
		}
		switch calleeName(ci) {
		case "strings.HasPrefix", "strings.HasSuffix", "strings.Contains", "strings.EqualFold", "strings.Cut", "strings.CutPrefix", "strings.Index", "strings.ToLower", "strings.ToUpper", "strings.TrimPrefix":
			for _, a := range ci.Common().Args {
				if c.dependsOn(a, func(v ssa.Value) bool { return loadedField(v) == mf }, 0, map[ssa.Value]bool{}) {
					bad = in
				}
			}
		}
	})
	_ = p
	if bad != nil {
		c.bad(rule, construct, c.ipos(bad), "the frame switch classifies the method name by a prefix / substring test: a method whose registered name, alias or tag happens to match (a namespace called like the protocol prefix) never reaches the handler table over WebSocket — no handler runs and no method-not-found reply is sent")
	} else {
		c.ok(rule, construct, p.pos(w.FrameSwitch.Pos()), "equality with the built-in names only")
	}
}

// methodNameUntouched: R12.10 = R09.18. The method member of a received request is the lookup key of
// the method table and of the alias table. Code in the dispatcher's cone, in the request reader or in
// the frame executor that stores into that member (req.Method = sanitize(req.Method), a trimmed or
// lower-cased copy written back) changes which handler runs: a name that is not registered — "X.Y\n",
// "X.\u200bY" — collapses onto a registered one and is answered with a result instead of -32601.
// Building a request (a store into a freshly allocated request on the client, in the forwarder) is
// not receiving one.
func (c *Ctx) methodNameUntouched(rule string) {
	p, r := c.P, c.R
	if r.FReqMethod == nil || r.FnDisp == nil {
		c.und(rule, "role:F_req_method/FN_disp", "-", "the request's method member or the dispatcher could not be resolved")
		return
	}
	region := map[*ssa.Function]bool{}
	for _, g := range p.cone(r.FnDisp) {
		region[g] = true
	}
	for _, in := range c.dispInvokes() {
		region[in.Parent()] = true
		region[outermost(in.Parent())] = true
	}
	if r.FnExec != nil {
		for _, g := range p.cone(r.FnExec) {
			region[g] = true
		}
	}
	n := 0
	for g := range region {
		if pkgOf(g) != p.Root.Pkg {
			continue
		}
		allInstrs(g, func(in ssa.Instruction) {
			st, ok := in.(*ssa.Store)
			if !ok {
				return
			}
			fa, ok := st.Addr.(*ssa.FieldAddr)
			if !ok || fieldOfAddr(fa) != r.FReqMethod {
				return
			}
			// a request being built: the base is a fresh allocation that is initialised here
			if al, ok := fa.X.(*ssa.Alloc); ok {
				fromParam := false
				for _, ref := range *al.Referrers() {
					if s2, ok := ref.(*ssa.Store); ok && s2.Addr == ssa.Value(al) {
						if _, isP := s2.Val.(*ssa.Parameter); isP {
							fromParam = true
						}
						if u, isU := s2.Val.(*ssa.UnOp); isU && u.Op == token.MUL {
							fromParam = true
						}
					}
				}
				if !fromParam {
					return
				}
			}
			n++
			c.bad(rule, fmt.Sprintf("%s: store into the method member of a received request", fname(g)), c.ipos(in), "the method name of a received request is rewritten before the lookup: a name that is not registered can collapse onto a registered one, whose handler then runs and answers with a result instead of method-not-found")
		})
	}
	if n == 0 {
		c.ok(rule, "no instance", "-", "nothing on the receiving side stores into a request's method member")
	}
}
