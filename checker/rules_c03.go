package main

import (
	"fmt"
	"go/constant"
	"go/token"
	"go/types"
	"strings"

	"golang.org/x/tools/go/ssa"
)

func init() {
	register(&propInfo{
		ID:          "C03",
		Explanation: "CFG path analysis of the WebSocket connection loop and its helpers, deciding on every control path (including the error/exit paths no test takes) the structural conditions under which no accepted call can be left without an answer: (R03.1) every site that signals connection loss first marks the connection unusable with a certainly non-nil error, and the mark is cleared only after a new socket has been installed; (R03.2) every exit of the loop runs the deferred in-flight failer, sink closer, exit signal and context cancel; (R03.3) before a redial goroutine is spawned, in-flight calls are failed and sinks closed, on every loss path; (R03.4) the failer answers every registered call, unconditionally, with the temporary-connection code and empties the table in the same critical section; (R03.5) every enqueue of a request is a select alternative to the client's exit signal; (R03.6) the accept arm either registers the request or answers it on every path, and on the connection-unusable path answers with the temporary error without registering or writing; (R03.7) a loss arm returns when no reconnect is possible; (R03.8) every per-request mailbox is a freshly made channel with capacity >= 1. (R03.12) the peer-activity channel is signalled only inside the pong/ping handlers; (R03.13) the redial dials with no library mutex held. (R03.14) the retry loop sleeps on its back-off between re-sends. (R03.15) every socket write is bounded: it is preceded, on every path on which a timeout is configured, by a SetWriteDeadline of a non-zero time that is not lifted again (searched through helpers and callers); WriteControl must be handed a non-zero deadline. The loop writes requests itself and takes the write lock in its dead-peer and stop arms, so an unbounded write parked on a silent peer blocks calls, detection and closer. (R03.16) the start of a handler never waits for other handlers.",
		NotDecided:  "Fault timing, TCP behaviour, how long a bounded write actually takes (R03.15 decides only that every write carries a deadline, not its value), and that a call is eventually scheduled; 'foreign result' is covered structurally under C02.",
		Assumptions: []string{"branch correlation is applied only to repeated nil tests of the accepted request's id", "the connection loop, failer, redial function etc. are resolved by what they do (field uses, gorilla calls), not by name"},
		Run:         runC03,
	})
}

// idNilTest: cond is `<load of request id field> ==/!= nil`; nonNilWhenTrue tells polarity.
func (c *Ctx) idNilTest(v ssa.Value) (isTest, nonNilWhenTrue bool) {
	bo, ok := v.(*ssa.BinOp)
	if !ok || (bo.Op != token.NEQ && bo.Op != token.EQL) {
		return false, false
	}
	var other ssa.Value
	if isNilConst(bo.Y) {
		other = bo.X
	} else if isNilConst(bo.X) {
		other = bo.Y
	} else {
		return false, false
	}
	if c.R.FReqID == nil {
		return false, false
	}
	if _, ok := loadsField(other, c.R.FReqID); ok {
		return true, bo.Op == token.NEQ
	}
	// a local copy of the id (id := req.req.ID) or a value handed to a helper
	if c.allOrigins(other, func(a apath) bool { return a.through(c.R.FReqID) }) {
		return true, bo.Op == token.NEQ
	}
	return false, false
}

// assumeID returns an edge filter that follows only edges consistent with the
// accepted request's id being nil (assumeNil) or non-nil.
func (c *Ctx) assumeID(assumeNil bool) func(from *ssa.BasicBlock, k int) bool {
	return func(from *ssa.BasicBlock, k int) bool {
		iff, ok := from.Instrs[len(from.Instrs)-1].(*ssa.If)
		if !ok {
			return true
		}
		isT, nonNilWhenTrue := c.idNilTest(iff.Cond)
		if !isT {
			return true
		}
		nonNil := nonNilWhenTrue
		if k == 1 {
			nonNil = !nonNilWhenTrue
		}
		return nonNil == !assumeNil
	}
}

// searchFromBlock with an edge filter.
func reachFromBlockF(b *ssa.BasicBlock, target, avoid ipred, edgeOK func(*ssa.BasicBlock, int) bool) ssa.Instruction {
	s := newIPSearch(target, avoid)
	s.edgeOK = edgeOK
	s.seen[fmt.Sprintf("%p|", b)] = true
	if s.scan(b, 0, nil) {
		return s.found
	}
	return nil
}

func reachFromF(from ssa.Instruction, target, avoid ipred, edgeOK func(*ssa.BasicBlock, int) bool) ssa.Instruction {
	s := newIPSearch(target, avoid)
	s.edgeOK = edgeOK
	if s.scan(from.Block(), instrIndex(from)+1, nil) {
		return s.found
	}
	return nil
}

// tempCodeConst: value of the temporary-connection error code: the key under
// which NewErrors seeds *RPCConnectionError.
func (c *Ctx) tempCode() (int64, bool) {
	ne := c.P.Root.Func("NewErrors")
	if ne == nil {
		return 0, false
	}
	var code int64
	found := false
	allInstrs(ne, func(in ssa.Instruction) {
		mu, ok := in.(*ssa.MapUpdate)
		if !ok {
			return
		}
		if k, ok := constInt(stripConvInt(mu.Key)); ok {
			// value: reflect.TypeOf(&RPCConnectionError{})
			if call, ok := mu.Value.(*ssa.Call); ok && calleeName(call) == "reflect.TypeOf" {
				arg := stripConv(call.Common().Args[0])
				if isPtrToNamed(arg.Type(), c.P.ModPath, "RPCConnectionError") {
					code, found = k, true
				}
			} else if ok && strings.HasPrefix(calleeName(call), "reflect.TypeFor") {
				// reflect.TypeFor[*RPCConnectionError]()
				if f := call.Common().StaticCallee(); f != nil && len(f.TypeArgs()) == 1 && isPtrToNamed(f.TypeArgs()[0], c.P.ModPath, "RPCConnectionError") {
					code, found = k, true
				}
			}
		}
	})
	return code, found
}

// errCodeOfLiteral: for a value of type *JSONRPCError built as a literal, the constant stored in its Code field.
func (c *Ctx) errCodeOfLiteral(v ssa.Value) (int64, bool) {
	al, ok := v.(*ssa.Alloc)
	if !ok || c.R.TRPCErr == nil {
		return 0, false
	}
	for _, ref := range *al.Referrers() {
		fa, ok := ref.(*ssa.FieldAddr)
		if !ok {
			continue
		}
		f := fieldOfAddr(fa)
		if b, ok := f.Type().Underlying().(*types.Basic); !ok || b.Info()&types.IsInteger == 0 {
			continue
		}
		for _, r2 := range *fa.Referrers() {
			if st, ok := r2.(*ssa.Store); ok && st.Addr == fa {
				if k, ok := st.Val.(*ssa.Const); ok && k.Value != nil && k.Value.Kind() == constant.Int {
					n, _ := constant.Int64Val(k.Value)
					return n, true
				}
			}
		}
	}
	return 0, false
}

// respErrorCode: for a clientResponse composite literal value (Alloc + load), the Code of its Error field literal.
func (c *Ctx) respLiteralErrCode(v ssa.Value) (int64, bool) {
	// v is typically a load of a local Alloc of T_cresp
	ld, ok := v.(*ssa.UnOp)
	if !ok || ld.Op != token.MUL {
		return 0, false
	}
	al, ok := ld.X.(*ssa.Alloc)
	if !ok {
		return 0, false
	}
	for _, ref := range *al.Referrers() {
		fa, ok := ref.(*ssa.FieldAddr)
		if !ok {
			continue
		}
		if pt, ok := fieldOfAddr(fa).Type().(*types.Pointer); ok && pt.Elem() == types.Type(c.R.TRPCErr) {
			for _, r2 := range *fa.Referrers() {
				if st, ok := r2.(*ssa.Store); ok && st.Addr == fa {
					return c.errCodeOfLiteral(st.Val)
				}
			}
		}
	}
	return 0, false
}

// ---- events: instructions that *are* the thing a rule talks about, wherever they live

// flagEvents: lifted writes of the connection-unusable flag, split into certainly-non-nil sets and clears.
func (c *Ctx) flagEvents() (sets, clears map[ssa.Instruction]bool) {
	sets, clears = map[ssa.Instruction]bool{}, map[ssa.Instruction]bool{}
	for _, sv := range c.liftedFieldWrites(c.R.FFlag) {
		if isFreshAlloc(fieldBase(sv.Store)) {
			continue
		}
		switch {
		case isNilConst(sv.Val):
			clears[sv.At] = true
		case c.nonNilAt(sv.Val, sv.At, 0):
			sets[sv.At] = true
		}
	}
	return
}

func fieldBase(st *ssa.Store) ssa.Value {
	if fa, ok := st.Addr.(*ssa.FieldAddr); ok {
		return fa.X
	}
	return nil
}

func (c *Ctx) isSwap(in ssa.Instruction) bool {
	st, ok := in.(*ssa.Store)
	if !ok {
		return false
	}
	fa, ok := st.Addr.(*ssa.FieldAddr)
	return ok && fieldOfAddr(fa) == c.R.FSock && !isFreshAlloc(fa.X)
}

func (c *Ctx) isRangeOver(in ssa.Instruction, f *types.Var) bool {
	rg, ok := in.(*ssa.Range)
	return ok && c.fieldVal(rg.X, f)
}

func (c *Ctx) isRegisterInflight(in ssa.Instruction) bool {
	mu, ok := in.(*ssa.MapUpdate)
	return ok && c.fieldVal(mu.Map, c.R.FInflight)
}

// isCompletion: a completion (client response) is delivered to some call's mailbox.
func (c *Ctx) isCompletion(in ssa.Instruction) bool {
	isResp := func(v ssa.Value) bool {
		ch, ok := v.Type().Underlying().(*types.Chan)
		return ok && ch.Elem() == types.Type(c.R.TCresp)
	}
	switch x := in.(type) {
	case *ssa.Send:
		return isResp(x.Chan)
	case *ssa.Select:
		for _, st := range x.States {
			if st.Dir == types.SendOnly && isResp(st.Chan) {
				return true
			}
		}
	}
	return false
}

// isRequestWrite: the socket write that puts a request on the wire.
func (c *Ctx) isRequestWrite(in ssa.Instruction) bool {
	_, ok := c.requestWritePayload(in)
	return ok
}

// requestWritePayload: `in` writes a wire request to the socket (a write-side call on the gorilla
// connection whose payload is a value of the request type); returns that payload value.
func (c *Ctx) requestWritePayload(in ssa.Instruction) (ssa.Value, bool) {
	ci, ok := in.(ssa.CallInstruction)
	if !ok || c.R.TReq == nil {
		return nil, false
	}
	if !strings.HasPrefix(calleeName(ci), "(*"+gorilla+".Conn).") || !gorillaWriteSide[methodOf(ci)] {
		return nil, false
	}
	for _, a := range ci.Common().Args {
		mi, ok := a.(*ssa.MakeInterface)
		if !ok {
			continue
		}
		t := mi.X.Type()
		if pt, ok := t.Underlying().(*types.Pointer); ok {
			t = pt.Elem()
		}
		if t == types.Type(c.R.TReq) {
			return mi.X, true
		}
	}
	return nil, false
}

// liftValue: a value used at instruction `at`; when it is (a copy of) a parameter of the
// enclosing function, it stands for the argument passed at each synchronous call site
// (recursively): one (site, argument) pair per calling context.
func (c *Ctx) liftValue(at ssa.Instruction, v ssa.Value, depth int) []siteVal {
	fn := at.Parent()
	idx := -1
	for i, q := range fn.Params {
		if v == ssa.Value(q) || c.isParamCopy(v, q) {
			idx = i
		}
	}
	sites := c.P.syncCallers(fn)
	if idx < 0 || len(sites) == 0 || depth > ipMaxDepth || c.P.asyncValueUsed(fn) {
		return []siteVal{{At: at, Val: v}}
	}
	var out []siteVal
	for _, s := range sites {
		if idx < len(s.Common().Args) {
			out = append(out, c.liftValue(s, s.Common().Args[idx], depth+1)...)
		}
	}
	return out
}

// redialSpawns: go statements starting a goroutine that (transitively) installs a new socket.
func (c *Ctx) redialSpawns() []*ssa.Go {
	var out []*ssa.Go
	for _, fn := range c.P.Funcs {
		allInstrsRaw(fn, func(in ssa.Instruction) {
			g, ok := in.(*ssa.Go)
			if !ok {
				return
			}
			tgt := c.P.unbound(staticCallee(g))
			if tgt == nil || !c.P.allFns[tgt] {
				return
			}
			has := false
			c.P.coneInstrs(tgt, func(x ssa.Instruction) {
				if c.isSwap(x) {
					has = true
				}
			})
			if has {
				out = append(out, g)
			}
		})
	}
	return out
}

func runC03(c *Ctx) {
	p, r := c.P, c.R
	w := c.ws()
	c.rule("R03.1", "every site signalling connection loss is preceded on all paths by marking the connection unusable with a certainly non-nil error; the mark is cleared only after a new socket was installed")
	c.rule("R03.2", "every exit of the connection loop runs the deferred in-flight failer, sink closer, exit signal and context cancel")
	c.rule("R03.3", "on every loss path in-flight calls are failed and sinks closed before the redial goroutine is spawned")
	c.rule("R03.4", "the failer answers every registered call unconditionally with the temporary-connection code and empties the table in the same critical section")
	c.rule("R03.5", "every enqueue of a request is a select alternative to the client's exit signal")
	c.rule("R03.6", "accept arm: every path registers the request or answers it; the connection-unusable path answers with the temporary error and neither registers nor writes")
	c.rule("R03.7", "a loss arm returns from the loop when no reconnect is possible")
	c.rule("R03.8", "every per-request mailbox is a freshly made channel with constant capacity >= 1")
	c.rule("R03.15", "every socket write is bounded by a write deadline set before it: the connection loop writes requests itself, so a write parked on a silent peer blocks every call and the loss handling for ever")
	c.boundedSocketWrites("R03.15")
	c.ruleOpt("R03.16", "calls are served again once the link is healthy: the start of a handler never waits for other handlers (a bounded pool of execution slots filled by calls parked on a stalled connection would keep every later call waiting)")
	c.noWaitBeforeHandler("R03.16")
	if !c.need("R03.2", "FN_loop", r.FnLoop != nil) {
		return
	}
	loop := r.FnLoop
	_ = loop

	// ---- R03.1
	c.lossSignalRule("R03.1")

	// ---- R03.2
	c.exitCleanup("R03.2")

	// ---- R03.3
	c.cleanupBeforeRedial("R03.3")

	// ---- R03.4
	c.failerRule("R03.4")

	// ---- R03.5
	c.enqueueRule("R03.5")

	// ---- R03.6
	c.acceptArmRule("R03.6")

	// ---- R03.7
	{
		spawns := c.redialSpawns()
		n := 0
		allInstrsRaw(loop, func(in ssa.Instruction) {
			call, ok := in.(*ssa.Call)
			if !ok {
				return
			}
			g := p.syncCallee(call)
			if g == nil {
				return
			}
			reaches := false
			for _, sp := range spawns {
				if p.inCone(g, sp) {
					reaches = true
				}
			}
			if !reaches {
				return
			}
			n++
			construct := fmt.Sprintf("%s: loss arm calling %s", fname(loop), fname(g))
			var iff *ssa.If
			negated := false
			if refs := call.Referrers(); refs != nil {
				for _, ref := range *refs {
					switch x := ref.(type) {
					case *ssa.If:
						iff = x
					case *ssa.UnOp:
						if x.Op == token.NOT {
							for _, r2 := range *x.Referrers() {
								if i, ok := r2.(*ssa.If); ok {
									iff, negated = i, true
								}
							}
						}
					}
				}
			}
			if iff == nil {
				c.bad("R03.7", construct, c.ipos(call), "the result of the redial function is not tested: a connection that cannot reconnect keeps looping on a dead socket")
				return
			}
			falseBranch := iff.Block().Succs[1]
			if negated {
				falseBranch = iff.Block().Succs[0]
			}
			loopsBack := reachFromBlock(falseBranch, func(in ssa.Instruction) bool { return in == ssa.Instruction(w.LoopSelect) }, isReturn)
			c.check(loopsBack == nil, "R03.7", construct, c.ipos(iff), "returns when reconnecting is impossible", "when reconnecting is impossible the loop carries on instead of exiting (calls are never failed by the exit cleanup)")
		})
		if n == 0 {
			c.bad("R03.7", fname(loop)+": loss arms", p.pos(loop.Pos()), "no loss arm calls the redial function")
		}
	}

	// ---- R03.8
	c.mailboxRule("R03.8")
	c.rule("R03.10", "the read cycle never stalls (restart, loss signal or redial on every path after a message was taken)")
	c.readCycleRule("R03.10")
	c.rule("R03.14", "a retry-tagged call that meets a fault keeps being served: the retry loop sleeps on its back-off between re-sends (and does not touch a context that may be nil)")
	c.retryGateRule("R03.14")
	c.rule("R03.13", "the redial dials with no library mutex held (the connection loop takes the write lock for every outgoing request before it can answer 'link is down': a dial that stalls under that lock wedges the loop, and with it fail-fast, stop and close)")
	c.dialWithoutLocks("R03.13")
	c.rule("R03.12", "a silent stall is detected: the peer-activity channel is signalled only inside the pong/ping handlers, never by this side's own writes")
	c.activityOnlyFromPeer("R03.12")
	c.rule("R03.11", "an in-flight entry is removed only together with a completion; the request queue is unbuffered; the deadline renewal is unconditional")
	c.inflightRemovalRule("R03.11")
	c.renewalUnconditional("R03.11")
	c.unbufferedQueue("R03.11")
	c.rule("R03.9", "the read deadline is renewed only on evidence of inbound activity, so a silent stall is detected while the client keeps sending")
	c.deadlineRenewalRule("R03.9")
}

// lossSignalRule: R03.1 (also reported under C05).
func (c *Ctx) lossSignalRule(rule string) {
	p, r := c.P, c.R
	sets, clears := c.flagEvents()
	isSet := func(in ssa.Instruction) bool { return sets[in] }
	nsig := 0
	var sigs []FieldUse
	sigs = append(sigs, usesOfKind(p.uses(r.FIncoming), "close")...)
	sigs = append(sigs, usesOfKind(p.uses(r.FReadErr), "send", "select-send")...)
	for _, u := range sigs {
		nsig++
		construct := fmt.Sprintf("%s: %s on loss-signal channel %s", fname(u.Fn), u.Kind, u.Field.Name())
		c.check(mustPrecedeIP(u.At, isSet, 0), rule, construct, c.ipos(u.At), "preceded on all paths by a non-nil store to the connection-unusable flag",
			"connection loss is signalled on a path that has not marked the connection unusable with a certainly non-nil error: the loop takes it for an orderly close (and exits instead of reconnecting), or requests accepted until the reconnect completes are written to the dead socket and never answered")
	}
	if nsig == 0 {
		c.und(rule, "loss signals", "-", "no close of the incoming channel / send on the read-error channel found")
	}
	for at := range clears {
		construct := fmt.Sprintf("%s: clearing the connection-unusable flag", fname(at.Parent()))
		c.check(mustPrecedeIP(at, c.isSwap, 0), rule, construct, c.ipos(at), "only after the new socket was stored",
			"the flag is cleared before a new socket is installed: calls issued in the redial window are registered, written to the dead socket and hang")
	}
}

// completionErrCode: the error code carried by the completion delivered at instruction `in`.
func (c *Ctx) completionErrCode(in ssa.Instruction) (int64, bool) {
	var v ssa.Value
	switch x := in.(type) {
	case *ssa.Send:
		v = x.X
	case *ssa.Select:
		for _, st := range x.States {
			if st.Dir == types.SendOnly {
				v = st.Send
			}
		}
	}
	if v == nil {
		return 0, false
	}
	errF := respFieldByTag(c.R.TCresp, "error")
	var codeF *types.Var
	st := structOf(c.R.TRPCErr)
	for i := 0; i < st.NumFields(); i++ {
		if strings.Contains(st.Tag(i), `json:"code`) {
			codeF = st.Field(i)
		}
	}
	if errF == nil || codeF == nil {
		return 0, false
	}
	return c.constIntOf(v, errF, codeF)
}

// mailboxRule: stores to the mailbox field of a client request.
func (c *Ctx) mailboxRule(rule string) {
	p, r := c.P, c.R
	n := 0
	for _, u := range usesOfKind(p.uses(r.FReady), "store") {
		n++
		construct := fmt.Sprintf("%s: mailbox of a new request", fname(u.Fn))
		mk, ok := u.Val.(*ssa.MakeChan)
		if !ok {
			c.bad(rule, construct, c.ipos(u.At), "the mailbox is not a freshly made channel (sharing a mailbox delivers one request's completion to another call)")
			continue
		}
		k, ok := constInt(mk.Size)
		c.check(ok && k >= 1, rule, construct, c.ipos(u.At), "make(chan, n) with n >= 1",
			"unbuffered mailbox: the connection loop blocks delivering an answer nobody is receiving (cancel notification, or a caller busy sending its cancel), wedging the whole client")
	}
	if n == 0 {
		c.und(rule, "mailbox construction", "-", "no store to the mailbox field found")
	}
	// every request handed to the connection loop brings a mailbox of its own: the loop answers each
	// queued request on that request's mailbox, so two queued requests sharing one would let a call
	// take the answer meant for the other (e.g. the acknowledgement of its own cancel notification)
	type enq struct {
		at   ssa.Instruction
		mbox []apath
	}
	var enqs []enq
	isReqChan := func(v ssa.Value) bool {
		ch, ok := v.Type().Underlying().(*types.Chan)
		return ok && ch.Elem() == types.Type(r.TCreq)
	}
	for _, fn := range p.Funcs {
		if pkgOf(fn) != p.Root.Pkg {
			continue
		}
		allInstrsRaw(fn, func(in ssa.Instruction) {
			var sent ssa.Value
			switch x := in.(type) {
			case *ssa.Send:
				if isReqChan(x.Chan) {
					sent = x.X
				}
			case *ssa.Select:
				for _, st := range x.States {
					if st.Dir == types.SendOnly && isReqChan(st.Chan) {
						sent = st.Send
					}
				}
			}
			if sent != nil {
				enqs = append(enqs, enq{in, c.originsDyn(sent, r.FReady)})
			}
		})
	}
	for i, e := range enqs {
		construct := fmt.Sprintf("%s: mailbox of the queued request", fname(e.at.Parent()))
		fresh := len(e.mbox) > 0
		for _, o := range e.mbox {
			if _, ok := o.Root.(*ssa.MakeChan); !ok || len(o.Fields) != 0 {
				fresh = false
			}
		}
		shared := false
		for j, f := range enqs {
			if i == j || e.at == f.at {
				continue
			}
			for _, a := range e.mbox {
				for _, b := range f.mbox {
					if a.Root == b.Root && len(a.Fields) == 0 && len(b.Fields) == 0 {
						shared = true
					}
				}
			}
		}
		switch {
		case !fresh:
			var ps []string
			for _, o := range e.mbox {
				ps = append(ps, c.fmtPath(o))
			}
			c.bad(rule, construct, c.ipos(e.at), "a request is queued whose mailbox is not a channel made for it (origins: "+strings.Join(ps, "; ")+")")
		case shared:
			c.bad(rule, construct, c.ipos(e.at), "two different requests are queued with the same mailbox: the answer to one (e.g. the acknowledgement of a cancel notification) is taken by the call waiting for the other, which returns a foreign reply while its own arrives later and is lost")
		default:
			c.ok(rule, construct, c.ipos(e.at), "own freshly made mailbox")
		}
	}
}

// flagSetBranch: inside the accept arm (including functions it calls), the successor taken
// when the connection-unusable flag is set.
func (c *Ctx) flagSetBranch(arm selArm) *ssa.BasicBlock {
	blocks := armBlocks(arm)
	var cand []*ssa.BasicBlock
	for b := range blocks {
		cand = append(cand, b)
	}
	// blocks of functions called from the arm
	seen := map[*ssa.Function]bool{}
	for b := range blocks {
		for _, in := range b.Instrs {
			if g := c.P.syncCallee(in); g != nil {
				for _, f := range c.P.cone(g) {
					if !seen[f] {
						seen[f] = true
						cand = append(cand, f.Blocks...)
					}
				}
			}
		}
	}
	var res *ssa.BasicBlock
	for _, b := range cand {
		iff, ok := b.Instrs[len(b.Instrs)-1].(*ssa.If)
		if !ok {
			continue
		}
		// the tested value: `flag != nil` itself, or a predicate helper returning it (connFailed())
		cond, flip := iff.Cond, false
		if u, ok := cond.(*ssa.UnOp); ok && u.Op == token.NOT {
			cond, flip = u.X, true
		}
		setWhenTrue, decided := false, false
		consistent := true
		for _, o := range c.origins(cond) {
			bo, ok := o.Root.(*ssa.BinOp)
			if !ok || len(o.Fields) != 0 || (bo.Op != token.NEQ && bo.Op != token.EQL) {
				consistent = false
				break
			}
			var other ssa.Value
			if isNilConst(bo.Y) {
				other = bo.X
			} else if isNilConst(bo.X) {
				other = bo.Y
			}
			if other == nil || !c.fieldVal(other, c.R.FFlag) {
				consistent = false
				break
			}
			pol := bo.Op == token.NEQ
			if decided && pol != setWhenTrue {
				consistent = false
				break
			}
			setWhenTrue, decided = pol, true
		}
		if !consistent || !decided {
			continue
		}
		if flip {
			setWhenTrue = !setWhenTrue
		}
		if setWhenTrue {
			res = b.Succs[0]
		} else {
			res = b.Succs[1]
		}
	}
	return res
}

// armStartOf: the first instruction of the select-arm body containing `in` (or the function entry).
func (c *Ctx) armStartOf(in ssa.Instruction) ssa.Instruction {
	w := c.ws()
	for _, a := range w.Arms {
		if a.Body != nil && a.Body.Dominates(in.Block()) {
			return a.Body.Instrs[0]
		}
	}
	return in.Parent().Blocks[0].Instrs[0]
}

// mustPrecedeSince: every path from `start` to `b` passes A.
func mustPrecedeSince(fn *ssa.Function, start ssa.Instruction, A ipred, b ssa.Instruction) bool {
	if A(start) {
		return true
	}
	if start == b {
		return false
	}
	return reachFrom(start, func(in ssa.Instruction) bool { return in == b }, A) == nil
}

// mustFollowFrom: every path from a to a return passes B; returns offending return.
func mustFollowFrom(a ssa.Instruction, B ipred) ssa.Instruction { return reachFromUp(a, isEnd, B) }

// cleanupBeforeRedial: on every loss path in-flight calls are failed and sinks closed
// before the redial goroutine is spawned (wherever those steps live: in the redial
// function, in helpers, or before its call sites).
func (c *Ctx) cleanupBeforeRedial(rule string) {
	r := c.R
	spawns := c.redialSpawns()
	if len(spawns) == 0 {
		c.und(rule, "redial goroutine", "-", "no goroutine that installs a new socket is spawned anywhere")
		return
	}
	for _, cleaner := range []struct {
		name string
		f    *types.Var
	}{{"in-flight failer", r.FInflight}, {"sink closer", r.FChanh}} {
		for _, g := range spawns {
			construct := fmt.Sprintf("%s: %s before redial", fname(g.Parent()), cleaner.name)
			f := cleaner.f
			done := func(in ssa.Instruction) bool { return c.isRangeOver(in, f) }
			c.check(mustPrecedeIP(g, done, 0), rule, construct, c.ipos(g), "runs on every path to the spawn",
				"a loss path reconnects without the "+cleaner.name+" having run: calls in flight / open channels are never failed or closed")
		}
	}
}

func (c *Ctx) exitCleanup(rule string) {
	p, r := c.P, c.R
	w := c.ws()
	loop := r.FnLoop
	if loop == nil {
		c.und(rule, "connection loop", "-", "not resolved")
		return
	}
	isCloseExit := func(in ssa.Instruction) bool {
		ci, ok := in.(ssa.CallInstruction)
		if !ok {
			return false
		}
		b, ok := ci.Common().Value.(*ssa.Builtin)
		return ok && b.Name() == "close" && c.fieldVal(ci.Common().Args[0], r.FExiting)
	}
	isCancelOfLoopCtx := func(in ssa.Instruction) bool {
		ci, ok := in.(ssa.CallInstruction)
		if !ok || ci.Common().IsInvoke() || ci.Common().Value == nil || !isNamed(ci.Common().Value.Type(), "context", "CancelFunc") {
			return false
		}
		return c.someOrigin(ci.Common().Value, func(a apath) bool {
			ex, ok := a.Root.(*ssa.Extract)
			if !ok || ex.Index != 1 {
				return false
			}
			call, ok := ex.Tuple.(*ssa.Call)
			return ok && calleeName(call) == "context.WithCancel" && call.Parent() == loop
		})
	}
	type want struct {
		name string
		ev   ipred
	}
	wants := []want{
		{"close of the exit signal", isCloseExit},
		{"in-flight failer", func(in ssa.Instruction) bool { return c.isRangeOver(in, r.FInflight) }},
		{"sink closer", func(in ssa.Instruction) bool { return c.isRangeOver(in, r.FChanh) }},
		{"context cancel", isCancelOfLoopCtx},
	}
	// a defer performs an event if it is the event, or if every path through its target (with everything
	// it calls, and what that defers in turn) passes the event: a cleanup step under a condition does not count
	var performsD func(d *ssa.Defer, ev ipred, depth int) bool
	performsD = func(d *ssa.Defer, ev ipred, depth int) bool {
		if ev(d) {
			return true
		}
		tgt := p.unbound(staticCallee(d))
		if tgt == nil || !p.allFns[tgt] || len(tgt.Blocks) == 0 || depth > 3 {
			return false
		}
		at := func(x ssa.Instruction) bool {
			if ev(x) {
				return true
			}
			if d2, ok := x.(*ssa.Defer); ok {
				return performsD(d2, ev, depth+1)
			}
			return false
		}
		hit := false
		p.coneInstrs(tgt, func(x ssa.Instruction) {
			if at(x) {
				hit = true
			}
		})
		return hit && reachFromEntry(tgt, isReturn, at) == nil
	}
	performs := func(d *ssa.Defer, ev ipred) bool { return performsD(d, ev, 0) }
	var rets []ssa.Instruction
	allInstrsRaw(loop, func(in ssa.Instruction) {
		if isReturn(in) && len(in.Block().Preds) > 0 {
			rets = append(rets, in)
		}
	})
	for _, wt := range wants {
		construct := fmt.Sprintf("%s: deferred %s", fname(loop), wt.name)
		var ds []*ssa.Defer
		for _, x := range w.Defers {
			if performs(x, wt.ev) {
				ds = append(ds, x)
			}
		}
		if len(ds) == 0 {
			c.bad(rule, construct, p.pos(loop.Pos()), "not deferred in the connection loop: an exit leaves calls/handlers/waiters hanging")
			continue
		}
		isD := func(in ssa.Instruction) bool {
			for _, d := range ds {
				if in == ssa.Instruction(d) {
					return true
				}
			}
			return false
		}
		okAll := true
		for _, rt := range rets {
			if !mustPrecede(loop, isD, rt) {
				okAll = false
				c.bad(rule, construct, c.ipos(rt), "a return of the loop is reachable without this cleanup having been registered")
			}
		}
		if okAll {
			c.ok(rule, construct, c.ipos(ds[0]), fmt.Sprintf("registered before all %d returns", len(rets)))
		}
	}
}

func (c *Ctx) failerRule(rule string) {
	p, r := c.P, c.R
	w := c.ws()
	temp, haveTemp := c.tempCode()
	if !c.needWS(rule, "failer", w.Failer) {
		return
	}
	f := w.Failer
	construct := fmt.Sprintf("%s: fail every in-flight call", fname(f))
	li := p.lockInfo()
	var rng ssa.Instruction
	for _, u := range usesOfKind(usesIn(p.uses(r.FInflight), f), "range") {
		rng = u.At
	}
	// the completion sent to each ranged entry: a send whose channel is the mailbox of a value obtained from that range
	var send ssa.Instruction
	p.coneInstrs(f, func(in ssa.Instruction) {
		if !c.isCompletion(in) {
			return
		}
		var ch ssa.Value
		if s, ok := in.(*ssa.Send); ok {
			ch = s.Chan
		}
		if ch == nil {
			return
		}
		if c.someOrigin(ch, func(a apath) bool {
			ex, ok := a.Root.(*ssa.Extract)
			if !ok {
				return false
			}
			_, isNext := ex.Tuple.(*ssa.Next)
			return isNext && a.last() == r.FReady
		}) {
			send = in
		}
	})
	okAll := true
	if rng == nil || send == nil {
		c.bad(rule, construct, p.pos(f.Pos()), "the failer does not range over the in-flight table and send to each entry's mailbox")
		return
	}
	// unconditional: from the loop body start every path to the next iteration passes the send.
	// (conditions on the send block other than the range's own ok mean some entries are skipped)
	for _, cf := range expandConds(impliedCondsIP(send.Block(), 0)) {
		if ex, ok := cf.Cond.(*ssa.Extract); ok {
			if _, ok := ex.Tuple.(*ssa.Next); ok {
				continue
			}
		}
		if u, ok := cf.Cond.(*ssa.UnOp); ok && u.Op == token.NOT {
			continue
		}
		okAll = false
		c.bad(rule, construct, c.ipos(send), "some registered calls are skipped (the answer is sent only under an extra condition): those callers hang")
	}
	if send.Parent() == f && !inLoop(send.Block()) {
		okAll = false
		c.bad(rule, construct, c.ipos(send), "the answer is not sent inside the loop over the table")
	}
	if code, ok := c.completionErrCode(send); !ok || !haveTemp || code != temp {
		okAll = false
		c.bad(rule, construct, c.ipos(send), "the failure answer does not carry the temporary-connection error code (retry-tagged calls would not retry; untagged ones would not see the connection error)")
	}
	// reset in the same critical section
	var reset ssa.Instruction
	for _, u := range usesOfKind(p.uses(r.FInflight), "store", "clear") {
		if !c.isConstruction(u) && p.inCone(f, u.At) {
			reset = u.At
		}
	}
	if reset == nil {
		okAll = false
		c.bad(rule, construct, c.ipos(rng), "the table is not emptied after its entries were answered: the next loss or exit answers the same call again and blocks for ever on its one-slot mailbox (with the table lock held)")
	} else {
		held := intersect(li.mustAt(rng), li.mustAt(reset))
		unlock := func(in ssa.Instruction) bool {
			ci, ok := in.(*ssa.Call)
			if !ok {
				return false
			}
			id, op := p.lockOp(ci)
			return op == -1 && held[id]
		}
		if len(held) == 0 || reachFrom(rng, func(in ssa.Instruction) bool { return in == reset }, unlock) == nil {
			okAll = false
			c.bad(rule, construct, c.ipos(reset), "answering the entries and emptying the table are not one critical section")
		}
		if rst, isStore := reset.(*ssa.Store); isStore && !c.allOrigins(rst.Val, func(a apath) bool { _, ok := a.Root.(*ssa.MakeMap); return ok && len(a.Fields) == 0 }) {
			okAll = false
			c.bad(rule, construct, c.ipos(reset), "the table is not replaced by an empty map")
		}
		if ret := reachFrom(rng, isReturn, func(in ssa.Instruction) bool { return in == ssa.Instruction(reset) }); ret != nil && ret.Parent() == f {
			okAll = false
			c.bad(rule, construct, c.ipos(ret), "a path returns without emptying the table")
		}
	}
	if okAll {
		c.ok(rule, construct, c.ipos(send), "unconditional send in the range body, temporary code, table replaced in the same critical section")
	}
}

func (c *Ctx) enqueueRule(rule string) {
	p, r := c.P, c.R
	w := c.ws()
	RULE := rule
	_, _, _ = p, r, w
	{
		n := 0
		for _, fn := range p.Funcs {
			if pkgOf(fn) != p.Root.Pkg {
				continue
			}
			allInstrs(fn, func(in ssa.Instruction) {
				isReqChan := func(v ssa.Value) bool {
					ch, ok := v.Type().Underlying().(*types.Chan)
					return ok && ch.Elem() == types.Type(r.TCreq)
				}
				switch x := in.(type) {
				case *ssa.Send:
					if isReqChan(x.Chan) {
						n++
						c.bad(RULE, fmt.Sprintf("%s: enqueue of a request", fname(fn)), c.ipos(x), "bare send on the request queue: once the connection loop has exited nobody receives, and the caller blocks for ever")
					}
				case *ssa.Select:
					for _, st := range x.States {
						if st.Dir == types.SendOnly && isReqChan(st.Chan) {
							n++
							hasExit := false
							for _, s2 := range x.States {
								if s2.Dir == types.RecvOnly && (isLoadOf(s2.Chan, r.FCExiting) || isLoadOf(s2.Chan, r.FExiting)) {
									hasExit = true
								}
							}
							c.check(hasExit && x.Blocking, RULE, fmt.Sprintf("%s: enqueue of a request", fname(fn)), c.ipos(x),
								"select alternative to the exit signal", "the enqueue does not watch the client's exit signal")
						}
					}
				}
			})
		}
		if n == 0 {
			c.und(RULE, "enqueue sites", "-", "no send on a request queue found")
		}
	}

}

// unbufferedQueue: the hand-over of a request to the connection loop is a rendezvous: the enqueue is a
// select alternative to the exit signal (R03.5), so either the loop took the request — and then answers it
// on every path (R03.6) — or the caller sees the exit. A buffered queue breaks that: a request can be
// accepted into the buffer after the loop has taken its last one, and nobody will ever answer it.
func (c *Ctx) unbufferedQueue(rule string) {
	p, r := c.P, c.R
	n := 0
	for _, fn := range p.Funcs {
		if pkgOf(fn) != p.Root.Pkg {
			continue
		}
		allInstrsRaw(fn, func(in ssa.Instruction) {
			mk, ok := in.(*ssa.MakeChan)
			if !ok {
				return
			}
			ch, ok := mk.Type().Underlying().(*types.Chan)
			if !ok || ch.Elem() != types.Type(r.TCreq) {
				return
			}
			n++
			k, isK := constInt(mk.Size)
			c.check(isK && k == 0, rule, fmt.Sprintf("%s: request queue", fname(fn)), c.ipos(mk), "unbuffered (rendezvous with the loop)",
				"the request queue is buffered: a request can sit in the buffer when the connection loop exits (connection reset without reconnect, client closed between connections) and its caller, which only waits for the answer after the hand-over, is never answered")
		})
	}
	if n == 0 {
		c.und(rule, "request queue", "-", "no make of the request queue found")
	}
}

// acceptArmRule: R03.6 (also registered under C05): the request-accept arm of the connection loop is
// total — every path registers the request or answers it, for both id polarities — and on the
// connection-unusable path it answers with the temporary error without registering or writing.
func (c *Ctx) acceptArmRule(rule string) {
	r := c.R
	w := c.ws()
	loop := r.FnLoop
	temp, haveTemp := c.tempCode()
	if loop == nil {
		c.und(rule, "connection loop", "-", "not resolved")
		return
	}
	if arm, ok := w.Arms["requests"]; ok && arm.Body != nil {
		blocks := armBlocks(arm)
		construct := fmt.Sprintf("%s: request-accept arm", fname(loop))
		isRegister := c.isRegisterInflight
		isAnswer := c.isCompletion
		leavesArm := func(in ssa.Instruction) bool { return !inRegion(blocks, in) || isReturn(in) }
		okAll := true
		for _, assumeNil := range []bool{true, false} {
			if wv := reachFromBlockF(arm.Body, leavesArm, func(in ssa.Instruction) bool { return isRegister(in) || isAnswer(in) }, c.assumeID(assumeNil)); wv != nil {
				okAll = false
				kind := "an id-bearing request"
				if assumeNil {
					kind = "a notification"
				}
				c.bad(rule, construct, c.ipos(wv), "a path through the arm neither registers nor answers "+kind+": its caller waits for ever")
			}
		}
		// connection-unusable path
		flagBranch := c.flagSetBranch(arm)
		if flagBranch == nil {
			okAll = false
			c.bad(rule, construct, c.ipos(arm.Body.Instrs[0]), "the arm no longer tests the connection-unusable flag: requests accepted while the link is down are written to the dead socket and never answered")
		} else {
			if wv := reachFromBlock(flagBranch, func(in ssa.Instruction) bool { return isRegister(in) || c.isRequestWrite(in) }, leavesArm); wv != nil {
				okAll = false
				c.bad(rule, construct, c.ipos(wv), "on the connection-unusable path the request is still registered or written")
			}
			var ans ssa.Instruction
			reachFromBlock(flagBranch, func(in ssa.Instruction) bool {
				if isAnswer(in) {
					ans = in
					return true
				}
				return false
			}, leavesArm)
			if ans == nil {
				okAll = false
				c.bad(rule, construct, c.ipos(flagBranch.Instrs[0]), "the connection-unusable path does not answer the caller")
			} else if code, ok := c.completionErrCode(ans); !ok || !haveTemp || code != temp {
				okAll = false
				c.bad(rule, construct, c.ipos(ans), "the immediate failure does not carry the temporary-connection error code")
			}
		}
		if okAll {
			c.ok(rule, construct, c.ipos(arm.Body.Instrs[0]), "total on both id polarities; unusable path answers with the temporary code only")
		}
	} else {
		c.und(rule, "request-accept arm", "-", "the select arm receiving from the request queue could not be recovered")
	}
}

// dialWithoutLocks: at every call of the dial factory the must-held lockset is empty.
func (c *Ctx) dialWithoutLocks(rule string) {
	p := c.P
	li := p.lockInfo()
	n := 0
	for _, fn := range p.Funcs {
		if pkgOf(fn) != p.Root.Pkg {
			continue
		}
		allInstrsRaw(fn, func(in ssa.Instruction) {
			if in.Parent() != fn || !c.isFactoryCall(in) {
				return
			}
			n++
			held := li.mustAt(in)
			construct := fmt.Sprintf("%s: dial", fname(fn))
			c.check(len(held) == 0, rule, construct, c.ipos(in), "no lock held", "a library mutex is held across the dial ("+held.names()+"): dialling can take arbitrarily long, and everything that needs that lock meanwhile — the connection loop accepting a request, the stop arm, the exit cleanup — waits with it: calls issued during the outage do not fail fast and closing the client hangs")
		})
	}
	if n == 0 {
		c.und(rule, "dial", "-", "no call of the dial factory found")
	}
}
