package main

import (
	"fmt"
	"go/constant"
	"go/token"
	"go/types"

	"golang.org/x/tools/go/ssa"
)

func init() {
	register(&propInfo{
		ID: "C03",
		Explanation: "CFG path analysis of the WebSocket connection loop and its helpers, deciding on every control path (including the error/exit paths no test takes) the structural conditions under which no accepted call can be left without an answer: (R03.1) every site that signals connection loss first marks the connection unusable with a certainly non-nil error, and the mark is cleared only after a new socket has been installed; (R03.2) every exit of the loop runs the deferred in-flight failer, sink closer, exit signal and context cancel; (R03.3) before a redial goroutine is spawned, in-flight calls are failed and sinks closed, on every loss path; (R03.4) the failer answers every registered call, unconditionally, with the temporary-connection code and empties the table in the same critical section; (R03.5) every enqueue of a request is a select alternative to the client's exit signal; (R03.6) the accept arm either registers the request or answers it on every path, and on the connection-unusable path answers with the temporary error without registering or writing; (R03.7) a loss arm returns when no reconnect is possible; (R03.8) every per-request mailbox is a freshly made channel with capacity >= 1.",
		NotDecided: "Fault timing, TCP behaviour, writes blocked on a blackholed peer (the library sets no write deadline), and that a call is eventually scheduled; 'foreign result' is covered structurally under C02.",
		Assumptions: []string{"branch correlation is applied only to repeated nil tests of the accepted request's id", "the connection loop, failer, redial function etc. are resolved by what they do (field uses, gorilla calls), not by name"},
		Run: runC03,
	})
}

// idNilTest: cond is `<load of request id field> ==/!= nil`; nonNilWhenTrue tells polarity.
func (c *Ctx) idNilTest(v ssa.Value) (isTest, nonNilWhenTrue bool) {
	bo, ok := v.(*ssa.BinOp)
	if !ok || (bo.Op != token.NEQ && bo.Op != token.EQL) {
		return false, false
	}
	var other ssa.Value
	if isNilConst(bo.Y) {
		other = bo.X
	} else if isNilConst(bo.X) {
		other = bo.Y
	} else {
		return false, false
	}
	if c.R.FReqID == nil {
		return false, false
	}
	if _, ok := loadsField(other, c.R.FReqID); ok {
		return true, bo.Op == token.NEQ
	}
	return false, false
}

// assumeID returns an edge filter that follows only edges consistent with the
// accepted request's id being nil (assumeNil) or non-nil.
func (c *Ctx) assumeID(assumeNil bool) func(from *ssa.BasicBlock, k int) bool {
	return func(from *ssa.BasicBlock, k int) bool {
		iff, ok := from.Instrs[len(from.Instrs)-1].(*ssa.If)
		if !ok {
			return true
		}
		isT, nonNilWhenTrue := c.idNilTest(iff.Cond)
		if !isT {
			return true
		}
		nonNil := nonNilWhenTrue
		if k == 1 {
			nonNil = !nonNilWhenTrue
		}
		return nonNil == !assumeNil
	}
}

// searchFromBlock with an edge filter.
func reachFromBlockF(b *ssa.BasicBlock, target, avoid ipred, edgeOK func(*ssa.BasicBlock, int) bool) ssa.Instruction {
	s := &searcher{avoid: avoid, target: target, edgeOK: edgeOK, seen: map[*ssa.BasicBlock]bool{b: true}}
	if s.scan(b, 0) {
		return s.found
	}
	return nil
}

func reachFromF(from ssa.Instruction, target, avoid ipred, edgeOK func(*ssa.BasicBlock, int) bool) ssa.Instruction {
	s := &searcher{avoid: avoid, target: target, edgeOK: edgeOK, seen: map[*ssa.BasicBlock]bool{}}
	if s.scan(from.Block(), instrIndex(from)+1) {
		return s.found
	}
	return nil
}

// tempCodeConst: value of the temporary-connection error code: the key under
// which NewErrors seeds *RPCConnectionError.
func (c *Ctx) tempCode() (int64, bool) {
	ne := c.P.Root.Func("NewErrors")
	if ne == nil {
		return 0, false
	}
	var code int64
	found := false
	allInstrs(ne, func(in ssa.Instruction) {
		mu, ok := in.(*ssa.MapUpdate)
		if !ok {
			return
		}
		if k, ok := constInt(stripConvInt(mu.Key)); ok {
			// value: reflect.TypeOf(&RPCConnectionError{})
			if call, ok := mu.Value.(*ssa.Call); ok && calleeName(call) == "reflect.TypeOf" {
				arg := stripConv(call.Common().Args[0])
				if isPtrToNamed(arg.Type(), c.P.ModPath, "RPCConnectionError") {
					code, found = k, true
				}
			}
		}
	})
	return code, found
}

// errCodeOfLiteral: for a value of type *JSONRPCError built as a literal, the constant stored in its Code field.
func (c *Ctx) errCodeOfLiteral(v ssa.Value) (int64, bool) {
	al, ok := v.(*ssa.Alloc)
	if !ok || c.R.TRPCErr == nil {
		return 0, false
	}
	for _, ref := range *al.Referrers() {
		fa, ok := ref.(*ssa.FieldAddr)
		if !ok {
			continue
		}
		f := fieldOfAddr(fa)
		if b, ok := f.Type().Underlying().(*types.Basic); !ok || b.Info()&types.IsInteger == 0 {
			continue
		}
		for _, r2 := range *fa.Referrers() {
			if st, ok := r2.(*ssa.Store); ok && st.Addr == fa {
				if k, ok := st.Val.(*ssa.Const); ok && k.Value != nil && k.Value.Kind() == constant.Int {
					n, _ := constant.Int64Val(k.Value)
					return n, true
				}
			}
		}
	}
	return 0, false
}

// respErrorCode: for a clientResponse composite literal value (Alloc + load), the Code of its Error field literal.
func (c *Ctx) respLiteralErrCode(v ssa.Value) (int64, bool) {
	// v is typically a load of a local Alloc of T_cresp
	ld, ok := v.(*ssa.UnOp)
	if !ok || ld.Op != token.MUL {
		return 0, false
	}
	al, ok := ld.X.(*ssa.Alloc)
	if !ok {
		return 0, false
	}
	for _, ref := range *al.Referrers() {
		fa, ok := ref.(*ssa.FieldAddr)
		if !ok {
			continue
		}
		if pt, ok := fieldOfAddr(fa).Type().(*types.Pointer); ok && pt.Elem() == types.Type(c.R.TRPCErr) {
			for _, r2 := range *fa.Referrers() {
				if st, ok := r2.(*ssa.Store); ok && st.Addr == fa {
					return c.errCodeOfLiteral(st.Val)
				}
			}
		}
	}
	return 0, false
}

func runC03(c *Ctx) {
	p, r := c.P, c.R
	w := c.ws()
	c.rule("R03.1", "every site signalling connection loss is preceded on all paths by marking the connection unusable with a certainly non-nil error; the mark is cleared only after a new socket was installed")
	c.rule("R03.2", "every exit of the connection loop runs the deferred in-flight failer, sink closer, exit signal and context cancel")
	c.rule("R03.3", "on every loss path in-flight calls are failed and sinks closed before the redial goroutine is spawned")
	c.rule("R03.4", "the failer answers every registered call unconditionally with the temporary-connection code and empties the table in the same critical section")
	c.rule("R03.5", "every enqueue of a request is a select alternative to the client's exit signal")
	c.rule("R03.6", "accept arm: every path registers the request or answers it; the connection-unusable path answers with the temporary error and neither registers nor writes")
	c.rule("R03.7", "a loss arm returns from the loop when no reconnect is possible")
	c.rule("R03.8", "every per-request mailbox is a freshly made channel with constant capacity >= 1")
	if !c.need("R03.2", "FN_loop", r.FnLoop != nil) {
		return
	}
	loop := r.FnLoop
	temp, haveTemp := c.tempCode()

	// ---- R03.1
	{
		storeNonNilFlag := func(fn *ssa.Function) ipred {
			return func(in ssa.Instruction) bool {
				st, ok := in.(*ssa.Store)
				if !ok {
					return false
				}
				fa, ok := st.Addr.(*ssa.FieldAddr)
				if !ok || fieldOfAddr(fa) != r.FFlag {
					return false
				}
				return !isNilConst(st.Val) && c.isNonNilErrorValue(st.Val, st)
			}
		}
		nsig := 0
		var sigs []FieldUse
		sigs = append(sigs, usesOfKind(p.uses(r.FIncoming), "close")...)
		sigs = append(sigs, usesOfKind(p.uses(r.FReadErr), "send", "select-send")...)
		for _, u := range sigs {
			nsig++
			construct := fmt.Sprintf("%s: %s on loss-signal channel %s", fname(u.Fn), u.Kind, u.Field.Name())
			okk := mustPrecede(u.Fn, storeNonNilFlag(u.Fn), u.At)
			c.check(okk, "R03.1", construct, c.ipos(u.At), "preceded on all paths by a non-nil store to the connection-unusable flag",
				"connection loss is signalled on a path that has not marked the connection unusable: requests accepted until the reconnect completes are written to the dead socket and never answered")
		}
		if nsig == 0 {
			c.und("R03.1", "loss signals", "-", "no close of the incoming channel / send on the read-error channel found")
		}
		// clearing the flag
		for _, u := range usesOfKind(p.uses(r.FFlag), "store") {
			if !isNilConst(u.Val) || c.isConstruction(u) {
				continue
			}
			construct := fmt.Sprintf("%s: clearing the connection-unusable flag", fname(u.Fn))
			swap := func(in ssa.Instruction) bool {
				st, ok := in.(*ssa.Store)
				if !ok {
					return false
				}
				fa, ok := st.Addr.(*ssa.FieldAddr)
				return ok && fieldOfAddr(fa) == r.FSock
			}
			c.check(mustPrecede(u.Fn, swap, u.At), "R03.1", construct, c.ipos(u.At), "only after the new socket was stored",
				"the flag is cleared before a new socket is installed: calls issued in the redial window are registered, written to the dead socket and hang")
		}
	}

	// ---- R03.2
	c.exitCleanup("R03.2")

	// ---- R03.3
	c.cleanupBeforeRedial("R03.3")

	// ---- R03.4
	c.failerRule("R03.4")

	// ---- R03.5
	c.enqueueRule("R03.5")

	// ---- R03.6
	if arm, ok := w.Arms["requests"]; ok && arm.Body != nil && c.needWS("R03.6", "sendReq", w.SendReq) {
		blocks := armBlocks(arm)
		construct := fmt.Sprintf("%s: request-accept arm", fname(loop))
		isRegister := func(in ssa.Instruction) bool {
			mu, ok := in.(*ssa.MapUpdate)
			return ok && isLoadOf(mu.Map, r.FInflight)
		}
		isAnswer := func(in ssa.Instruction) bool {
			s, ok := in.(*ssa.Send)
			if !ok {
				return false
			}
			ch, ok := s.Chan.Type().Underlying().(*types.Chan)
			return ok && ch.Elem() == types.Type(r.TCresp)
		}
		leavesArm := func(in ssa.Instruction) bool { return !blocks[in.Block()] || isReturn(in) }
		okAll := true
		for _, assumeNil := range []bool{true, false} {
			if wv := reachFromBlockF(arm.Body, leavesArm, func(in ssa.Instruction) bool { return isRegister(in) || isAnswer(in) }, c.assumeID(assumeNil)); wv != nil {
				okAll = false
				kind := "an id-bearing request"
				if assumeNil {
					kind = "a notification"
				}
				c.bad("R03.6", construct, c.ipos(wv), "a path through the arm neither registers nor answers "+kind+": its caller waits for ever")
			}
		}
		// register-before-write for id-bearing requests (also C02)
		if wv := reachFromBlockF(arm.Body, func(in ssa.Instruction) bool { return isCallTo(in, w.SendReq) }, isRegister, c.assumeID(false)); wv != nil {
			// reachable sendReq without registering, for a non-nil id — unless that path answered already (flag path does not write)
			okAll = false
			c.bad("R03.6", construct, c.ipos(wv), "an id-bearing request can be written before it is registered in the in-flight table: a fast reply is dropped as unknown and the call hangs")
		}
		// flag-set path
		flagBranch := c.flagSetBranch(arm)
		if flagBranch == nil {
			okAll = false
			c.bad("R03.6", construct, c.ipos(arm.Body.Instrs[0]), "the arm no longer tests the connection-unusable flag: requests accepted while the link is down are written to the dead socket and never answered")
		} else {
			if wv := reachFromBlock(flagBranch, func(in ssa.Instruction) bool { return blocks[in.Block()] && (isRegister(in) || isCallTo(in, w.SendReq)) }, leavesArm); wv != nil {
				okAll = false
				c.bad("R03.6", construct, c.ipos(wv), "on the connection-unusable path the request is still registered or written")
			}
			// answer with temporary code
			var ans *ssa.Send
			reachFromBlock(flagBranch, func(in ssa.Instruction) bool {
				if isAnswer(in) && blocks[in.Block()] {
					ans = in.(*ssa.Send)
					return true
				}
				return false
			}, leavesArm)
			if ans == nil {
				okAll = false
				c.bad("R03.6", construct, c.ipos(flagBranch.Instrs[0]), "the connection-unusable path does not answer the caller")
			} else if code, ok := c.respLiteralErrCode(ans.X); !ok || !haveTemp || code != temp {
				okAll = false
				c.bad("R03.6", construct, c.ipos(ans), "the immediate failure does not carry the temporary-connection error code")
			}
		}
		if okAll {
			c.ok("R03.6", construct, c.ipos(arm.Body.Instrs[0]), "total on both id polarities; register precedes write; unusable path answers with the temporary code only")
		}
	} else {
		c.und("R03.6", "request-accept arm", "-", "the select arm receiving from the request queue could not be recovered")
	}

	// ---- R03.7
	if r.FnRedial != nil {
		n := 0
		for _, s := range callsTo(loop, r.FnRedial) {
			n++
			construct := fmt.Sprintf("%s: loss arm calling %s", fname(loop), fname(r.FnRedial))
			call, ok := s.(*ssa.Call)
			if !ok {
				c.bad("R03.7", construct, c.ipos(s), "the redial function's verdict is ignored")
				continue
			}
			var iff *ssa.If
			negated := false
			for _, ref := range *call.Referrers() {
				switch x := ref.(type) {
				case *ssa.If:
					iff = x
				case *ssa.UnOp:
					if x.Op == token.NOT {
						for _, r2 := range *x.Referrers() {
							if i, ok := r2.(*ssa.If); ok {
								iff, negated = i, true
							}
						}
					}
				}
			}
			if iff == nil {
				c.bad("R03.7", construct, c.ipos(call), "the result of the redial function is not tested: a connection that cannot reconnect keeps looping on a dead socket")
				continue
			}
			falseBranch := iff.Block().Succs[1]
			if negated {
				falseBranch = iff.Block().Succs[0]
			}
			loopsBack := reachFromBlock(falseBranch, func(in ssa.Instruction) bool { return in == ssa.Instruction(w.LoopSelect) }, isReturn)
			c.check(loopsBack == nil, "R03.7", construct, c.ipos(iff), "returns when reconnecting is impossible", "when reconnecting is impossible the loop carries on instead of exiting (calls are never failed by the exit cleanup)")
		}
		if n == 0 {
			c.bad("R03.7", fname(loop)+": loss arms", p.pos(loop.Pos()), "no loss arm calls the redial function")
		}
	}

	// ---- R03.8
	c.mailboxRule("R03.8")
	c.rule("R03.9", "the read deadline is renewed only on evidence of inbound activity, so a silent stall is detected while the client keeps sending")
	c.deadlineRenewalRule("R03.9")
}

// mailboxRule: stores to the mailbox field of a client request.
func (c *Ctx) mailboxRule(rule string) {
	p, r := c.P, c.R
	n := 0
	for _, u := range usesOfKind(p.uses(r.FReady), "store") {
		n++
		construct := fmt.Sprintf("%s: mailbox of a new request", fname(u.Fn))
		mk, ok := u.Val.(*ssa.MakeChan)
		if !ok {
			c.bad(rule, construct, c.ipos(u.At), "the mailbox is not a freshly made channel (sharing a mailbox delivers one request's completion to another call)")
			continue
		}
		k, ok := constInt(mk.Size)
		c.check(ok && k >= 1, rule, construct, c.ipos(u.At), "make(chan, n) with n >= 1",
			"unbuffered mailbox: the connection loop blocks delivering an answer nobody is receiving (cancel notification, or a caller busy sending its cancel), wedging the whole client")
	}
	if n == 0 {
		c.und(rule, "mailbox construction", "-", "no store to the mailbox field found")
	}
}

// flagSetBranch: inside the accept arm, the successor taken when the connection-unusable flag is set.
func (c *Ctx) flagSetBranch(arm selArm) *ssa.BasicBlock {
	blocks := armBlocks(arm)
	var res *ssa.BasicBlock
	for b := range blocks {
		iff, ok := b.Instrs[len(b.Instrs)-1].(*ssa.If)
		if !ok {
			continue
		}
		// cond: (load flag) != nil, possibly via a local bool
		v := iff.Cond
		if bo, ok := v.(*ssa.BinOp); ok && (bo.Op == token.NEQ || bo.Op == token.EQL) {
			var other ssa.Value
			if isNilConst(bo.Y) {
				other = bo.X
			} else if isNilConst(bo.X) {
				other = bo.Y
			}
			if other != nil && isLoadOf(other, c.R.FFlag) {
				if bo.Op == token.NEQ {
					res = b.Succs[0]
				} else {
					res = b.Succs[1]
				}
			}
		}
	}
	return res
}

// armStartOf: the first instruction of the select-arm body containing `in` (or the function entry).
func (c *Ctx) armStartOf(in ssa.Instruction) ssa.Instruction {
	w := c.ws()
	for _, a := range w.Arms {
		if a.Body != nil && a.Body.Dominates(in.Block()) {
			return a.Body.Instrs[0]
		}
	}
	return in.Parent().Blocks[0].Instrs[0]
}

// mustPrecedeSince: every path from `start` to `b` passes A.
func mustPrecedeSince(fn *ssa.Function, start ssa.Instruction, A ipred, b ssa.Instruction) bool {
	if A(start) {
		return true
	}
	if start == b {
		return false
	}
	return reachFrom(start, func(in ssa.Instruction) bool { return in == b }, A) == nil
}

// mustFollowFrom: every path from a to a return passes B; returns offending return.
func mustFollowFrom(a ssa.Instruction, B ipred) ssa.Instruction { return reachFrom(a, isReturn, B) }

// cleanupBeforeRedial: on every loss path in-flight calls are failed and sinks
// closed before the redial goroutine is spawned (inside the redial function, or
// before each of its call sites).
func (c *Ctx) cleanupBeforeRedial(rule string) {
	p, r := c.P, c.R
	w := c.ws()
	RULE := rule
	if c.need(RULE, "FN_redial", r.FnRedial != nil) && c.needWS(RULE, "failer", w.Failer) && c.needWS(RULE, "sinkCloser", w.SinkCloser) {
		redial := r.FnRedial
		// spawn sites of the redial goroutine (the closure storing to the socket)
		var spawns []ssa.Instruction
		allInstrs(redial, func(in ssa.Instruction) {
			if g, ok := in.(*ssa.Go); ok {
				spawns = append(spawns, g)
			}
		})
		if len(spawns) == 0 {
			c.und(RULE, fname(redial)+": redial goroutine", p.pos(redial.Pos()), "no goroutine spawn found in the redial function")
		}
		for _, cleaner := range []struct {
			name string
			fn   *ssa.Function
		}{{"in-flight failer", w.Failer}, {"sink closer", w.SinkCloser}} {
			for _, g := range spawns {
				construct := fmt.Sprintf("%s: %s before redial", fname(redial), cleaner.name)
				inRedial := mustPrecede(redial, func(in ssa.Instruction) bool { return isCallTo(in, cleaner.fn) }, g)
				if inRedial {
					c.ok(RULE, construct, c.ipos(g), "called on every path to the spawn")
					continue
				}
				// otherwise every call site of the redial function must be preceded by it within its arm
				okAll := len(p.callers[redial]) > 0
				for _, s := range p.callers[redial] {
					fn := s.Parent()
					if !mustPrecedeSince(fn, c.armStartOf(s), func(in ssa.Instruction) bool { return isCallTo(in, cleaner.fn) }, s) {
						okAll = false
						c.bad(RULE, construct, c.ipos(s), "this loss path reconnects without the "+cleaner.name+" having run: calls in flight / open channels are never failed or closed")
					}
				}
				if okAll {
					c.ok(RULE, construct, c.ipos(g), "called before every call of the redial function")
				}
			}
		}
	}

}

func (c *Ctx) exitCleanup(rule string) {
	p, r := c.P, c.R
	w := c.ws()
	RULE := rule
	_, _, _ = p, r, w
	loop := r.FnLoop
	if loop == nil {
		c.und(rule, "connection loop", "-", "not resolved")
		return
	}
	{
		type want struct {
			name string
			is   func(d *ssa.Defer) bool
		}
		wants := []want{
			{"close of the exit signal", func(d *ssa.Defer) bool {
				if b, ok := d.Call.Value.(*ssa.Builtin); ok && b.Name() == "close" {
					return isLoadOf(d.Call.Args[0], r.FExiting)
				}
				return false
			}},
			{"in-flight failer", func(d *ssa.Defer) bool { return w.Failer != nil && deferCalls(d, p) == w.Failer }},
			{"sink closer", func(d *ssa.Defer) bool { return w.SinkCloser != nil && deferCalls(d, p) == w.SinkCloser }},
			{"context cancel", func(d *ssa.Defer) bool {
				return !d.Call.IsInvoke() && d.Call.Value != nil && isNamed(d.Call.Value.Type(), "context", "CancelFunc")
			}},
		}
		var rets []ssa.Instruction
		allInstrs(loop, func(in ssa.Instruction) {
			if isReturn(in) {
				rets = append(rets, in)
			}
		})
		for _, wt := range wants {
			construct := fmt.Sprintf("%s: deferred %s", fname(loop), wt.name)
			var d *ssa.Defer
			for _, x := range w.Defers {
				if wt.is(x) {
					d = x
				}
			}
			if d == nil {
				c.bad(RULE, construct, p.pos(loop.Pos()), "not deferred in the connection loop: an exit leaves calls/handlers/waiters hanging")
				continue
			}
			okAll := true
			for _, rt := range rets {
				if !mustPrecede(loop, func(in ssa.Instruction) bool { return in == ssa.Instruction(d) }, rt) {
					okAll = false
					c.bad(RULE, construct, c.ipos(rt), "a return of the loop is reachable without this cleanup having been registered")
				}
			}
			if okAll {
				c.ok(RULE, construct, c.ipos(d), fmt.Sprintf("registered before all %d returns", len(rets)))
			}
		}
	}

}

func (c *Ctx) failerRule(rule string) {
	p, r := c.P, c.R
	w := c.ws()
	RULE := rule
	_, _, _ = p, r, w
	temp, haveTemp := c.tempCode()
	if c.needWS(RULE, "failer", w.Failer) {
		f := w.Failer
		construct := fmt.Sprintf("%s: fail every in-flight call", fname(f))
		li := p.lockInfo()
		var rng ssa.Instruction
		for _, u := range usesOfKind(usesIn(p.uses(r.FInflight), f), "range") {
			rng = u.At
		}
		var send *ssa.Send
		allInstrs(f, func(in ssa.Instruction) {
			if s, ok := in.(*ssa.Send); ok {
				if _, ok := s.Chan.Type().Underlying().(*types.Chan); ok && s.Chan.Type().Underlying().(*types.Chan).Elem() == types.Type(r.TCresp) {
					send = s
				}
			}
		})
		okAll := true
		if rng == nil || send == nil {
			okAll = false
			c.bad(RULE, construct, p.pos(f.Pos()), "the failer does not range over the in-flight table and send to each entry's mailbox")
		} else {
			// unconditional: the only conditions on the send are the range's own ok
			for _, cf := range expandConds(impliedConds(send.Block())) {
				if ex, ok := cf.Cond.(*ssa.Extract); ok {
					if _, ok := ex.Tuple.(*ssa.Next); ok {
						continue
					}
				}
				if u, ok := cf.Cond.(*ssa.UnOp); ok && u.Op == token.NOT {
					continue
				}
				okAll = false
				c.bad(RULE, construct, c.ipos(send), "some registered calls are skipped (the answer is sent only under an extra condition): those callers hang")
			}
			if !inLoop(send.Block()) {
				okAll = false
				c.bad(RULE, construct, c.ipos(send), "the answer is not sent inside the loop over the table")
			}
			if code, ok := c.respLiteralErrCode(send.X); !ok || !haveTemp || code != temp {
				okAll = false
				c.bad(RULE, construct, c.ipos(send), "the failure answer does not carry the temporary-connection error code (retry-tagged calls would not retry; untagged ones would not see the connection error)")
			}
			// reset in the same critical section
			var reset *ssa.Store
			for _, u := range usesOfKind(usesIn(p.uses(r.FInflight), f), "store") {
				reset = u.At.(*ssa.Store)
			}
			if reset == nil {
				okAll = false
				c.bad(RULE, construct, c.ipos(rng), "the table is not emptied after its entries were answered: the next loss or exit answers the same call again and blocks for ever on its one-slot mailbox (with the table lock held)")
			} else {
				held := intersect(li.mustAt(rng), li.mustAt(reset))
				unlock := func(in ssa.Instruction) bool {
					ci, ok := in.(*ssa.Call)
					if !ok {
						return false
					}
					id, op := p.lockOp(ci)
					return op == -1 && held[id]
				}
				if len(held) == 0 || reachFrom(rng, func(in ssa.Instruction) bool { return in == ssa.Instruction(reset) }, unlock) == nil {
					okAll = false
					c.bad(RULE, construct, c.ipos(reset), "answering the entries and emptying the table are not one critical section")
				}
				if _, ok := reset.Val.(*ssa.MakeMap); !ok {
					okAll = false
					c.bad(RULE, construct, c.ipos(reset), "the table is not replaced by an empty map")
				}
				if ret := mustFollowFrom(rng, func(in ssa.Instruction) bool { return in == ssa.Instruction(reset) }); ret != nil {
					okAll = false
					c.bad(RULE, construct, c.ipos(ret), "a path returns without emptying the table")
				}
			}
		}
		if okAll {
			c.ok(RULE, construct, c.ipos(send), "unconditional send in the range body, temporary code, table replaced in the same critical section")
		}
	}

}

func (c *Ctx) enqueueRule(rule string) {
	p, r := c.P, c.R
	w := c.ws()
	RULE := rule
	_, _, _ = p, r, w
	{
		n := 0
		for _, fn := range p.Funcs {
			if pkgOf(fn) != p.Root.Pkg {
				continue
			}
			allInstrs(fn, func(in ssa.Instruction) {
				isReqChan := func(v ssa.Value) bool {
					ch, ok := v.Type().Underlying().(*types.Chan)
					return ok && ch.Elem() == types.Type(r.TCreq)
				}
				switch x := in.(type) {
				case *ssa.Send:
					if isReqChan(x.Chan) {
						n++
						c.bad(RULE, fmt.Sprintf("%s: enqueue of a request", fname(fn)), c.ipos(x), "bare send on the request queue: once the connection loop has exited nobody receives, and the caller blocks for ever")
					}
				case *ssa.Select:
					for _, st := range x.States {
						if st.Dir == types.SendOnly && isReqChan(st.Chan) {
							n++
							hasExit := false
							for _, s2 := range x.States {
								if s2.Dir == types.RecvOnly && (isLoadOf(s2.Chan, r.FCExiting) || isLoadOf(s2.Chan, r.FExiting)) {
									hasExit = true
								}
							}
							c.check(hasExit && x.Blocking, RULE, fmt.Sprintf("%s: enqueue of a request", fname(fn)), c.ipos(x),
								"select alternative to the exit signal", "the enqueue does not watch the client's exit signal")
						}
					}
				}
			})
		}
		if n == 0 {
			c.und(RULE, "enqueue sites", "-", "no send on a request queue found")
		}
	}

}
