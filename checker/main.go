package main

import (
	"encoding/json"
	"flag"
	"fmt"
	"os"
	"path/filepath"
	"sort"
	"strconv"
	"strings"
	"time"

	"golang.org/x/tools/go/ssa"
)

type propInfo struct {
	ID          string
	Explanation string
	NotDecided  string
	Assumptions []string
	Run         func(c *Ctx)
}

var registry = map[string]*propInfo{}

func register(pi *propInfo) { registry[pi.ID] = pi }

func main() {
	property := flag.String("property", "", "property id (C02..C20) or 'all'")
	tier := flag.String("tier", "quick", "quick|thorough")
	repo := flag.String("repo", "/repo", "source tree to analyse")
	dumpRoles := flag.Bool("roles", false, "print resolved roles and exit")
	replay := flag.String("replay", "", "replay file: re-evaluate that obligation on the current tree")
	noEvidence := flag.Bool("no-evidence", false, "do not write evidence files (used for scratch-copy analysis)")
	jsonOut := flag.Bool("json", false, "print obligations as JSON (scratch-copy analysis)")
	renameTo := flag.String("rename-to", "", "write a copy of -repo with every unexported identifier renamed into this directory and exit")
	selftest := flag.Bool("selftest", false, "run the mutant corpus against the current tree (also part of -tier thorough)")
	flag.Parse()

	if t := os.Getenv("VERIF_TIER"); t != "" && !flagSet("tier") {
		*tier = t
	}
	seed := 0
	if s := os.Getenv("VERIF_SEED"); s != "" {
		seed, _ = strconv.Atoi(s)
	}

	if *renameTo != "" {
		if err := renameAll(*repo, *renameTo, "Zq"); err != nil {
			fmt.Println("rename failed:", err)
			os.Exit(2)
		}
		return
	}
	start := time.Now()
	p, err := loadProg(*repo)
	if err != nil {
		// a tree that cannot be loaded cannot be analysed: fail closed
		fmt.Printf("CHECKER-ERROR: cannot load %s: %v\n", *repo, err)
		if *property != "" && *property != "all" {
			fmt.Printf("VIOLATION property=%s replay=%s\n", *property, "load-failure")
		}
		os.Exit(1)
	}
	theProg = p
	r := resolveRoles(p)
	p.roots = map[*ssa.Function]bool{}
	for _, f := range []*ssa.Function{r.FnLoop, r.FnExec, r.FnDisp, r.FnCall} {
		if f != nil {
			p.roots[f] = true
		}
	}
	p.rootsAreExits = true
	// returning from a helper into one of the two event loops ends the per-event activity;
	// returning into the dispatcher or the client call continues that call's activity
	p.boundary = map[ssa.Instruction]bool{}
	for _, u := range usesOfKind(p.uses(r.FRequests), "select-recv", "recv") {
		if r.FnLoop != nil && outermost(u.Fn) == r.FnLoop {
			p.boundary[u.At] = true
		}
	}
	for _, u := range usesOfKind(p.uses(r.FQueue), "select-recv", "recv") {
		if r.FnExec != nil && outermost(u.Fn) == r.FnExec {
			p.boundary[u.At] = true
		}
	}
	p.loopRoots = map[*ssa.Function]bool{}
	for _, f := range []*ssa.Function{r.FnLoop, r.FnExec} {
		if f != nil {
			p.loopRoots[f] = true
		}
	}
	if os.Getenv("JRP_DEBUG_ORIGINS") != "" {
		debugOrigins(newCtx(p, r, "debug"))
		return
	}
	if *dumpRoles {
		d := r.Describe()
		keys := make([]string, 0, len(d))
		for k := range d {
			keys = append(keys, k)
		}
		sort.Strings(keys)
		for _, k := range keys {
			fmt.Printf("%-22s %s\n", k, d[k])
		}
		fmt.Printf("packages=%d functions=%d load=%.1fs\n", len(p.Pkgs), len(p.Funcs), time.Since(start).Seconds())
		return
	}
	if *replay != "" {
		os.Exit(doReplay(p, r, *replay))
	}
	ids := []string{*property}
	if *property == "all" || (*property == "" && *selftest) {
		ids = ids[:0]
		for id := range registry {
			ids = append(ids, id)
		}
		sort.Strings(ids)
	}
	if len(ids) == 0 || ids[0] == "" {
		fmt.Println("usage: jrpcheck -property Cxx [-tier quick|thorough] [-repo dir]")
		os.Exit(2)
	}
	if *selftest {
		code := 0
		for _, id := range ids {
			st := runSelfTest(*repo, id)
			for _, d := range st.Details {
				fmt.Println(d)
			}
			fmt.Printf("selftest property=%s ran=%d failed=%d skipped=%d\n", id, st.Ran, st.Failed, st.Skipped)
			if st.Failed > 0 {
				code = 2
			}
		}
		os.Exit(code)
	}
	ff, ferr := loadFindings(filepath.Join(verifDir(), "known_findings.json"))
	if ferr != nil {
		ff = &FindingsFile{}
	}
	exit := 0
	var all []Obligation
	for _, id := range ids {
		pi := registry[id]
		if pi == nil {
			fmt.Printf("unknown property %s\n", id)
			os.Exit(2)
		}
		t0 := time.Now()
		ctx := newCtx(p, r, id)
		func() {
			defer func() {
				if e := recover(); e != nil {
					ctx.und("checker", "panic", "-", fmt.Sprintf("checker panicked: %v", e))
				}
			}()
			pi.Run(ctx)
		}()
		ctx.finish()
		rr := classify(ctx, ff)
		extra := map[string]interface{}{}
		if *tier == "thorough" && !*noEvidence {
			st := runSelfTest(*repo, id)
			extra["selftest"] = st
			if st.Failed > 0 {
				fmt.Printf("CHECKER-SELFTEST-FAILED property=%s failed=%d (see evidence)\n", id, st.Failed)
				if exit == 0 {
					exit = 2
				}
			}
		}
		wall := time.Since(t0) + time.Since(start) - time.Since(t0) // include load time once
		if !*noEvidence {
			if err := writeEvidence(rr, *tier, seed, wall, extra, *pi); err != nil {
				fmt.Printf("CHECKER-ERROR: writing evidence: %v\n", err)
				exit = 1
			}
		}
		all = append(all, ctx.Obls...)
		nd := 0
		for _, o := range ctx.Obls {
			if o.Status == Discharged {
				nd++
			}
		}
		if !*jsonOut {
			fmt.Printf("property=%s tier=%s tree=%s obligations=%d discharged=%d violations=%d known=%d\n", id, *tier, p.Dir, len(ctx.Obls), nd, len(rr.violations), len(rr.known))
		}
		for _, o := range rr.known {
			fmt.Printf("KNOWN-FINDING: property=%s rule=%s %s at %s: %s\n", o.Property, o.Rule, o.Construct, o.Pos, o.Detail)
		}
		for i, o := range rr.violations {
			path := "-"
			if !*noEvidence {
				path, _ = writeReplay(o, i+1)
			}
			if !*jsonOut {
				fmt.Printf("  %s rule=%s construct=%q at %s: %s\n", strings.ToUpper(string(o.Status)), o.Rule, o.Construct, o.Pos, o.Detail)
				fmt.Printf("VIOLATION property=%s replay=%s\n", o.Property, path)
			}
			exit = 1
		}
	}
	if *jsonOut {
		b, _ := json.Marshal(all)
		fmt.Println(string(b))
	}
	os.Exit(exit)
}

func flagSet(name string) bool {
	set := false
	flag.Visit(func(f *flag.Flag) {
		if f.Name == name {
			set = true
		}
	})
	return set
}

// doReplay re-evaluates the property of a recorded obligation and prints the
// current verdict for exactly that (rule, construct).
func doReplay(p *Prog, r *Roles, path string) int {
	b, err := os.ReadFile(path)
	if err != nil {
		fmt.Println("cannot read replay file:", err)
		return 2
	}
	var o Obligation
	if err := json.Unmarshal(b, &o); err != nil {
		fmt.Println("bad replay file:", err)
		return 2
	}
	pi := registry[o.Property]
	if pi == nil {
		fmt.Println("unknown property", o.Property)
		return 2
	}
	ctx := newCtx(p, r, o.Property)
	pi.Run(ctx)
	ctx.finish()
	fmt.Printf("replay property=%s rule=%s construct=%q\n  rule: %s\n", o.Property, o.Rule, o.Construct, ctx.ruleDoc[o.Rule])
	found := false
	code := 0
	for _, x := range ctx.Obls {
		if x.Rule == o.Rule && x.Construct == o.Construct {
			found = true
			fmt.Printf("  now: %s at %s: %s\n", x.Status, x.Pos, x.Detail)
			if x.Status != Discharged {
				code = 1
			}
		}
	}
	if !found {
		fmt.Println("  construct no longer present in the current tree (obligation not generated)")
	}
	return code
}
