package main

import (
	"fmt"
	"go/token"
	"go/types"
	"strings"

	"golang.org/x/tools/go/ssa"
)

func init() {
	register(&propInfo{
		ID:          "C08",
		Explanation: "Close-once typestate and path analysis of client channels: (R08.1) the caller's channel is closed only inside the buffering goroutine, every close is followed by return on all paths (no further select, send or close), and values are sent to it only from there; (R08.2) every invocation of a sink callback with ok=false is preceded, under the sink lock, by removing the sink from the table it was looked up in (so the close notification, connection loss and client close cannot each close it), and the intake channel is closed only on the ok=false branch of the sink; (R08.3) the sink closer visits every entry of the table, unconditionally, and runs on every loss path before redialling and on every loop exit; (R08.4) the buffering goroutine always selects on the subscription context, whose arm closes the caller's channel and returns, and the sink drops values once that context is done; (R08.5) the forwarder's parallel slices use one removal scheme (otherwise a handler's close closes another caller's channel); (R08.6) a channel-id response sets up its sink once: after delivering it the in-flight entry is removed on every path. (R08.9) the close-when-drained test looks at the buffer itself. (R08.10) no value is dropped by a test of its payload bytes. (R08.11) an element leaves the client-side buffer only when it was handed to the caller; (R08.12) the peer-activity channel is signalled only inside the pong/ping handlers. (R08.13) channel ids are never derived from a length; (R08.14) every table of the connection object filled while it runs is emptied on the way to a redial. (R08.15) no append onto a prefix reslice of a byte buffer that arrived from elsewhere (it would overwrite the bytes behind the prefix, which are read next).",
		NotDecided:  "That termination happens eventually under a given schedule; prefix property of received values beyond ordering (C07) — values are not inspected.",
		Assumptions: []string{"closing a reflect channel twice panics; a select on a closed intake yields ok=false"},
		Run:         runC08,
	})
}

func runC08(c *Ctx) {
	p, r := c.P, c.R
	w := c.ws()
	c.rule("R08.1", "caller's channel closed only in the buffering goroutine, each close followed by return; sends only from there")
	c.rule("R08.2", "delete-then-close under the sink lock; intake closed only on the ok=false branch")
	c.rule("R08.3", "sink closer visits every entry and runs on every loss path and every loop exit")
	c.rule("R08.4", "context arm closes the caller's channel and returns; sink drops values once the context is done")
	c.rule("R08.5", "parallel slices of the forwarder use one removal scheme")
	c.rule("R08.6", "a channel-id response sets up its sink once (entry removed after delivery)")

	// the buffering goroutine (entry function; rules look at its whole region)
	buf := c.bufferingGoroutine()
	// ---- R08.1
	if c.need("R08.1", "client buffering goroutine", buf != nil) {
		isClose := func(in ssa.Instruction) bool {
			ci, ok := in.(*ssa.Call)
			return ok && calleeName(ci) == "(reflect.Value).Close"
		}
		isSelect := func(in ssa.Instruction) bool {
			ci, ok := in.(*ssa.Call)
			return ok && calleeName(ci) == "reflect.Select"
		}
		n := 0
		inBuf := map[*ssa.Function]bool{}
		for _, g := range c.bufFuncs() {
			inBuf[g] = true
		}
		for _, fn := range p.Funcs {
			if pkgOf(fn) != p.Root.Pkg {
				continue
			}
			fn := fn
			allInstrs(fn, func(in ssa.Instruction) {
				if !isClose(in) {
					return
				}
				n++
				construct := fmt.Sprintf("%s: close of the caller's channel", fname(fn))
				if !inBuf[fn] {
					c.bad("R08.1", construct, c.ipos(in), "the caller's channel is closed outside the buffering goroutine, which may still be sending on it or close it again")
					return
				}
				if wv := reachFromUp(in, func(x ssa.Instruction) bool { return isSelect(x) || isClose(x) }, nil); wv != nil {
					c.bad("R08.1", construct, c.ipos(wv), fmt.Sprintf("after the close at %s the goroutine carries on (missing return): it closes the channel again or sends on the closed channel, which panics", c.ipos(in)))
					return
				}
				c.ok("R08.1", construct, c.ipos(in), "followed by return on every path")
			})
		}
		if n == 0 {
			c.bad("R08.1", "close of the caller's channel", "-", "the caller's channel is never closed")
		}
		// every way out of the goroutine closes the channel first
		if ret := reachFromEntry(buf, isReturn, isClose); ret != nil {
			c.bad("R08.1", fmt.Sprintf("%s: exit closes the channel", fname(buf)), c.ipos(ret), "the buffering goroutine can end without closing the caller's channel: the caller waits for ever")
		} else {
			c.ok("R08.1", fmt.Sprintf("%s: exit closes the channel", fname(buf)), p.pos(buf.Pos()), "every return is preceded by the close")
		}
		// the goroutine is started once per sink construction, outside loops
		for _, mc := range p.closure[buf] {
			for _, ref := range *mc.Referrers() {
				if g, ok := ref.(*ssa.Go); ok {
					c.check(!inLoop(g.Block()), "R08.1", fmt.Sprintf("%s: one buffering goroutine per channel", fname(g.Parent())), c.ipos(g), "started once", "several buffering goroutines share one caller channel: each closes it")
				}
			}
		}
	}

	// ---- R08.2
	if c.need("R08.2", "sink callback field / sink table", r.FChanhCb != nil && r.FChanh != nil) {
		c.deleteThenClose("R08.2")
		// intake closed only under ok == false in the sink closure
		nclose := 0
		for _, fn := range p.Funcs {
			if pkgOf(fn) != p.Root.Pkg {
				continue
			}
			allInstrs(fn, func(in ssa.Instruction) {
				ci, ok := isBuiltinCall(in, "close")
				if !ok {
					return
				}
				ch, ok := ci.Call.Args[0].Type().Underlying().(*types.Chan)
				if !ok || !isNamed(ch.Elem(), "reflect", "Value") {
					return
				}
				nclose++
				construct := fmt.Sprintf("%s: close of the intake channel", fname(fn))
				good := false
				for _, cf := range expandConds(impliedConds(in.Block())) {
					if prm, ok := cf.Cond.(*ssa.Parameter); ok && !cf.True && prm.Parent() == fn {
						good = true
					}
				}
				if good {
					// and it returns afterwards without sending
					if wv := reachFrom(in, func(x ssa.Instruction) bool {
						if s, ok := x.(*ssa.Select); ok {
							for _, st := range s.States {
								if st.Dir == types.SendOnly {
									return true
								}
							}
						}
						_, isSend := x.(*ssa.Send)
						return isSend
					}, nil); wv != nil {
						good = false
					}
				}
				c.check(good, "R08.2", construct, c.ipos(in), "only on the ok=false branch, then return", "the intake channel can be closed on a value delivery (or a value is sent after the close): double close / send on closed channel")
			})
		}
		if nclose == 0 {
			c.bad("R08.2", "close of the intake channel", "-", "the intake channel is never closed: the caller's channel is not closed when the handler closes its channel")
		}
	}

	// ---- R08.3
	if c.needWS("R08.3", "sinkCloser", w.SinkCloser) {
		sc := w.SinkCloser
		construct := fmt.Sprintf("%s: closes every sink", fname(sc))
		var cb ssa.Instruction
		for _, u := range usesOfKind(usesIn(p.uses(r.FChanhCb), sc), "call") {
			cb = u.At
		}
		viaHelper := false
		if cb == nil {
			// the loop body may live in a helper called from the loop (closeChanLocked(chid, hnd))
			for _, u := range usesOfKind(p.uses(r.FChanhCb), "call") {
				if u.Fn != sc && p.inCone(sc, u.At) {
					cb, viaHelper = u.At, true
				}
			}
		}
		if cb == nil || !(inLoop(cb.Block()) || (viaHelper && inLoopIP(cb))) {
			c.bad("R08.3", construct, p.pos(sc.Pos()), "the sink closer does not invoke each sink's callback inside its loop over the table")
		} else {
			uncond := true
			conds := impliedConds(cb.Block())
			if viaHelper {
				conds = impliedCondsIP(cb.Block(), 0)
			}
			for _, cf := range expandConds(conds) {
				if ex, ok := cf.Cond.(*ssa.Extract); ok {
					if _, ok := ex.Tuple.(*ssa.Next); ok {
						continue
					}
				}
				if u, ok := cf.Cond.(*ssa.UnOp); ok && u.Op == token.NOT {
					continue
				}
				uncond = false
			}
			c.check(uncond, "R08.3", construct, c.ipos(cb), "unconditional in the range body", "some sinks are skipped when the connection is lost or the client closed: their callers' channels stay open for ever")
		}
		c.cleanupBeforeRedial("R08.3")
		c.exitCleanup("R08.3")
	}

	// ---- R08.4
	if buf != nil {
		construct := fmt.Sprintf("%s: subscription context is always selected on", fname(buf))
		// a SelectCase literal built from reflect.ValueOf(ctx.Done())
		hasCtx := false
		c.bufInstrs(func(in ssa.Instruction) {
			if ci, ok := in.(*ssa.Call); ok && calleeName(ci) == "reflect.ValueOf" {
				if call, ok := stripConv(ci.Common().Args[0]).(*ssa.Call); ok && call.Common().IsInvoke() && call.Common().Method.Name() == "Done" {
					hasCtx = true
				}
			}
		})
		c.check(hasCtx, "R08.4", construct, p.pos(buf.Pos()), "ctx.Done() is one of the cases", "the buffering goroutine does not watch the subscription context: cancelling the subscription never closes the caller's channel")
		// sink: ctx.Err() != nil -> return before sending
		{
			found := false
			var where *ssa.Function
			for _, sib := range c.sinkFuncs() {
				where = sib
				allInstrs(sib, func(in ssa.Instruction) {
					done, _, ok := ctxCheck(in)
					if !ok {
						return
					}
					sends := reachFromBlock(done, func(x ssa.Instruction) bool {
						if s, ok := x.(*ssa.Select); ok {
							for _, st := range s.States {
								if st.Dir == types.SendOnly {
									return true
								}
							}
						}
						return false
					}, isReturn)
					if sends == nil {
						found = true
					}
				})
			}
			pos := "-"
			name := "sink"
			if where != nil {
				pos, name = p.pos(where.Pos()), fname(where)
			}
			c.check(found, "R08.4", fmt.Sprintf("%s: sink drops values once the context is done", name), pos, "context checked before the hand-over", "values can still be handed over after the subscription's context is done")
		}
	}

	// ---- R08.5
	c.parallelSliceRule("R08.5")

	// ---- R08.6
	c.singleSinkSetup("R08.6")

	// ---- R08.7
	c.rule("R08.7", "a sink leaves the table only together with its close (no removal that leaves the caller's channel open for ever)")
	c.removalClosesRule("R08.7")
	c.rule("R08.10", "the caller receives a prefix of what the handler sent: no value is dropped by a test of its payload bytes")
	c.valuesNotFiltered("R08.10")
	c.rule("R08.9", "after the close notification the caller's channel is closed exactly when the buffer is empty (tested on the buffer itself, not on a value read earlier in the iteration)")
	c.closeWhenDrained("R08.9")
	c.rule("R08.8", "every streamed value is decoded into memory allocated for that value")
	c.freshStreamValue("R08.8")
	c.ruleOpt("R08.13", "a stream is closed under its own id: channel ids are never derived from the size of a collection")
	c.idsNotFromLength("R08.13")
	c.rule("R08.14", "nothing keyed by a channel id outlives the connection the id belongs to: every table of the connection object that is filled while it runs is emptied (or made anew) on the way to a redial — ids start again at 1 on the new connection")
	c.tablesEmptiedBeforeRedial("R08.14")
	c.ruleOpt("R08.15", "what the caller receives is what was sent: no byte buffer that arrived from elsewhere (parameter, field, channel, call result) is appended to through a prefix reslice — append(b[:k], …) overwrites b's bytes behind k, which the frame decoder or a stream's consumer reads next")
	c.noAppendIntoForeignBytes("R08.15")
	c.rule("R08.12", "a silently dead connection is detected (and the streams on it closed): the peer-activity channel is signalled only inside the pong/ping handlers")
	c.activityOnlyFromPeer("R08.12")
	c.rule("R08.11", "a value leaves the client-side buffer only by having been handed to the caller: the element removed is the one offered in the select, in the arm where that send was chosen")
	c.removedOnlyWhenDelivered("R08.11")
}

// removedOnlyWhenDelivered: R08.11 (also R07.14). Every removal from the buffering goroutine's list
// (a) removes the element whose value was put into a send case of the select (not a fresh Front()),
// and (b) lies in a select arm (chosen == K) in which nothing is pushed — the arm of the send case,
// not the intake arm. A backlog cap that discards the oldest element leaves the caller with a
// stream that has a hole in it.
func (c *Ctx) removedOnlyWhenDelivered(rule string) {
	buf := c.bufferingGoroutine()
	if !c.need(rule, "client buffering goroutine", buf != nil) {
		return
	}
	var removes, pushes []*ssa.Call
	var sendVals []ssa.Value
	var resets []ssa.Instruction
	c.bufInstrs(func(in ssa.Instruction) {
		switch x := in.(type) {
		case *ssa.Call:
			switch calleeName(x) {
			case "(*container/list.List).Remove":
				removes = append(removes, x)
			case "(*container/list.List).PushBack", "(*container/list.List).PushFront":
				pushes = append(pushes, x)
			case "(*container/list.List).Init":
				if inLoop(x.Block()) {
					resets = append(resets, x)
				}
			}
		case *ssa.Store:
			if fa, ok := x.Addr.(*ssa.FieldAddr); ok && isNamed(fa.X.Type(), "reflect", "SelectCase") {
				if f := fieldOfAddr(fa); f != nil && f.Name() == "Send" {
					sendVals = append(sendVals, x.Val)
				}
			}
		}
	})
	for _, x := range resets {
		c.bad(rule, fmt.Sprintf("%s: buffer emptied", fname(x.Parent())), c.ipos(x), "the buffer is re-initialised inside the loop: buffered values are thrown away")
	}
	// what is known about the chosen index where block b runs: index -> true (equal) / false (different)
	armOf := func(b *ssa.BasicBlock) map[int64]bool {
		out := map[int64]bool{}
		for _, cf := range expandConds(impliedConds(b)) {
			bo, ok := cf.Cond.(*ssa.BinOp)
			if !ok || (bo.Op != token.EQL && bo.Op != token.NEQ) {
				continue
			}
			ex, ok := bo.X.(*ssa.Extract)
			if !ok || ex.Index != 0 {
				continue
			}
			if call, ok := ex.Tuple.(*ssa.Call); !ok || calleeName(call) != "reflect.Select" {
				continue
			}
			if k, ok := constInt(bo.Y); ok {
				out[k] = cf.True == (bo.Op == token.EQL)
			}
		}
		return out
	}
	// two blocks can run for the same chosen index unless their facts contradict each other
	compatible := func(x, y map[int64]bool) bool {
		var xe, ye int64 = -99, -99
		for k, eq := range x {
			if eq {
				xe = k
			}
			if v, ok := y[k]; ok && v != eq {
				return false
			}
		}
		for k, eq := range y {
			if eq {
				ye = k
			}
		}
		return xe == -99 || ye == -99 || xe == ye
	}
	if len(removes) == 0 {
		c.und(rule, fmt.Sprintf("%s: removal from the buffer", fname(buf)), c.P.pos(buf.Pos()), "no (*list.List).Remove found")
		return
	}
	for _, rm := range removes {
		construct := fmt.Sprintf("%s: removal from the buffer", fname(rm.Parent()))
		if len(rm.Common().Args) < 2 {
			continue
		}
		elem := rm.Common().Args[1]
		// (a) the element is one that was offered to the caller
		offered := false
		var fronts []ssa.Value
		c.dependsOn(elem, func(v ssa.Value) bool {
			if call, ok := v.(*ssa.Call); ok {
				switch calleeName(call) {
				case "(*container/list.List).Front", "(*container/list.List).Back":
					fronts = append(fronts, v)
				}
			}
			return false
		}, 0, map[ssa.Value]bool{})
		for _, f := range fronts {
			for _, sv := range sendVals {
				f := f
				if c.dependsOn(sv, func(v ssa.Value) bool { return v == f }, 0, map[ssa.Value]bool{}) {
					offered = true
				}
			}
		}
		if !offered {
			c.bad(rule, construct, c.ipos(rm), "the element removed is not the one that was offered to the caller in the select (e.g. a fresh Front() when a backlog cap is hit): a value that was never delivered is discarded and the caller sees a stream with a hole in it")
			continue
		}
		// (b) in a select arm without pushes
		arm := armOf(rm.Block())
		if len(arm) == 0 {
			c.bad(rule, construct, c.ipos(rm), "the removal is not confined to one arm of the select (it can run when the send to the caller was not the chosen case): an undelivered value is discarded")
			continue
		}
		mixed := false
		for _, ps := range pushes {
			// a push inside a helper counts where the helper is called
			sites := []*ssa.BasicBlock{ps.Block()}
			for up := 0; up < 2 && len(armOf(sites[0])) == 0 && sites[0].Parent() != rm.Parent(); up++ {
				callers := c.P.syncCallers(sites[0].Parent())
				if len(callers) == 0 {
					break
				}
				sites = sites[:0]
				for _, cs := range callers {
					sites = append(sites, cs.Block())
				}
			}
			for _, b := range sites {
				if compatible(arm, armOf(b)) {
					mixed = true
				}
			}
		}
		c.check(!mixed, rule, construct, c.ipos(rm), "removes the offered element in an arm of the select where nothing is pushed",
			"the removal lies in the intake arm of the select, not in the arm where the send to the caller was chosen: an undelivered value is discarded")
	}
}

// loopBodyStart: first instruction of the innermost loop body containing `in` (so that "precedes" is per iteration), or function entry.
func (c *Ctx) loopBodyStart(in ssa.Instruction) ssa.Instruction {
	fn := in.Parent()
	headers := loopHeaders(fn)
	// nearest dominating loop header
	for b := in.Block(); b != nil; b = b.Idom() {
		if headers[b] && inLoop(in.Block()) {
			return b.Instrs[0]
		}
	}
	return fn.Blocks[0].Instrs[0]
}

// singleSinkSetup: the sink constructor of a request is invoked in the response handler (or a helper) and the
// in-flight entry is removed on every path afterwards, so a repeated response cannot set the sink up again.
func (c *Ctx) singleSinkSetup(rule string) {
	p, r := c.P, c.R
	if !c.need(rule, "F_retCh", r.FRetCh != nil) || !c.need(rule, "F_inflight", r.FInflight != nil) {
		return
	}
	// keys under which in-flight entries are looked up when a response arrives
	var lkKeys [][]apath
	for _, u := range usesOfKind(p.uses(r.FInflight), "maplookup") {
		lkKeys = append(lkKeys, c.origins(u.At.(*ssa.Lookup).Index))
	}
	isDel := func(x ssa.Instruction) bool {
		ci, ok := isBuiltinCall(x, "delete")
		if !ok || !c.fieldVal(ci.Call.Args[0], r.FInflight) {
			return false
		}
		ks := c.origins(ci.Call.Args[1])
		for _, lk := range lkKeys {
			if samePaths(ks, lk) {
				return true
			}
		}
		return false
	}
	n := 0
	for _, u := range usesOfKind(p.uses(r.FRetCh), "call") {
		n++
		construct := fmt.Sprintf("%s: sink set up once per request", fname(u.Fn))
		if ret := mustFollowFrom(u.At, isDel); ret != nil {
			c.bad(rule, construct, c.ipos(ret), "after the sink was set up the response handling can end without removing the in-flight entry: a repeated channel-id response runs the sink constructor again and re-points the channel id at a fresh sink nobody holds — the caller's channel then never receives values and is never closed")
		} else {
			c.ok(rule, construct, c.ipos(u.At), "entry removed on every path after the sink was set up")
		}
	}
	if n == 0 {
		c.und(rule, "sink constructor invocation", "-", "none found")
	}
}

// removalClosesRule: the table of sinks is what the close notification, connection loss and client
// close use to find the channels they must close. A removal that is not accompanied by closing that
// sink (e.g. a "leak fix" deleting the entry when the subscription's context is cancelled, by channel
// id, from a goroutine that outlives a reconnect) leaves a caller's channel that nothing will ever close —
// or removes a newer subscription that reuses the id.
func (c *Ctx) removalClosesRule(rule string) {
	p, r := c.P, c.R
	if r.FChanh == nil || r.FChanhCb == nil {
		c.und(rule, "sink table", "-", "not resolved")
		return
	}
	var knownAtRemoval []condFact
	isCloseCb := func(in ssa.Instruction) bool {
		call, ok := in.(*ssa.Call)
		if !ok || call.Common().IsInvoke() || len(call.Common().Args) != 2 || !c.fieldVal(call.Common().Value, r.FChanhCb) {
			return false
		}
		k, isK := call.Common().Args[1].(*ssa.Const)
		if isK && k.Value != nil && k.Value.String() == "false" {
			return true
		}
		// ok computed from a flag that is decided where the entry is removed: cb(msg, !closing) under `if closing`
		arg := call.Common().Args[1]
		for _, cf := range knownAtRemoval {
			if u, isNot := arg.(*ssa.UnOp); isNot && u.Op == token.NOT && u.X == cf.Cond && cf.True {
				return true
			}
			if arg == cf.Cond && !cf.True {
				return true
			}
		}
		return false
	}
	n := 0
	for _, u := range usesOfKind(p.uses(r.FChanh), "delete") {
		knownAtRemoval = expandConds(impliedConds(u.At.Block()))
		n++
		construct := fmt.Sprintf("%s: removal of a sink from the table", fname(u.Fn))
		before := mustPrecedeIP(u.At, isCloseCb, 0)
		after := mustFollowFrom(u.At, isCloseCb) == nil
		c.check(before || after, rule, construct, c.ipos(u.At), "the removed sink is closed on every path", "a sink is removed from the table without being closed: the caller's channel is never closed by the close notification, a connection loss or the client's close (and, removed by id from a goroutine that outlives a reconnect, it can be a newer subscription's sink)")
	}
	// a table replaced wholesale must have been swept first
	for _, u := range usesOfKind(p.uses(r.FChanh), "store") {
		if c.isConstruction(u) {
			continue
		}
		n++
		construct := fmt.Sprintf("%s: replacement of the sink table", fname(u.Fn))
		sweep := func(in ssa.Instruction) bool { return c.isRangeOver(in, r.FChanh) }
		c.check(mustPrecedeIP(u.At, sweep, 0), rule, construct, c.ipos(u.At), "after the sweep that closes every sink", "the sink table is replaced without closing the sinks it held")
	}
	if n == 0 {
		c.und(rule, "sink removal", "-", "no removal from the sink table found")
	}
}

// freshStreamValue: the sink decodes each value into reflect.New(elem) made for that value. A
// recycled target keeps what the previous value left behind (omitted struct fields, map entries, slice
// backing arrays), so the caller receives data the handler never sent.
func (c *Ctx) freshStreamValue(rule string) {
	sinks := c.sinkFuncs()
	if len(sinks) == 0 {
		c.und(rule, "sink of a client channel", "-", "no function handing values into an intake channel found")
		return
	}
	n := 0
	for _, sib := range sinks {
		sib := sib
		c.P.coneInstrs(sib, func(in ssa.Instruction) {
			ci, ok := in.(ssa.CallInstruction)
			if !ok {
				return
			}
			t := decodeTarget(ci)
			if t == nil {
				return
			}
			ic, ok := t.(*ssa.Call)
			if !ok || calleeName(ic) != "(reflect.Value).Interface" {
				return
			}
			n++
			construct := fmt.Sprintf("%s: decode target of a streamed value", fname(in.Parent()))
			good := c.allOrigins(ic.Common().Args[0], func(a apath) bool {
				call, ok := a.Root.(*ssa.Call)
				return ok && len(a.Fields) == 0 && calleeName(call) == "reflect.New" && c.P.inCone(sib, call) && !inLoop(call.Block())
			})
			c.check(good, rule, construct, c.ipos(in), "reflect.New made for this value", "a streamed value is decoded into memory that is not allocated for it (a recycled target keeps fields, map entries or backing arrays of earlier values): the caller receives data the handler never sent")
		})
	}
	if n == 0 {
		c.und(rule, "decode of streamed values", "-", "no JSON decode into a reflect value found in the sink")
	}
}

// deleteThenClose: every invocation of a sink callback with ok=false is preceded, under the sink lock,
// by removing the sink from the table (so the close notification, connection loss and client close cannot
// each find and close it, and a value frame executed meanwhile cannot send into a closed intake).
func (c *Ctx) deleteThenClose(rule string) {
	p, r := c.P, c.R
	if r.FChanhCb == nil || r.FChanh == nil {
		c.und(rule, "sink callback field / sink table", "-", "not resolved")
		return
	}
	li := p.lockInfo()
	n := 0
	for _, u := range usesOfKind(p.uses(r.FChanhCb), "call") {
		call := u.At.(*ssa.Call)
		args := call.Common().Args
		if len(args) != 2 {
			continue
		}
		k, isK := args[1].(*ssa.Const)
		if !isK || k.Value == nil || k.Value.String() != "false" {
			continue
		}
		n++
		fn := u.Fn
		construct := fmt.Sprintf("%s: close of a sink", fname(fn))
		isDel := func(in ssa.Instruction) bool {
			ci, ok := isBuiltinCall(in, "delete")
			return ok && isLoadOf(ci.Call.Args[0], r.FChanh)
		}
		okAll := true
		start := c.loopBodyStart(call)
		if !mustPrecedeSince(fn, start, isDel, call) {
			okAll = false
			c.bad(rule, construct, c.ipos(call), "a sink is closed without first being removed from the table: the same sink is found and closed again (close notification, then connection loss or client close) and the second close of its intake channel panics")
		}
		held := false
		for l := range li.mustAt(call) {
			if l.Field == r.FChanhLk {
				held = true
			}
		}
		if !held {
			okAll = false
			c.bad(rule, construct, c.ipos(call), "the sink is closed without holding its lock")
		}
		if okAll {
			c.ok(rule, construct, c.ipos(call), "removed from the table first, under the sink lock")
		}
	}
	if n == 0 {
		c.bad(rule, "close of a sink", "-", "no place closes sinks any more")
	}
}

// tablesEmptiedBeforeRedial: R08.14. For every map-typed field of the connection struct that some
// non-construction code inserts into, the redial function's cone contains a delete on it, a clear, or a
// store of a fresh map. A set of "already closed" channel ids that only grows swallows the values and
// the close of a later subscription that is given the same id by the new connection.
func (c *Ctx) tablesEmptiedBeforeRedial(rule string) {
	p, r := c.P, c.R
	st := structOf(r.TConn)
	if st == nil || r.FnRedial == nil {
		c.und(rule, "connection struct / redial function", "-", "not resolved")
		return
	}
	n := 0
	for i := 0; i < st.NumFields(); i++ {
		f := st.Field(i)
		if _, isMap := f.Type().Underlying().(*types.Map); !isMap {
			continue
		}
		if len(usesOfKind(p.uses(f), "mapupdate")) == 0 {
			continue
		}
		n++
		construct := fmt.Sprintf("connection table %s: emptied before a redial", f.Name())
		emptied := false
		for _, u := range p.uses(f) {
			switch u.Kind {
			case "delete", "store", "clear":
				if u.Kind == "store" && c.isConstruction(u) {
					continue // made once when the connection object is set up
				}
				if p.inCone(r.FnRedial, u.At) || (r.FnLoop != nil && p.inCone(r.FnLoop, u.At)) {
					emptied = true
				}
			}
		}
		c.check(emptied, rule, construct, p.pos(f.Pos()), "delete / fresh map in the redial function's cone", "a per-connection table that is filled while the connection runs is never emptied when the client redials: entries keyed by ids of the old connection (channel ids, request ids) meet the same ids handed out again by the new one — frames for a new subscription are taken for leftovers of an old one and dropped, and its channel is never closed")
	}
	if n == 0 {
		c.und(rule, "connection tables", "-", "no map field of the connection is inserted into")
	}
}

// noAppendIntoForeignBytes: R08.15 = R01.17. append(b[:k], more...) writes `more` into b's backing array
// behind position k whenever the capacity allows — it does not copy. For a []byte that the function
// did not make itself (a frame handed over by the reader, a parameter's raw bytes, a result buffer) those
// bytes belong to someone who reads them next: a "shortened copy for the log" corrupts the frame that is
// decoded a line later. Reported: an append whose destination is a two-index reslice with an upper bound
// of a []byte whose origin is a parameter, a field, a channel receive or a call result. A three-index
// reslice (b[:k:k]) forces a copy and is fine; slices made in the same function are the function's own.
func (c *Ctx) noAppendIntoForeignBytes(rule string) {
	p := c.P
	isBytes := func(t types.Type) bool {
		sl, ok := t.Underlying().(*types.Slice)
		if !ok {
			return false
		}
		b, ok := sl.Elem().Underlying().(*types.Basic)
		return ok && b.Kind() == types.Uint8
	}
	var foreign func(v ssa.Value, d int) bool
	foreign = func(v ssa.Value, d int) bool {
		if d > 6 {
			return false
		}
		switch x := v.(type) {
		case *ssa.Parameter, *ssa.FreeVar:
			return true
		case *ssa.UnOp:
			if x.Op == token.ARROW {
				return true
			}
			if x.Op == token.MUL {
				if _, ok := x.X.(*ssa.FieldAddr); ok {
					return true
				}
				if al, ok := x.X.(*ssa.Alloc); ok {
					// a local variable: foreign if something foreign was stored into it
					for _, ref := range *al.Referrers() {
						if st, ok := ref.(*ssa.Store); ok && st.Addr == ssa.Value(al) && foreign(st.Val, d+1) {
							return true
						}
					}
				}
			}
		case *ssa.Extract:
			if sel, ok := x.Tuple.(*ssa.Select); ok {
				_ = sel
				return true
			}
			return foreign(x.Tuple, d+1)
		case *ssa.Field:
			return true
		case *ssa.Phi:
			for _, e := range x.Edges {
				if foreign(e, d+1) {
					return true
				}
			}
		case *ssa.Slice:
			return foreign(x.X, d+1)
		case *ssa.Call:
			if b, ok := x.Common().Value.(*ssa.Builtin); ok {
				return b.Name() == "append" && len(x.Common().Args) > 0 && foreign(x.Common().Args[0], d+1)
			}
			// bytes handed out by a library helper are the caller's own only if the helper made them; unknown: not reported
			return false
		}
		return false
	}
	n := 0
	for _, fn := range p.Funcs {
		if pkgOf(fn) != p.Root.Pkg && !strings.HasPrefix(pkgOf(fn).Path(), p.ModPath) {
			continue
		}
		allInstrs(fn, func(in ssa.Instruction) {
			call, ok := in.(*ssa.Call)
			if !ok {
				return
			}
			b, ok := call.Common().Value.(*ssa.Builtin)
			if !ok || b.Name() != "append" || len(call.Common().Args) == 0 {
				return
			}
			sl, ok := call.Common().Args[0].(*ssa.Slice)
			if !ok || !isBytes(sl.Type()) || sl.High == nil || sl.Max != nil {
				return
			}
			if k, isK := constInt(sl.High); isK && k == 0 {
				return // b[:0]: deliberate reuse of the whole buffer, nothing of it is kept
			}
			if !foreign(sl.X, 0) {
				return
			}
			n++
			c.bad(rule, fmt.Sprintf("%s: append onto a prefix of bytes it did not make", fname(fn)), c.ipos(in), "append(b[:k], …) does not copy: it overwrites the bytes of b behind k, and b arrived from elsewhere (a frame, raw parameters, a result) where they are read next — a caller can receive a value the peer never sent, or the frame no longer parses and is dropped")
		})
	}
	if n == 0 {
		c.ok(rule, "no instance", "-", "no append onto a prefix of a byte slice that arrived from elsewhere")
	}
}
