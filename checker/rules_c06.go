package main

import (
	"fmt"
	"go/token"
	"go/types"

	"golang.org/x/tools/go/ssa"
)

func init() {
	register(&propInfo{
		ID: "C06",
		Explanation: "Value-origin and path analysis of cancellation: (R06.1) the cancel notification a waiting call sends when its context is done uses the method name the peer dispatches to its cancel handler, carries that same call's request id, is sent only in the arm watching the call's own context, and is built per call; (R06.2) the subscription watcher is started with the subscription's context and the id of the response that announced the channel (the request id, not the channel id), waits for that context before sending, and sends its own id argument under the cancel method; (R06.3) the server's cancel handler invokes only the cancel function it looked up under the id decoded from this frame; (R06.4) closed world: every invocation of a context.CancelFunc in the library is one of {the per-call completion closure under !keep, the cancel handler's looked-up entry, the failer's sweep, the loop's deferred cancel}; in the dispatcher every non-deferred completion call lies on a path that returns without running the handler; (R06.5) the call spawner registers the cancel function, paired with the context given to the handler, under the call's id before the handler goroutine is started and in the executor's own (in-order) goroutine; (R06.6) HTTP: the server hands the request's context to the reader path, the client attaches the caller's context to the HTTP request, and the context placed in the handler's argument list derives from the dispatcher's context parameter; over WebSocket it derives from the per-connection context.",
		NotDecided: "Instants and races of cancellation; that a handler observes its context; peer ping/idle-timer effects on handler contexts (keepalive is decided under C17).",
		Assumptions: []string{"the cancel method name is the constant under which the frame switch reaches the cancel handler"},
		Run: runC06,
	})
}

// cancelMethodName: the string constant whose equality with the frame's method leads to the cancel handler.
func (c *Ctx) cancelMethodName() (string, bool) {
	w := c.ws()
	if w.FrameSwitch == nil || w.Cancel == nil {
		return "", false
	}
	for _, s := range callsTo(w.FrameSwitch, w.Cancel) {
		for _, cf := range expandConds(impliedConds(s.Block())) {
			if bo, ok := cf.Cond.(*ssa.BinOp); ok && bo.Op == token.EQL && cf.True {
				if str, ok := constString(bo.Y); ok {
					return str, true
				}
				if str, ok := constString(bo.X); ok {
					return str, true
				}
			}
		}
	}
	return "", false
}

// requestLiteral describes a wire-request composite literal (local Alloc).
type reqLit struct {
	Alloc  *ssa.Alloc
	Method ssa.Value
	ID     ssa.Value
	Params ssa.Value
}

func (c *Ctx) requestLiterals(fn *ssa.Function) []reqLit {
	// group field stores by the struct they initialise: a local request, or the
	// request nested in a client-request literal (initialised in place)
	groups := map[ssa.Value]*reqLit{}
	var order []ssa.Value
	allInstrs(fn, func(in ssa.Instruction) {
		st, ok := in.(*ssa.Store)
		if !ok {
			return
		}
		fa, ok := st.Addr.(*ssa.FieldAddr)
		if !ok || c.R.TReq == nil {
			return
		}
		pt, ok := fa.X.Type().Underlying().(*types.Pointer)
		if !ok || pt.Elem() != types.Type(c.R.TReq) {
			return
		}
		base := fa.X
		rl := groups[base]
		if rl == nil {
			rl = &reqLit{}
			if al, ok := base.(*ssa.Alloc); ok {
				rl.Alloc = al
			} else if bfa, ok := base.(*ssa.FieldAddr); ok {
				if al, ok := bfa.X.(*ssa.Alloc); ok {
					rl.Alloc = al
				}
			}
			if rl.Alloc == nil {
				return
			}
			groups[base] = rl
			order = append(order, base)
		}
		switch fieldOfAddr(fa) {
		case c.R.FReqMethod:
			rl.Method = st.Val
		case c.R.FReqID:
			rl.ID = st.Val
		default:
			if isNamed(fieldOfAddr(fa).Type(), "encoding/json", "RawMessage") {
				rl.Params = st.Val
			}
		}
	})
	var out []reqLit
	for _, b := range order {
		out = append(out, *groups[b])
	}
	return out
}

func runC06(c *Ctx) {
	p, r := c.P, c.R
	w := c.ws()
	c.rule("R06.1", "caller-side cancel notification: peer's cancel method, the same call's id, sent only in the arm watching the call's context")
	c.rule("R06.2", "subscription watcher: started with (subscription context, id of the announcing response), waits for the context, sends its own id under the cancel method")
	c.rule("R06.3", "the cancel handler invokes only the entry looked up under the id decoded from this frame")
	c.rule("R06.4", "closed world of CancelFunc invocations; no completion call precedes the handler on a path that runs it")
	c.rule("R06.5", "cancel function registered under the call's id, paired with the handler's context, before the handler goroutine starts, on the executor goroutine")
	c.rule("R06.6", "context derivation: HTTP server/client use the request's/caller's context; the handler's context argument derives from the dispatcher's context; per-connection context over WebSocket")
	cancelName, haveName := c.cancelMethodName()
	if !haveName {
		c.und("R06.1", "cancel method name", "-", "could not determine the method name that reaches the cancel handler")
	}

	// ---- R06.1
	{
		// the doRequest closure: function with a select-send on a request queue and a (ctx, T_creq) signature
		var doReq *ssa.Function
		for _, fn := range p.Funcs {
			if pkgOf(fn) != p.Root.Pkg || fn.Parent() == nil || len(fn.Params) != 2 {
				continue
			}
			if fn.Params[1].Type() != types.Type(r.TCreq) {
				continue
			}
			has := false
			allInstrs(fn, func(in ssa.Instruction) {
				if sel, ok := in.(*ssa.Select); ok {
					for _, st := range sel.States {
						if ch, ok := st.Chan.Type().Underlying().(*types.Chan); ok && st.Dir == types.SendOnly && ch.Elem() == types.Type(r.TCreq) {
							has = true
						}
					}
				}
			})
			if has {
				doReq = fn
			}
		}
		if c.need("R06.1", "WebSocket doRequest closure", doReq != nil) {
			ctxP, crP := doReq.Params[0], doReq.Params[1]
			lits := c.requestLiterals(doReq)
			construct := fmt.Sprintf("%s: cancel notification", fname(doReq))
			var lit *reqLit
			for i := range lits {
				if s, ok := constString(lits[i].Method); ok && haveName && s == cancelName {
					lit = &lits[i]
				}
			}
			if lit == nil {
				c.bad("R06.1", construct, p.pos(doReq.Pos()), fmt.Sprintf("no request with method %q is built when the caller's context is done: cancellation never reaches the server", cancelName))
			} else {
				okAll := true
				if lit.ID != nil && !isNilConst(lit.ID) {
					okAll = false
					c.bad("R06.1", construct, c.ipos(lit.Alloc), "the cancel message carries an id of its own: the server answers it")
				}
				isOwnID := func(v ssa.Value) bool {
					base, ok := loadsField(v, r.FReqID)
					if !ok {
						return false
					}
					// base: &cr.req or a copy of the parameter
					for i := 0; i < 4; i++ {
						switch x := base.(type) {
						case *ssa.FieldAddr:
							base = x.X
							continue
						case *ssa.Field:
							base = x.X
							continue
						}
						break
					}
					return c.isParamCopy(base, crP)
				}
				if lit.Params == nil || !c.dependsOn(lit.Params, isOwnID, 0, map[ssa.Value]bool{}) {
					okAll = false
					c.bad("R06.1", construct, c.ipos(lit.Alloc), "the cancel message's params do not derive from the id of the very call whose context was cancelled: another call (or none) is cancelled")
				}
				// built only in the arm receiving from ctx.Done() of the ctx parameter
				inArm := false
				for _, cf := range expandConds(impliedConds(lit.Alloc.Block())) {
					bo, ok := cf.Cond.(*ssa.BinOp)
					if !ok || bo.Op != token.EQL || !cf.True {
						continue
					}
					ex, ok := bo.X.(*ssa.Extract)
					if !ok {
						continue
					}
					sel, ok := ex.Tuple.(*ssa.Select)
					if !ok {
						continue
					}
					k, _ := constInt(bo.Y)
					if int(k) < len(sel.States) {
						var lv []ssa.Value
						leaves(sel.States[k].Chan, map[ssa.Value]bool{}, &lv)
						for _, l := range lv {
							if call, ok := l.(*ssa.Call); ok && call.Common().IsInvoke() && call.Common().Method.Name() == "Done" && call.Common().Value == ssa.Value(ctxP) {
								inArm = true
							}
						}
					}
				}
				if !inArm {
					okAll = false
					c.bad("R06.1", construct, c.ipos(lit.Alloc), "the cancel message is not sent exactly when this call's own context is done")
				}
				if okAll {
					c.ok("R06.1", construct, c.ipos(lit.Alloc), fmt.Sprintf("method %q, id-less, params from cr.req.ID, in the <-ctx.Done() arm", cancelName))
				}
			}
		}
	}

	// ---- R06.2
	if c.needWS("R06.2", "ctxAsync", w.CtxAsync) && c.needWS("R06.2", "resp", w.Resp) {
		wa := w.CtxAsync
		n := 0
		for _, fn := range p.Funcs {
			allInstrs(fn, func(in ssa.Instruction) {
				g, ok := in.(*ssa.Go)
				if !ok || p.unbound(staticCallee(g)) != wa {
					return
				}
				n++
				construct := fmt.Sprintf("%s: start of the subscription watcher", fname(fn))
				args := g.Common().Args
				var ctxArg, idArg ssa.Value
				for _, a := range args {
					if isNamed(a.Type(), "context", "Context") {
						ctxArg = a
					} else if isEmptyIface(a.Type()) {
						idArg = a
					}
				}
				okAll := true
				frame := c.frameParamOf(fn)
				idOK := false
				if idArg != nil && frame != nil {
					switch x := idArg.(type) {
					case *ssa.Field:
						idOK = c.isParamCopy(x.X, frame) && x.X.Type() == types.Type(r.TFrame) && fieldOfField(x) == respFieldByTag(r.TFrame, "id")
					case *ssa.UnOp:
						if fa, ok := x.X.(*ssa.FieldAddr); ok {
							idOK = c.isParamCopy(fa.X, frame) && fieldOfAddr(fa) == respFieldByTag(r.TFrame, "id")
						}
					}
				}
				if !idOK {
					okAll = false
					c.bad("R06.2", construct, c.ipos(g), "the watcher is not given the id of the response that announced the channel (the request id): cancelling the subscription cancels nothing, or another call whose id happens to equal the value passed (e.g. the channel id)")
				}
				// ctx: result #0 of the sink constructor call (retCh field of the looked-up request)
				ctxOK := false
				if ex, ok := ctxArg.(*ssa.Extract); ok && ex.Index == 0 {
					if call, ok := ex.Tuple.(*ssa.Call); ok {
						if _, isRet := loadsField(call.Common().Value, r.FRetCh); isRet {
							ctxOK = true
						} else if f, ok := call.Common().Value.(*ssa.Field); ok && fieldOfField(f) == r.FRetCh {
							ctxOK = true
						}
					}
				}
				if !ctxOK {
					okAll = false
					c.bad("R06.2", construct, c.ipos(g), "the watcher does not watch the context of the subscription it was started for")
				}
				if okAll {
					c.ok("R06.2", construct, c.ipos(g), "(subscription context, frame.ID)")
				}
			})
		}
		if n == 0 {
			c.bad("R06.2", "start of the subscription watcher", "-", "the watcher is never started: cancelling a subscription's context no longer reaches the server")
		}
		// inside the watcher
		construct := fmt.Sprintf("%s: waits, then cancels its own id", fname(wa))
		var ctxP, idP *ssa.Parameter
		for _, prm := range wa.Params {
			if isNamed(prm.Type(), "context", "Context") {
				ctxP = prm
			} else if isEmptyIface(prm.Type()) {
				idP = prm
			}
		}
		var wait ssa.Instruction
		allInstrs(wa, func(in ssa.Instruction) {
			if u, ok := in.(*ssa.UnOp); ok && u.Op == token.ARROW {
				if call, ok := u.X.(*ssa.Call); ok && call.Common().IsInvoke() && call.Common().Method.Name() == "Done" && ctxP != nil && call.Common().Value == ssa.Value(ctxP) {
					wait = in
				}
			}
		})
		okAll := true
		sends := callsTo(wa, w.SendReq)
		if wait == nil || len(sends) == 0 || idP == nil {
			okAll = false
			c.bad("R06.2", construct, p.pos(wa.Pos()), "the watcher does not wait for its context and then send a request")
		} else {
			for _, s := range sends {
				if !mustPrecede(wa, func(x ssa.Instruction) bool { return x == wait }, s) {
					okAll = false
					c.bad("R06.2", construct, c.ipos(s), "the cancel can be sent before the subscription's context is done")
				}
			}
			good := false
			for _, l := range c.requestLiterals(wa) {
				if s, ok := constString(l.Method); ok && haveName && s == cancelName {
					if (l.ID == nil || isNilConst(l.ID)) && l.Params != nil && c.dependsOn(l.Params, func(v ssa.Value) bool { return v == ssa.Value(idP) }, 0, map[ssa.Value]bool{}) {
						good = true
					}
				}
			}
			if !good {
				okAll = false
				c.bad("R06.2", construct, p.pos(wa.Pos()), "the watcher does not send an id-less cancel message whose params derive from its id argument")
			}
		}
		if okAll {
			c.ok("R06.2", construct, c.ipos(wait), "<-ctx.Done() precedes the send; params from the id argument")
		}
	}

	// ---- R06.3 / R06.4
	{
		isCancelFuncCall := func(in ssa.Instruction) (ssa.Value, bool) {
			ci, ok := in.(ssa.CallInstruction)
			if !ok || ci.Common().IsInvoke() || ci.Common().Value == nil {
				return nil, false
			}
			if isNamed(ci.Common().Value.Type(), "context", "CancelFunc") {
				return ci.Common().Value, true
			}
			return nil, false
		}
		n := 0
		for _, fn := range p.Funcs {
			if pkgOf(fn) != p.Root.Pkg {
				continue
			}
			allInstrs(fn, func(in ssa.Instruction) {
				v, ok := isCancelFuncCall(in)
				if !ok {
					return
				}
				n++
				construct := fmt.Sprintf("%s: invocation of a cancel function", fname(fn))
				switch {
				case fn == w.Cancel:
					// looked-up entry under ok
					ex, isEx := v.(*ssa.Extract)
					good := false
					if isEx && ex.Index == 0 {
						if lk, ok := ex.Tuple.(*ssa.Lookup); ok && isLoadOf(lk.X, r.FHandling) {
							var okv ssa.Value
							for _, ref := range *lk.Referrers() {
								if e2, ok := ref.(*ssa.Extract); ok && e2.Index == 1 {
									okv = e2
								}
							}
							if okv != nil && condKnown(in.Block(), okv, true) && !inLoop(in.Block()) {
								good = true
							}
						}
					}
					c.check(good, "R06.3", construct, c.ipos(in), "the entry found under the decoded id", "the cancel handler cancels something other than the single entry looked up under the id carried by this cancel message (e.g. it sweeps the table): unrelated calls are cancelled")
				case fn == w.Failer:
					// ranged over the handling table
					good := false
					if ex, ok := v.(*ssa.Extract); ok {
						if nx, ok := ex.Tuple.(*ssa.Next); ok {
							if rg, ok := nx.Iter.(*ssa.Range); ok && isLoadOf(rg.X, r.FHandling) {
								good = true
							}
						}
					}
					c.check(good, "R06.4", construct, c.ipos(in), "connection-loss sweep over the handling table", "unexpected cancel invocation in the failer")
				case fn == r.FnLoop:
					_, isDefer := in.(*ssa.Defer)
					c.check(isDefer, "R06.4", construct, c.ipos(in), "deferred per-connection cancel", "the per-connection context is cancelled while the loop is still serving: every handler on the connection is cancelled although nobody asked")
				case fn.Parent() != nil && outermost(fn) == w.Spawn:
					// completion closure: only under !keep
					good := false
					for _, cf := range expandConds(impliedConds(in.Block())) {
						if prm, ok := cf.Cond.(*ssa.Parameter); ok && !cf.True && prm.Parent() == fn {
							good = true
						}
					}
					c.check(good, "R06.4", construct, c.ipos(in), "completion closure, only when the context need not be kept", "the per-call context is cancelled at completion even when the handler returned a channel (keep): the subscription is cancelled as soon as it is announced")
				default:
					c.bad("R06.4", construct, c.ipos(in), "a handler context is cancelled from a place that is neither the caller's cancel message, the connection end nor the call's own completion")
				}
			})
		}
		if n == 0 {
			c.und("R06.4", "cancel-function invocations", "-", "none found")
		}
		if w.Cancel != nil {
			rng := false
			allInstrs(w.Cancel, func(in ssa.Instruction) {
				if rg, ok := in.(*ssa.Range); ok && isLoadOf(rg.X, r.FHandling) {
					rng = true
				}
			})
			c.check(!rng, "R06.3", fmt.Sprintf("%s: no sweep", fname(w.Cancel)), p.pos(w.Cancel.Pos()), "no range over the handling table", "the cancel handler ranges over all running calls")
		}
		// dispatcher: done(...) calls
		if r.FnDisp != nil {
			d := r.FnDisp
			var doneP *ssa.Parameter
			for _, prm := range d.Params {
				if sig, ok := prm.Type().Underlying().(*types.Signature); ok && sig.Params().Len() == 1 && sig.Results().Len() == 0 {
					if b, ok := sig.Params().At(0).Type().Underlying().(*types.Basic); ok && b.Kind() == types.Bool {
						doneP = prm
					}
				}
			}
			if c.need("R06.4", "completion callback parameter of the dispatcher", doneP != nil) {
				ndone := 0
				allInstrs(d, func(in ssa.Instruction) {
					ci, ok := in.(ssa.CallInstruction)
					if !ok || ci.Common().Value != ssa.Value(doneP) {
						return
					}
					ndone++
					construct := fmt.Sprintf("%s: completion callback", fname(d))
					if _, isDefer := in.(*ssa.Defer); isDefer {
						// the deferred completion must be registered on every path to the user call (so the context is released afterwards)
						okd := true
						allInstrs(d, func(x ssa.Instruction) {
							if c.isUserCall(x) && !mustPrecede(d, func(y ssa.Instruction) bool { return y == in }, x) {
								okd = false
							}
						})
						c.check(okd, "R06.4", construct+" (deferred)", c.ipos(in), "registered before the handler runs; executes after it", "the handler can run on a path where its completion is not registered: its cancel entry is never released")
						return
					}
					if wv := reachFrom(in, c.isUserCall, nil); wv != nil {
						c.bad("R06.4", construct, c.ipos(in), "the call's context is released/cancelled before the handler runs on this path: the handler sees a cancelled context although the caller did not cancel")
					} else {
						c.ok("R06.4", construct, c.ipos(in), "only on a path that returns without running the handler")
					}
				})
				if ndone == 0 {
					c.bad("R06.4", fmt.Sprintf("%s: completion callback", fname(d)), p.pos(d.Pos()), "the dispatcher never signals completion: cancel entries accumulate and contexts are never released")
				}
			}
		}
	}

	// ---- R06.5
	if c.needWS("R06.5", "spawn", w.Spawn) {
		sp := w.Spawn
		construct := fmt.Sprintf("%s: cancel entry registered before the handler starts", fname(sp))
		var reg *ssa.MapUpdate
		for _, u := range usesOfKind(p.uses(r.FHandling), "mapupdate") {
			if u.Fn == sp {
				reg = u.At.(*ssa.MapUpdate)
			} else {
				c.bad("R06.5", construct, c.ipos(u.At), "the cancel function is registered outside the executor's own goroutine (e.g. inside the per-call goroutine): a cancel message that directly follows the call is looked up before the entry exists and is lost")
			}
		}
		var spawn ssa.Instruction
		allInstrs(sp, func(in ssa.Instruction) {
			if g, ok := in.(*ssa.Go); ok {
				spawn = g
			}
		})
		if reg != nil && spawn != nil {
			okAll := true
			// for id-bearing requests the registration precedes the spawn
			isT := func(in ssa.Instruction) bool { return in == spawn }
			edge := func(from *ssa.BasicBlock, k int) bool {
				iff, ok := from.Instrs[len(from.Instrs)-1].(*ssa.If)
				if !ok {
					return true
				}
				isTest, nn := c.idNilTestFrame(iff.Cond)
				if !isTest {
					return true
				}
				nonNil := nn
				if k == 1 {
					nonNil = !nn
				}
				return nonNil
			}
			if wv := reachFromBlockF(sp.Blocks[0], isT, func(in ssa.Instruction) bool { return in == ssa.Instruction(reg) }, edge); wv != nil {
				okAll = false
				c.bad("R06.5", construct, c.ipos(spawn), "an id-bearing call can be started before its cancel function is registered")
			}
			// key = frame id; value = cancel of the WithCancel whose ctx goes to the handler
			var wc *ssa.Call
			{
				var lv []ssa.Value
				leaves(reg.Value, map[ssa.Value]bool{}, &lv)
				if len(lv) == 1 {
					if ex, ok := lv[0].(*ssa.Extract); ok && ex.Index == 1 {
						wc, _ = ex.Tuple.(*ssa.Call)
					}
				}
			}
			isCtxOfWC := func(v ssa.Value) bool {
				if ld, ok := v.(*ssa.UnOp); ok && ld.Op == token.MUL {
					if cv := p.canonVar(ld.X); cv != ld.X {
						v = &ssa.UnOp{Op: token.MUL, X: cv}
					}
				}
				var lv []ssa.Value
				leaves(v, map[ssa.Value]bool{}, &lv)
				for _, l := range lv {
					if ex, ok := l.(*ssa.Extract); ok && ex.Index == 0 && wc != nil && ex.Tuple == ssa.Value(wc) {
						return true
					}
				}
				return false
			}
			if wc == nil || calleeName(wc) != "context.WithCancel" {
				okAll = false
				c.bad("R06.5", construct, c.ipos(reg), "the registered value is not the cancel function of a context.WithCancel made for this call")
			} else {
				gi := spawn.(*ssa.Go)
				paired := false
				for _, a := range gi.Common().Args {
					if isCtxOfWC(a) {
						paired = true
					}
				}
				// the dispatcher may also be invoked inside a closure; then the ctx is captured
				if !paired {
					if cl := staticCallee(gi); cl != nil {
						for _, mc := range p.closure[cl] {
							for _, b := range mc.Bindings {
								if isCtxOfWC(b) || isCtxOfWC(&ssa.UnOp{Op: token.MUL, X: b}) {
									paired = true
								}
							}
						}
					}
				}
				if !paired {
					okAll = false
					c.bad("R06.5", construct, c.ipos(spawn), "the context handed to the handler is not the one the registered cancel function cancels")
				}
				// parent of that context = the spawner's context parameter
				var spCtx *ssa.Parameter
				for _, prm := range sp.Params {
					if isNamed(prm.Type(), "context", "Context") {
						spCtx = prm
					}
				}
				derives := func(v ssa.Value) bool {
					// the variable may be re-assigned from the WithCancel result itself: accept the parameter among its origins
					var lv []ssa.Value
					leaves(v, map[ssa.Value]bool{}, &lv)
					for _, l := range lv {
						if l == ssa.Value(spCtx) {
							return true
						}
					}
					return false
				}
				if len(wc.Common().Args) != 1 || spCtx == nil || !derives(wc.Common().Args[0]) {
					okAll = false
					c.bad("R06.5", construct, c.ipos(wc), "the per-call context is not derived from the connection's context handed to the spawner")
				}
			}
			if isT, _ := c.idFieldOfFrame(reg.Key, sp); !isT {
				okAll = false
				c.bad("R06.5", construct, c.ipos(reg), "the cancel function is not registered under the id of the call being started")
			}
			if okAll {
				c.ok("R06.5", construct, c.ipos(reg), "handling[frame.ID] = cancel of the handler's own context, before `go handle`")
			}
		} else if spawn == nil {
			c.und("R06.5", construct, p.pos(sp.Pos()), "no goroutine spawn in the call spawner")
		}
	}

	// ---- R06.6
	c.ctxDerivation("R06.6")
	c.rule("R06.7", "peer control frames are registered as activity, so the idle timer does not close a healthy connection (which would cancel every handler context on it)")
	c.activitySignalRule("R06.7")
}

func (c *Ctx) isParamCopyCtx(v ssa.Value, fn *ssa.Function) bool {
	for _, prm := range fn.Params {
		if isNamed(prm.Type(), "context", "Context") && c.isParamCopy(v, prm) {
			return true
		}
	}
	return false
}

// idFieldOfFrame: v is the id field of fn's frame parameter.
func (c *Ctx) idFieldOfFrame(v ssa.Value, fn *ssa.Function) (bool, string) {
	frame := c.frameParamOf(fn)
	if frame == nil {
		return false, ""
	}
	idF := respFieldByTag(c.R.TFrame, "id")
	switch x := v.(type) {
	case *ssa.Field:
		return c.isParamCopy(x.X, frame) && fieldOfField(x) == idF, ""
	case *ssa.UnOp:
		if fa, ok := x.X.(*ssa.FieldAddr); ok && x.Op == token.MUL {
			return c.isParamCopy(fa.X, frame) && fieldOfAddr(fa) == idF, ""
		}
	}
	return false, ""
}

// ctxDerivation: R06.6
func (c *Ctx) ctxDerivation(rule string) {
	p, r := c.P, c.R
	w := c.ws()
	// (a) dispatcher: reflect.ValueOf(ctx) placed into the call arguments derives from the ctx parameter
	if r.FnDisp != nil {
		d := r.FnDisp
		var ctxP *ssa.Parameter
		for _, prm := range d.Params {
			if isNamed(prm.Type(), "context", "Context") {
				ctxP = prm
			}
		}
		n := 0
		allInstrs(d, func(in ssa.Instruction) {
			ci, ok := in.(*ssa.Call)
			if !ok || calleeName(ci) != "reflect.ValueOf" {
				return
			}
			arg := stripConv(ci.Common().Args[0])
			if !isNamed(arg.Type(), "context", "Context") {
				return
			}
			n++
			c.check(ctxP != nil && c.ctxDerives(arg, func(v ssa.Value) bool { return v == ssa.Value(ctxP) }, 0, map[ssa.Value]bool{}), rule,
				fmt.Sprintf("%s: context argument of the handler", fname(d)), c.ipos(ci), "derives from the dispatcher's context parameter",
				"the context placed in the handler's arguments does not derive from the context the dispatcher was given: cancellation (caller's cancel, HTTP abort, connection end) never reaches the handler")
		})
		if n == 0 {
			c.und(rule, fname(d)+": context argument of the handler", "-", "no reflect.ValueOf(ctx) found")
		}
	}
	// (b) HTTP server: ServeHTTP passes a context derived from r.Context() to the reader path
	if tn, ok := p.Root.Pkg.Scope().Lookup("RPCServer").(*types.TypeName); ok {
		serve := p.SSA.LookupMethod(types.NewPointer(tn.Type()), p.Root.Pkg, "ServeHTTP")
		if serve != nil {
			var reqCtx ssa.Value
			allInstrs(serve, func(in ssa.Instruction) {
				if ci, ok := in.(*ssa.Call); ok && calleeName(ci) == "(*net/http.Request).Context" {
					reqCtx = ci
				}
			})
			n := 0
			allInstrs(serve, func(in ssa.Instruction) {
				ci, ok := in.(*ssa.Call)
				if !ok {
					return
				}
				f := staticCallee(ci)
				if f == nil || !p.allFns[f] {
					return
				}
				for _, a := range ci.Common().Args {
					if isNamed(a.Type(), "context", "Context") {
						n++
						c.check(reqCtx != nil && c.ctxDerives(a, func(v ssa.Value) bool { return v == reqCtx }, 0, map[ssa.Value]bool{}), rule,
							fmt.Sprintf("%s: context handed to %s", fname(serve), fname(f)), c.ipos(ci), "derives from the HTTP request's context",
							"the server does not hand the HTTP request's context on: aborting the request (or closing the connection) no longer cancels the handler")
					}
				}
			})
			if n == 0 {
				c.und(rule, "RPCServer.ServeHTTP: context hand-over", "-", "no call taking a context found")
			}
		}
	}
	// (c) HTTP client: the request carries WithContext(ctx param) of the doRequest closure
	{
		n := 0
		for _, fn := range p.Funcs {
			if pkgOf(fn) != p.Root.Pkg || len(fn.Params) != 2 || fn.Params[1].Type() != types.Type(r.TCreq) {
				continue
			}
			usesHTTP := false
			var withCtx *ssa.Call
			var newReqCtx *ssa.Call
			allInstrs(fn, func(in ssa.Instruction) {
				if ci, ok := in.(*ssa.Call); ok {
					switch calleeName(ci) {
					case "net/http.NewRequest":
						usesHTTP = true
					case "net/http.NewRequestWithContext":
						usesHTTP = true
						newReqCtx = ci
					case "(*net/http.Request).WithContext":
						withCtx = ci
					}
				}
			})
			if !usesHTTP {
				continue
			}
			n++
			construct := fmt.Sprintf("%s: caller's context attached to the HTTP request", fname(fn))
			good := false
			if withCtx != nil && withCtx.Common().Args[1] == ssa.Value(fn.Params[0]) {
				// the request actually sent derives from the WithContext result
				allInstrs(fn, func(in ssa.Instruction) {
					if ci, ok := in.(*ssa.Call); ok && calleeName(ci) == "(*net/http.Client).Do" {
						if c.dependsOn(ci.Common().Args[1], func(v ssa.Value) bool { return v == ssa.Value(withCtx) }, 0, map[ssa.Value]bool{}) {
							good = true
						}
					}
				})
			}
			if newReqCtx != nil && newReqCtx.Common().Args[0] == ssa.Value(fn.Params[0]) {
				good = true
			}
			c.check(good, rule, construct, p.pos(fn.Pos()), "hreq.WithContext(ctx) is what is sent", "the HTTP request is sent without the caller's context: cancelling the call no longer aborts the request, so the handler is never cancelled")
		}
		if n == 0 {
			c.und(rule, "HTTP client doRequest", "-", "not found")
		}
	}
	// (d) WebSocket: the context handed from the loop to the executor, and on to the spawner, is the loop's cancellable context
	if r.FnLoop != nil && r.FnExec != nil {
		construct := fmt.Sprintf("%s: per-connection context reaches the handlers", fname(r.FnLoop))
		okAll := true
		nspawn := 0
		allInstrs(r.FnLoop, func(in ssa.Instruction) {
			g, ok := in.(*ssa.Go)
			if !ok || p.unbound(staticCallee(g)) != r.FnExec {
				return
			}
			nspawn++
			var arg ssa.Value
			for _, a := range g.Common().Args {
				if isNamed(a.Type(), "context", "Context") {
					arg = a
				}
			}
			if arg == nil || !c.isLoopCtx(arg) {
				okAll = false
			}
		})
		// executor -> frame switch -> spawner: context parameter passed through unchanged
		chain := []*ssa.Function{r.FnExec, w.FrameSwitch, w.Spawn}
		for i := 0; i+1 < len(chain); i++ {
			if chain[i] == nil || chain[i+1] == nil {
				okAll = false
				continue
			}
			for _, s := range callsTo(chain[i], chain[i+1]) {
				passed := false
				for _, a := range s.Common().Args {
					if isNamed(a.Type(), "context", "Context") && c.isParamCopyCtx(a, chain[i]) {
						passed = true
					}
				}
				if !passed {
					okAll = false
				}
			}
		}
		c.check(okAll && nspawn > 0, rule, construct, p.pos(r.FnLoop.Pos()), "loop's WithCancel context -> executor -> frame switch -> spawner", "the handlers' contexts do not derive from the per-connection context that is cancelled when the connection ends")
	}
}

// ctxDerives: context value v is `target` itself or obtained from it only through
// cancellation-preserving derivations (context.With{Value,Cancel,Timeout,Deadline},
// opencensus tag.New / trace.StartSpan*, pprof.WithLabels, or repo functions whose
// returned context derives from their context parameter).
func (c *Ctx) ctxDerives(v ssa.Value, target func(ssa.Value) bool, depth int, seen map[ssa.Value]bool) bool {
	if v == nil || depth > 12 || seen[v] {
		return false
	}
	seen[v] = true
	if target(v) {
		return true
	}
	switch x := v.(type) {
	case *ssa.Phi:
		any := false
		for _, e := range x.Edges {
			if e == ssa.Value(x) {
				continue
			}
			s2 := map[ssa.Value]bool{}
			for k := range seen {
				s2[k] = true
			}
			if !c.ctxDerives(e, target, depth+1, s2) {
				return false
			}
			any = true
		}
		return any
	case *ssa.ChangeInterface:
		return c.ctxDerives(x.X, target, depth+1, seen)
	case *ssa.MakeInterface:
		return c.ctxDerives(x.X, target, depth+1, seen)
	case *ssa.Extract:
		call, ok := x.Tuple.(*ssa.Call)
		if !ok {
			return false
		}
		return c.ctxCallDerives(call, x.Index, target, depth, seen)
	case *ssa.Call:
		return c.ctxCallDerives(x, 0, target, depth, seen)
	case *ssa.UnOp:
		if x.Op != token.MUL {
			return false
		}
		addr := c.P.canonVar(x.X)
		al, ok := addr.(*ssa.Alloc)
		if !ok {
			return false
		}
		// a variable re-assigned from a derivation of itself (ctx = f(ctx)): inductive step holds
		if seen[al] {
			return true
		}
		seen[al] = true
		// every store into the variable must derive (the parameter spill and later re-derivations)
		n := 0
		for _, ref := range *al.Referrers() {
			if st, ok := ref.(*ssa.Store); ok && st.Addr == ssa.Value(al) {
				n++
				s2 := map[ssa.Value]bool{}
				for k := range seen {
					s2[k] = true
				}
				if !c.ctxDerives(st.Val, target, depth+1, s2) {
					return false
				}
			}
		}
		return n > 0
	case *ssa.Parameter:
		// parameter of a closure invoked by pprof.Do: derives from pprof.Do's context argument
		fn := x.Parent()
		for _, mc := range c.P.closure[fn] {
			for _, ref := range *mc.Referrers() {
				if ci, ok := ref.(*ssa.Call); ok && calleeName(ci) == "runtime/pprof.Do" {
					return c.ctxDerives(ci.Common().Args[0], target, depth+1, seen)
				}
			}
		}
	}
	return false
}

var ctxPreserving = map[string]bool{
	"context.WithValue": true, "context.WithCancel": true, "context.WithTimeout": true, "context.WithDeadline": true,
	"context.WithCancelCause": true, "context.WithTimeoutCause": true, "context.WithDeadlineCause": true,
	"go.opencensus.io/tag.New": true, "go.opencensus.io/trace.StartSpan": true, "go.opencensus.io/trace.StartSpanWithRemoteParent": true,
	"runtime/pprof.WithLabels": true,
}

func (c *Ctx) ctxCallDerives(call *ssa.Call, resIdx int, target func(ssa.Value) bool, depth int, seen map[ssa.Value]bool) bool {
	n := calleeName(call)
	if ctxPreserving[n] {
		for _, a := range call.Common().Args {
			if isNamed(a.Type(), "context", "Context") {
				return c.ctxDerives(a, target, depth+1, seen)
			}
		}
		return false
	}
	f := staticCallee(call)
	if f == nil || !c.P.allFns[f] {
		return false
	}
	// repo function: its returned context must derive from its own context parameter on every return
	var ctxP *ssa.Parameter
	pidx := -1
	for i, prm := range f.Params {
		if isNamed(prm.Type(), "context", "Context") {
			ctxP, pidx = prm, i
		}
	}
	if ctxP == nil {
		return false
	}
	okAll, nret := true, 0
	allInstrs(f, func(in ssa.Instruction) {
		rt, ok := in.(*ssa.Return)
		if !ok || resIdx >= len(rt.Results) {
			return
		}
		nret++
		if !c.ctxDerives(rt.Results[resIdx], func(v ssa.Value) bool { return v == ssa.Value(ctxP) }, depth+1, map[ssa.Value]bool{}) {
			okAll = false
		}
	})
	if !okAll || nret == 0 || pidx >= len(call.Common().Args) {
		return false
	}
	return c.ctxDerives(call.Common().Args[pidx], target, depth+1, seen)
}
