package main

import (
	"fmt"
	"go/token"
	"go/types"

	"golang.org/x/tools/go/ssa"
)

func init() {
	register(&propInfo{
		ID:          "C06",
		Explanation: "Value-origin and path analysis of cancellation: (R06.1) the cancel notification a waiting call sends when its context is done uses the method name the peer dispatches to its cancel handler, carries that same call's request id, is sent only in the arm watching the call's own context, and is built per call; (R06.2) the subscription watcher is started with the subscription's context and the id of the response that announced the channel (the request id, not the channel id), waits for that context before sending, and sends its own id argument under the cancel method; (R06.3) the server's cancel handler invokes only the cancel function it looked up under the id decoded from this frame; (R06.4) closed world: every invocation of a context.CancelFunc in the library is one of {the per-call completion closure under !keep, the cancel handler's looked-up entry, the failer's sweep, the loop's deferred cancel}; in the dispatcher every non-deferred completion call lies on a path that returns without running the handler; (R06.5) the call spawner registers the cancel function, paired with the context given to the handler, under the call's id before the handler goroutine is started and in the executor's own (in-order) goroutine; (R06.6) HTTP: the server hands the request's context to the reader path, the client attaches the caller's context to the HTTP request, and the context placed in the handler's argument list derives from the dispatcher's context parameter; over WebSocket it derives from the per-connection context. (R06.10) what is decided from the method descriptor is read, and handed to the completion callback, after name and alias resolution. (R06.11) the keep-context flag is computed from the resolved method descriptor, not from a side table keyed by the wire name. (R06.12) the keep-context flag is computed from 'kind is Chan' and index tests only; (R06.13) once the waiting call's context is done every path through that arm hands a cancel to the loop. (R06.14) keys of the handling table come from the id normaliser also in the cancel handler; (R06.15) the auth wrapper hands on a request whose context derives from the incoming one.",
		NotDecided:  "Instants and races of cancellation; that a handler observes its context; peer ping/idle-timer effects on handler contexts (keepalive is decided under C17).",
		Assumptions: []string{"the cancel method name is the constant under which the frame switch reaches the cancel handler"},
		Run:         runC06,
	})
}

// cancelMethodName: the string constant whose equality with the frame's method leads to the cancel handler.
func (c *Ctx) cancelMethodName() (string, bool) {
	isCancelLookup := func(in ssa.Instruction) bool {
		lk, ok := in.(*ssa.Lookup)
		return ok && c.fieldVal(lk.X, c.R.FHandling)
	}
	for name, blk := range c.frameMethodTests() {
		// (upward search: it ends where the executor takes its next frame, so a switch inlined
		// into the executor's loop does not let one case "reach" the next frame's handling)
		if reachFromBlockUp(blk, isCancelLookup, nil) != nil {
			return name, true
		}
	}
	return "", false
}

// requestLiteral describes a wire-request composite literal (local Alloc).
type reqLit struct {
	At     ssa.Instruction // where this request is built: the literal, or the call of the helper that builds it from its arguments
	Alloc  *ssa.Alloc
	Method ssa.Value
	ID     ssa.Value
	Params ssa.Value
}

// liftLiteral: a request built by a helper from its own parameters (method, params, id) stands for
// one request per call site of the helper, with the arguments passed there.
func (c *Ctx) liftLiteral(rl reqLit, fn *ssa.Function, depth int) []reqLit {
	p := c.P
	paramIdx := func(v ssa.Value) int {
		if v == nil {
			return -1
		}
		for i, q := range fn.Params {
			if v == ssa.Value(q) || c.isParamCopy(v, q) {
				return i
			}
		}
		return -1
	}
	mi, pi, ii := paramIdx(rl.Method), paramIdx(stripConv(rl.Params)), paramIdx(rl.ID)
	if rl.Params == nil {
		pi = -1
	}
	sites := p.syncCallers(fn)
	if (mi < 0 && pi < 0 && ii < 0) || len(sites) == 0 || depth > 3 || p.asyncValueUsed(fn) {
		return []reqLit{rl}
	}
	var out []reqLit
	for _, s := range sites {
		args := s.Common().Args
		l2 := rl
		l2.At = s
		if mi >= 0 && mi < len(args) {
			l2.Method = args[mi]
		}
		if pi >= 0 && pi < len(args) {
			l2.Params = args[pi]
		}
		if ii >= 0 && ii < len(args) {
			l2.ID = args[ii]
		}
		out = append(out, c.liftLiteral(l2, s.Parent(), depth+1)...)
	}
	return out
}

func (c *Ctx) requestLiterals(fn *ssa.Function) []reqLit {
	// group field stores by the struct they initialise: a local request, or the
	// request nested in a client-request literal (initialised in place)
	groups := map[ssa.Value]*reqLit{}
	var order []ssa.Value
	allInstrs(fn, func(in ssa.Instruction) {
		st, ok := in.(*ssa.Store)
		if !ok {
			return
		}
		fa, ok := st.Addr.(*ssa.FieldAddr)
		if !ok || c.R.TReq == nil {
			return
		}
		pt, ok := fa.X.Type().Underlying().(*types.Pointer)
		if !ok || pt.Elem() != types.Type(c.R.TReq) {
			return
		}
		base := fa.X
		rl := groups[base]
		if rl == nil {
			rl = &reqLit{}
			if al, ok := base.(*ssa.Alloc); ok {
				rl.Alloc = al
			} else if bfa, ok := base.(*ssa.FieldAddr); ok {
				if al, ok := bfa.X.(*ssa.Alloc); ok {
					rl.Alloc = al
				}
			}
			if rl.Alloc == nil {
				return
			}
			groups[base] = rl
			order = append(order, base)
		}
		switch fieldOfAddr(fa) {
		case c.R.FReqMethod:
			rl.Method = st.Val
		case c.R.FReqID:
			rl.ID = st.Val
		default:
			if isNamed(fieldOfAddr(fa).Type(), "encoding/json", "RawMessage") {
				rl.Params = st.Val
			}
		}
	})
	var out []reqLit
	for _, b := range order {
		rl := *groups[b]
		rl.At = rl.Alloc
		out = append(out, c.liftLiteral(rl, fn, 0)...)
	}
	return out
}

func runC06(c *Ctx) {
	p, r := c.P, c.R
	_ = c.ws()
	c.rule("R06.1", "caller-side cancel notification: peer's cancel method, the same call's id, sent only in the arm watching the call's context")
	c.rule("R06.2", "subscription watcher: started with (subscription context, id of the announcing response), waits for the context, sends its own id under the cancel method")
	c.rule("R06.3", "the cancel handler invokes only the entry looked up under the id decoded from this frame")
	c.rule("R06.4", "closed world of CancelFunc invocations; no completion call precedes the handler on a path that runs it")
	c.rule("R06.5", "cancel function registered under the call's id, paired with the handler's context, before the handler goroutine starts, on the executor goroutine")
	c.rule("R06.6", "context derivation: HTTP server/client use the request's/caller's context; the handler's context argument derives from the dispatcher's context; per-connection context over WebSocket")
	c.rule("R06.14", "the cancel handler finds the call under the id as every table keys it: keys come from the id normaliser (a cancel for a call with a string id must reach it too)")
	c.keyRule("R06.14")
	c.ruleOpt("R06.15", "an HTTP wrapper of the library (the auth handler) hands on a request whose context still derives from the incoming request's context through cancellation-preserving steps: aborting the request reaches the handler also for authenticated calls")
	c.wrapperKeepsRequestContext("R06.15")
	c.ruleOpt("R06.13", "once the waiting call's context is done the cancel notification is sent on every path (whatever kind of call it is), short of a marshalling failure")
	cancelName, haveName := c.cancelMethodName()
	if !haveName {
		c.und("R06.1", "cancel method name", "-", "could not determine the method name that reaches the cancel handler")
	}

	// request literals with the cancel method, anywhere in the root package
	type cancelLit struct {
		lit reqLit
		fn  *ssa.Function
	}
	var lits []cancelLit
	for _, fn := range p.Funcs {
		if pkgOf(fn) != p.Root.Pkg {
			continue
		}
		for _, l := range c.requestLiterals(fn) {
			if s, ok := constString(l.Method); ok && haveName && s == cancelName {
				lits = append(lits, cancelLit{l, l.At.Parent()})
			}
		}
	}
	ownID := func(a apath) bool { return pathEndsWith(a, r.FCreqReq, r.FReqID) }

	// ---- R06.1: the caller-side cancel (params = id of the waiting call's own request)
	{
		n := 0
		for _, cl := range lits {
			lit := cl.lit
			if lit.Params == nil || !c.dependsOnOrigin(lit.Params, ownID) {
				continue
			}
			n++
			construct := fmt.Sprintf("%s: cancel notification of a waiting call", fname(cl.fn))
			okAll := true
			if lit.ID != nil && !isNilConst(lit.ID) {
				okAll = false
				c.bad("R06.1", construct, c.ipos(lit.At), "the cancel message carries an id of its own: the server answers it")
			}
			// every id that reaches the params is the waiting call's own (rooted at a client-request value of this call)
			if !c.paramsOnlyFrom(lit.Params, ownID) {
				okAll = false
				c.bad("R06.1", construct, c.ipos(lit.At), "the cancel message's params do not derive only from the id of the very call whose context was cancelled: another call (or none) is cancelled")
			}
			// built only in the arm receiving from a context's Done()
			inArm := false
			for _, cf := range expandConds(impliedCondsIP(lit.At.Block(), 0)) {
				bo, ok := cf.Cond.(*ssa.BinOp)
				if !ok || bo.Op != token.EQL || !cf.True {
					continue
				}
				ex, ok := bo.X.(*ssa.Extract)
				if !ok {
					continue
				}
				sel, ok := ex.Tuple.(*ssa.Select)
				if !ok {
					continue
				}
				k, _ := constInt(bo.Y)
				if int(k) < len(sel.States) {
					if c.someOrigin(sel.States[k].Chan, func(a apath) bool {
						call, ok := a.Root.(*ssa.Call)
						return ok && call.Common().IsInvoke() && call.Common().Method.Name() == "Done" && isNamed(call.Common().Value.Type(), "context", "Context")
					}) {
						inArm = true
						c.cancelSentOnEveryPath("R06.13", sel, bo)
					}
				}
			}
			if !inArm {
				okAll = false
				c.bad("R06.1", construct, c.ipos(lit.At), "the cancel message is not sent exactly when the call's own context is done")
			}
			if okAll {
				c.ok("R06.1", construct, c.ipos(lit.At), fmt.Sprintf("method %q, id-less, params from the call's own request id, in the <-ctx.Done() arm", cancelName))
			}
		}
		if n == 0 {
			c.bad("R06.1", "cancel notification of a waiting call", "-", fmt.Sprintf("no request with method %q carrying the waiting call's id is built: cancelling a call's context never reaches the server", cancelName))
		}
	}

	// ---- R06.2: the subscription watcher
	{
		// watcher functions: go-spawned, (context, interface{}) parameters, their cone builds a cancel literal from the id parameter
		type watcher struct {
			fn       *ssa.Function
			ctxP     *ssa.Parameter
			idP      *ssa.Parameter
			literals []cancelLit
		}
		var ws []watcher
		for _, fn := range p.Funcs {
			if pkgOf(fn) != p.Root.Pkg {
				continue
			}
			var ctxP, idP *ssa.Parameter
			for _, prm := range fn.Params {
				if isNamed(prm.Type(), "context", "Context") {
					ctxP = prm
				} else if isEmptyIface(prm.Type()) {
					idP = prm
				}
			}
			if ctxP == nil || idP == nil || !c.spawnedAsGoroutine(fn) {
				continue
			}
			wt := watcher{fn: fn, ctxP: ctxP, idP: idP}
			for _, cl := range lits {
				if p.inCone(fn, cl.lit.At) && cl.lit.Params != nil && c.dependsOn(cl.lit.Params, func(v ssa.Value) bool { return v == ssa.Value(idP) }, 0, map[ssa.Value]bool{}) {
					wt.literals = append(wt.literals, cl)
				}
			}
			if len(wt.literals) > 0 {
				ws = append(ws, wt)
			}
		}
		if len(ws) == 0 {
			c.bad("R06.2", "subscription watcher", "-", "no goroutine waits for a subscription's context and then cancels its id: cancelling a subscription's context no longer reaches the server")
		}
		for _, wt := range ws {
			wa := wt.fn
			construct := fmt.Sprintf("%s: waits, then cancels its own id", fname(wa))
			var wait ssa.Instruction
			p.coneInstrs(wa, func(in ssa.Instruction) {
				if u, ok := in.(*ssa.UnOp); ok && u.Op == token.ARROW {
					if call, ok := u.X.(*ssa.Call); ok && call.Common().IsInvoke() && call.Common().Method.Name() == "Done" && (call.Common().Value == ssa.Value(wt.ctxP) || c.isParamCopy(call.Common().Value, wt.ctxP)) {
						wait = in
					}
				}
			})
			okAll := true
			if wait == nil {
				okAll = false
				c.bad("R06.2", construct, p.pos(wa.Pos()), "the watcher does not wait for its context")
			} else {
				p.coneInstrs(wa, func(in ssa.Instruction) {
					if c.isRequestWrite(in) && !mustPrecedeIP(in, func(x ssa.Instruction) bool { return x == wait }, 0) {
						// writes in the shared request writer are reached from many places; only the path from this watcher matters
						if reachFromEntry(wa, func(x ssa.Instruction) bool { return x == in }, func(x ssa.Instruction) bool { return x == wait }) != nil {
							okAll = false
							c.bad("R06.2", construct, c.ipos(in), "the cancel can be sent before the subscription's context is done")
						}
					}
				})
			}
			for _, cl := range wt.literals {
				if cl.lit.ID != nil && !isNilConst(cl.lit.ID) {
					okAll = false
					c.bad("R06.2", construct, c.ipos(cl.lit.At), "the watcher's cancel message carries an id of its own")
				}
			}
			if okAll {
				c.ok("R06.2", construct, c.ipos(wait), "<-ctx.Done() precedes the send; params from the id argument")
			}
			// spawn sites
			for _, s := range p.callers[wa] {
				g, ok := s.(*ssa.Go)
				if !ok {
					continue
				}
				cons := fmt.Sprintf("%s: start of the subscription watcher", fname(g.Parent()))
				var ctxArg, idArg ssa.Value
				for i, a := range g.Common().Args {
					if i < len(wa.Params) {
						if wa.Params[i] == wt.ctxP {
							ctxArg = a
						}
						if wa.Params[i] == wt.idP {
							idArg = a
						}
					}
				}
				ok2 := true
				// the id: the id of the response frame being handled (same origins as the in-flight lookup key of this activity)
				frameIDok := idArg != nil && c.allOrigins(idArg, func(a apath) bool {
					if ex, ok := a.Root.(*ssa.Extract); ok && ex.Index == 0 {
						if call, ok := ex.Tuple.(*ssa.Call); ok && staticCallee(call) == r.FnNorm {
							return r.FnExec != nil && p.inCone(r.FnExec, call)
						}
					}
					return a.last() != nil && a.last() == respFieldByTag(r.TFrame, "id")
				})
				if !frameIDok {
					ok2 = false
					c.bad("R06.2", cons, c.ipos(g), "the watcher is not given the id of the response that announced the channel (the request id): cancelling the subscription cancels nothing, or another call whose id happens to equal the value passed (e.g. the channel id)")
				}
				ctxOK := ctxArg != nil && c.allOrigins(ctxArg, func(a apath) bool {
					ex, ok := a.Root.(*ssa.Extract)
					if !ok || ex.Index != 0 {
						return false
					}
					call, ok := ex.Tuple.(*ssa.Call)
					return ok && c.fieldVal(call.Common().Value, r.FRetCh)
				})
				if !ctxOK {
					ok2 = false
					c.bad("R06.2", cons, c.ipos(g), "the watcher does not watch the context of the subscription it was started for")
				}
				if ok2 {
					c.ok("R06.2", cons, c.ipos(g), "(subscription context, id of the announcing response)")
				}
			}
		}
	}

	// ---- R06.3 / R06.4: closed world of cancel-function invocations, classified by what is being invoked
	{
		n := 0
		for _, fn := range p.Funcs {
			if pkgOf(fn) != p.Root.Pkg {
				continue
			}
			allInstrsRaw(fn, func(in ssa.Instruction) {
				ci, ok := in.(ssa.CallInstruction)
				if !ok || ci.Common().IsInvoke() || ci.Common().Value == nil || !isNamed(ci.Common().Value.Type(), "context", "CancelFunc") {
					return
				}
				n++
				construct := fmt.Sprintf("%s: invocation of a cancel function", fname(fn))
				kinds := map[string]bool{}
				var lookups []*ssa.Lookup
				for _, a := range c.originsHeap(ci.Common().Value) {
					k := "other"
					if ex, ok := a.Root.(*ssa.Extract); ok && len(a.Fields) == 0 {
						switch t := ex.Tuple.(type) {
						case *ssa.Lookup:
							if c.fieldVal(t.X, r.FHandling) {
								k = "lookup"
								lookups = append(lookups, t)
							}
						case *ssa.Next:
							if rg, ok := t.Iter.(*ssa.Range); ok && c.fieldVal(rg.X, r.FHandling) {
								k = "sweep"
							}
						case *ssa.Call:
							if ex.Index == 1 && calleeName(t) == "context.WithCancel" {
								if t.Parent() == r.FnLoop {
									k = "loop"
								} else {
									k = "percall"
								}
							}
						}
					}
					if lk, ok := a.Root.(*ssa.Lookup); ok && len(a.Fields) == 0 && c.fieldVal(lk.X, r.FHandling) {
						k = "lookup"
						lookups = append(lookups, lk)
					}
					kinds[k] = true
				}
				if len(kinds) != 1 {
					c.bad("R06.4", construct, c.ipos(in), "the cancel function invoked here has mixed or unknown origins")
					return
				}
				switch {
				case kinds["lookup"]:
					good := !inLoop(in.Block())
					for _, lk := range lookups {
						var okv ssa.Value
						if lk.CommaOk {
							for _, ref := range *lk.Referrers() {
								if e2, ok := ref.(*ssa.Extract); ok && e2.Index == 1 {
									okv = e2
								}
							}
						}
						found := false
						for _, cf := range expandConds(impliedCondsIP(in.Block(), 0)) {
							if cf.True && okv != nil && c.someOrigin(cf.Cond, func(a apath) bool { return a.Root == okv }) {
								found = true
							}
						}
						if !found {
							good = false
						}
					}
					c.check(good, "R06.3", construct, c.ipos(in), "the single entry found under the decoded id", "the cancel handler cancels something other than the single entry looked up (and found) under the id carried by this cancel message: unrelated calls are cancelled")
				case kinds["sweep"]:
					c.ok("R06.4", construct, c.ipos(in), "connection-loss sweep over the handling table")
				case kinds["loop"]:
					_, isDefer := in.(*ssa.Defer)
					c.check(isDefer, "R06.4", construct, c.ipos(in), "deferred per-connection cancel", "the per-connection context is cancelled while the loop is still serving: every handler on the connection is cancelled although nobody asked")
				case kinds["percall"]:
					// the call's own completion: only where the context need not be kept (keep == false)
					good := false
					for _, cf := range expandConds(impliedCondsIP(in.Block(), 0)) {
						if !cf.True {
							if c.someOrigin(cf.Cond, func(a apath) bool {
								prm, ok := a.Root.(*ssa.Parameter)
								if !ok {
									return false
								}
								b, ok := prm.Type().Underlying().(*types.Basic)
								return ok && b.Kind() == types.Bool
							}) {
								good = true
							}
						}
					}
					c.check(good, "R06.4", construct, c.ipos(in), "completion of the call, only when the context need not be kept", "the per-call context is cancelled at completion even when the handler returned a channel (keep): the subscription is cancelled as soon as it is announced")
				default:
					c.bad("R06.4", construct, c.ipos(in), "a handler context is cancelled from a place that is neither the caller's cancel message, the connection end nor the call's own completion")
				}
			})
		}
		if n == 0 {
			c.und("R06.4", "cancel-function invocations", "-", "none found")
		}
		// no range over the handling table on the cancel-message path
		for name, blk := range c.frameMethodTests() {
			if name != cancelName {
				continue
			}
			sweep := reachFromBlock(blk, func(in ssa.Instruction) bool { return c.isRangeOver(in, r.FHandling) }, nil)
			c.check(sweep == nil, "R06.3", "cancel message: no sweep", c.ipos(blk.Instrs[0]), "no range over the handling table", "the cancel handler ranges over all running calls")
		}
		// dispatcher: done(...) calls
		if r.FnDisp != nil {
			d := r.FnDisp
			var doneP *ssa.Parameter
			for _, prm := range d.Params {
				if sig, ok := prm.Type().Underlying().(*types.Signature); ok && sig.Params().Len() == 1 && sig.Results().Len() == 0 {
					if b, ok := sig.Params().At(0).Type().Underlying().(*types.Basic); ok && b.Kind() == types.Bool {
						doneP = prm
					}
				}
			}
			// the hooks may be grouped in a parameter struct (callEnv{…, done func(bool)}): the field then stands for the parameter
			var doneF *types.Var
			if doneP == nil {
				for _, prm := range d.Params {
					st, ok := prm.Type().Underlying().(*types.Struct)
					if !ok {
						continue
					}
					for j := 0; j < st.NumFields(); j++ {
						if sig, ok := st.Field(j).Type().Underlying().(*types.Signature); ok && sig.Params().Len() == 1 && sig.Results().Len() == 0 {
							if b, ok := sig.Params().At(0).Type().Underlying().(*types.Basic); ok && b.Kind() == types.Bool {
								doneF = st.Field(j)
							}
						}
					}
				}
			}
			isDoneVal := func(v ssa.Value) bool {
				if doneP != nil && c.isParamOrForwarded(v, doneP) {
					return true
				}
				return doneF != nil && loadedField(v) == doneF
			}
			if c.need("R06.4", "completion callback parameter of the dispatcher", doneP != nil || doneF != nil) {
				ndone := 0
				p.coneInstrs(d, func(in ssa.Instruction) {
					ci, ok := in.(ssa.CallInstruction)
					if !ok || ci.Common().Value == nil || !isDoneVal(ci.Common().Value) {
						return
					}
					ndone++
					construct := fmt.Sprintf("%s: completion callback", fname(d))
					if _, isDefer := in.(*ssa.Defer); isDefer {
						okd := true
						p.coneInstrs(d, func(x ssa.Instruction) {
							if c.isUserCall(x) && !mustPrecedeIP(x, func(y ssa.Instruction) bool { return y == in }, 0) {
								okd = false
							}
						})
						c.check(okd, "R06.4", construct+" (deferred)", c.ipos(in), "registered before the handler runs; executes after it", "the handler can run on a path where its completion is not registered: its cancel entry is never released")
						return
					}
					if wv := reachFromUp(in, c.isUserCall, nil); wv != nil {
						c.bad("R06.4", construct, c.ipos(in), "the call's context is released/cancelled before the handler runs on this path: the handler sees a cancelled context although the caller did not cancel")
					} else {
						c.ok("R06.4", construct, c.ipos(in), "only on a path that returns without running the handler")
					}
				})
				if ndone == 0 {
					c.bad("R06.4", fmt.Sprintf("%s: completion callback", fname(d)), p.pos(d.Pos()), "the dispatcher never signals completion: cancel entries accumulate and contexts are never released")
				}
			}
		}
	}

	// ---- R06.5
	{
		invs := c.dispInvokes()
		regs := usesOfKind(p.uses(r.FHandling), "mapupdate")
		construct := "cancel entry registered before the handler starts"
		if len(invs) == 0 || len(regs) == 0 {
			c.bad("R06.5", construct, "-", "handlers are started without their cancel function ever being registered (or no dispatcher invocation found)")
		}
		isReg := func(x ssa.Instruction) bool {
			for _, u := range regs {
				if x == u.At {
					return true
				}
			}
			return false
		}
		idNonNil := func(from *ssa.BasicBlock, k int) bool {
			iff, ok := from.Instrs[len(from.Instrs)-1].(*ssa.If)
			if !ok {
				return true
			}
			isTest, nn := c.idNilTestFrame(iff.Cond)
			if !isTest {
				return true
			}
			nonNil := nn
			if k == 1 {
				nonNil = !nn
			}
			return nonNil
		}
		for _, u := range regs {
			c.check(r.FnExec != nil && p.inCone(r.FnExec, u.At), "R06.5", construct+" (on the executor goroutine)", c.ipos(u.At), "registered synchronously by the frame executor",
				"the cancel function is registered outside the executor's own goroutine (e.g. inside the per-call goroutine): a cancel message that directly follows the call is looked up before the entry exists and is lost")
			// key = id of the frame being dispatched; value = cancel of a WithCancel
			keyOK := c.allOrigins(u.Val, func(a apath) bool {
				if ex, ok := a.Root.(*ssa.Extract); ok && ex.Index == 0 {
					if call, ok := ex.Tuple.(*ssa.Call); ok && staticCallee(call) == r.FnNorm {
						return true
					}
				}
				return a.last() != nil && a.last() == respFieldByTag(r.TFrame, "id")
			})
			c.check(keyOK, "R06.5", construct+" (key)", c.ipos(u.At), "under the id of the call being started", "the cancel function is not registered under the id of the call being started")
		}
		for _, in := range invs {
			okAll := true
			if !mustPrecedeIPF(in, isReg, idNonNil, 0) {
				okAll = false
				c.bad("R06.5", construct, c.ipos(in), "an id-bearing call can be started before its cancel function is registered")
			}
			// pairing: the handler's context is the one a registered cancel function cancels
			var arg ssa.Value
			for _, a := range in.(ssa.CallInstruction).Common().Args {
				if isNamed(a.Type(), "context", "Context") {
					arg = a
				}
			}
			paired := false
			for _, u := range regs {
				mu := u.At.(*ssa.MapUpdate)
				for _, a := range c.origins(mu.Value) {
					ex, ok := a.Root.(*ssa.Extract)
					if !ok || ex.Index != 1 {
						continue
					}
					wc, ok := ex.Tuple.(*ssa.Call)
					if !ok || calleeName(wc) != "context.WithCancel" {
						continue
					}
					if arg != nil && c.ctxDerives(arg, func(v ssa.Value) bool {
						e0, ok := v.(*ssa.Extract)
						return ok && e0.Index == 0 && e0.Tuple == ssa.Value(wc)
					}, 0, map[ssa.Value]bool{}) {
						paired = true
					}
				}
			}
			if !paired {
				okAll = false
				c.bad("R06.5", construct, c.ipos(in), "the context handed to the handler is not the one the registered cancel function cancels")
			}
			if okAll {
				c.ok("R06.5", construct, c.ipos(in), "handling[id] = cancel of the handler's own context, before the handler goroutine starts")
			}
		}
	}

	// ---- R06.6
	c.ctxDerivation("R06.6")
	c.rule("R06.7", "peer control frames are registered as activity, so the idle timer does not close a healthy connection (which would cancel every handler context on it)")
	c.activitySignalRule("R06.7")

	// ---- R06.9
	c.ruleOpt("R06.10", "what the dispatcher decides from the method descriptor (keep the context for a channel) is read after name and alias resolution")
	c.descriptorReadAfterResolution("R06.10")
	c.ruleOpt("R06.11", "whether a call keeps its context (it returns a channel) is decided from the resolved method descriptor, not from a side table keyed by the wire name (an aliased subscription would lose its context at once)")
	c.keepFlagFromDescriptor("R06.11")
	c.ruleOpt("R06.12", "the keep-context flag is exactly 'the method has a value result and it is a channel': no further condition (number of results, presence of an error result …) narrows it")
	c.keepFlagNotNarrowed("R06.12")
	c.rule("R06.9", "cancel messages are executed in arrival order with the calls they refer to (one in-order executor; never handled on the reader's goroutine)")
	c.arrivalOrderRule("R06.9")

	// ---- R06.8
	c.ruleOpt("R06.8", "the library imposes no deadline of its own on a call in flight (HTTP client timeout, derived timeout contexts)")
	c.noOwnDeadline("R06.8")
}

// noOwnDeadline: on a healthy connection only the caller may end a call. A deadline the library adds
// by itself — the Timeout of the http.Client it sends with, or a WithTimeout/WithDeadline context on the
// client call path — aborts the request when it expires, and the server then cancels the handler's
// context although the caller's context is still live.
func (c *Ctx) noOwnDeadline(rule string) {
	p, r := c.P, c.R
	for _, fn := range p.Funcs {
		allInstrsRaw(fn, func(in ssa.Instruction) {
			st, ok := in.(*ssa.Store)
			if !ok {
				return
			}
			fa, ok := st.Addr.(*ssa.FieldAddr)
			if !ok {
				return
			}
			f := fieldOfAddr(fa)
			if f == nil || f.Name() != "Timeout" {
				return
			}
			pt, ok := fa.X.Type().Underlying().(*types.Pointer)
			if !ok || !isNamed(pt.Elem(), "net/http", "Client") {
				return
			}
			c.bad(rule, fmt.Sprintf("%s: http.Client.Timeout", fname(fn)), c.ipos(in), "the library sets an overall timeout on the HTTP client it sends requests with: a call that stays in flight longer is aborted, and the server cancels the handler's context although the caller did not cancel")
		})
	}
	if r.FnCall != nil {
		seen := map[*ssa.Function]bool{}
		var fns []*ssa.Function
		add := func(f *ssa.Function) {
			for _, g := range c.region(f) {
				if !seen[g] {
					seen[g] = true
					fns = append(fns, g)
				}
			}
		}
		add(r.FnCall)
		// request senders kept in struct fields (doRequest closures)
		for _, fn := range p.Funcs {
			if pkgOf(fn) != p.Root.Pkg {
				continue
			}
			for _, q := range fn.Params {
				if q.Type() == types.Type(r.TCreq) {
					add(fn)
				}
			}
		}
		for _, g := range fns {
			allInstrsRaw(g, func(in ssa.Instruction) {
				ci, ok := in.(*ssa.Call)
				if !ok {
					return
				}
				switch calleeName(ci) {
				case "context.WithTimeout", "context.WithDeadline", "context.WithTimeoutCause", "context.WithDeadlineCause":
					c.bad(rule, fmt.Sprintf("%s: derived deadline", fname(g)), c.ipos(in), "the client call path derives a context with a deadline of its own: the call is cancelled although its caller did not cancel")
				}
			})
		}
	}
	if c.ruleN[rule] == 0 {
		c.ok(rule, "no library-imposed deadline", "-", "no store to http.Client.Timeout, no WithTimeout/WithDeadline on the client call path")
	}
}

func (c *Ctx) isParamCopyCtx(v ssa.Value, fn *ssa.Function) bool {
	for _, prm := range fn.Params {
		if isNamed(prm.Type(), "context", "Context") && c.isParamCopy(v, prm) {
			return true
		}
	}
	return false
}

// idFieldOfFrame: v is the id field of fn's frame parameter.
func (c *Ctx) idFieldOfFrame(v ssa.Value, fn *ssa.Function) (bool, string) {
	frame := c.frameParamOf(fn)
	if frame == nil {
		return false, ""
	}
	idF := respFieldByTag(c.R.TFrame, "id")
	switch x := v.(type) {
	case *ssa.Field:
		return c.isParamCopy(x.X, frame) && fieldOfField(x) == idF, ""
	case *ssa.UnOp:
		if fa, ok := x.X.(*ssa.FieldAddr); ok && x.Op == token.MUL {
			return c.isParamCopy(fa.X, frame) && fieldOfAddr(fa) == idF, ""
		}
	}
	return false, ""
}

// ctxDerivation: R06.6
func (c *Ctx) ctxDerivation(rule string) {
	p, r := c.P, c.R
	w := c.ws()
	// (a) dispatcher: reflect.ValueOf(ctx) placed into the call arguments derives from the ctx parameter
	if r.FnDisp != nil {
		d := r.FnDisp
		var ctxP *ssa.Parameter
		for _, prm := range d.Params {
			if isNamed(prm.Type(), "context", "Context") {
				ctxP = prm
			}
		}
		n := 0
		p.coneInstrs(d, func(in ssa.Instruction) {
			ci, ok := in.(*ssa.Call)
			if !ok || calleeName(ci) != "reflect.ValueOf" {
				return
			}
			arg := stripConv(ci.Common().Args[0])
			if !isNamed(arg.Type(), "context", "Context") {
				return
			}
			n++
			c.check(ctxP != nil && c.ctxDerives(arg, func(v ssa.Value) bool { return v == ssa.Value(ctxP) || c.isParamOrForwarded(v, ctxP) }, 0, map[ssa.Value]bool{}), rule,
				fmt.Sprintf("%s: context argument of the handler", fname(d)), c.ipos(ci), "derives from the dispatcher's context parameter",
				"the context placed in the handler's arguments does not derive from the context the dispatcher was given: cancellation (caller's cancel, HTTP abort, connection end) never reaches the handler")
		})
		if n == 0 {
			c.und(rule, fname(d)+": context argument of the handler", "-", "no reflect.ValueOf(ctx) found")
		}
	}
	// (b) HTTP server: ServeHTTP passes a context derived from r.Context() to the reader path
	if tn, ok := p.Root.Pkg.Scope().Lookup("RPCServer").(*types.TypeName); ok {
		serve := p.SSA.LookupMethod(types.NewPointer(tn.Type()), p.Root.Pkg, "ServeHTTP")
		if serve != nil {
			var reqCtx ssa.Value
			allInstrs(serve, func(in ssa.Instruction) {
				if ci, ok := in.(*ssa.Call); ok && calleeName(ci) == "(*net/http.Request).Context" {
					reqCtx = ci
				}
			})
			n := 0
			allInstrs(serve, func(in ssa.Instruction) {
				ci, ok := in.(*ssa.Call)
				if !ok {
					return
				}
				f := staticCallee(ci)
				if f == nil || !p.allFns[f] {
					return
				}
				for _, a := range ci.Common().Args {
					if isNamed(a.Type(), "context", "Context") {
						n++
						isReqCtx := func(v ssa.Value) bool {
							ci, ok := v.(*ssa.Call)
							return ok && calleeName(ci) == "(*net/http.Request).Context"
						}
						c.check(reqCtx != nil && c.ctxDerives(a, isReqCtx, 0, map[ssa.Value]bool{}), rule,
							fmt.Sprintf("%s: context handed to %s", fname(serve), fname(f)), c.ipos(ci), "derives from the HTTP request's context",
							"the server does not hand the HTTP request's context on: aborting the request (or closing the connection) no longer cancels the handler")
					}
				}
			})
			if n == 0 {
				c.und(rule, "RPCServer.ServeHTTP: context hand-over", "-", "no call taking a context found")
			}
		}
	}
	// (c) HTTP client: the request carries WithContext(ctx param) of the doRequest closure
	{
		n := 0
		for _, fn := range p.Funcs {
			if pkgOf(fn) != p.Root.Pkg {
				continue
			}
			var ctxPrm, reqPrm *ssa.Parameter
			for _, q := range fn.Params {
				if q.Type() == types.Type(r.TCreq) {
					reqPrm = q
				}
				if isNamed(q.Type(), "context", "Context") {
					ctxPrm = q
				}
			}
			if ctxPrm == nil || reqPrm == nil {
				continue
			}
			usesHTTP := false
			var withCtx *ssa.Call
			var newReqCtx *ssa.Call
			p.coneInstrs(fn, func(in ssa.Instruction) {
				if ci, ok := in.(*ssa.Call); ok {
					switch calleeName(ci) {
					case "net/http.NewRequest":
						usesHTTP = true
					case "net/http.NewRequestWithContext":
						usesHTTP = true
						newReqCtx = ci
					case "(*net/http.Request).WithContext":
						withCtx = ci
					}
				}
			})
			if !usesHTTP {
				continue
			}
			n++
			construct := fmt.Sprintf("%s: caller's context attached to the HTTP request", fname(fn))
			good := false
			// the context may travel through a request-building helper's parameter
			fromCaller := func(v ssa.Value) bool {
				return c.isParamOrForwarded(v, ctxPrm) || (v.Parent() != fn && c.dependsOn(v, func(x ssa.Value) bool { return x == ssa.Value(ctxPrm) }, 0, map[ssa.Value]bool{}))
			}
			if withCtx != nil && fromCaller(withCtx.Common().Args[1]) {
				// the request actually sent derives from the WithContext result
				p.coneInstrs(fn, func(in ssa.Instruction) {
					if ci, ok := in.(*ssa.Call); ok && calleeName(ci) == "(*net/http.Client).Do" {
						if c.dependsOn(ci.Common().Args[1], func(v ssa.Value) bool { return v == ssa.Value(withCtx) }, 0, map[ssa.Value]bool{}) {
							good = true
						}
						// … also when a helper built it and returned it
						if c.someOrigin(ci.Common().Args[1], func(a apath) bool { return a.Root == ssa.Value(withCtx) && len(a.Fields) == 0 }) {
							good = true
						}
					}
				})
			}
			if newReqCtx != nil && fromCaller(newReqCtx.Common().Args[0]) {
				good = true
			}
			c.check(good, rule, construct, p.pos(fn.Pos()), "hreq.WithContext(ctx) is what is sent", "the HTTP request is sent without the caller's context: cancelling the call no longer aborts the request, so the handler is never cancelled")
		}
		if n == 0 {
			c.und(rule, "HTTP client doRequest", "-", "not found")
		}
	}
	// (d) WebSocket: the context a handler gets derives from the loop's cancellable per-connection context
	if r.FnLoop != nil {
		for _, in := range c.dispInvokes() {
			construct := fmt.Sprintf("%s: per-connection context reaches the handler", fname(outermost(in.Parent())))
			var arg ssa.Value
			for _, a := range in.(ssa.CallInstruction).Common().Args {
				if isNamed(a.Type(), "context", "Context") {
					arg = a
				}
			}
			c.check(arg != nil && c.ctxDerives(arg, c.isLoopCtxRoot, 0, map[ssa.Value]bool{}), rule, construct, c.ipos(in),
				"derives from the loop's WithCancel context through cancellation-preserving steps", "the handlers' contexts do not derive from the per-connection context that is cancelled when the connection ends")
		}
	}
	_ = w
}

// ctxDerives: context value v is `target` itself or obtained from it only through
// cancellation-preserving derivations (context.With{Value,Cancel,Timeout,Deadline},
// opencensus tag.New / trace.StartSpan*, pprof.WithLabels, or repo functions whose
// returned context derives from their context parameter).
func (c *Ctx) ctxDerives(v ssa.Value, target func(ssa.Value) bool, depth int, seen map[ssa.Value]bool) bool {
	if v == nil || depth > 12 || seen[v] {
		return false
	}
	seen[v] = true
	if target(v) {
		return true
	}
	switch x := v.(type) {
	case *ssa.Phi:
		any := false
		for _, e := range x.Edges {
			if e == ssa.Value(x) {
				continue
			}
			s2 := map[ssa.Value]bool{}
			for k := range seen {
				s2[k] = true
			}
			if !c.ctxDerives(e, target, depth+1, s2) {
				return false
			}
			any = true
		}
		return any
	case *ssa.ChangeInterface:
		return c.ctxDerives(x.X, target, depth+1, seen)
	case *ssa.MakeInterface:
		return c.ctxDerives(x.X, target, depth+1, seen)
	case *ssa.Extract:
		call, ok := x.Tuple.(*ssa.Call)
		if !ok {
			return false
		}
		return c.ctxCallDerives(call, x.Index, target, depth, seen)
	case *ssa.Call:
		return c.ctxCallDerives(x, 0, target, depth, seen)
	case *ssa.UnOp:
		if x.Op != token.MUL {
			return false
		}
		addr := c.P.canonVar(x.X)
		al, ok := addr.(*ssa.Alloc)
		if !ok {
			return false
		}
		// a variable re-assigned from a derivation of itself (ctx = f(ctx)): inductive step holds
		if seen[al] {
			return true
		}
		seen[al] = true
		// every store that can reach this load must derive (the parameter spill and later re-derivations)
		n := 0
		var at ssa.Instruction = x
		if x.Parent() != al.Parent() {
			// captured variable: what it held when the closure was created
			for f := x.Parent(); f != nil && f != al.Parent(); f = f.Parent() {
				if mcs := c.P.closure[f]; len(mcs) == 1 && mcs[0].Parent() == al.Parent() {
					at = mcs[0]
				}
			}
		}
		for _, st := range reachingStores(al, at) {
			n++
			s2 := map[ssa.Value]bool{}
			for k := range seen {
				s2[k] = true
			}
			if !c.ctxDerives(st.Val, target, depth+1, s2) {
				return false
			}
		}
		return n > 0
	case *ssa.Parameter:
		// parameter of a closure invoked by pprof.Do: derives from pprof.Do's context argument
		fn := x.Parent()
		for _, mc := range c.P.closure[fn] {
			for _, ref := range *mc.Referrers() {
				if ci, ok := ref.(*ssa.Call); ok && calleeName(ci) == "runtime/pprof.Do" {
					return c.ctxDerives(ci.Common().Args[0], target, depth+1, seen)
				}
			}
		}
		// pprof.Do(ctx, labels, obj.method): bound method value
		for _, f2 := range c.P.Funcs {
			found := false
			var arg ssa.Value
			allInstrsRaw(f2, func(in ssa.Instruction) {
				ci, ok := in.(*ssa.Call)
				if !ok || calleeName(ci) != "runtime/pprof.Do" {
					return
				}
				if mc, ok := ci.Common().Args[2].(*ssa.MakeClosure); ok {
					if g, ok := mc.Fn.(*ssa.Function); ok && c.P.unbound(g) == fn {
						found, arg = true, ci.Common().Args[0]
					}
				}
			})
			if found {
				return c.ctxDerives(arg, target, depth+1, seen)
			}
		}
		// ordinary parameter: every static call site (call, go, defer) must pass a deriving context
		idx := -1
		for i, q := range fn.Params {
			if q == x {
				idx = i
			}
		}
		sites := c.P.callers[fn]
		if idx < 0 || len(sites) == 0 || c.P.asyncValueUsed(fn) {
			return false
		}
		for _, s := range sites {
			if idx >= len(s.Common().Args) {
				return false
			}
			s2 := map[ssa.Value]bool{}
			for k := range seen {
				s2[k] = true
			}
			if !c.ctxDerives(s.Common().Args[idx], target, depth+1, s2) {
				return false
			}
		}
		return true
	case *ssa.FreeVar:
		return false
	}
	return false
}

var ctxPreserving = map[string]bool{
	"context.WithValue": true, "context.WithCancel": true, "context.WithTimeout": true, "context.WithDeadline": true,
	"context.WithCancelCause": true, "context.WithTimeoutCause": true, "context.WithDeadlineCause": true,
	"go.opencensus.io/tag.New": true, "go.opencensus.io/trace.StartSpan": true, "go.opencensus.io/trace.StartSpanWithRemoteParent": true,
	"runtime/pprof.WithLabels": true,
}

func (c *Ctx) ctxCallDerives(call *ssa.Call, resIdx int, target func(ssa.Value) bool, depth int, seen map[ssa.Value]bool) bool {
	n := calleeName(call)
	if ctxPreserving[n] {
		for _, a := range call.Common().Args {
			if isNamed(a.Type(), "context", "Context") {
				return c.ctxDerives(a, target, depth+1, seen)
			}
		}
		return false
	}
	f := staticCallee(call)
	if f == nil || !c.P.allFns[f] {
		return false
	}
	// repo function: its returned context must derive from its own context parameter on every return
	var ctxP *ssa.Parameter
	pidx := -1
	for i, prm := range f.Params {
		if isNamed(prm.Type(), "context", "Context") {
			ctxP, pidx = prm, i
		}
	}
	if ctxP == nil {
		// a helper that makes the context from something else it is given (a request): every context it
		// returns derives from the target inside the helper, or is nil next to a failure flag
		okAll, nret := true, 0
		allInstrs(f, func(in ssa.Instruction) {
			rt, ok := in.(*ssa.Return)
			if !ok || resIdx >= len(rt.Results) {
				return
			}
			if isNilConst(rt.Results[resIdx]) {
				return
			}
			nret++
			if !c.ctxDerives(rt.Results[resIdx], target, depth+1, map[ssa.Value]bool{}) {
				okAll = false
			}
		})
		return okAll && nret > 0
	}
	okAll, nret := true, 0
	allInstrs(f, func(in ssa.Instruction) {
		rt, ok := in.(*ssa.Return)
		if !ok || resIdx >= len(rt.Results) {
			return
		}
		nret++
		if !c.ctxDerives(rt.Results[resIdx], func(v ssa.Value) bool { return v == ssa.Value(ctxP) }, depth+1, map[ssa.Value]bool{}) {
			okAll = false
		}
	})
	if !okAll || nret == 0 || pidx >= len(call.Common().Args) {
		return false
	}
	return c.ctxDerives(call.Common().Args[pidx], target, depth+1, seen)
}

// dependsOnOrigin: some value v transitively depends on has an origin satisfying pred.
func (c *Ctx) dependsOnOrigin(v ssa.Value, pred func(apath) bool) bool {
	return c.dependsOn(v, func(x ssa.Value) bool {
		if _, isInstr := x.(ssa.Instruction); !isInstr {
			if _, isParam := x.(*ssa.Parameter); !isParam {
				return false
			}
		}
		if !isEmptyIface(x.Type()) {
			return false
		}
		return c.someOrigin(x, pred)
	}, 0, map[ssa.Value]bool{})
}

// paramsOnlyFrom: every interface-typed id value feeding the marshalled params satisfies pred.
func (c *Ctx) paramsOnlyFrom(v ssa.Value, pred func(apath) bool) bool {
	ok := true
	found := false
	c.dependsOn(v, func(x ssa.Value) bool {
		call, isCall := x.(*ssa.Call)
		if !isCall || calleeName(call) != "reflect.ValueOf" {
			return false
		}
		found = true
		if !c.allOrigins(stripConv(call.Common().Args[0]), pred) {
			ok = false
		}
		return false
	}, 0, map[ssa.Value]bool{})
	return ok && found
}

// isParamOrForwarded: v is parameter prm, a local copy of it, or a parameter of a helper that
// receives prm (or a forwarded copy) at every synchronous call site.
func (c *Ctx) isParamOrForwarded(v ssa.Value, prm *ssa.Parameter) bool {
	if v == ssa.Value(prm) || c.isParamCopy(v, prm) {
		return true
	}
	// peel loads, captured variables and single-assignment locals
	for i := 0; i < 6; i++ {
		switch x := v.(type) {
		case *ssa.UnOp:
			if x.Op != token.MUL {
				return false
			}
			v = x.X
			continue
		case *ssa.FreeVar:
			if cv := c.P.canonVar(x); cv != ssa.Value(x) {
				v = cv
				continue
			}
			return false
		case *ssa.Alloc:
			var st *ssa.Store
			n := 0
			for _, ref := range *x.Referrers() {
				if s, ok := ref.(*ssa.Store); ok && s.Addr == ssa.Value(x) {
					st = s
					n++
				}
			}
			if n != 1 {
				return false
			}
			v = st.Val
			continue
		case *ssa.ChangeType:
			v = x.X
			continue
		}
		break
	}
	if v == ssa.Value(prm) {
		return true
	}
	q, ok := v.(*ssa.Parameter)
	if !ok {
		return false
	}
	fn := q.Parent()
	idx := -1
	for i, x := range fn.Params {
		if x == q {
			idx = i
		}
	}
	sites := c.P.syncCallers(fn)
	if idx < 0 || len(sites) == 0 {
		return false
	}
	for _, s := range sites {
		if idx >= len(s.Common().Args) || !c.isParamOrForwarded(s.Common().Args[idx], prm) {
			return false
		}
	}
	return true
}

// cancelSentOnEveryPath: R06.13. sel is the select in which a waiting call watches its context, arm
// the comparison "chosen index == that case". From the arm's entry every path back to the select (or
// to a successful return) hands a request to the connection loop; only a return with an error (the
// cancel could not be marshalled) may skip it. An exemption such as "channel calls are cancelled by
// the subscription watcher" leaves a subscribing call that is still in flight without any cancel.
func (c *Ctx) cancelSentOnEveryPath(rule string, sel *ssa.Select, arm *ssa.BinOp) {
	r := c.R
	var entry *ssa.BasicBlock
	for _, ref := range *arm.Referrers() {
		if iff, ok := ref.(*ssa.If); ok {
			entry = iff.Block().Succs[0]
		}
	}
	if entry == nil || r.TCreq == nil {
		return
	}
	fn := sel.Parent()
	construct := fmt.Sprintf("%s: cancel sent whenever the call's context is done", fname(fn))
	if c.seenConstruct == nil {
		c.seenConstruct = map[string]bool{}
	}
	if c.seenConstruct[rule+construct] {
		return
	}
	c.seenConstruct[rule+construct] = true
	sends := func(x ssa.Instruction) bool {
		if x == ssa.Instruction(sel) {
			return false
		}
		switch y := x.(type) {
		case *ssa.Send:
			return y.X.Type() == types.Type(r.TCreq)
		case *ssa.Select:
			for _, st := range y.States {
				if st.Dir == types.SendOnly && st.Send.Type() == types.Type(r.TCreq) {
					return true
				}
			}
		case *ssa.Return:
			if y.Parent() != fn {
				return false
			}
			for _, rv := range y.Results {
				if isErrorType(rv.Type()) {
					if k, ok := rv.(*ssa.Const); !ok || !k.IsNil() {
						return true
					}
				}
			}
		}
		return false
	}
	back := func(x ssa.Instruction) bool {
		if x == ssa.Instruction(sel) {
			return true
		}
		ret, ok := x.(*ssa.Return)
		return ok && ret.Parent() == fn
	}
	if bad := reachFromBlock(entry, back, sends); bad != nil {
		c.bad(rule, construct, c.ipos(bad), "a path leaves the context-done arm without handing a cancel request to the connection loop (e.g. an exemption for channel-returning calls): a call of that kind whose context ends while it is in flight is never cancelled on the server")
	} else {
		c.ok(rule, construct, c.ipos(sel), "every path through the arm sends a request (or fails with an error)")
	}
}

// wrapperKeepsRequestContext: R06.15. In the auth package every (*http.Request).WithContext(ctx) is
// given a ctx that derives from (*http.Request).Context() through cancellation-preserving steps
// (WithValue, WithCancel … — not WithoutCancel, not Background).
func (c *Ctx) wrapperKeepsRequestContext(rule string) {
	p := c.P
	if p.Auth == nil {
		return
	}
	n := 0
	isReqCtx := func(v ssa.Value) bool {
		ci, ok := v.(*ssa.Call)
		return ok && calleeName(ci) == "(*net/http.Request).Context"
	}
	for _, fn := range p.Funcs {
		if pkgOf(fn) != p.Auth.Pkg {
			continue
		}
		allInstrsRaw(fn, func(in ssa.Instruction) {
			ci, ok := in.(*ssa.Call)
			if !ok || calleeName(ci) != "(*net/http.Request).WithContext" {
				return
			}
			n++
			c.check(c.ctxDerives(ci.Common().Args[1], isReqCtx, 0, map[ssa.Value]bool{}), rule, fmt.Sprintf("%s: context of the request handed on", fname(fn)), c.ipos(ci),
				"derives from the incoming request's context", "the request handed to the next handler carries a context that is cut off from the incoming request's (context.WithoutCancel, Background): aborting an authenticated HTTP call no longer cancels its handler")
		})
	}
	if n == 0 {
		c.ok(rule, "auth wrapper", "-", "no request is given another context")
	}
}
