package main

import (
	"fmt"
	"go/token"
	"go/types"
	"strings"

	"golang.org/x/tools/go/ssa"
)

func init() {
	register(&propInfo{
		ID:          "C07",
		Explanation: "Path, lock and sibling-agreement analysis of channel streaming: (R07.1) in the forwarding goroutine, between adding a registered channel to the select set and the next select, the response announcing that channel is written through the connection's locked message writer; the forwarder is started once (sync.Once) and is the only receiver of registrations; (R07.2) after a successful registration the dispatcher emits no reply of its own; (R07.3) the client's buffer is a FIFO: push and pop ends of the list are opposite; (R07.4) intake is decoupled from the consumer: the sink's hand-over into the intake channel is a select alternative to the subscription context, and the buffering goroutine never disables or rewrites a select case once the case list is built (it only appends the consumer case when there is something to deliver); (R07.5) value and close callbacks of one sink run under that sink's lock, which is only ever taken while the sink-table lock is held (lock coupling, so frames of one stream cannot overtake each other); (R07.6) the forwarder's two parallel slices (select cases and channel ids) are updated by the same removal scheme; (R07.7) inbound frames are executed in arrival order by one executor with synchronous dispatch of responses, values and closes. (R07.10) a sink leaves the table only together with its close. (R07.11) no value is filtered by a test of its payload bytes. (R07.12) no channel id is arithmetic on a length; (R07.13) the forwarder never receives from one channel directly; (R07.14) an element leaves the client-side buffer only when it was handed to the caller. (R07.15) the forwarder returns because of an error only when it comes from a socket write. (R07.16) the frame executor never blocks on something only a finishing handler releases. (R07.17) a possibly nil call context (client functions without a context parameter) is never dereferenced without a test for nil.",
		NotDecided:  "Element values and the index arithmetic of the swap-remove beyond the two slices using the same scheme; real producer/consumer speeds.",
		Assumptions: []string{"container/list semantics", "reflect.Select picks among the cases it is given; a zero Chan disables a case"},
		Run:         runC07,
	})
}

// sliceOps: per element type, how a function rearranges slices: element moves
// (s[i] = s[j]) and low-bound reslices (s[k:]) used by splice removal.
type sliceSig struct{ moves, lowOnly, highOnly int }

func sliceSignature(fn *ssa.Function, elem func(types.Type) bool) sliceSig {
	var sg sliceSig
	allInstrs(fn, func(in ssa.Instruction) {
		switch x := in.(type) {
		case *ssa.Store:
			ia, ok := x.Addr.(*ssa.IndexAddr)
			if !ok {
				return
			}
			sl, ok := ia.X.Type().Underlying().(*types.Slice)
			if !ok || !elem(sl.Elem()) {
				return
			}
			if ld, ok := x.Val.(*ssa.UnOp); ok && ld.Op == token.MUL {
				if ia2, ok := ld.X.(*ssa.IndexAddr); ok {
					if sl2, ok := ia2.X.Type().Underlying().(*types.Slice); ok && elem(sl2.Elem()) {
						sg.moves++
					}
				}
			}
		case *ssa.Slice:
			sl, ok := x.X.Type().Underlying().(*types.Slice)
			if !ok || !elem(sl.Elem()) {
				return
			}
			if sliceOnlyRead(x) {
				return // a window that is only iterated over (for _, c := range cases[internal:]) rearranges nothing
			}
			if x.Low != nil && x.High == nil {
				sg.lowOnly++
			}
			if x.Low == nil && x.High != nil {
				sg.highOnly++
			}
		}
	})
	return sg
}

// sliceOnlyRead: the reslice is only measured and read element-wise (ranged over), never kept,
// appended to or copied.
func sliceOnlyRead(x *ssa.Slice) bool {
	if x.Referrers() == nil {
		return true
	}
	for _, ref := range *x.Referrers() {
		switch r := ref.(type) {
		case *ssa.DebugRef:
		case *ssa.Call:
			b, ok := r.Common().Value.(*ssa.Builtin)
			if ok && (b.Name() == "append" || b.Name() == "copy") {
				return false
			}
		case *ssa.IndexAddr:
			if r.Referrers() != nil {
				for _, r2 := range *r.Referrers() {
					if ld, ok := r2.(*ssa.UnOp); !ok || ld.Op != token.MUL {
						if _, isDbg := r2.(*ssa.DebugRef); !isDbg {
							return false
						}
					}
				}
			}
		case *ssa.Index:
		case ssa.CallInstruction:
			// handed to another function as a window (drain(cases[internal:])): whatever that function does
			// to its own slice header does not rearrange this one; append / copy do
			if b, isB := r.Common().Value.(*ssa.Builtin); isB && (b.Name() == "append" || b.Name() == "copy") {
				return false
			}
		default:
			return false
		}
	}
	return true
}

func (c *Ctx) parallelSliceRule(rule string) {
	w := c.ws()
	if !c.needWS(rule, "outChans", w.OutChans) {
		return
	}
	isCase := func(t types.Type) bool { return isNamed(t, "reflect", "SelectCase") }
	isID := func(t types.Type) bool {
		b, ok := t.Underlying().(*types.Basic)
		return ok && b.Kind() == types.Uint64
	}
	var a, b sliceSig
	for _, g := range c.region(w.OutChans) {
		x, y := sliceSignature(g, isCase), sliceSignature(g, isID)
		if g != w.OutChans && (x == sliceSig{} || y == sliceSig{}) {
			continue // a helper that rearranges only one kind of slice (its own copy of the case list, say) is not the paired removal
		}
		a.moves, a.lowOnly, a.highOnly = a.moves+x.moves, a.lowOnly+x.lowOnly, a.highOnly+x.highOnly
		b.moves, b.lowOnly, b.highOnly = b.moves+y.moves, b.lowOnly+y.lowOnly, b.highOnly+y.highOnly
	}
	construct := fmt.Sprintf("%s: select cases and channel ids are removed by the same scheme", fname(w.OutChans))
	same := a.moves == b.moves && a.lowOnly == b.lowOnly && a.highOnly == b.highOnly
	c.check(same, rule, construct, c.P.pos(w.OutChans.Pos()), fmt.Sprintf("cases %+v, ids %+v", a, b),
		fmt.Sprintf("the two parallel slices are rearranged differently when a channel closes (cases %+v vs ids %+v, e.g. order-preserving splice vs swap-with-last): with three or more open channels the ids drift away from their cases and values/closes are delivered under another subscription's id", a, b))
}

func runC07(c *Ctx) {
	p, r := c.P, c.R
	c.rule("R07.16", "subscriptions and calls on a connection do not hold each other up: the frame executor never blocks on something only a finishing handler releases")
	c.executorNeverWaitsForHandlers("R07.16")
	c.rule("R07.17", "a subscription through a client function without a context parameter works: the stream constructor never dereferences the possibly nil context without a test for nil")
	c.nilContextRule("R07.17")
	w := c.ws()
	c.rule("R07.1", "announce before the channel joins the select set, through the locked writer; forwarder started once; sole receiver of registrations")
	c.rule("R07.2", "no reply after a successful channel registration")
	c.rule("R07.3", "client buffer is FIFO")
	c.rule("R07.4", "intake decoupled from the consumer")
	c.rule("R07.5", "sink callbacks under the sink lock, taken only while the table lock is held")
	c.rule("R07.6", "parallel slices of the forwarder use the same removal scheme")
	c.rule("R07.7", "frames executed in arrival order with synchronous dispatch")
	c.rule("R07.14", "lossless: a value leaves the client-side buffer only by having been handed to the caller")
	c.removedOnlyWhenDelivered("R07.14")
	c.rule("R07.15", "streams are independent: the forwarder gives up (returns) because of an error only when that error comes from writing to the socket — a value that cannot be encoded costs that value, not every stream on the connection")
	c.forwarderReturnsOnlyOnWriteError("R07.15")
	c.ruleOpt("R07.13", "the forwarder takes values only through its one reflect.Select over all open channels: it never receives from a particular channel directly (draining one stream in a loop starves the others and the intake of new channels)")
	if w.OutChans != nil {
		n := 0
		for _, g := range c.region(w.OutChans) {
			allInstrsRaw(g, func(in ssa.Instruction) {
				ci, ok := in.(ssa.CallInstruction)
				if !ok {
					return
				}
				switch calleeName(ci) {
				case "(reflect.Value).TryRecv", "(reflect.Value).Recv":
					n++
					c.bad("R07.13", fmt.Sprintf("%s: direct receive from a user channel", fname(g)), c.ipos(in), "the forwarder receives from one channel directly instead of through the select over all of them: as long as that channel has values ready no other stream's value is forwarded and no new channel is registered — a fast producer stalls every other subscription on the connection")
				}
			})
		}
		if n == 0 {
			c.ok("R07.13", fmt.Sprintf("%s: values taken only through reflect.Select", fname(w.OutChans)), p.pos(w.OutChans.Pos()), "no Recv/TryRecv in the forwarder's region")
		}
	}
	c.ruleOpt("R07.12", "channel ids are never derived from the size of a collection (which shrinks when a stream ends, so a later stream would get the id of one that is still live)")
	c.idsNotFromLength("R07.12")

	// ---- R07.1
	if c.needWS("R07.1", "outChans", w.OutChans) {
		oc := w.OutChans
		// the store of the registered channel into a select case
		var join ssa.Instruction
		// … possibly inside a helper of the forwarder (a small type that keeps the case list): then the
		// joining point is the helper's call in the forwarder
		if rch, ok := r.FReg.Type().(*types.Chan); ok {
			isRegField := func(v ssa.Value) bool {
				ld, ok := v.(*ssa.UnOp)
				if !ok || ld.Op != token.MUL {
					return false
				}
				sfa, ok := ld.X.(*ssa.FieldAddr)
				if !ok {
					return false
				}
				n, ok := sfa.X.Type().Underlying().(*types.Pointer)
				return ok && n.Elem() == rch.Elem()
			}
			for _, g := range c.region(oc) {
				if g == oc {
					continue
				}
				allInstrsRaw(g, func(in ssa.Instruction) {
					st, ok := in.(*ssa.Store)
					if !ok {
						return
					}
					fa, ok := st.Addr.(*ssa.FieldAddr)
					if !ok || !isNamed(fa.X.Type(), "reflect", "SelectCase") || !isNamed(st.Val.Type(), "reflect", "Value") {
						return
					}
					if !c.dependsOn(st.Val, isRegField, 0, map[ssa.Value]bool{}) {
						return
					}
					allInstrs(oc, func(x ssa.Instruction) {
						if ci, ok := x.(*ssa.Call); ok {
							if h := p.syncCallee(ci); h != nil && p.inCone(h, in) {
								join = x
							}
						}
					})
				})
			}
		}
		allInstrs(oc, func(in ssa.Instruction) {
			st, ok := in.(*ssa.Store)
			if !ok {
				return
			}
			fa, ok := st.Addr.(*ssa.FieldAddr)
			if !ok || !isNamed(fa.X.Type(), "reflect", "SelectCase") {
				return
			}
			// value loaded from a field of the registration record
			if ld, ok := st.Val.(*ssa.UnOp); ok && ld.Op == token.MUL {
				if sfa, ok := ld.X.(*ssa.FieldAddr); ok {
					if n, ok := sfa.X.Type().Underlying().(*types.Pointer); ok {
						if ch, ok := r.FReg.Type().(*types.Chan); ok && n.Elem() == ch.Elem() {
							join = in
						}
					}
				}
			}
		})
		construct := fmt.Sprintf("%s: announcement precedes the channel's first value", fname(oc))
		if join == nil {
			c.und("R07.1", construct, p.pos(oc.Pos()), "could not find where a registered channel joins the select set")
		} else {
			isSelect := func(in ssa.Instruction) bool {
				ci, ok := in.(*ssa.Call)
				return ok && calleeName(ci) == "reflect.Select"
			}
			isAnnounce := func(in ssa.Instruction) bool { return c.isSocketNextWriter(in) }
			wv := reachFrom(join, isSelect, isAnnounce)
			c.check(wv == nil, "R07.1", construct, c.ipos(join), "every path from joining the select set to the next select writes the announcement through the locked writer",
				"a registered channel can be selected on before its announcing response was written through the locked message writer: the first value can precede (or interleave with) the response that tells the client about the channel")
			// the announcement closure writes a response whose id/result come from the registration record (R09.2 covers the id)
		}
		// forwarder started once
		var spawns []ssa.Instruction
		for _, fn := range p.Funcs {
			allInstrs(fn, func(in ssa.Instruction) {
				if g, ok := in.(*ssa.Go); ok && p.unbound(staticCallee(g)) == oc {
					spawns = append(spawns, in)
				}
			})
		}
		cons2 := fmt.Sprintf("%s: started once per connection", fname(oc))
		if len(spawns) == 0 {
			c.bad("R07.1", cons2, p.pos(oc.Pos()), "the forwarding goroutine is never started")
		}
		for _, s := range spawns {
			underOnce := c.onlyUnderConnOnce(s.Parent(), 0)
			c.check(underOnce, "R07.1", cons2, c.ipos(s), "under the connection's sync.Once", "the forwarding goroutine can be started more than once for a connection: two forwarders split the registrations and values of one stream are written out of order")
		}
		// sole receiver of registrations: every non-send use of the registration channel is in the forwarder
		for _, u := range p.uses(r.FReg) {
			switch u.Kind {
			case "store", "send", "select-send":
				continue
			}
			if c.isConstruction(u) {
				continue
			}
			c.check(u.Fn == oc, "R07.1", fmt.Sprintf("%s: use of the registration channel", fname(u.Fn)), c.ipos(u.At), "in the forwarder", "registrations are consumed outside the single forwarding goroutine")
		}
	}

	// ---- R07.2
	c.registrarRule("R07.2")

	// ---- R07.3
	{
		used := map[string]ssa.Instruction{}
		c.bufInstrs(func(in ssa.Instruction) {
			if ci, ok := in.(*ssa.Call); ok {
				switch calleeName(ci) {
				case "(*container/list.List).PushBack":
					used["PushBack"] = in
				case "(*container/list.List).PushFront":
					used["PushFront"] = in
				case "(*container/list.List).Front":
					used["Front"] = in
				case "(*container/list.List).Back":
					used["Back"] = in
				}
			}
		})
		if len(used) == 0 {
			c.und("R07.3", "client buffer", "-", "no container/list buffer found")
		} else {
			construct := fmt.Sprintf("%s: buffer discipline", fname(c.bufferingGoroutine()))
			fifo := (used["PushBack"] != nil && used["Front"] != nil && used["PushFront"] == nil && used["Back"] == nil) ||
				(used["PushFront"] != nil && used["Back"] != nil && used["PushBack"] == nil && used["Front"] == nil)
			var at ssa.Instruction
			for _, k := range []string{"PushBack", "PushFront", "Front", "Back"} {
				if used[k] != nil {
					at = used[k]
				}
			}
			c.check(fifo, "R07.3", construct, c.ipos(at), "push and pop at opposite ends", "values are pushed and popped at the same end of the buffer (LIFO): whenever more than one value is buffered the caller receives them out of order")
		}
	}

	// ---- R07.4
	c.decouplingRule("R07.4")

	// ---- R07.5
	if c.need("R07.5", "sink lock / sink table", r.FChanhLk != nil && r.FChanh != nil) {
		li := p.lockInfo()
		// the table lock: most frequent lock at accesses of the sink table
		cnt := map[lockID]int{}
		for _, u := range p.uses(r.FChanh) {
			if c.isConstruction(u) || u.Kind == "subfield" || u.Kind == "addr-arg" {
				continue
			}
			for l := range li.mustAt(u.At) {
				cnt[l]++
			}
		}
		var table lockID
		best := 0
		for l, n := range cnt {
			if n > best || (n == best && l.String() < table.String()) {
				best, table = n, l
			}
		}
		n := 0
		for _, in := range li.acquires {
			id, _ := p.lockOp(in.(*ssa.Call))
			if id.Field != r.FChanhLk {
				continue
			}
			n++
			construct := fmt.Sprintf("%s: acquire of a sink's lock", fname(in.Parent()))
			c.check(best > 0 && li.mustAt(in)[table], "R07.5", construct, c.ipos(in), "taken while the table lock is held",
				"a sink's lock is taken after the table lock was released: a later frame of the same stream (or its close) can take the sink lock first and be delivered out of order")
		}
		if n == 0 {
			c.bad("R07.5", "sink lock", "-", "sinks are no longer locked")
		}
		// callbacks under the sink lock
		for _, u := range usesOfKind(p.uses(r.FChanhCb), "call") {
			construct := fmt.Sprintf("%s: sink callback", fname(u.Fn))
			held := false
			for l := range li.mustAt(u.At) {
				if l.Field == r.FChanhLk {
					held = true
				}
			}
			c.check(held, "R07.5", construct, c.ipos(u.At), "under the sink's lock", "a sink callback runs without the sink's lock")
		}
	}

	// ---- R07.6
	c.parallelSliceRule("R07.6")

	// ---- R07.7
	c.arrivalOrderRule("R07.7")

	// ---- R07.8
	c.rule("R07.8", "the caller's channel is closed only when the subscription context is done or when the buffer is empty")
	c.closeWhenDrained("R07.8")
	c.rule("R07.11", "no value is filtered out by a test of its payload bytes on the way to the caller (null is a legal element)")
	c.valuesNotFiltered("R07.11")
	c.rule("R07.10", "a stream's sink leaves the table only together with its close (a removal keyed by something else — an outgoing channel id — silently cuts off an unrelated incoming stream)")
	c.removalClosesRule("R07.10")
	c.rule("R07.9", "every streamed value is decoded into memory allocated for that value (no recycled targets shared between values or subscriptions)")
	c.freshStreamValue("R07.9")
}

// decouplingRule: R07.4
func (c *Ctx) decouplingRule(rule string) {
	p := c.P
	buf := c.bufferingGoroutine()
	if !c.need(rule, "client buffering goroutine", buf != nil) {
		return
	}
	construct := fmt.Sprintf("%s: intake is always selected on", fname(buf))
	// intake channel: captured variable of type chan reflect.Value
	okAll := true
	hasIntake := false
	var intakeVar interface{}
	c.bufInstrs(func(in ssa.Instruction) {
		switch x := in.(type) {
		case *ssa.Call:
			if calleeName(x) == "reflect.ValueOf" {
				a := stripConv(x.Common().Args[0])
				if ch, ok := a.Type().Underlying().(*types.Chan); ok && isNamed(ch.Elem(), "reflect", "Value") {
					hasIntake = true
					// the case must carry the intake itself, not "the intake or nil" chosen by some condition
					var nilEdge func(v ssa.Value, d int) bool
					nilEdge = func(v ssa.Value, d int) bool {
						if d > 4 {
							return false
						}
						if ph, ok := v.(*ssa.Phi); ok {
							for _, e := range ph.Edges {
								if isNilConst(e) || nilEdge(e, d+1) {
									return true
								}
							}
						}
						return false
					}
					if nilEdge(a, 0) {
						okAll = false
						c.bad(rule, construct, c.ipos(x), "the intake case is replaced by a nil channel under some condition (e.g. while the buffer is long): once the intake is not drained, the sink blocks inside the single frame executor and every call and stream on the connection stalls behind one slow consumer")
					}
					if ld, ok := a.(*ssa.UnOp); ok && ld.Op == token.MUL {
						intakeVar = c.locKey(ld.X)
					}
				}
			}
		case *ssa.Store:
			// stores into elements of an existing []SelectCase (not the literal's backing array)
			if fa, ok := x.Addr.(*ssa.FieldAddr); ok {
				if ia, ok := fa.X.(*ssa.IndexAddr); ok {
					if sl, ok := ia.X.Type().Underlying().(*types.Slice); ok && isNamed(sl.Elem(), "reflect", "SelectCase") {
						okAll = false
						c.bad(rule, construct, c.ipos(x), "a select case is rewritten after the case list was built (e.g. the intake case is disabled while the buffer is long): once the intake is not drained, the sink blocks inside the single frame executor and every call and stream on the connection stalls behind one slow consumer")
					}
				}
			}
			if ia, ok := x.Addr.(*ssa.IndexAddr); ok {
				if sl, ok := ia.X.Type().Underlying().(*types.Slice); ok && isNamed(sl.Elem(), "reflect", "SelectCase") {
					okAll = false
					c.bad(rule, construct, c.ipos(x), "a select case is replaced after the case list was built")
				}
			}
		}
	})
	// the value put into the intake case's Chan is reflect.ValueOf(intake) on every way there: a variable
	// that is reset to the zero reflect.Value under some condition (Select ignores such a case) disables
	// the intake just like a nil channel
	c.bufInstrs(func(in ssa.Instruction) {
		st, ok := in.(*ssa.Store)
		if !ok || !isNamed(st.Val.Type(), "reflect", "Value") {
			return
		}
		fa, ok := st.Addr.(*ssa.FieldAddr)
		if !ok || !isNamed(fa.X.Type(), "reflect", "SelectCase") {
			return
		}
		os := c.origins(st.Val)
		isIntake, hasZero := false, false
		for _, o := range os {
			if call, ok := o.Root.(*ssa.Call); ok && len(o.Fields) == 0 && calleeName(call) == "reflect.ValueOf" {
				a := stripConv(call.Common().Args[0])
				if ch, ok := a.Type().Underlying().(*types.Chan); ok && isNamed(ch.Elem(), "reflect", "Value") {
					isIntake = true
				}
			}
			if k, ok := o.Root.(*ssa.Const); ok && k.Value == nil {
				hasZero = true
			}
			if al, ok := o.Root.(*ssa.Alloc); ok && len(o.Fields) == 0 {
				hasZero = true // a zero-valued local
				_ = al
			}
		}
		if isIntake && hasZero {
			okAll = false
			c.bad(rule, construct, c.ipos(st), "the intake case gets the zero reflect.Value under some condition (e.g. while the backlog is long), which makes Select ignore it: once the intake is not drained, the sink blocks inside the single frame executor and every call and stream on the connection stalls behind one slow consumer")
		}
	})
	if !hasIntake {
		okAll = false
		c.bad(rule, construct, p.pos(buf.Pos()), "the intake channel is not among the select cases")
	}
	// the intake variable is given up (set to nil) only once the intake was closed (receive reported !ok)
	if intakeVar != nil {
		var selOK ssa.Value
		c.bufInstrs(func(in ssa.Instruction) {
			if ci, ok := in.(*ssa.Call); ok && calleeName(ci) == "reflect.Select" {
				for _, ref := range *ci.Referrers() {
					if ex, ok := ref.(*ssa.Extract); ok && ex.Index == 2 {
						selOK = ex
					}
				}
			}
		})
		c.bufInstrs(func(in ssa.Instruction) {
			st, ok := in.(*ssa.Store)
			if !ok || c.locKey(st.Addr) != intakeVar || !isNilConst(st.Val) {
				return
			}
			if selOK == nil || !condKnown(st.Block(), selOK, false) {
				okAll = false
				c.bad(rule, construct, c.ipos(st), "the intake is switched off although it was not closed: values the sink hands over afterwards are never taken, and the sink blocks the frame executor")
			}
		})
	}
	if okAll {
		c.ok(rule, construct, p.pos(buf.Pos()), "intake case built unconditionally and never rewritten")
	}
	// the sink: whatever function sends into the intake must do so inside a select with ctx.Done()
	n := 0
	for _, sib := range c.sinkFuncs() {
		sib := sib
		allInstrs(sib, func(in ssa.Instruction) {
			switch x := in.(type) {
			case *ssa.Send:
				if isIntakeChan(x.Chan) {
					n++
					c.bad(rule, fmt.Sprintf("%s: hand-over into the intake", fname(sib)), c.ipos(x), "bare send into the intake: when the subscription was cancelled (buffer goroutine gone) the frame executor blocks for ever")
				}
			case *ssa.Select:
				for _, st := range x.States {
					if st.Dir == types.SendOnly && isIntakeChan(st.Chan) {
						n++
						hasCtx := false
						for _, s2 := range x.States {
							if call, ok := s2.Chan.(*ssa.Call); ok && s2.Dir == types.RecvOnly && call.Common().IsInvoke() && call.Common().Method.Name() == "Done" {
								hasCtx = true
							}
						}
						c.check(hasCtx, rule, fmt.Sprintf("%s: hand-over into the intake", fname(sib)), c.ipos(x), "select alternative to the subscription context", "the hand-over into the intake does not watch the subscription context")
					}
				}
			}
		})
	}
	if n == 0 {
		c.und(rule, "hand-over into the intake", "-", "no send into the intake channel found")
	}

}

// arrivalOrderRule: frames are executed strictly in arrival order. Decided on events, not on
// function names: one executor goroutine; every operation whose order matters (looking a
// response up, invoking a sink, looking a cancel up, registering a handler's cancel function)
// happens synchronously under the executor; the reader queues a frame before the next read starts.
func (c *Ctx) arrivalOrderRule(rule string) {
	p, r := c.P, c.R
	w := c.ws()
	if r.FnExec == nil {
		c.und(rule, "frame executor", "-", "not resolved")
		return
	}
	var spawns []*ssa.Go
	for _, fn := range p.Funcs {
		allInstrsRaw(fn, func(in ssa.Instruction) {
			if g, ok := in.(*ssa.Go); ok && p.unbound(staticCallee(g)) == r.FnExec {
				spawns = append(spawns, g)
			}
		})
	}
	construct := fmt.Sprintf("%s: single frame executor", fname(r.FnExec))
	switch {
	case len(spawns) != 1:
		c.bad(rule, construct, p.pos(r.FnExec.Pos()), fmt.Sprintf("the frame executor is started %d times: frames would be executed concurrently, out of arrival order", len(spawns)))
	case inLoop(spawns[0].Block()):
		c.bad(rule, construct, c.ipos(spawns[0]), "the frame executor is started inside a loop")
	default:
		c.ok(rule, construct, c.ipos(spawns[0]), "started once, outside any loop")
	}
	// exactly one dequeue point, dispatching synchronously
	type ev struct {
		what string
		at   ssa.Instruction
	}
	var evs []ev
	for _, u := range usesOfKind(p.uses(r.FInflight), "maplookup") {
		evs = append(evs, ev{"response lookup", u.At})
	}
	for _, u := range usesOfKind(p.uses(r.FHandling), "maplookup") {
		evs = append(evs, ev{"cancel lookup", u.At})
	}
	for _, u := range usesOfKind(p.uses(r.FHandling), "mapupdate") {
		evs = append(evs, ev{"registration of a handler's cancel function", u.At})
	}
	for _, u := range usesOfKind(p.uses(r.FChanh), "maplookup") {
		if w.SinkCloser != nil && p.inCone(w.SinkCloser, u.At) && !p.inCone(r.FnExec, u.At) {
			continue // the connection-loss sweep
		}
		evs = append(evs, ev{"sink lookup", u.At})
	}
	for _, e := range evs {
		cons := fmt.Sprintf("%s: %s happens in frame order", fname(e.at.Parent()), e.what)
		c.check(p.inCone(r.FnExec, e.at), rule, cons, c.ipos(e.at), "synchronously under the frame executor",
			"this step is not reached synchronously from the frame executor (it runs on another goroutine): frames of one connection are no longer handled in arrival order — a channel value can overtake the response announcing its channel, a cancel can overtake its call")
	}
	if len(evs) == 0 {
		c.und(rule, "frame-order events", "-", "no response / cancel / sink lookup found")
	}
	// the reader queues a frame before the next read is started
	if w.ReadFrame != nil && w.Reader != nil {
		isEnq := func(x ssa.Instruction) bool {
			switch y := x.(type) {
			case *ssa.Send:
				return c.fieldVal(y.Chan, r.FQueue)
			case *ssa.Select:
				for _, st := range y.States {
					if st.Dir == types.SendOnly && c.fieldVal(st.Chan, r.FQueue) {
						return true
					}
				}
			}
			return false
		}
		n := 0
		// the function that takes a frame off the socket: the one that queues it, or — when the
		// queueing itself sits in a helper — the helper's caller
		top := w.ReadFrame
		for up := 0; up < 3; up++ {
			p.coneInstrs(top, func(in ssa.Instruction) {
				g, ok := in.(*ssa.Go)
				if !ok || p.unbound(staticCallee(g)) != w.Reader {
					return
				}
				n++
				cons := fmt.Sprintf("%s: enqueue before starting the next read", fname(in.Parent()))
				c.check(mustPrecedeIP(g, isEnq, 0), rule, cons, c.ipos(g), "queued first", "the next frame can be read and queued before this one: frames are executed out of arrival order")
			})
			callers := p.syncCallers(top)
			if n > 0 || len(callers) != 1 || p.asyncUsed(top) || callers[0].Parent() == r.FnLoop {
				break
			}
			top = callers[0].Parent()
		}
		if n == 0 {
			c.bad(rule, fmt.Sprintf("%s: enqueue before starting the next read", fname(w.ReadFrame)), p.pos(w.ReadFrame.Pos()), "the frame reader no longer restarts the socket read after queueing a frame")
		}
	}
}

// onlyUnderConnOnce: fn only ever runs as (part of) the function handed to Do of a sync.Once
// that is a field of the connection.
func (c *Ctx) onlyUnderConnOnce(fn *ssa.Function, depth int) bool {
	p, r := c.P, c.R
	if depth > ipMaxDepth {
		return false
	}
	n := 0
	for _, ci := range p.callers[fn] {
		call, ok := ci.(*ssa.Call)
		if !ok {
			return false
		}
		n++
		if !c.onlyUnderConnOnce(call.Parent(), depth+1) {
			return false
		}
	}
	for _, mc := range p.closure[fn] {
		for _, ref := range *mc.Referrers() {
			switch x := ref.(type) {
			case *ssa.DebugRef:
			case *ssa.Call:
				if x.Common().Value == ssa.Value(mc) {
					n++
					if !c.onlyUnderConnOnce(x.Parent(), depth+1) {
						return false
					}
					continue
				}
				if calleeName(x) != "(*sync.Once).Do" {
					return false
				}
				fa, ok := x.Common().Args[0].(*ssa.FieldAddr)
				if !ok || !types.Identical(fa.X.Type(), types.NewPointer(r.TConn)) {
					return false
				}
				n++
			default:
				return false
			}
		}
	}
	return n > 0
}

// bufferingGoroutine: the entry of the client goroutine that multiplexes with reflect.Select and
// buffers in a container/list: a function started with `go` whose call cone contains both (the
// server-side forwarder also uses reflect.Select, but no list).
func (c *Ctx) bufferingGoroutine() *ssa.Function {
	if c.bufEntryDone {
		return c.bufEntry
	}
	c.bufEntryDone = true
	p := c.P
	has := func(fn *ssa.Function) (sel, lst bool) {
		p.coneInstrs(fn, func(in ssa.Instruction) {
			if ci, ok := in.(*ssa.Call); ok {
				n := calleeName(ci)
				if n == "reflect.Select" {
					sel = true
				}
				if strings.HasPrefix(n, "(*container/list.List)") {
					lst = true
				}
			}
		})
		return
	}
	for _, fn := range p.Funcs {
		if pkgOf(fn) != p.Root.Pkg {
			continue
		}
		allInstrsRaw(fn, func(in ssa.Instruction) {
			g, ok := in.(*ssa.Go)
			if !ok {
				return
			}
			tgt := p.unbound(staticCallee(g))
			if tgt == nil || !p.allFns[tgt] {
				return
			}
			if sel, lst := has(tgt); sel && lst {
				c.bufEntry = tgt
			}
		})
	}
	return c.bufEntry
}

// bufFuncs: the functions making up the buffering goroutine (its entry, helpers, literals).
func (c *Ctx) bufFuncs() []*ssa.Function {
	e := c.bufferingGoroutine()
	if e == nil {
		return nil
	}
	return c.region(e)
}

func (c *Ctx) bufInstrs(f func(ssa.Instruction)) {
	for _, g := range c.bufFuncs() {
		allInstrsRaw(g, f)
	}
}

// isIntakeChan: a channel of reflect.Value (the sink-to-buffer hand-over channel of a client stream).
func isIntakeChan(v ssa.Value) bool {
	ch, ok := v.Type().Underlying().(*types.Chan)
	return ok && isNamed(ch.Elem(), "reflect", "Value")
}

// sinkFuncs: the functions that hand values over into an intake channel or close it (the sink
// callback of a client stream, wherever it lives: closure, method, helper).
func (c *Ctx) sinkFuncs() []*ssa.Function {
	var out []*ssa.Function
	seen := map[*ssa.Function]bool{}
	for _, fn := range c.P.Funcs {
		if pkgOf(fn) != c.P.Root.Pkg {
			continue
		}
		allInstrsRaw(fn, func(in ssa.Instruction) {
			hit := false
			switch x := in.(type) {
			case *ssa.Send:
				hit = isIntakeChan(x.Chan)
			case *ssa.Select:
				for _, st := range x.States {
					if st.Dir == types.SendOnly && isIntakeChan(st.Chan) {
						hit = true
					}
				}
			}
			if hit && !seen[fn] {
				seen[fn] = true
				out = append(out, fn)
			}
		})
	}
	return out
}

// closeWhenDrained: lossless delivery needs that the buffering goroutine closes the caller's channel
// only (a) in the arm chosen for the subscription context, or (b) where the buffer is known to be empty.
// Any other close (an idle timer, a backlog limit, the close notification itself) drops buffered values.
func (c *Ctx) closeWhenDrained(rule string) {
	p := c.P
	buf := c.bufferingGoroutine()
	if !c.need(rule, "client buffering goroutine", buf != nil) {
		return
	}
	// index of the context case in the case list literal
	ctxIdx := int64(-1)
	c.bufInstrs(func(in ssa.Instruction) {
		st, ok := in.(*ssa.Store)
		if !ok {
			return
		}
		fa, ok := st.Addr.(*ssa.FieldAddr)
		if !ok {
			return
		}
		ia, ok := fa.X.(*ssa.IndexAddr)
		if !ok {
			return
		}
		vo, ok := st.Val.(*ssa.Call)
		if !ok || calleeName(vo) != "reflect.ValueOf" {
			return
		}
		if call, ok := stripConv(vo.Common().Args[0]).(*ssa.Call); ok && call.Common().IsInvoke() && call.Common().Method.Name() == "Done" {
			if k, ok := constInt(ia.Index); ok {
				ctxIdx = k
			}
		}
	})
	var chosen ssa.Value
	c.bufInstrs(func(in ssa.Instruction) {
		if ci, ok := in.(*ssa.Call); ok && calleeName(ci) == "reflect.Select" {
			for _, ref := range *ci.Referrers() {
				if ex, ok := ref.(*ssa.Extract); ok && ex.Index == 0 {
					chosen = ex
				}
			}
		}
	})
	n := 0
	c.bufInstrs(func(in ssa.Instruction) {
		ci, ok := in.(*ssa.Call)
		if !ok || calleeName(ci) != "(reflect.Value).Close" {
			return
		}
		n++
		construct := fmt.Sprintf("%s: close of the caller's channel", fname(in.Parent()))
		justify := func(conds []condFact) string {
			why := ""
			for _, cf := range expandConds(conds) {
				bo, ok := cf.Cond.(*ssa.BinOp)
				if !ok {
					continue
				}
				op := bo.Op
				if !cf.True {
					op = negate(op)
				}
				// (a) chosen == ctxIdx
				if op == token.EQL && chosen != nil && ctxIdx >= 0 {
					if k, ok := constInt(bo.Y); ok && bo.X == chosen && k == ctxIdx {
						why = "in the subscription-context arm"
					}
					if k, ok := constInt(bo.X); ok && bo.Y == chosen && k == ctxIdx {
						why = "in the subscription-context arm"
					}
				}
				// (b) buf.Len() == 0 (or <= 0, < 1)
				isLen := func(v ssa.Value) bool {
					call, ok := v.(*ssa.Call)
					return ok && calleeName(call) == "(*container/list.List).Len"
				}
				L, R := bo.X, bo.Y
				if isLen(R) {
					L, R = R, L
					op = flip(op)
				}
				if isLen(L) {
					if k, ok := constInt(R); ok {
						if (op == token.EQL && k == 0) || (op == token.LEQ && k == 0) || (op == token.LSS && k == 1) {
							why = "buffer known empty"
						}
					}
				}
			}
			return why
		}
		// the close may sit behind a join (one close after the loop): then every way into it is justified
		var justified func(b *ssa.BasicBlock, depth int) string
		justified = func(b *ssa.BasicBlock, depth int) string {
			if w := justify(impliedConds(b)); w != "" {
				return w
			}
			if depth == 0 || len(b.Preds) == 0 {
				return ""
			}
			all := ""
			for _, pr := range b.Preds {
				conds := append([]condFact{}, impliedConds(pr)...)
				if iff, ok := pr.Instrs[len(pr.Instrs)-1].(*ssa.If); ok {
					conds = append(conds, condFact{Cond: iff.Cond, True: pr.Succs[0] == b})
				}
				w := justify(conds)
				if w == "" {
					if _, isIf := pr.Instrs[len(pr.Instrs)-1].(*ssa.If); !isIf && pr != b {
						w = justified(pr, depth-1)
					}
				}
				if w == "" {
					return ""
				}
				all = "every way in: " + w
			}
			return all
		}
		why := justified(in.Block(), 3)
		c.check(why != "", rule, construct, c.ipos(in), why,
			"the caller's channel can be closed while values are still buffered and the subscription's context is live (e.g. on an idle timer or right at the close notification): the undelivered tail is dropped and the consumer sees a normal-looking close")
	})
	if n == 0 {
		c.und(rule, "close of the caller's channel", p.pos(buf.Pos()), "none found in the buffering goroutine")
	}
}

// valuesNotFiltered: R07.11 / R08.10. Lossless delivery: every value frame for a known sink reaches the
// sink, and every value the sink gets is decoded and queued. No test of the payload's *bytes* may decide
// that (a "defensive" drop of empty or null payloads removes every nil element — a nil pointer, slice,
// map or interface is a legal value and encodes as null — from the middle of a stream). The decoder's
// error and the ok flag are the only payload-related conditions.
func (c *Ctx) valuesNotFiltered(rule string) {
	p, r := c.P, c.R
	n := 0
	payloadTest := func(site ssa.Instruction, isPayload func(ssa.Value) bool) ssa.Value {
		for _, cf := range expandConds(impliedConds(site.Block())) {
			v := cf.Cond
			// the decoder's error is fine
			if bo, ok := v.(*ssa.BinOp); ok && (isNilConst(bo.X) || isNilConst(bo.Y)) {
				other := bo.X
				if isNilConst(bo.X) {
					other = bo.Y
				}
				if isErrorType(other.Type()) {
					continue
				}
			}
			if c.dependsOn(v, isPayload, 0, map[ssa.Value]bool{}) {
				return v
			}
		}
		return nil
	}
	// (a) the executor's hand-over: sink callback invoked with ok = true
	if r.FChanhCb != nil {
		for _, u := range usesOfKind(p.uses(r.FChanhCb), "call") {
			call := u.At.(*ssa.Call)
			args := call.Common().Args
			if len(args) != 2 {
				continue
			}
			if k, isK := args[1].(*ssa.Const); !isK || k.Value == nil || k.Value.String() != "true" {
				continue
			}
			f := loadedField(args[0])
			if f == nil {
				continue
			}
			n++
			construct := fmt.Sprintf("%s: value handed to the sink", fname(u.Fn))
			odd := payloadTest(call, func(x ssa.Value) bool { return loadedField(x) == f })
			c.check(odd == nil, rule, construct, c.ipos(call), "not conditional on the payload's bytes", "the value frame is handed to its sink only if a test of the payload's bytes passes (empty or null payloads are dropped as malformed): a nil element of a stream of pointers, slices, maps or interfaces encodes as null and silently disappears from the middle of the stream")
		}
	}
	// (b) the sink: decode and queue
	for _, sf := range c.sinkFuncs() {
		var payload *ssa.Parameter
		for _, prm := range sf.Params {
			if sl, ok := prm.Type().Underlying().(*types.Slice); ok {
				if b, ok := sl.Elem().Underlying().(*types.Basic); ok && b.Kind() == types.Byte {
					payload = prm
				}
			}
		}
		if payload == nil {
			continue
		}
		allInstrsRaw(sf, func(in ssa.Instruction) {
			hit := false
			switch x := in.(type) {
			case *ssa.Send:
				hit = isIntakeChan(x.Chan)
			case *ssa.Select:
				for _, st := range x.States {
					if st.Dir == types.SendOnly && isIntakeChan(st.Chan) {
						hit = true
					}
				}
			}
			if !hit {
				return
			}
			n++
			construct := fmt.Sprintf("%s: value queued for the caller", fname(sf))
			odd := payloadTest(in, func(x ssa.Value) bool { return x == ssa.Value(payload) })
			c.check(odd == nil, rule, construct, c.ipos(in), "not conditional on the payload's bytes", "the sink queues a value only if a test of the payload's bytes passes (empty or null payloads are ignored): nil elements of a stream silently disappear")
		})
	}
	if n == 0 {
		c.und(rule, "value hand-over", "-", "neither the sink callback invocation nor the sink's queueing was found")
	}
}

// idsNotFromLength: R07.12. Every uint64 the forwarder's region puts into its id list (or a helper's
// id list) does not depend on len() of anything: ids come from a counter that only grows.
func (c *Ctx) idsNotFromLength(rule string) {
	w := c.ws()
	if w.OutChans == nil {
		return
	}
	isLen := func(v ssa.Value) bool {
		call, ok := v.(*ssa.Call)
		if !ok {
			return false
		}
		b, ok := call.Common().Value.(*ssa.Builtin)
		return ok && (b.Name() == "len" || b.Name() == "cap")
	}
	// arithmetic on a length: conversions, + - *, phis, single-assignment locals — no loads of
	// elements, no calls other than len/cap themselves
	var arith func(v ssa.Value, d int) bool
	arith = func(v ssa.Value, d int) bool {
		if v == nil || d > 8 {
			return false
		}
		if isLen(v) {
			return true
		}
		switch x := v.(type) {
		case *ssa.Convert:
			return arith(x.X, d+1)
		case *ssa.ChangeType:
			return arith(x.X, d+1)
		case *ssa.BinOp:
			return arith(x.X, d+1) || arith(x.Y, d+1)
		case *ssa.Phi:
			for _, e := range x.Edges {
				if arith(e, d+1) {
					return true
				}
			}
		case *ssa.UnOp:
			if al, ok := x.X.(*ssa.Alloc); ok && x.Op == token.MUL {
				for _, ref := range *al.Referrers() {
					if st, ok := ref.(*ssa.Store); ok && st.Addr == ssa.Value(al) && arith(st.Val, d+1) {
						return true
					}
				}
			}
			// a field of a local record (the registration): what was stored into that field of it
			if fa, ok := x.X.(*ssa.FieldAddr); ok && x.Op == token.MUL {
				if al, ok := fa.X.(*ssa.Alloc); ok {
					for _, ref := range *al.Referrers() {
						fa2, ok := ref.(*ssa.FieldAddr)
						if !ok || fa2.Field != fa.Field {
							continue
						}
						for _, r2 := range *fa2.Referrers() {
							if st, ok := r2.(*ssa.Store); ok && st.Addr == ssa.Value(fa2) && arith(st.Val, d+1) {
								return true
							}
						}
					}
				}
			}
		}
		return false
	}
	n := 0
	for _, g := range c.region(w.OutChans) {
		allInstrsRaw(g, func(in ssa.Instruction) {
			st, ok := in.(*ssa.Store)
			if !ok {
				return
			}
			ia, ok := st.Addr.(*ssa.IndexAddr)
			if !ok {
				return
			}
			bt, ok := st.Val.Type().Underlying().(*types.Basic)
			if !ok || bt.Kind() != types.Uint64 {
				return
			}
			n++
			_ = ia
			construct := fmt.Sprintf("%s: channel id put into the id list", fname(g))
			c.check(!arith(st.Val, 0), rule, construct, c.ipos(st), "not derived from a length",
				"a channel id is computed from the length of a collection: when a stream ends the collection shrinks and the next stream is given an id that a still-live stream carries — its subscriber receives the other stream's values")
		})
	}
	if n == 0 {
		c.ok(rule, "channel ids", "-", "no id stored into an id list in the forwarder's region")
	}
}

// forwarderReturnsOnlyOnWriteError: R07.15. For every return of the forwarder that stands behind a test
// "err != nil", the tested error originates (through helpers) only from gorilla's write calls.
func (c *Ctx) forwarderReturnsOnlyOnWriteError(rule string) {
	w := c.ws()
	if w.OutChans == nil {
		c.und(rule, "forwarder", "-", "not resolved")
		return
	}
	n := 0
	allInstrs(w.OutChans, func(in ssa.Instruction) {
		ret, ok := in.(*ssa.Return)
		if !ok {
			return
		}
		for _, cf := range impliedConds(ret.Block()) {
			bo, ok := cf.Cond.(*ssa.BinOp)
			if !ok || (bo.Op != token.EQL && bo.Op != token.NEQ) {
				continue
			}
			ev := bo.X
			if isNilConst(bo.X) {
				ev = bo.Y
			} else if !isNilConst(bo.Y) {
				continue
			}
			if !isErrorType(ev.Type()) || cf.True != (bo.Op == token.NEQ) {
				continue
			}
			n++
			construct := fmt.Sprintf("%s: return because of an error", fname(w.OutChans))
			var foreign ssa.Value
			for _, o := range c.origins(ev) {
				switch x := o.Root.(type) {
				case *ssa.Const:
					continue
				case *ssa.Call:
					if strings.HasPrefix(calleeName(x), "(*github.com/gorilla/websocket.Conn).") {
						continue
					}
					if cm := x.Common(); cm.IsInvoke() && (cm.Method.Name() == "Close" || cm.Method.Name() == "Write") {
						continue // the message writer obtained from the socket
					}
				case *ssa.Extract:
					if call, ok := x.Tuple.(*ssa.Call); ok && strings.HasPrefix(calleeName(call), "(*github.com/gorilla/websocket.Conn).") {
						continue
					}
				}
				foreign = o.Root
			}
			if foreign != nil {
				pos := c.ipos(ret)
				if fi, ok := foreign.(ssa.Instruction); ok {
					pos = c.ipos(fi)
				}
				c.bad(rule, construct, pos, "the forwarder can return because of an error that does not come from writing to the socket (e.g. a value that could not be marshalled, merged with the send error by a helper): one unencodable element ends every stream on the connection — the others stall, never close, and new subscriptions hang")
			} else {
				c.ok(rule, construct, c.ipos(ret), "only errors of socket writes")
			}
		}
	})
	if n == 0 {
		c.ok(rule, fmt.Sprintf("%s: return because of an error", fname(w.OutChans)), "-", "no return behind an error test")
	}
}
