package main

import (
	"go/token"
	"go/types"

	"golang.org/x/tools/go/ssa"
)

// FieldUse is one type-resolved operation on a struct field.
type FieldUse struct {
	Fn    *ssa.Function
	Field *types.Var
	Addr  ssa.Value       // the FieldAddr / Field value
	Base  ssa.Value       // the struct (pointer) the field was selected from
	Kind  string          // store, load, mapupdate, maplookup, range, delete, len, close, send, recv, select-send, select-recv, call, addr-arg, arg, subfield
	At    ssa.Instruction // the instruction performing the operation
	Val   ssa.Value       // stored value / sent value / map key, depending on Kind
	Load  ssa.Value       // the loaded field value (when the operation goes through a load)
	Use   ssa.Instruction // for plain loads: the instruction consuming the loaded copy
}

func (u FieldUse) IsWrite() bool {
	switch u.Kind {
	case "store", "mapupdate", "delete", "close", "clear":
		return true
	}
	return false
}

type accessIndex struct {
	byField map[*types.Var][]FieldUse
}

func (p *Prog) accesses() *accessIndex {
	if p.acc != nil {
		return p.acc
	}
	ix := &accessIndex{byField: map[*types.Var][]FieldUse{}}
	add := func(u FieldUse) { ix.byField[u.Field] = append(ix.byField[u.Field], u) }
	for _, fn := range p.Funcs {
		fn := fn
		allInstrs(fn, func(in ssa.Instruction) {
			switch x := in.(type) {
			case *ssa.FieldAddr:
				f := fieldOfAddr(x)
				if f == nil {
					return
				}
				refs := x.Referrers()
				if refs == nil {
					return
				}
				for _, r := range *refs {
					switch rr := r.(type) {
					case *ssa.Store:
						if rr.Addr == x {
							add(FieldUse{Fn: fn, Field: f, Addr: x, Base: x.X, Kind: "store", At: rr, Val: rr.Val})
						} else {
							add(FieldUse{Fn: fn, Field: f, Addr: x, Base: x.X, Kind: "addr-arg", At: rr})
						}
					case *ssa.UnOp:
						if rr.Op == token.MUL {
							classifyLoaded(fn, f, x, x.X, rr, add)
						}
					case *ssa.FieldAddr:
						add(FieldUse{Fn: fn, Field: f, Addr: x, Base: x.X, Kind: "subfield", At: rr})
					case ssa.CallInstruction:
						add(FieldUse{Fn: fn, Field: f, Addr: x, Base: x.X, Kind: "addr-arg", At: rr})
					default:
						add(FieldUse{Fn: fn, Field: f, Addr: x, Base: x.X, Kind: "addr-arg", At: r})
					}
				}
			case *ssa.Field:
				f := fieldOfField(x)
				if f == nil {
					return
				}
				classifyLoaded(fn, f, x, x.X, x, add)
			}
		})
	}
	p.acc = ix
	return ix
}

// classifyLoaded records what is done with a loaded field value.
func classifyLoaded(fn *ssa.Function, f *types.Var, addr, base ssa.Value, ld ssa.Value, add func(FieldUse)) {
	refs := ld.Referrers()
	if refs == nil || len(*refs) == 0 {
		add(FieldUse{Fn: fn, Field: f, Addr: addr, Base: base, Kind: "load", At: ld.(ssa.Instruction), Load: ld})
		return
	}
	for _, r := range *refs {
		u := FieldUse{Fn: fn, Field: f, Addr: addr, Base: base, At: r, Load: ld, Kind: "load"}
		switch rr := r.(type) {
		case *ssa.MapUpdate:
			if rr.Map == ld {
				u.Kind, u.Val = "mapupdate", rr.Key
			}
		case *ssa.Lookup:
			if rr.X == ld {
				u.Kind, u.Val = "maplookup", rr.Index
			}
		case *ssa.Range:
			if rr.X == ld {
				u.Kind = "range"
			}
		case *ssa.Send:
			if rr.Chan == ld {
				u.Kind, u.Val = "send", rr.X
			}
		case *ssa.UnOp:
			if rr.Op == token.ARROW && rr.X == ld {
				u.Kind = "recv"
			}
		case *ssa.Select:
			for _, st := range rr.States {
				if st.Chan == ld {
					if st.Dir == types.SendOnly {
						u.Kind, u.Val = "select-send", st.Send
					} else {
						u.Kind = "select-recv"
					}
				}
			}
		case ssa.CallInstruction:
			c := rr.Common()
			if c.Value == ld && !c.IsInvoke() {
				u.Kind = "call"
			} else if c.IsInvoke() && c.Value == ld {
				u.Kind = "invoke"
			} else if b, ok := c.Value.(*ssa.Builtin); ok {
				switch b.Name() {
				case "delete":
					if c.Args[0] == ld {
						u.Kind, u.Val = "delete", c.Args[1]
					}
				case "len", "cap":
					u.Kind = "len"
				case "close":
					u.Kind = "close"
				case "clear":
					u.Kind = "clear"
				}
			} else {
				u.Kind = "arg"
			}
		}
		if u.Kind == "load" || u.Kind == "arg" {
			// a plain read happens where the field is loaded, not where the copy is used
			if li, ok := ld.(ssa.Instruction); ok {
				u.Use = u.At
				u.At = li
			}
		}
		add(u)
	}
}

func (p *Prog) uses(f *types.Var) []FieldUse {
	if f == nil {
		return nil
	}
	return p.accesses().byField[f]
}

// usesIn filters uses by function set.
func usesIn(us []FieldUse, fns ...*ssa.Function) []FieldUse {
	set := map[*ssa.Function]bool{}
	for _, f := range fns {
		set[f] = true
	}
	var out []FieldUse
	for _, u := range us {
		if set[u.Fn] {
			out = append(out, u)
		}
	}
	return out
}

func usesOfKind(us []FieldUse, kinds ...string) []FieldUse {
	var out []FieldUse
	for _, u := range us {
		for _, k := range kinds {
			if u.Kind == k {
				out = append(out, u)
			}
		}
	}
	return out
}

// loadsField: is v a load of field f (directly)? returns the base.
func loadsField(v ssa.Value, f *types.Var) (base ssa.Value, ok bool) {
	switch x := v.(type) {
	case *ssa.UnOp:
		if x.Op == token.MUL {
			if fa, ok := x.X.(*ssa.FieldAddr); ok && fieldOfAddr(fa) == f {
				return fa.X, true
			}
		}
	case *ssa.Field:
		if fieldOfField(x) == f {
			return x.X, true
		}
	}
	return nil, false
}

// derefChain strips ChangeType/Convert/ChangeInterface/MakeInterface wrappers.
func stripConv(v ssa.Value) ssa.Value {
	for {
		switch x := v.(type) {
		case *ssa.ChangeType:
			v = x.X
		case *ssa.Convert:
			v = x.X
		case *ssa.ChangeInterface:
			v = x.X
		case *ssa.MakeInterface:
			v = x.X
		default:
			return v
		}
	}
}
