package main

import (
	"fmt"
	"go/token"
	"go/types"
	"os"

	"golang.org/x/tools/go/ssa"
)

func init() {
	register(&propInfo{
		ID:          "C18",
		Explanation: "Path, lock-order and site analysis of client shutdown: (R18.1) the WebSocket closer signals stop and then waits for the loop's exit signal; the loop's stop arm returns on every path; (R18.2) in the redial goroutine every dial is preceded, after the back-off sleep, by a check of the loop's context whose done branch returns, every path from a dial to the socket swap passes such a check, and that context is the one cancelled when the loop exits; (R18.3) the lock-order graph over all library mutexes is acyclic and (R18.5) no mutex stays locked on a return path; (R18.4) closers of HTTP and custom-transport clients only close a channel made by their constructor; (R18.6) every loop exit fails in-flight calls, closes sinks, raises the exit signal and cancels the context; the failer empties the table; every enqueue of a request (including the cancel notification) is a select alternative to the exit signal, so callers are released; no deferred cleanup can block (the ping stopper does not wait). (R18.8) the stream buffering goroutine always keeps receiving (the exit cleanup needs the sink-table lock held by the executor during hand-over). (R18.9) a sink is removed from the table, under its lock, before it is closed. (R18.10) the buffering goroutine's exit test looks at the buffer itself. (R18.11) the redial dials with no library mutex held. (R18.12) every socket write is bounded: it is preceded, on every path on which a timeout is configured, by a SetWriteDeadline of a non-zero time that is not lifted again (searched through helpers and callers); WriteControl must be handed a non-zero deadline. The loop writes requests itself and takes the write lock in its dead-peer and stop arms, so an unbounded write parked on a silent peer blocks calls, detection and closer. (R18.13) the accept arm answers or registers every accepted request on every path.",
		NotDecided:  "A loop blocked inside a socket write to a blackholed peer (no write deadline is set by the library), helper goroutines parked on a bare send when the loop exits mid-read (observations in DESIGN.md), real schedules.",
		Assumptions: []string{"lock identity is the mutex field (type-based)"},
		Run:         runC18,
	})
}

// isCtxCheck: an If whose condition tests `ctx.Err() != nil`, or a non-blocking
// select on ctx.Done(); done is the successor taken when the context is done.
func ctxCheck(in ssa.Instruction) (done *ssa.BasicBlock, ctxVal ssa.Value, ok bool) {
	iff, isIf := in.(*ssa.If)
	if !isIf {
		return nil, nil, false
	}
	if bo, isBo := iff.Cond.(*ssa.BinOp); isBo {
		// ctx.Err() != nil
		if (bo.Op == token.NEQ || bo.Op == token.EQL) && (isNilConst(bo.X) || isNilConst(bo.Y)) {
			other := bo.X
			if isNilConst(bo.X) {
				other = bo.Y
			}
			if call, isCall := other.(*ssa.Call); isCall && call.Common().IsInvoke() && call.Common().Method.Name() == "Err" && isNamed(call.Common().Value.Type(), "context", "Context") {
				if bo.Op == token.NEQ {
					return iff.Block().Succs[0], call.Common().Value, true
				}
				return iff.Block().Succs[1], call.Common().Value, true
			}
		}
		// select index == k for a select containing <-ctx.Done()
		if bo.Op == token.EQL {
			if ex, isEx := bo.X.(*ssa.Extract); isEx && ex.Index == 0 {
				if sel, isSel := ex.Tuple.(*ssa.Select); isSel {
					k, _ := constInt(bo.Y)
					if int(k) < len(sel.States) {
						st := sel.States[k]
						if call, isCall := st.Chan.(*ssa.Call); isCall && call.Common().IsInvoke() && call.Common().Method.Name() == "Done" {
							return iff.Block().Succs[0], call.Common().Value, true
						}
					}
				}
			}
		}
	}
	return nil, nil, false
}

func runC18(c *Ctx) {
	p, r := c.P, c.R
	w := c.ws()
	c.rule("R18.1", "the WebSocket closer signals stop, then waits for the exit signal; the stop arm returns")
	c.rule("R18.2", "no dial and no socket swap after the loop's context is done; that context is cancelled on loop exit")
	c.rule("R18.3", "the lock-order graph over the library's mutexes is acyclic")
	c.rule("R18.4", "HTTP/custom closers only close a channel made by their constructor")
	c.rule("R18.12", "every socket write is bounded by a write deadline set before it: the stop arm runs on the connection loop and takes the write lock, so a write parked on a silent peer keeps the closer from returning")
	c.boundedSocketWrites("R18.12")
	c.rule("R18.13", "every call in flight returns after a close: the connection loop answers or registers every request it accepted, on every path (a notification whose write failed would otherwise keep its caller blocked for good)")
	c.acceptArmRule("R18.13")
	c.rule("R18.11", "the redial dials with no library mutex held (a stalled dial under the write lock wedges the connection loop, so the closer never returns)")
	c.dialWithoutLocks("R18.11")
	c.rule("R18.5", "no mutex stays locked on a return path")
	c.rule("R18.6", "exit cleanup on every return, table emptied by the failer, every enqueue watches the exit signal, deferred cleanup cannot block")

	// ---- R18.1
	{
		var ctor *ssa.Function
		for _, u := range usesOfKind(p.uses(r.FFactory), "store") {
			if isFreshAlloc(u.Base) {
				ctor = u.Fn
			}
		}
		if c.need("R18.1", "WebSocket client constructor", ctor != nil) {
			// channels stored into the stop / exiting fields of the literal
			var stopCh, exitCh ssa.Value
			for _, u := range usesOfKind(usesIn(p.uses(r.FStop), ctor), "store") {
				stopCh = stripConv(u.Val)
			}
			for _, u := range usesOfKind(usesIn(p.uses(r.FExiting), ctor), "store") {
				exitCh = stripConv(u.Val)
			}
			// the returned closure
			var closer *ssa.Function
			var closerMC *ssa.MakeClosure
			allInstrs(ctor, func(in ssa.Instruction) {
				rt, ok := in.(*ssa.Return)
				if !ok {
					return
				}
				for _, res := range rt.Results {
					if mc, ok := stripConv(res).(*ssa.MakeClosure); ok {
						closer = p.unbound(mc.Fn.(*ssa.Function))
						closerMC = mc
					}
				}
			})
			construct := fmt.Sprintf("%s: closer", fname(ctor))
			if closer == nil || stopCh == nil || exitCh == nil {
				c.und("R18.1", construct, p.pos(ctor.Pos()), "closer closure or stop/exit channels not found")
			} else {
				var closeStop, waitExit ssa.Instruction
				// same channel: same variable, or (a closer that is a method of a small lifetime struct) the
				// same make(chan) behind both
				sameChan := func(a, b ssa.Value) bool {
					if p.canonVar(stripLoad(a)) == p.canonVar(stripLoad(b)) {
						return true
					}
					mk := func(v ssa.Value) map[ssa.Value]bool {
						out := map[ssa.Value]bool{}
						for _, o := range c.originsDyn(v) {
							if os.Getenv("JRP_DEBUG") == "closer" {
								fmt.Fprintf(os.Stderr, "closer: origin of %s: %s\n", v.Name(), c.fmtPath(o))
							}
							if m, ok := o.Root.(*ssa.MakeChan); ok && len(o.Fields) == 0 {
								out[m] = true
							}
							if fv, ok := o.Root.(*ssa.FreeVar); ok && closerMC != nil && fv.Parent() == closerMC.Fn.(*ssa.Function) && len(o.Fields) > 0 {
								for i, q := range fv.Parent().FreeVars {
									if q == fv && i < len(closerMC.Bindings) {
										for _, o2 := range c.originsOf(closerMC.Bindings[i], o.Fields...) {
											if m, ok := o2.Root.(*ssa.MakeChan); ok && len(o2.Fields) == 0 {
												out[m] = true
											}
										}
									}
								}
							}
							// a field of the receiver of a bound-method closer: the receiver is the closure's binding
							if prm, ok := o.Root.(*ssa.Parameter); ok && closerMC != nil && len(closerMC.Bindings) == 1 && len(closer.Params) > 0 && prm == closer.Params[0] && len(o.Fields) > 0 {
								for _, o2 := range c.originsOf(closerMC.Bindings[0], o.Fields...) {
									if m, ok := o2.Root.(*ssa.MakeChan); ok && len(o2.Fields) == 0 {
										out[m] = true
									}
								}
							}
						}
						return out
					}
					ma, mb := mk(a), mk(b)
					if len(ma) == 0 || len(mb) == 0 {
						return false
					}
					for m := range ma {
						if !mb[m] {
							return false
						}
					}
					return len(ma) == len(mb)
				}
				allInstrs(closer, func(in ssa.Instruction) {
					if ci, ok := isBuiltinCall(in, "close"); ok && sameChan(ci.Call.Args[0], stopCh) {
						closeStop = in
					}
					if u, ok := in.(*ssa.UnOp); ok && u.Op == token.ARROW && sameChan(u.X, exitCh) {
						waitExit = in
					}
				})
				switch {
				case closeStop == nil:
					c.bad("R18.1", construct, p.pos(closer.Pos()), "the closer does not signal the loop to stop")
				case waitExit == nil:
					c.bad("R18.1", construct, p.pos(closer.Pos()), "the closer returns without waiting for the connection loop to finish: calls in flight have not yet been failed and channels not yet closed when it returns")
				case !mustPrecede(closer, func(x ssa.Instruction) bool { return x == closeStop }, waitExit):
					c.bad("R18.1", construct, c.ipos(waitExit), "the closer can wait for the exit before signalling stop: it blocks for ever")
				case reachFromEntry(closer, isReturn, func(x ssa.Instruction) bool { return x == waitExit }) != nil:
					c.bad("R18.1", construct, p.pos(closer.Pos()), "a path through the closer returns without waiting for the loop to finish")
				default:
					c.ok("R18.1", construct, c.ipos(closeStop), "close(stop) then <-exiting on every path")
				}
				// the exit signal is all the closer waits for: user code (a reverse-call handler that does not
				// follow its context, or the very handler the closer is called from) must not be able to hold it
				var extra ssa.Instruction
				p.coneInstrs(closer, func(x ssa.Instruction) {
					if extra != nil || x == waitExit {
						return
					}
					switch y := x.(type) {
					case *ssa.UnOp:
						if y.Op == token.ARROW && !sameChan(y.X, exitCh) {
							extra = x
						}
					case *ssa.Select:
						if y.Blocking {
							extra = x
						}
					case *ssa.Send:
						extra = x
					default:
						if isGoroutineWait(x) {
							extra = x
						}
					}
				})
				if extra != nil {
					c.bad("R18.1", fmt.Sprintf("%s: the closer waits only for the loop's exit", fname(ctor)), c.ipos(extra), "the closer also waits for something else (handler goroutines, a WaitGroup, another channel): a reverse-call handler that does not follow its context, or that calls the closer itself, keeps it from ever returning")
				}
			}
		}
		arm, ok := w.Arms["stop"]
		construct := fmt.Sprintf("%s: stop arm", fname(r.FnLoop))
		if !ok || arm.Body == nil {
			c.bad("R18.1", construct, "-", "the loop has no arm on the stop signal: the closer waits for ever")
		} else {
			back := reachFromBlock(arm.Body, func(in ssa.Instruction) bool { return in == ssa.Instruction(w.LoopSelect) }, isReturn)
			c.check(back == nil, "R18.1", construct, c.ipos(arm.Body.Instrs[0]), "returns on every path", "the stop arm can carry on looping: the closer (which waits for the exit signal) never returns")
		}
	}

	// ---- R18.2
	if g := c.redialGoroutine(); c.need("R18.2", "redial goroutine", g != nil) {
		isGoodCheck := func(in ssa.Instruction) bool {
			done, _, ok := ctxCheck(in)
			if !ok {
				return false
			}
			// the done branch must end the goroutine without dialling or swapping, and must not spin
			first := done.Instrs[0]
			return reachFromBlockUp(done, func(x ssa.Instruction) bool { return c.isFactoryCall(x) || c.isSockStore(x) }, nil) == nil &&
				reachFromUp(first, func(x ssa.Instruction) bool { return x == first }, nil) == nil
		}
		var dials []ssa.Instruction
		p.coneInstrs(g, func(in ssa.Instruction) {
			if c.isFactoryCall(in) {
				dials = append(dials, in)
			}
		})
		for _, d := range dials {
			d := d
			isD := func(x ssa.Instruction) bool { return x == d }
			construct := fmt.Sprintf("%s: context checked between the back-off sleep and the dial", fname(g))
			bad := false
			p.coneInstrs(g, func(in ssa.Instruction) {
				ci, ok := in.(*ssa.Call)
				if !ok || calleeName(ci) != "time.Sleep" {
					return
				}
				if reachFromUp(in, isD, isGoodCheck) != nil {
					bad = true
				}
			})
			if reachFromEntry(g, isD, isGoodCheck) != nil {
				bad = true
			}
			c.check(!bad, "R18.2", construct, c.ipos(d), "every path to the dial passes a context check whose done branch returns",
				"a dial can be attempted without re-checking the context after the back-off sleep: a client closed during the sleep still dials once more (and leaks that connection)")
			cons2 := fmt.Sprintf("%s: context checked between the dial and the socket swap", fname(g))
			swapReach := reachFromUp(d, c.isSockStore, isGoodCheck)
			c.check(swapReach == nil, "R18.2", cons2, c.ipos(d), "every path from the dial to the swap passes a context check",
				"a freshly dialled socket can be installed although the client was closed while dialling: a reader and a ping goroutine are started on a connection nobody will ever close")
		}
		if len(dials) == 0 {
			c.und("R18.2", fname(g)+": dial", p.pos(g.Pos()), "no dial found")
		}
		// the context: parameter of FN_redial, passed by the loop as its own cancellable context
		construct := fmt.Sprintf("%s: redial context is the loop's cancelled context", fname(r.FnLoop))
		sites := p.callers[r.FnRedial]
		okCtx := len(sites) > 0
		for _, s := range sites {
			var arg ssa.Value
			for _, a := range s.Common().Args {
				if isNamed(a.Type(), "context", "Context") {
					arg = a
				}
			}
			if arg == nil {
				okCtx = false
				continue
			}
			if c.isLoopCtx(arg) {
				continue
			}
			// called through a helper of the loop (recoverConn(ctx, …)): the helper's context parameter is
			// the loop's context at every call site
			if !c.allOrigins(arg, func(a apath) bool {
				v, ok := a.Root.(ssa.Value)
				return ok && len(a.Fields) == 0 && c.isLoopCtx(v)
			}) {
				okCtx = false
			}
		}
		c.check(okCtx, "R18.2", construct, p.pos(r.FnLoop.Pos()), "derived from the WithCancel whose cancel is deferred in the loop", "the redial goroutine watches a context that is not cancelled when the loop exits: it keeps redialling after the client was closed")
	}

	// ---- R18.3
	{
		li := p.lockInfo()
		cycles := li.orderCycles()
		if len(cycles) == 0 {
			c.ok("R18.3", "lock-order graph", "-", fmt.Sprintf("acyclic; %d acquire sites; edges: %v", len(li.acquires), li.describeEdges()))
		}
		for _, cyc := range cycles {
			desc := ""
			for _, e := range cyc {
				desc += fmt.Sprintf("%s -> %s (%s) ", e.From, e.To, c.ipos(e.At))
			}
			c.bad("R18.3", "lock-order cycle through "+cyc[0].From.String(), c.ipos(cyc[0].At), "two code paths take these mutexes in opposite orders: "+desc+"— the closer, the loop and the frame executor can deadlock")
		}
	}

	// ---- R18.4
	{
		n := 0
		for _, fn := range p.Funcs {
			if pkgOf(fn) != p.Root.Pkg || fn.Parent() != nil {
				continue
			}
			// constructors returning (ClientCloser, error) that do not build a WebSocket connection object
			res := fn.Signature.Results()
			if res.Len() != 2 || !isNamed(res.At(0).Type(), p.ModPath, "ClientCloser") {
				continue
			}
			buildsWS := false
			inCone := map[*ssa.Function]bool{}
			for _, g := range p.cone(fn) {
				inCone[g] = true
			}
			for _, u := range usesOfKind(p.uses(r.FSock), "store") {
				if u.Fn == fn || inCone[u.Fn] {
					buildsWS = true
				}
			}
			if buildsWS {
				continue
			}
			allInstrs(fn, func(in ssa.Instruction) {
				rt, ok := in.(*ssa.Return)
				if !ok {
					return
				}
				if k, isK := rt.Results[0].(*ssa.Const); isK && k.Value == nil {
					return // the failure return
				}
				// the closer may be built by a helper (closeOnStop): every function the returned value can be
				for _, cl := range c.funcsOf(blockLocalValue(rt.Results[0])) {
					n++
					construct := fmt.Sprintf("%s: closer", fname(fn))
					okAll := true
					allInstrs(cl, func(x ssa.Instruction) {
						switch y := x.(type) {
						case *ssa.Return, *ssa.UnOp, *ssa.DebugRef, *ssa.RunDefers, *ssa.Jump:
							if u, ok := y.(*ssa.UnOp); ok && u.Op == token.ARROW {
								okAll = false
							}
						case *ssa.Call:
							ci, isClose := isBuiltinCall(y, "close")
							if !isClose {
								okAll = false
								return
							}
							src := p.canonVar(stripLoad(ci.Call.Args[0]))
							if al, ok := src.(*ssa.Alloc); ok {
								made := false
								for _, ref := range *al.Referrers() {
									if st, ok := ref.(*ssa.Store); ok && st.Addr == ssa.Value(al) {
										if _, ok := st.Val.(*ssa.MakeChan); ok {
											made = true
										}
									}
								}
								if !made {
									okAll = false
								}
							} else if _, ok := src.(*ssa.MakeChan); !ok {
								okAll = false
							}
						default:
							okAll = false
						}
					})
					c.check(okAll, "R18.4", construct, p.pos(cl.Pos()), "only closes the constructor's own channel", "the closer of a request/response client does more than close its own stop channel (it can block, or disturb calls in progress)")
				}
			})
		}
		if n == 0 {
			c.und("R18.4", "HTTP/custom closers", "-", "none found")
		}
	}

	// ---- R18.5
	c.lockLeakRule("R18.5")

	// ---- R18.6
	c.exitCleanup("R18.6")
	c.failerRule("R18.6")
	c.enqueueRule("R18.6")
	c.cleanupCannotBlock("R18.6")
	c.inflightRemovalRule("R18.6")
	c.rule("R18.7", "calls on a closed or closing client end: a request is re-sent only on the wire's temporary-connection code, never on a local send error")
	c.retryGateRule("R18.7")
	c.rule("R18.10", "every channel obtained from the client is closed after a close also when values are still buffered: the buffering goroutine's exit test looks at the buffer itself")
	c.closeWhenDrained("R18.10")
	c.rule("R18.9", "closing while streams are active cannot crash: a sink is removed from the table, under its lock, before it is closed (a queued value frame then no longer finds it)")
	c.deleteThenClose("R18.9")
	c.rule("R18.8", "the exit cleanup takes the sink-table lock, which the frame executor holds while it hands a value to a stream's buffering goroutine: that goroutine always keeps receiving (a lagging consumer cannot make the closer wait for ever)")
	c.decouplingRule("R18.8")
}

// isLoopCtxRoot: v is the context returned by the context.WithCancel in the connection loop whose cancel is deferred there.
func (c *Ctx) isLoopCtxRoot(v ssa.Value) bool {
	ex, ok := v.(*ssa.Extract)
	if !ok || ex.Index != 0 {
		return false
	}
	call, ok := ex.Tuple.(*ssa.Call)
	if !ok || calleeName(call) != "context.WithCancel" || call.Parent() != c.R.FnLoop {
		return false
	}
	for _, ref := range *call.Referrers() {
		if e1, ok := ref.(*ssa.Extract); ok && e1.Index == 1 {
			for _, use := range transitiveUses(e1) {
				if d, ok := use.(*ssa.Defer); ok && d.Parent() == c.R.FnLoop {
					return true
				}
			}
		}
	}
	return false
}

// isLoopCtx: v derives from the context.WithCancel in the connection loop whose cancel is deferred there.
func (c *Ctx) isLoopCtx(v ssa.Value) bool {
	loop := c.R.FnLoop
	var lv []ssa.Value
	leaves(v, map[ssa.Value]bool{}, &lv)
	for _, l := range lv {
		ex, ok := l.(*ssa.Extract)
		if !ok || ex.Index != 0 {
			return false
		}
		call, ok := ex.Tuple.(*ssa.Call)
		if !ok || calleeName(call) != "context.WithCancel" || call.Parent() != loop {
			return false
		}
		deferred := false
		for _, ref := range *call.Referrers() {
			if e1, ok := ref.(*ssa.Extract); ok && e1.Index == 1 {
				for _, use := range transitiveUses(e1) {
					if d, ok := use.(*ssa.Defer); ok && d.Parent() == loop {
						deferred = true
					}
				}
			}
		}
		if !deferred {
			return false
		}
	}
	return len(lv) > 0
}

// cleanupCannotBlock: functions deferred in the connection loop through a stored func value
// (the ping stopper) must not block: no channel receive, no blocking select, no WaitGroup.Wait, no lock.
func (c *Ctx) cleanupCannotBlock(rule string) {
	p, r := c.P, c.R
	w := c.ws()
	if w.SetupPings == nil || r.FStopPings == nil {
		c.und(rule, "ping stopper", "-", "not resolved")
		return
	}
	// closures returned by the keepalive installer
	n := 0
	for _, g := range withAnon(w.SetupPings)[0:1] {
		allInstrs(g, func(in ssa.Instruction) {
			rt, ok := in.(*ssa.Return)
			if !ok {
				return
			}
			for _, res := range rt.Results {
				var cl *ssa.Function
				switch x := stripConv(res).(type) {
				case *ssa.MakeClosure:
					cl, _ = x.Fn.(*ssa.Function)
				case *ssa.Function:
					cl = x
				}
				if cl == nil {
					continue
				}
				n++
				construct := fmt.Sprintf("%s: ping stopper does not block", fname(cl))
				blocks := false
				for _, h := range withAnon(cl) {
					allInstrs(h, func(x ssa.Instruction) {
						switch y := x.(type) {
						case *ssa.UnOp:
							if y.Op == token.ARROW {
								blocks = true
							}
						case *ssa.Select:
							if y.Blocking {
								blocks = true
							}
						case *ssa.Send:
							blocks = true
						case *ssa.Call:
							nm := calleeName(y)
							if nm == "(*sync.WaitGroup).Wait" || nm == "(*sync.Mutex).Lock" || nm == "(*sync.Cond).Wait" {
								blocks = true
							}
						}
					})
				}
				c.check(!blocks, rule, construct, p.pos(cl.Pos()), "non-blocking", "the ping stopper waits for something (e.g. the ping goroutine, which may be stuck behind a stalled writer holding the write lock): it runs first among the loop's deferred cleanups, so handlers are never cancelled, calls never failed and the exit signal never raised")
			}
		})
	}
	if n == 0 {
		c.und(rule, "ping stopper", "-", "keepalive installer returns no function")
	}
	_ = types.Typ
	// the loop's own deferred calls do not wait for other goroutines either: a WaitGroup.Wait (for the
	// handler goroutines, say) among them runs before the defers registered earlier — the context cancel
	// is the first of them — so handlers nobody has cancelled yet (notifications are not in the handling
	// table) are waited for for ever and the rest of the teardown never happens
	if r.FnLoop != nil {
		allInstrsRaw(r.FnLoop, func(in ssa.Instruction) {
			df, ok := in.(*ssa.Defer)
			if !ok {
				return
			}
			waits := calleeName(df) == "(*sync.WaitGroup).Wait"
			for _, g := range c.funcsOf(df.Common().Value) {
				p.coneInstrs(g, func(x ssa.Instruction) {
					if isGoroutineWait(x) {
						waits = true
					}
				})
			}
			if g := staticCallee(df); g != nil && p.allFns[g] {
				p.coneInstrs(g, func(x ssa.Instruction) {
					if isGoroutineWait(x) {
						waits = true
					}
				})
			}
			if waits {
				c.bad(rule, fmt.Sprintf("%s: deferred cleanup waits for goroutines", fname(r.FnLoop)), c.ipos(df), "a deferred call of the connection loop waits for other goroutines (WaitGroup, Cond, or a polling loop that sleeps until a counter drops): it runs before the loop's context is cancelled (the cancel was deferred first, so it runs last), and handlers that only that cancel would stop — notification handlers are not in the handling table — are waited for for ever: the connection is never released")
			}
		})
	}
}

// isGoroutineWait: the instruction waits for other goroutines to get somewhere: WaitGroup.Wait, Cond.Wait,
// or a sleep inside a cycle (a polling loop that goes round until a counter or flag changes).
func isGoroutineWait(x ssa.Instruction) bool {
	ci, ok := x.(*ssa.Call)
	if !ok {
		return false
	}
	switch calleeName(ci) {
	case "(*sync.WaitGroup).Wait", "(*sync.Cond).Wait":
		return true
	case "time.Sleep":
		return inLoop(ci.Block())
	}
	return false
}
