package main

import (
	"fmt"
	"go/types"
	"sort"
	"strings"

	"golang.org/x/tools/go/ssa"
)

// E-lock: must-hold / may-hold locksets per instruction.
// Lock identity is the mutex *field* (type-based: "the writeLk of a wsConn") or,
// for mutexes that are local variables captured by closures, the allocation.

type lockID struct {
	Field *types.Var
	Var   ssa.Value
}

func (l lockID) String() string {
	if l.Field != nil {
		return "field " + l.Field.Name()
	}
	if l.Var != nil {
		return "var " + l.Var.Name()
	}
	return "?"
}

type lockSet map[lockID]bool

func (s lockSet) clone() lockSet {
	o := lockSet{}
	for k := range s {
		o[k] = true
	}
	return o
}

func (s lockSet) names() string {
	var out []string
	for k := range s {
		out = append(out, k.String())
	}
	sort.Strings(out)
	return "{" + strings.Join(out, ", ") + "}"
}

func intersect(a, b lockSet) lockSet {
	o := lockSet{}
	for k := range a {
		if b[k] {
			o[k] = true
		}
	}
	return o
}

func union(a, b lockSet) lockSet {
	o := a.clone()
	for k := range b {
		o[k] = true
	}
	return o
}

func equalSets(a, b lockSet) bool {
	if len(a) != len(b) {
		return false
	}
	for k := range a {
		if !b[k] {
			return false
		}
	}
	return true
}

type lockEdge struct {
	From, To lockID
	At       ssa.Instruction
}

type lockInfo struct {
	p        *Prog
	must     map[ssa.Instruction]lockSet // held for certain just before the instruction
	may      map[ssa.Instruction]lockSet
	entryMu  map[*ssa.Function]lockSet
	entryMay map[*ssa.Function]lockSet
	edges    []lockEdge
	acquires []ssa.Instruction
	// callee summaries: locks certainly / possibly still held when the function returns
	// although its caller did not hold them, and locks it may release
	mustLeak map[*ssa.Function]lockSet
	mayLeak  map[*ssa.Function]lockSet
	mayRel   map[*ssa.Function]lockSet
	allIDs   lockSet
	aug      map[ssa.Instruction]lockSet
}

// canonVar resolves a value to the variable it denotes across closures:
// a FreeVar is mapped to the value bound at the (unique) MakeClosure site.
func (p *Prog) canonVar(v ssa.Value) ssa.Value {
	for i := 0; i < 8; i++ {
		fv, ok := v.(*ssa.FreeVar)
		if !ok {
			return v
		}
		fn := fv.Parent()
		mcs := p.closure[fn]
		if len(mcs) != 1 {
			return v
		}
		idx := -1
		for k, x := range fn.FreeVars {
			if x == fv {
				idx = k
			}
		}
		if idx < 0 || idx >= len(mcs[0].Bindings) {
			return v
		}
		v = mcs[0].Bindings[idx]
	}
	return v
}

func (p *Prog) lockOf(addr ssa.Value) (lockID, bool) {
	switch x := addr.(type) {
	case *ssa.FieldAddr:
		f := fieldOfAddr(x)
		if f != nil && isMutex(f.Type()) {
			return lockID{Field: f}, true
		}
	case *ssa.Alloc, *ssa.FreeVar, *ssa.Global:
		v := p.canonVar(x)
		return lockID{Var: v}, true
	}
	return lockID{}, false
}

// lockOp classifies a call instruction: +1 acquire, -1 release, 0 other.
func (p *Prog) lockOp(ci ssa.CallInstruction) (lockID, int) {
	nm := calleeName(ci)
	op := 0
	switch nm {
	case "(*sync.Mutex).Lock", "(*sync.RWMutex).Lock", "(*sync.RWMutex).RLock":
		op = 1
	case "(*sync.Mutex).Unlock", "(*sync.RWMutex).Unlock", "(*sync.RWMutex).RUnlock":
		op = -1
	default:
		return lockID{}, 0
	}
	args := ci.Common().Args
	if len(args) == 0 {
		return lockID{}, 0
	}
	id, ok := p.lockOf(args[0])
	if !ok {
		return lockID{}, 0
	}
	return id, op
}

func (p *Prog) lockInfo() *lockInfo {
	if p.locks != nil {
		return p.locks
	}
	li := &lockInfo{p: p, must: map[ssa.Instruction]lockSet{}, may: map[ssa.Instruction]lockSet{}, entryMu: map[*ssa.Function]lockSet{}, entryMay: map[*ssa.Function]lockSet{},
		mustLeak: map[*ssa.Function]lockSet{}, mayLeak: map[*ssa.Function]lockSet{}, mayRel: map[*ssa.Function]lockSet{}, allIDs: lockSet{}, aug: map[ssa.Instruction]lockSet{}}
	for _, fn := range p.Funcs {
		li.entryMu[fn] = lockSet{}
		li.entryMay[fn] = lockSet{}
		li.mustLeak[fn] = lockSet{}
		li.mayLeak[fn] = lockSet{}
	}
	// locks a function may release (itself or through its synchronous callees, incl. deferred unlocks)
	for _, fn := range p.Funcs {
		rel := lockSet{}
		p.coneInstrs(fn, func(in ssa.Instruction) {
			for id := range p.releasedBy(in) {
				rel[id] = true
			}
		})
		li.mayRel[fn] = rel
	}
	// iterate: intraprocedural dataflow, then recompute entry sets from call sites
	for round := 0; round < 6; round++ {
		li.must = map[ssa.Instruction]lockSet{}
		li.may = map[ssa.Instruction]lockSet{}
		for _, fn := range p.Funcs {
			li.flow(fn, true)
			li.flow(fn, false)
		}
		changed := false
		for _, fn := range p.Funcs {
			mu, may := li.leaks(fn)
			if !equalSets(mu, li.mustLeak[fn]) || !equalSets(may, li.mayLeak[fn]) {
				changed = true
			}
			li.mustLeak[fn], li.mayLeak[fn] = mu, may
		}
		for _, fn := range p.Funcs {
			mu, may := li.entryFromCallers(fn)
			if !equalSets(mu, li.entryMu[fn]) || !equalSets(may, li.entryMay[fn]) {
				changed = true
			}
			li.entryMu[fn], li.entryMay[fn] = mu, may
		}
		if !changed {
			break
		}
	}
	// lock-order edges from may-sets
	for _, fn := range p.Funcs {
		allInstrs(fn, func(in ssa.Instruction) {
			ci, ok := in.(*ssa.Call)
			if !ok {
				return
			}
			id, op := p.lockOp(ci)
			if op != 1 {
				return
			}
			li.acquires = append(li.acquires, in)
			li.allIDs[id] = true
			for h := range li.may[in] {
				if h != id {
					li.edges = append(li.edges, lockEdge{From: h, To: id, At: in})
				}
			}
		})
	}
	p.locks = li
	return li
}

// entryFromCallers: must = intersection, may = union of the locksets at the
// synchronous static call sites of fn; anything that is spawned, deferred,
// address-taken or only called dynamically starts with nothing held — except a
// closure handed directly to sync.Once.Do, which runs synchronously there.
func (li *lockInfo) entryFromCallers(fn *ssa.Function) (lockSet, lockSet) {
	p := li.p
	var sites []ssa.Instruction
	dynamic := false
	for _, ci := range p.callers[fn] {
		switch ci.(type) {
		case *ssa.Call:
			sites = append(sites, ci)
		default: // go / defer
			dynamic = true
		}
	}
	for _, mc := range p.closure[fn] {
		refs := mc.Referrers()
		if refs == nil {
			continue
		}
		for _, r := range *refs {
			if ci, ok := r.(ssa.CallInstruction); ok {
				if ci.Common().Value == mc {
					continue // counted in callers
				}
				if calleeName(ci) == "(*sync.Once).Do" {
					if _, isCall := ci.(*ssa.Call); isCall {
						sites = append(sites, ci)
						continue
					}
				}
			}
			dynamic = true
		}
	}
	if fn.Parent() == nil && len(p.callers[fn]) == 0 {
		dynamic = true // exported / method value / interface dispatch
	}
	// methods may also be called through interfaces or bound values: be conservative
	// only when there is no static call site at all (handled above).
	may := lockSet{}
	var must lockSet
	for _, s := range sites {
		m := li.must[s]
		if m == nil {
			m = lockSet{}
		}
		if must == nil {
			must = m.clone()
		} else {
			must = intersect(must, m)
		}
		may = union(may, li.may[s])
	}
	if dynamic || must == nil {
		must = lockSet{}
	}
	return must, may
}

func (li *lockInfo) flow(fn *ssa.Function, mustMode bool) {
	if len(fn.Blocks) == 0 {
		return
	}
	p := li.p
	in := map[*ssa.BasicBlock]lockSet{}
	out := map[*ssa.BasicBlock]lockSet{}
	var entry lockSet
	if mustMode {
		entry = li.entryMu[fn].clone()
	} else {
		entry = li.entryMay[fn].clone()
	}
	store := li.may
	if mustMode {
		store = li.must
	}
	work := []*ssa.BasicBlock{fn.Blocks[0]}
	inWork := map[*ssa.BasicBlock]bool{fn.Blocks[0]: true}
	visited := map[*ssa.BasicBlock]bool{}
	for len(work) > 0 {
		b := work[0]
		work = work[1:]
		inWork[b] = false
		var cur lockSet
		if b == fn.Blocks[0] {
			cur = entry.clone()
		}
		for _, pr := range b.Preds {
			o, ok := out[pr]
			if !ok {
				continue // unvisited predecessor: TOP for must, empty for may
			}
			if cur == nil {
				cur = o.clone()
			} else if mustMode {
				cur = intersect(cur, o)
			} else {
				cur = union(cur, o)
			}
		}
		if cur == nil {
			cur = lockSet{}
		}
		if visited[b] && equalSets(in[b], cur) {
			continue
		}
		visited[b] = true
		in[b] = cur.clone()
		for _, ins := range b.Instrs {
			store[ins] = cur.clone()
			if ci, ok := ins.(*ssa.Call); ok {
				id, op := p.lockOp(ci)
				if op == 1 {
					cur[id] = true
				} else if op == -1 {
					delete(cur, id)
				}
				// effect of a synchronous tree callee (lock / unlock wrappers)
				if g := p.syncCallee(ins); g != nil {
					if mustMode {
						for id := range li.mayRel[g] {
							if !li.rebalanced(g, id) {
								delete(cur, id)
							}
						}
						for id := range li.mustLeak[g] {
							cur[id] = true
						}
					} else {
						for id := range li.mayLeak[g] {
							cur[id] = true
						}
					}
				}
			}
		}
		out[b] = cur
		for _, s := range b.Succs {
			if !inWork[s] {
				inWork[s] = true
				work = append(work, s)
			}
		}
	}
}

// mustAt: locks certainly held just before `in`: the dataflow result, completed by a
// path-sensitive interprocedural query for locks the dataflow could not establish
// (e.g. a helper that returns with the lock held only when it returns non-nil).
func (li *lockInfo) mustAt(in ssa.Instruction) lockSet {
	if s, ok := li.aug[in]; ok {
		return s
	}
	s := lockSet{}
	if m, ok := li.must[in]; ok {
		s = m.clone()
	}
	for id := range li.allIDs {
		if !s[id] && li.heldByPaths(in, id) {
			s[id] = true
		}
	}
	li.aug[in] = s
	return s
}

// releasedBy: locks released by this instruction (an unlock call, or the registration of a
// deferred unlock — direct or inside a deferred function literal).
func (p *Prog) releasedBy(in ssa.Instruction) lockSet {
	out := lockSet{}
	ci, ok := in.(ssa.CallInstruction)
	if !ok {
		return out
	}
	if _, isGo := in.(*ssa.Go); isGo {
		return out
	}
	if id, op := p.lockOp(ci); op == -1 {
		out[id] = true
	}
	if df, isDefer := in.(*ssa.Defer); isDefer {
		if cl := p.unbound(staticCallee(df)); cl != nil && p.allFns[cl] {
			allInstrsRaw(cl, func(y ssa.Instruction) {
				if cy, ok := y.(*ssa.Call); ok {
					if id, op := p.lockOp(cy); op == -1 {
						out[id] = true
					}
				}
			})
		}
	}
	return out
}

// deferReleases: locks whose unlock is deferred somewhere in fn (they are free once fn has returned).
func (p *Prog) deferReleases(fn *ssa.Function) lockSet {
	out := lockSet{}
	allInstrsRaw(fn, func(in ssa.Instruction) {
		if _, isDefer := in.(*ssa.Defer); isDefer {
			for id := range p.releasedBy(in) {
				out[id] = true
			}
		}
	})
	return out
}

// rebalanced: g's cone also acquires id, so a release of id inside it belongs to a critical
// section of its own (or to a temporary release) and does not take the caller's lock away.
func (li *lockInfo) rebalanced(g *ssa.Function, id lockID) bool {
	acq := false
	li.p.coneInstrs(g, func(in ssa.Instruction) {
		if c, isCall := in.(*ssa.Call); isCall {
			if i2, op := li.p.lockOp(c); op == 1 && i2 == id {
				acq = true
			}
		}
	})
	return acq
}

// leaks: locks held at fn's returns that its callers did not hold.
func (li *lockInfo) leaks(fn *ssa.Function) (must, may lockSet) {
	may = lockSet{}
	var mu lockSet
	dr := li.p.deferReleases(fn)
	allInstrsRaw(fn, func(in ssa.Instruction) {
		if _, ok := in.(*ssa.Return); !ok {
			return
		}
		m := li.must[in]
		if m == nil {
			m = lockSet{}
		}
		if mu == nil {
			mu = m.clone()
		} else {
			mu = intersect(mu, m)
		}
		may = union(may, li.may[in])
	})
	must = lockSet{}
	for id := range mu {
		if !li.entryMay[fn][id] && !dr[id] {
			must[id] = true
		}
	}
	for id := range may {
		if li.entryMay[fn][id] || dr[id] {
			delete(may, id)
		}
	}
	return must, may
}

// heldByPaths: path-sensitive interprocedural confirmation that lock id is held at `in`:
// every path of the enclosing activity reaching `in` passes an acquire of id, and no
// release of id reaches `in` without a new acquire.
func (li *lockInfo) heldByPaths(in ssa.Instruction, id lockID) bool {
	p := li.p
	isAcq := func(x ssa.Instruction) bool {
		c, ok := x.(*ssa.Call)
		if !ok {
			return false
		}
		i2, op := p.lockOp(c)
		return op == 1 && i2 == id
	}
	if !mustPrecedeIPOpt(in, isAcq, nil, 0, false) {
		return false
	}
	isIn := func(x ssa.Instruction) bool { return x == in }
	held := true
	for _, fn := range p.Funcs {
		if !held {
			break
		}
		dr := p.deferReleases(fn)[id]
		allInstrsRaw(fn, func(x ssa.Instruction) {
			if !held {
				return
			}
			rel := false
			if _, isCall := x.(*ssa.Call); isCall && p.releasedBy(x)[id] {
				rel = true
			}
			if _, isRet := x.(*ssa.Return); isRet && dr {
				rel = true
			}
			if !rel {
				return
			}
			if _, isRet := x.(*ssa.Return); isRet {
				// continue after the call sites of fn
				for _, cs := range p.syncCallers(fn) {
					if reachFromUp(cs, isIn, isAcq) != nil {
						held = false
					}
				}
				return
			}
			if reachFromUp(x, isIn, isAcq) != nil {
				held = false
			}
		})
	}
	return held
}

// cycles in the lock-order graph (may-hold edges).
func (li *lockInfo) orderCycles() [][]lockEdge {
	adj := map[lockID][]lockEdge{}
	for _, e := range li.edges {
		adj[e.From] = append(adj[e.From], e)
	}
	var cycles [][]lockEdge
	seenCycle := map[string]bool{}
	var stack []lockEdge
	onStack := map[lockID]bool{}
	var dfs func(n lockID, start lockID)
	dfs = func(n lockID, start lockID) {
		for _, e := range adj[n] {
			if e.To == start {
				cyc := append(append([]lockEdge{}, stack...), e)
				var ks []string
				for _, c := range cyc {
					ks = append(ks, c.From.String())
				}
				sort.Strings(ks)
				k := strings.Join(ks, ">")
				if !seenCycle[k] {
					seenCycle[k] = true
					cycles = append(cycles, cyc)
				}
				continue
			}
			if onStack[e.To] {
				continue
			}
			onStack[e.To] = true
			stack = append(stack, e)
			dfs(e.To, start)
			stack = stack[:len(stack)-1]
			onStack[e.To] = false
		}
	}
	var nodes []lockID
	for n := range adj {
		nodes = append(nodes, n)
	}
	sort.Slice(nodes, func(i, j int) bool { return nodes[i].String() < nodes[j].String() })
	for _, n := range nodes {
		onStack = map[lockID]bool{n: true}
		stack = nil
		dfs(n, n)
	}
	return cycles
}

func (li *lockInfo) describeEdges() []string {
	set := map[string]bool{}
	for _, e := range li.edges {
		set[fmt.Sprintf("%s -> %s", e.From, e.To)] = true
	}
	var out []string
	for k := range set {
		out = append(out, k)
	}
	sort.Strings(out)
	return out
}

// lockLeakRule: every acquire is released on all exits. For each Lock call L of
// lock id in fn, a return reachable from L without passing Unlock(id) or a
// `defer Unlock(id)` is a leak — unless a `defer Unlock(id)` is already
// registered on every path to L (re-acquire inside a deferred-unlock region).
func (c *Ctx) lockLeakRule(rule string) {
	p := c.P
	for _, fn := range p.Funcs {
		fn := fn
		allInstrs(fn, func(in ssa.Instruction) {
			call, ok := in.(*ssa.Call)
			if !ok {
				return
			}
			id, op := p.lockOp(call)
			if op != 1 {
				return
			}
			construct := fmt.Sprintf("%s: acquire of %s", fname(fn), id)
			isRelease := func(x ssa.Instruction) bool {
				ci, ok := x.(ssa.CallInstruction)
				if !ok {
					return false
				}
				if _, isGo := x.(*ssa.Go); isGo {
					return false
				}
				id2, op2 := p.lockOp(ci)
				if op2 == -1 && id2 == id {
					return true
				}
				// deferred closure that unlocks
				if df, isDefer := x.(*ssa.Defer); isDefer {
					if cl := staticCallee(df); cl != nil && p.allFns[cl] {
						rel := false
						allInstrs(cl, func(y ssa.Instruction) {
							if cy, ok := y.(*ssa.Call); ok {
								if i3, o3 := p.lockOp(cy); o3 == -1 && i3 == id {
									rel = true
								}
							}
						})
						return rel
					}
				}
				return false
			}
			isDeferRelease := func(x ssa.Instruction) bool {
				_, isDefer := x.(*ssa.Defer)
				return isDefer && isRelease(x)
			}
			// when the search continues in a caller, that caller's deferred unlock (registered before the
			// call) runs at its rundefers
			isReleaseUp := func(x ssa.Instruction) bool {
				if isRelease(x) {
					return true
				}
				rd, ok := x.(*ssa.RunDefers)
				if !ok || rd.Parent() == fn {
					return false
				}
				found := false
				allInstrsRaw(rd.Parent(), func(y ssa.Instruction) {
					if isDeferRelease(y) && y.Block().Dominates(rd.Block()) {
						found = true
					}
				})
				return found
			}
			ret := reachFrom(call, isReturn, isRelease)
			if ret == nil {
				c.ok(rule, construct, c.ipos(call), "released on every path to a return")
				return
			}
			// a helper may hand the held lock to its callers (e.g. lookup-and-lock): then every
			// path of the enclosing activity must release it
			if !p.activityRoot(fn) {
				if ret = reachFromUp(call, isEnd, isReleaseUp); ret == nil {
					c.ok(rule, construct, c.ipos(call), "returned held to the callers, which release it on every path")
					return
				}
			}
			if mustPrecede(fn, isDeferRelease, call) {
				c.ok(rule, construct, c.ipos(call), "re-acquired inside a region whose deferred unlock is already registered")
				return
			}
			c.bad(rule, construct, c.ipos(ret), fmt.Sprintf("a return is reachable with %s still locked: every later user of the lock (frame executor, cleanup on exit) blocks for ever", id))
		})
	}
}
